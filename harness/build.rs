//! Scans /repo/src/response.rs for status-named constructors `pub fn <name>_<NNN>(<args>) -> Self`
//! and emits code that calls each of them, so that the C20 table is regenerated from what the source
//! says now.  An argument shape that is not recognised becomes a row with `None` (a correspondence
//! break reported by the check).
use std::io::Write;
fn main() {
    let src_path = "/repo/src/response.rs";
    println!("cargo:rerun-if-changed={src_path}");
    println!("cargo:rerun-if-changed=build.rs");
    let src = std::fs::read_to_string(src_path).expect("read response.rs");
    let mut rows = Vec::new();
    let mut rest = src.as_str();
    while let Some(pos) = rest.find("pub fn ") {
        rest = &rest[pos + 7..];
        let Some(paren) = rest.find('(') else { break };
        let name = &rest[..paren];
        if !name.chars().all(|c| c.is_ascii_alphanumeric() || c == '_') || name.len() < 5 {
            continue;
        }
        let (stem, digits) = name.split_at(name.len() - 3);
        if !stem.ends_with('_') || !digits.chars().all(|c| c.is_ascii_digit()) {
            continue;
        }
        let close = rest[paren..].find(')').unwrap() + paren;
        let args = rest[paren + 1..close].trim();
        // every constructor is executed on several arguments of its type (all US-ASCII where the code documents a panic otherwise)
        let calls: Vec<Option<String>> = if args.is_empty() {
            vec![Some(String::new())]
        } else {
            let ty = args.split_once(':').map(|x| x.1.trim()).unwrap_or("");
            let v: &[&str] = match ty {
                "impl AsRef<str>" => &["\"/location\"", "\"\"", "\"/a b\\r\\nx: y\"", "\"\\t\\x7f\\0\"", "&\"p\".repeat(5000)"],
                "&[&'static str]" => &["&[\"GET\", \"HEAD\"]", "&[]", "&[\"G\\r\\nT\"]", "&[\"a b\", \"\"]"],
                "impl Into<String>" | "impl Into<ResponseBody>" => &["\"body text\"", "\"\"", "\"line1\\r\\nline2\"", "\"\u{fc}\u{20ac}\""],
                _ => &[],
            };
            if v.is_empty() { vec![None] } else { v.iter().map(|s| Some(s.to_string())).collect() }
        };
        for call in calls {
            rows.push((name.to_string(), digits.to_string(), call));
        }
    }
    let out_dir = std::env::var("OUT_DIR").unwrap();
    let mut f = std::fs::File::create(format!("{out_dir}/status_ctors.rs")).unwrap();
    writeln!(f, "pub fn status_ctors() -> Vec<(&'static str, u16, Option<servlin::Response>)> {{ vec![").unwrap();
    for (name, digits, call) in rows {
        match call {
            Some(c) => writeln!(f, "  (\"{name}\", {}, Some(servlin::Response::{name}({c}))),", digits.trim_start_matches('0')).unwrap(),
            None => writeln!(f, "  (\"{name}\", {}, None),", digits.trim_start_matches('0')).unwrap(),
        }
    }
    writeln!(f, "] }}").unwrap();
}
