//! Scripted AsyncRead / AsyncWrite: deliver / accept bytes in prescribed piece sizes, inject
//! `Poll::Pending`, end with EOF or an error, fail writes at a byte offset.
use futures_io::{AsyncRead, AsyncWrite};
use std::io::{Error, ErrorKind};
use std::pin::Pin;
use std::task::{Context, Poll};

pub struct ScriptReader {
    pub data: Vec<u8>,
    pub pos: usize,
    /// Offered piece sizes, cycled. Empty = offer everything that is left.
    pub sizes: Vec<usize>,
    pub idx: usize,
    pub end_err: bool,
    /// Return Pending before every `pending`-th successful poll (0 = never).
    pub pending: u64,
    pub polls: u64,
    pub just_pended: bool,
    /// Lengths actually delivered.
    pub delivered: Vec<usize>,
}
impl ScriptReader {
    pub fn new(data: Vec<u8>, sizes: Vec<usize>, end_err: bool, pending: u64) -> Self {
        Self { data, pos: 0, sizes, idx: 0, end_err, pending, polls: 0, just_pended: false, delivered: Vec::new() }
    }
}
impl AsyncRead for ScriptReader {
    fn poll_read(mut self: Pin<&mut Self>, cx: &mut Context<'_>, buf: &mut [u8]) -> Poll<Result<usize, Error>> {
        self.polls += 1;
        if self.pending > 0 && !self.just_pended && self.polls % self.pending == 0 {
            self.just_pended = true;
            cx.waker().wake_by_ref();
            return Poll::Pending;
        }
        self.just_pended = false;
        let remaining = self.data.len() - self.pos;
        if remaining == 0 {
            // the kind of the scripted error varies with the stream length (never Interrupted/WouldBlock,
            // which callers legitimately retry)
            const KINDS: [ErrorKind; 7] = [ErrorKind::Other, ErrorKind::UnexpectedEof, ErrorKind::BrokenPipe, ErrorKind::ConnectionReset,
                ErrorKind::InvalidData, ErrorKind::TimedOut, ErrorKind::NotFound];
            let kind = KINDS[self.data.len() % KINDS.len()];
            return if self.end_err { Poll::Ready(Err(Error::new(kind, "scripted read error"))) } else { Poll::Ready(Ok(0)) };
        }
        let offered = if self.sizes.is_empty() { remaining } else { let s = self.sizes[self.idx % self.sizes.len()]; self.idx += 1; s.max(1) };
        let n = offered.min(remaining).min(buf.len());
        let pos = self.pos;
        buf[..n].copy_from_slice(&self.data[pos..pos + n]);
        self.pos += n;
        self.delivered.push(n);
        Poll::Ready(Ok(n))
    }
}

pub struct ScriptWriter {
    pub out: Vec<u8>,
    /// Accepted counts per call, cycled. Empty = accept everything.
    pub accept: Vec<usize>,
    pub idx: usize,
    /// Writes fail once this many bytes have been accepted.
    pub fail_at: Option<usize>,
    pub pending: u64,
    pub polls: u64,
    pub just_pended: bool,
    pub flushes: u64,
    pub failed: bool,
    pub writes_after_failure: u64,
    pub vectored_calls: u64,
}
impl ScriptWriter {
    pub fn new(accept: Vec<usize>, fail_at: Option<usize>, pending: u64) -> Self {
        Self { out: Vec::new(), accept, idx: 0, fail_at, pending, polls: 0, just_pended: false, flushes: 0, failed: false, writes_after_failure: 0, vectored_calls: 0 }
    }
}
impl AsyncWrite for ScriptWriter {
    fn poll_write(mut self: Pin<&mut Self>, cx: &mut Context<'_>, buf: &[u8]) -> Poll<Result<usize, Error>> {
        self.polls += 1;
        if self.failed {
            self.writes_after_failure += 1;
        }
        if self.pending > 0 && !self.just_pended && self.polls % self.pending == 0 {
            self.just_pended = true;
            cx.waker().wake_by_ref();
            return Poll::Pending;
        }
        self.just_pended = false;
        let mut n = buf.len();
        if !self.accept.is_empty() {
            let a = self.accept[self.idx % self.accept.len()].max(1);
            self.idx += 1;
            n = n.min(a);
        }
        if let Some(k) = self.fail_at {
            if self.out.len() >= k && !(self.failed && k % 3 == 1) {
                // every third failure offset the error is a *transient* one (`Interrupted`, reported once, after the short write
                // that reached the offset): a caller that gives up sees exactly what it sees with a permanent error; a caller
                // that retries must not send anything twice
                let first = !self.failed;
                self.failed = true;
                return Poll::Ready(Err(if k % 3 == 1 && first { Error::new(ErrorKind::Interrupted, "scripted interruption") } else { Error::new(ErrorKind::BrokenPipe, "scripted write error") }));
            }
            if !self.failed { n = n.min(k - self.out.len()); }
        }
        self.out.extend_from_slice(&buf[..n]);
        Poll::Ready(Ok(n))
    }
    /// Real `writev` semantics: the accepted count of this call is spread over the buffers in order.
    fn poll_write_vectored(mut self: Pin<&mut Self>, cx: &mut Context<'_>, bufs: &[std::io::IoSlice<'_>]) -> Poll<Result<usize, Error>> {
        let all: Vec<u8> = bufs.iter().flat_map(|b| b.iter().copied()).collect();
        self.vectored_calls += 1;
        self.as_mut().poll_write(cx, &all)
    }
    fn poll_flush(mut self: Pin<&mut Self>, _cx: &mut Context<'_>) -> Poll<Result<(), Error>> {
        self.flushes += 1;
        if let Some(k) = self.fail_at {
            if self.out.len() >= k && self.failed {
                return Poll::Ready(Err(Error::new(ErrorKind::BrokenPipe, "scripted flush error")));
            }
        }
        Poll::Ready(Ok(()))
    }
    fn poll_close(self: Pin<&mut Self>, _cx: &mut Context<'_>) -> Poll<Result<(), Error>> {
        Poll::Ready(Ok(()))
    }
}

pub fn block_on<F: std::future::Future>(f: F) -> F::Output {
    futures_lite::future::block_on(f)
}
