//! Loopback helpers: a connected (client std TcpStream, server HttpConn) pair; transcript capture.
use servlin::HttpConn;
use std::io::{Read, Write};
use std::net::{Shutdown, TcpListener, TcpStream};

pub struct Pair {
    pub client: TcpStream,
    pub conn: HttpConn,
}

/// Connects a client to a fresh listener, wraps the accepted socket in an `HttpConn`.
pub fn pair() -> Pair {
    let listener = TcpListener::bind("127.0.0.1:0").unwrap();
    let addr = listener.local_addr().unwrap();
    let client = TcpStream::connect(addr).unwrap();
    let (srv, peer) = listener.accept().unwrap();
    srv.set_nodelay(true).unwrap();
    let stream = async_net::TcpStream::try_from(srv).unwrap();
    Pair { client, conn: HttpConn::new(peer, stream) }
}

/// Client side: send the whole script, then half-close (FIN).
pub fn send_script(client: &mut TcpStream, script: &[u8]) {
    client.write_all(script).unwrap();
    let _ = client.shutdown(Shutdown::Write);
}

/// Client side: everything the server wrote, up to EOF or reset.
pub fn read_transcript(client: &mut TcpStream) -> Vec<u8> {
    let _ = client.set_read_timeout(Some(std::time::Duration::from_secs(5)));
    let mut out = Vec::new();
    let mut buf = [0u8; 65536];
    loop {
        match client.read(&mut buf) {
            Ok(0) => break,
            Ok(n) => out.extend_from_slice(&buf[..n]),
            Err(_) => break,
        }
    }
    out
}
