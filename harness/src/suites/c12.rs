//! C12 (connection limit / slot conservation) and C13 (graceful shutdown): the real TokenSet driven directly,
//! and whole servers on loopback whose handlers block on a harness-controlled gate.
use crate::gen::Rng;
use crate::{guard, Ctx};
use permit::Permit;
use servlin::internal::{Token, TokenSet};
use servlin::{HttpServerBuilder, Request, Response};
use std::collections::HashSet;
use std::io::{Read, Write};
use std::net::{SocketAddr, TcpStream};
use std::sync::{Arc, Condvar, Mutex, OnceLock};
use std::time::{Duration, Instant};

/* ---------------- TokenSet op sequences ---------------- */

/// ops: `t` wait_token_timeout(0), `a` async_wait_token polled once, `w` wait_token (blocking), `o` drop oldest live token,
/// `y` drop youngest, `n` make and drop a stand-alone Token::new().  Runs in a worker thread; a blocked op ends the case with `HANG`.
pub fn case_tokens(ctx: &mut Ctx, size: &str, ops: &str) {
    static HANGS: std::sync::atomic::AtomicUsize = std::sync::atomic::AtomicUsize::new(0);
    // every hang costs its detection time: after a few, blocking takes are reported without running them
    if HANGS.load(std::sync::atomic::Ordering::SeqCst) >= 8 && ops.contains('w') {
        return;
    }
    let sz: usize = size.parse().unwrap();
    let ops_o = ops.to_string();
    let (tx, rx) = std::sync::mpsc::channel::<String>();
    std::thread::spawn(move || {
        let r = std::panic::catch_unwind(move || {
            let mut set = TokenSet::new(sz);
            let mut live: Vec<Token> = Vec::new();
            let mut out = String::new();
            for op in ops_o.chars() {
                match op {
                    't' => match set.wait_token_timeout(Duration::ZERO) { Ok(t) => { live.push(t); out.push('T') } Err(_) => out.push('O') },
                    'a' => match futures_lite::future::block_on(futures_lite::future::poll_once(set.async_wait_token())) { Some(t) => { live.push(t); out.push('T') } None => out.push('O') },
                    'w' => { live.push(set.wait_token()); out.push('T') }
                    'o' => { if live.is_empty() { out.push('-') } else { drop(live.remove(0)); out.push('d') } }
                    'y' => { if live.pop().is_some() { out.push('d') } else { out.push('-') } }
                    'n' => { drop(Token::new()); out.push('.') }
                    _ => out.push('?'),
                }
            }
            // how many units are available now
            let mut avail = 0;
            let mut extra = Vec::new();
            while let Ok(t) = set.wait_token_timeout(Duration::ZERO) { avail += 1; extra.push(t); if avail > 64 { break; } }
            let held = live.len();
            drop(extra);
            drop(live);
            let mut all = 0;
            let mut extra = Vec::new();
            while let Ok(t) = set.wait_token_timeout(Duration::ZERO) { all += 1; extra.push(t); if all > 64 { break; } }
            format!("{out} avail={avail} held={held} all={all}")
        });
        let _ = tx.send(r.unwrap_or_else(|_| "PANIC".to_string()));
    });
    let obs = rx.recv_timeout(Duration::from_secs(2)).unwrap_or_else(|_| { HANGS.fetch_add(1, std::sync::atomic::Ordering::SeqCst); "HANG".to_string() });
    ctx.emit("c12t", &[size, ops], &obs);
}

/// c12b: a large TokenSet: every unit is taken, `back` of them are given back at once, and as many must be obtainable again.
pub fn case_tokens_big(ctx: &mut Ctx, size: &str, back: &str) {
    let sz: usize = size.parse().unwrap();
    let bk: usize = back.parse().unwrap();
    let (tx, rx) = std::sync::mpsc::channel::<String>();
    std::thread::spawn(move || {
        let r = std::panic::catch_unwind(move || {
            let mut set = TokenSet::new(sz);
            let mut live: Vec<Token> = Vec::new();
            while let Ok(t) = set.wait_token_timeout(Duration::ZERO) { live.push(t); if live.len() > sz + 8 { break; } }
            let first = live.len();
            live.truncate(first.saturating_sub(bk));
            let mut again = 0;
            while let Ok(t) = set.wait_token_timeout(Duration::ZERO) { live.push(t); again += 1; if again > sz + 8 { break; } }
            format!("first={first} again={again} held={}", live.len())
        });
        let _ = tx.send(r.unwrap_or_else(|_| "PANIC".to_string()));
    });
    let obs = rx.recv_timeout(Duration::from_secs(20)).unwrap_or_else(|_| "HANG".to_string());
    ctx.emit("c12b", &[size, back], &obs);
}

fn enumerate(ctx: &mut Ctx, alphabet: &[char], depth: usize, sizes: &[usize], idx: &mut u64) {
    for &sz in sizes {
        // DFS over sequences; `w` only where a unit is available (it blocks otherwise, by contract)
        let mut stack: Vec<(String, usize)> = vec![(String::new(), 0)];
        while let Some((seq, live)) = stack.pop() {
            if !seq.is_empty() {
                *idx += 1;
                if ctx.mine(*idx) { case_tokens(ctx, &sz.to_string(), &seq); }
            }
            if seq.len() == depth { continue; }
            for &c in alphabet {
                let nl = match c {
                    't' | 'a' => if live < sz { live + 1 } else { live },
                    'w' => if live < sz { live + 1 } else { continue },
                    'o' | 'y' => live.saturating_sub(1),
                    _ => live,
                };
                let mut s = seq.clone();
                s.push(c);
                stack.push((s, nl));
            }
        }
    }
}

/* ---------------- servers with gated handlers ---------------- */

#[derive(Default)]
struct Gate {
    entered: usize,
    max: usize,
    total_entered: usize,
    inside: HashSet<String>,
    released: HashSet<String>,
    release_all: bool,
}

fn gate() -> &'static (Mutex<Gate>, Condvar) {
    static G: OnceLock<(Mutex<Gate>, Condvar)> = OnceLock::new();
    G.get_or_init(|| (Mutex::new(Gate::default()), Condvar::new()))
}

fn big_body() -> String {
    "w".repeat(6 * 1024 * 1024)
}

fn handler(req: Request) -> Response {
    let path = req.url.path().to_string();
    let seg: Vec<&str> = path.split('/').collect();
    if seg.len() >= 4 && seg[1] == "gate" {
        let (kind, id) = (seg[2].to_string(), seg[3].to_string());
        // f: a large upload is fetched first; the gate is entered by the second call, which owns the upload's file
        if kind == "f" && req.body.is_pending() {
            return Response::get_body_and_reprocess(10_000_000);
        }
        let (m, cv) = gate();
        let mut g = m.lock().unwrap();
        g.entered += 1;
        g.total_entered += 1;
        g.max = g.max.max(g.entered);
        g.inside.insert(id.clone());
        cv.notify_all();
        let deadline = Instant::now() + Duration::from_secs(20);
        while !(g.release_all || g.released.contains(&id)) && Instant::now() < deadline {
            g = cv.wait_timeout(g, Duration::from_millis(200)).unwrap().0;
        }
        g.entered -= 1;
        g.inside.remove(&id);
        cv.notify_all();
        drop(g);
        return match kind.as_str() {
            // x: the gate is entered by the first call (body pending); the body is fetched afterwards
            "x" if req.body.is_pending() => Response::get_body_and_reprocess(10_000_000),
            "e" => Response::text(500, "scripted error"),
            "p" => panic!("scripted handler panic"),
            "d" => Response::drop_connection(),
            // f: the handler works on the uploaded file after the gate: every byte must still be there
            "f" => {
                let n = req.body.reader().map(|r| { use std::io::Read; r.bytes().filter(|b| b.is_ok()).count() }).unwrap_or(usize::MAX);
                if n == 100_000 { Response::text(200, format!("gate-{id}")) } else { Response::text(500, format!("upload is gone or cut: {n}")) }
            }
            _ => Response::text(200, format!("gate-{id}")),
        };
    }
    if path == "/replay" {
        let (mut sender, r) = Response::event_stream();
        for k in 0..60 { sender.send(servlin::Event::Message(format!("backlog{k}"))); }
        return r;
    }
    if path.starts_with("/sse") {
        // an event stream of 8 events, one every 40 ms, produced by another thread; then the sender goes away
        let (mut sender, r) = Response::event_stream();
        std::thread::spawn(move || {
            for k in 0..8 {
                sender.send(servlin::Event::Message(format!("tick{k}")));
                std::thread::sleep(Duration::from_millis(40));
            }
        });
        return r;
    }
    match path.as_str() {
        "/big" => Response::text(200, big_body()),
        "/huge" => Response::text(200, "h".repeat(32 * 1024 * 1024)),
        "/up" => Response::text(200, format!("up-{}", req.body.len().unwrap_or(0))),
        "/upsmall" => if req.body.is_pending() { Response::get_body_and_reprocess(1000) } else { Response::text(200, "upsmall") },
        "/upf" => if req.body.is_pending() { Response::get_body_and_reprocess(10_000_000) } else { Response::text(200, format!("upf-{}", req.body.len().unwrap_or(0))) },
        _ => Response::text(200, "ok"),
    }
}

fn executor() -> &'static Arc<safina::executor::Executor> {
    static E: OnceLock<Arc<safina::executor::Executor>> = OnceLock::new();
    E.get_or_init(|| {
        safina::timer::start_timer_thread();
        safina::executor::Executor::new(2, 32).unwrap()
    })
}

struct Srv {
    addr: SocketAddr,
    permit: Option<Permit>,
    stopped: safina::sync::Receiver<()>,
}

fn start(n: usize) -> Srv {
    start_on(executor(), n, 0)
}

/// State owned by the application's handler whose clean-up takes a while (a pool to close, a thread to join).
struct SlowDrop(u64);
impl Drop for SlowDrop {
    fn drop(&mut self) {
        std::thread::sleep(Duration::from_millis(self.0));
    }
}

/// `slow_drop_ms` > 0: the handler owns state whose `Drop` takes that long.
fn start_on(ex: &Arc<safina::executor::Executor>, n: usize, slow_drop_ms: u64) -> Srv {
    {
        let mut g = gate().0.lock().unwrap();
        *g = Gate::default();
    }
    let permit = Permit::new();
    // every other builder option is set after max_conns: none of them may disturb the limit
    let b = HttpServerBuilder::new()
        .max_conns(n)
        .listen_addr("127.0.0.1:0".parse().unwrap())
        .small_body_len(64 * 1024)
        .receive_large_bodies(&super::c06::scratch_dir())
        .permit(permit.new_sub());
    let (addr, stopped) = if slow_drop_ms > 0 {
        let state = Arc::new(SlowDrop(slow_drop_ms));
        ex.block_on(b.spawn(move |req: Request| { let _keep = &state; handler(req) })).unwrap()
    } else {
        ex.block_on(b.spawn(handler)).unwrap()
    };
    Srv { addr, permit: Some(permit), stopped }
}

/// An executor with one async thread and `blocking` handler threads (one per distinct size, kept for the process).
fn small_executor(blocking: usize) -> Arc<safina::executor::Executor> {
    static E: OnceLock<Mutex<std::collections::HashMap<usize, Arc<safina::executor::Executor>>>> = OnceLock::new();
    let mut g = E.get_or_init(|| Mutex::new(std::collections::HashMap::new())).lock().unwrap();
    g.entry(blocking).or_insert_with(|| { safina::timer::start_timer_thread(); safina::executor::Executor::new(1, blocking).unwrap() }).clone()
}

fn connect(addr: SocketAddr) -> Option<TcpStream> {
    let c = TcpStream::connect_timeout(&addr, Duration::from_secs(5)).ok()?;
    c.set_read_timeout(Some(Duration::from_secs(6))).ok()?;
    c.set_write_timeout(Some(Duration::from_secs(15))).ok()?;
    let _ = c.set_nodelay(true);
    Some(c)
}

/// Reads one response with a content-length; returns (status, body length) or a failure word.
fn read_response(c: &mut TcpStream) -> String {
    let mut acc: Vec<u8> = Vec::new();
    let mut buf = [0u8; 65536];
    let mut head_end = None;
    loop {
        if head_end.is_none() {
            head_end = acc.windows(4).position(|w| w == b"\r\n\r\n").map(|p| p + 4);
        }
        if let Some(he) = head_end {
            let head = String::from_utf8_lossy(&acc[..he]).to_ascii_lowercase();
            let status = head.split(' ').nth(1).unwrap_or("?").to_string();
            let cl: usize = head.lines().find_map(|l| l.strip_prefix("content-length: ").map(|v| v.trim().parse().unwrap_or(0))).unwrap_or(0);
            if acc.len() >= he + cl {
                return format!("{status}/{cl}");
            }
        }
        match c.read(&mut buf) {
            Ok(0) => return if acc.is_empty() { "closed".to_string() } else { format!("cut@{}", acc.len()) },
            Ok(k) => acc.extend_from_slice(&buf[..k]),
            Err(e) if e.kind() == std::io::ErrorKind::WouldBlock || e.kind() == std::io::ErrorKind::TimedOut => return format!("timeout@{}", acc.len()),
            Err(_) => return if acc.is_empty() { "closed".to_string() } else { format!("cut@{}", acc.len()) },
        }
    }
}

fn tick() {
    crate::PROGRESS.fetch_add(1, std::sync::atomic::Ordering::SeqCst);
}

fn wait_gauge(pred: impl Fn(&Gate) -> bool, dur: Duration) -> bool {
    tick();
    let (m, cv) = gate();
    let deadline = Instant::now() + dur;
    let mut g = m.lock().unwrap();
    while !pred(&g) {
        let now = Instant::now();
        if now >= deadline { return false; }
        g = cv.wait_timeout(g, (deadline - now).min(Duration::from_millis(100))).unwrap().0;
    }
    true
}

fn release_all() {
    let (m, cv) = gate();
    m.lock().unwrap().release_all = true;
    cv.notify_all();
}

fn release(id: &str) {
    let (m, cv) = gate();
    m.lock().unwrap().released.insert(id.to_string());
    cv.notify_all();
}

fn stop(mut s: Srv) -> bool {
    tick();
    drop(s.permit.take());
    release_all();
    s.stopped.recv_timeout(Duration::from_secs(3)).is_ok()
}

/// One client of a C12 history.  kinds: g gate+200, e gate+500, p gate+panic, d gate+drop, m malformed, a abort mid-head,
/// u abort mid-upload, v half-close in the middle of an upload the handler ignores, k keep-alive then close, r two requests on one connection.
/// Upper-case E, P, D, M: as the lower-case kind, but the client keeps its socket open after the server has answered
/// and closed its side (the slot must come back without the client's help).
fn client(addr: SocketAddr, kind: char, id: usize, delay_ms: u64) -> (String, Option<TcpStream>) {
    std::thread::sleep(Duration::from_millis(delay_ms));
    let Some(mut c) = connect(addr) else { return ("noconn".to_string(), None) };
    let linger = kind.is_ascii_uppercase();
    let kind = kind.to_ascii_lowercase();
    let out = client_run(&mut c, kind, id);
    (out, if linger { Some(c) } else { None })
}

fn client_run(c: &mut TcpStream, kind: char, id: usize) -> String {
    let mut c = c;
    match kind {
        'g' | 'e' | 'p' | 'd' => {
            if c.write_all(format!("GET /gate/{kind}/{id} HTTP/1.1\r\n\r\n").as_bytes()).is_err() { return "wfail".to_string(); }
            let r = read_response(&mut c);
            r.split('/').next().unwrap().to_string()
        }
        'm' => {
            let _ = c.write_all(b"BAD\r\n\r\n");
            read_response(&mut c).split('/').next().unwrap().to_string()
        }
        'a' => {
            let _ = c.write_all(b"GET /x HT");
            std::thread::sleep(Duration::from_millis(20));
            "-".to_string()
        }
        'u' => {
            let _ = c.write_all(b"POST /up HTTP/1.1\r\ncontent-length: 1000\r\n\r\n0123456789");
            std::thread::sleep(Duration::from_millis(20));
            "-".to_string()
        }
        'v' => {
            // an upload larger than the in-memory threshold that the handler answers without reading; the client
            // half-closes in the middle of the body, reads the answer and goes away
            let _ = c.write_all(b"POST /up HTTP/1.1\r\ncontent-length: 200000\r\n\r\n");
            let _ = c.write_all(&vec![b'u'; 3000]);
            let _ = c.shutdown(std::net::Shutdown::Write);
            let r = read_response(&mut c);
            std::thread::sleep(Duration::from_millis(20));
            r.split('/').next().unwrap().to_string()
        }
        'w' => {
            // an upload that the handler accepts (it goes to a file); the client leaves the interim response unread and
            // closes in the middle of the body: the server's read fails with a reset, not with the end of the stream
            let _ = c.write_all(b"POST /upf HTTP/1.1\r\ncontent-length: 200000\r\nexpect: 100-continue\r\n\r\n");
            let _ = c.write_all(&vec![b'u'; 3000]);
            std::thread::sleep(Duration::from_millis(60));
            "-".to_string()
        }
        'y' => {
            // an event stream whose handler queues 60 events before it returns (the queue holds 50: the sender is disconnected,
            // the handler never waits); the client reads the head and leaves
            let _ = c.write_all(b"GET /replay HTTP/1.1\r\n\r\n");
            let _ = c.set_read_timeout(Some(Duration::from_millis(1500)));
            let mut buf = [0u8; 64];
            let r = match c.read(&mut buf) { Ok(k) if k > 12 => String::from_utf8_lossy(&buf[9..12]).to_string(), _ => "timeout".to_string() };
            std::thread::sleep(Duration::from_millis(10));
            r
        }
        'q' => {
            // the next request arrives while the handler of the first one is still running (it waits in the gate)
            if c.write_all(format!("GET /gate/g/{id} HTTP/1.1\r\n\r\n").as_bytes()).is_err() { return "wfail".to_string(); }
            std::thread::sleep(Duration::from_millis(25));
            let _ = c.write_all(b"GET /ok HTTP/1.1\r\n\r\n");
            let r = read_response(&mut c);
            r.split('/').next().unwrap().to_string()
        }
        'x' => {
            // an upload that the handler refuses: longer than the limit it gives (413)
            let _ = c.write_all(b"POST /upsmall HTTP/1.1\r\ncontent-length: 200000\r\n\r\n");
            let _ = c.write_all(&vec![b'u'; 3000]);
            let r = read_response(&mut c);
            r.split('/').next().unwrap().to_string()
        }
        'k' => {
            let _ = c.write_all(b"GET /ok HTTP/1.1\r\n\r\n");
            let r = read_response(&mut c);
            std::thread::sleep(Duration::from_millis(30));
            r.split('/').next().unwrap().to_string()
        }
        _ => {
            let _ = c.write_all(b"GET /ok HTTP/1.1\r\n\r\n");
            let r1 = read_response(&mut c);
            let _ = c.write_all(b"GET /ok HTTP/1.1\r\n\r\n");
            let r2 = read_response(&mut c);
            format!("{}+{}", r1.split('/').next().unwrap(), r2.split('/').next().unwrap())
        }
    }
}

/// c12: `n` = max_conns, `kinds` = one char per client, `delays` = start delay per client (ms).
pub fn case_limit(ctx: &mut Ctx, n: &str, kinds: &str, delays: &str) {
    let nn: usize = n.parse().unwrap();
    let kinds_v: Vec<char> = kinds.chars().collect();
    // `L1:` in front of the delays: the application's logger is stalled (its one-slot queue is full and never drained) throughout
    let (stalled, delays_rest) = match delays.strip_prefix("L1:") { Some(r) => (true, r), None => (false, delays) };
    let delays_v: Vec<u64> = delays_rest.split(',').map(|d| d.parse().unwrap()).collect();
    let obs = guard(move || {
        let _logger = if stalled { Some(stalled_logger_guard()) } else { None };
        let srv = start(nn);
        let gated = kinds_v.iter().filter(|k| "gepdqEPD".contains(**k)).count();
        let handles: Vec<_> = kinds_v.iter().enumerate().map(|(i, &k)| {
            let (addr, d) = (srv.addr, delays_v[i]);
            std::thread::spawn(move || client(addr, k, i, d))
        }).collect();
        // phase 1: the full configured number is serviced simultaneously, and never more
        let want = nn.min(gated);
        let reached = wait_gauge(|g| g.entered >= want, Duration::from_secs(8));
        std::thread::sleep(Duration::from_millis(60));
        // phase 2: let them finish one at a time in arrival order of the gauge; newcomers take the freed slots
        loop {
            let next = { let g = gate().0.lock().unwrap(); g.inside.iter().filter(|id| !g.released.contains(*id)).min().cloned() };
            match next {
                Some(id) => { release(&id); std::thread::sleep(Duration::from_millis(3)); }
                None => {
                    let total = gate().0.lock().unwrap().total_entered;
                    if total >= gated { break; }
                    if !wait_gauge(|g| g.total_entered > total, Duration::from_secs(8)) { break; }
                }
            }
        }
        release_all();
        let (outs, lingering): (Vec<String>, Vec<Option<TcpStream>>) = handles.into_iter().map(|h| h.join().unwrap_or_else(|_| ("panic".to_string(), None))).unzip();
        let max1 = gate().0.lock().unwrap().max;
        // phase 3: after the history the full number can be serviced again
        {
            let mut g = gate().0.lock().unwrap();
            let keep = g.max;
            *g = Gate::default();
            g.max = keep;
        }
        // (two clients more than there are slots: they must wait their turn, never be serviced beyond the limit)
        let fresh: Vec<_> = (0..nn + 2).map(|j| { let addr = srv.addr; std::thread::spawn(move || client(addr, 'g', 1000 + j, 0)) }).collect();
        // ... and two that try the same port on the IPv6 loopback: the server listens where it was told to, and `max_conns`
        // is the limit of the server, not of an address family
        let v6: Vec<_> = (0..2).map(|j| { let addr = SocketAddr::new(std::net::IpAddr::V6(std::net::Ipv6Addr::LOCALHOST), srv.addr.port()); std::thread::spawn(move || client(addr, 'g', 1500 + j, 0)) }).collect();
        let full = wait_gauge(|g| g.entered >= nn, Duration::from_secs(8));
        std::thread::sleep(Duration::from_millis(60));
        { let mut g = gate().0.lock().unwrap(); let now = g.entered; g.max = g.max.max(now); }
        release_all();
        let fresh_ok = fresh.into_iter().map(|h| h.join().map(|r| r.0).unwrap_or_default()).filter(|r| r == "200").count().min(nn);
        for h in v6 { let _ = h.join(); }
        drop(lingering);
        let max2 = gate().0.lock().unwrap().max;
        let stopped = stop(srv);
        format!("max={} reached={} full={} fresh={fresh_ok} stopped={} out={}", max1.max(max2), u8::from(reached), u8::from(full), u8::from(stopped), outs.join(","))
    });
    ctx.emit("c12", &[n, kinds, delays], &obs);
}

/// Installs a logger whose queue of one event is full and is never drained; returns what keeps it installed (and the receiver alive).
pub fn stalled_logger_guard() -> (servlin::log::internal::ClearGlobalLoggerOnDrop, std::sync::mpsc::Receiver<servlin::log::internal::LogEvent>) {
    let (tx, rx) = std::sync::mpsc::sync_channel::<servlin::log::internal::LogEvent>(1);
    let _ = tx.try_send(servlin::log::internal::LogEvent::new(servlin::log::Level::Info, ()));
    (servlin::log::set_global_logger(tx).expect("logger"), rx)
}

/// c13: `n` = max_conns; `phases` = one char per connection: i idle keep-alive, h head partially received, r handler running,
/// b body upload in progress, w response being written, - (none); `delay` ms between set-up and revocation.
pub fn case_shutdown(ctx: &mut Ctx, n: &str, phases: &str, delay: &str) {
    let nn: usize = n.parse().unwrap();
    // `L` anywhere in `phases`: the application's logger is stalled (its one-slot queue is full and nobody drains it)
    let stalled_logger = phases.contains('L');
    let ph: Vec<char> = phases.chars().filter(|c| *c != '-' && *c != 'L').collect();
    let delay_ms: u64 = delay.parse().unwrap();
    let obs = guard(move || {
        let _stall = if stalled_logger { Some(stalled_logger_guard()) } else { None };
        let files_now = || std::fs::read_dir(super::c06::scratch_dir()).map(|r| r.filter(|e| e.as_ref().map(|e| e.path().is_file()).unwrap_or(false)).count()).unwrap_or(0);
        let files_before = files_now();
        let mut leak = 0usize;
        // (the handler owns state whose clean-up takes 120 ms: the listening socket is released before the signal all the same)
        let mut srv = start_on(executor(), nn, 120);
        let mut conns: Vec<TcpStream> = Vec::new();
        let sse_seen: Mutex<std::collections::HashMap<usize, Vec<u8>>> = Mutex::new(std::collections::HashMap::new());
        for (i, p) in ph.iter().enumerate() {
            let Some(mut c) = connect(srv.addr) else { return "noconn".to_string() };
            match p {
                'i' | 'I' => {
                    let _ = c.write_all(b"GET /ok HTTP/1.1\r\n\r\n");
                    if read_response(&mut c) != "200/2" { return "setup-failed".to_string(); }
                }
                'h' | 'H' => { let _ = c.write_all(b"GET /ok HTTP/1.1\r\nhost: a"); }
                'r' => {
                    let _ = c.write_all(format!("GET /gate/g/{i} HTTP/1.1\r\n\r\n").as_bytes());
                    let id = i.to_string();
                    if !wait_gauge(|g| g.inside.contains(&id), Duration::from_secs(8)) { return "setup-failed".to_string(); }
                }
                'b' => { let _ = c.write_all(b"POST /up HTTP/1.1\r\ncontent-length: 1000\r\n\r\n0123456789"); }
                's' => {
                    // an event stream that has started (its head and first event have arrived) and goes on for 300 ms more
                    let _ = c.write_all(format!("GET /sse/{i} HTTP/1.1\r\n\r\n").as_bytes());
                    let mut got = Vec::new();
                    let mut buf = [0u8; 4096];
                    let _ = c.set_read_timeout(Some(Duration::from_secs(3)));
                    while !got.windows(6).any(|w| w == b"data: ") { match c.read(&mut buf) { Ok(k) if k > 0 => got.extend_from_slice(&buf[..k]), _ => return "setup-failed".to_string() } }
                    sse_seen.lock().unwrap().insert(i, got);
                }
                'x' => {
                    // the handler is running on a request that announced its body with Expect; the body has not been asked for yet
                    let _ = c.write_all(format!("POST /gate/x/{i} HTTP/1.1\r\ncontent-length: 70000\r\nexpect: 100-continue\r\n\r\n").as_bytes());
                    let id = i.to_string();
                    if !wait_gauge(|g| g.inside.contains(&id), Duration::from_secs(8)) { return "setup-failed".to_string(); }
                }
                'f' => {
                    // the handler is running on a request whose body was uploaded into a file of the cache directory
                    let _ = c.write_all(format!("POST /gate/f/{i} HTTP/1.1\r\ncontent-length: 100000\r\n\r\n").as_bytes());
                    let _ = c.write_all(&vec![b'f'; 100_000]);
                    let id = i.to_string();
                    if !wait_gauge(|g| g.inside.contains(&id), Duration::from_secs(8)) { return "setup-failed".to_string(); }
                }
                _ => { let _ = c.write_all(b"GET /big HTTP/1.1\r\n\r\n"); }
            }
            conns.push(c);
        }
        std::thread::sleep(Duration::from_millis(20 + delay_ms));
        // never before revocation
        let early = srv.stopped.try_recv().is_ok();
        let t0 = Instant::now();
        drop(srv.permit.take());
        let stopped = srv.stopped.recv_timeout(Duration::from_secs(3)).is_ok();
        let took = t0.elapsed().as_millis();
        // the listening socket is released before the stopped signal: a connection attempt now is not served
        let late = match TcpStream::connect_timeout(&srv.addr, Duration::from_millis(500)) {
            Err(_) => "refused".to_string(),
            Ok(mut c) => {
                let _ = c.set_read_timeout(Some(Duration::from_millis(700)));
                let _ = c.write_all(b"GET /ok HTTP/1.1\r\n\r\n");
                let r = read_response(&mut c);
                if r.starts_with("200") { "served".to_string() } else { "notserved".to_string() }
            }
        };
        // a graceful restart: a replacement server starts on the same cache directory as soon as the old one has signalled;
        // the requests the old one is still serving (their uploads are files of that directory) are not its business
        let replacement_permit = Permit::new();
        let replacement = executor().block_on(
            HttpServerBuilder::new().max_conns(1).listen_addr("127.0.0.1:0".parse().unwrap()).receive_large_bodies(&super::c06::scratch_dir())
                .permit(replacement_permit.new_sub()).spawn(|_req: Request| Response::text(200, "replacement")));
        // in-flight work completes; every connection serves at most one further request and is then closed
        let mut outs = Vec::new();
        for (i, (p, mut c)) in ph.iter().zip(conns.into_iter()).enumerate() {
            let first = match p {
                'i' => { let _ = c.write_all(b"GET /ok HTTP/1.1\r\n\r\n"); read_response(&mut c) }
                'h' => { let _ = c.write_all(b"\r\n\r\n"); read_response(&mut c) }
                // upper case: the further requests arrive pipelined in the same write
                'I' => { let _ = c.write_all(b"GET /ok HTTP/1.1\r\n\r\nGET /ok HTTP/1.1\r\n\r\nGET /ok HTTP/1.1\r\n\r\n"); read_response(&mut c) }
                'H' => { let _ = c.write_all(b"\r\n\r\nGET /ok HTTP/1.1\r\n\r\nGET /ok HTTP/1.1\r\n\r\n"); read_response(&mut c) }
                'r' => { release(&i.to_string()); read_response(&mut c) }
                's' => {
                    // the stream goes on to its end: all 8 events and the terminating chunk
                    let mut got = sse_seen.lock().unwrap().remove(&i).unwrap_or_default();
                    let mut buf = [0u8; 4096];
                    let _ = c.set_read_timeout(Some(Duration::from_secs(3)));
                    while !got.ends_with(b"0\r\n\r\n") { match c.read(&mut buf) { Ok(k) if k > 0 => got.extend_from_slice(&buf[..k]), _ => break } }
                    let events = got.windows(10).filter(|w| w.starts_with(b"data: tick")).count();
                    let status = String::from_utf8_lossy(&got).split(' ').nth(1).unwrap_or("?").to_string();
                    if got.ends_with(b"0\r\n\r\n") { format!("{status}/{events}") } else { format!("cut@{events}") }
                }
                'b' => { let _ = c.write_all(&[b'x'; 990]); read_response(&mut c) }
                'x' => {
                    release(&i.to_string());
                    let interim = read_response(&mut c);
                    if interim != "100/0" { format!("no100:{interim}") } else { let _ = c.write_all(&vec![b'x'; 70_000]); read_response(&mut c) }
                }
                'f' => {
                    // while the handler holds the request the connection must stay; if it is gone, so must the file be
                    let _ = c.set_read_timeout(Some(Duration::from_millis(300)));
                    let peek = read_response(&mut c);
                    let _ = c.set_read_timeout(Some(Duration::from_secs(6)));
                    if !peek.starts_with("timeout") {
                        std::thread::sleep(Duration::from_millis(50));
                        leak += files_now().saturating_sub(files_before);
                    }
                    release(&i.to_string());
                    if peek.starts_with("timeout") { read_response(&mut c) } else { peek }
                }
                _ => read_response(&mut c),
            };
            let _ = c.write_all(b"GET /ok HTTP/1.1\r\n\r\n");
            let _ = c.set_read_timeout(Some(Duration::from_secs(3)));
            let second = read_response(&mut c);
            outs.push(format!("{p}:{first}+{second}"));
        }
        release_all();
        drop(replacement_permit);
        if let Ok((_addr, stopped2)) = replacement { let _ = stopped2.recv_timeout(Duration::from_secs(3)); }
        // every connection has ended: nothing the server created may be left in the cache directory
        let mut left = files_now().saturating_sub(files_before);
        for _ in 0..100 { if left == 0 { break; } std::thread::sleep(Duration::from_millis(5)); left = files_now().saturating_sub(files_before); }
        format!("early={} stopped={} bounded={} late={late} leak={} conns={}", u8::from(early), u8::from(stopped), u8::from(stopped && took < 2000), leak + left, outs.join(","))
    });
    ctx.emit("c13", &[n, phases, delay], &obs);
}


/* ---------------- accept failures: descriptor exhaustion ---------------- */

fn set_nofile_soft(limit: u64) -> bool {
    std::process::Command::new("prlimit")
        .args(["--pid", &std::process::id().to_string(), &format!("--nofile={limit}:")])
        .status()
        .map(|s| s.success())
        .unwrap_or(false)
}

/// c12e: `n` = max_conns, `rounds` = how many times the descriptor table is exhausted while a client connects.
/// The process's soft RLIMIT_NOFILE is lowered (prlimit), the table is filled with dummy descriptors so that the
/// client's socket takes the last one and the server's accept() fails with EMFILE; then the dummies are closed.
/// `logger` = `live` (the events are captured and counted) or `dead`: the installed logger's receiver is gone, so every
/// logging call inside the server reports `LoggerStoppedError` — a failed accept must not take the accept loop down with it.
/// `hold` = how long (ms) the descriptor table stays full in each round (accept fails about twice per second meanwhile).
pub fn case_emfile(ctx: &mut Ctx, n: &str, rounds: &str, logger: &str, hold: &str) {
    let nn: usize = n.parse().unwrap();
    let rr: usize = rounds.parse().unwrap();
    let hold_ms: u64 = hold.parse().unwrap();
    let dead = logger == "dead";
    let obs = guard(move || {
        let (log_tx, log_rx) = std::sync::mpsc::sync_channel::<servlin::log::internal::LogEvent>(10_000);
        let log_guard = servlin::log::set_global_logger(log_tx);
        // drained concurrently: a loop that logs without pause must not be able to block the harness on the logger lock
        let log_counter = std::thread::spawn(move || {
            if dead { drop(log_rx); return 0; }
            log_rx.iter().filter(|e| { let mut b = Vec::new(); e.write_jsonl(&mut b).is_ok() && String::from_utf8_lossy(&b).contains("too many open files") }).count()
        });
        if dead { std::thread::sleep(Duration::from_millis(30)); }
        let srv = start(nn);
        if !set_nofile_soft(192) { return "no-prlimit".to_string(); }
        let mut starved = 0;
        let mut served = 0;
        let mut dropped = 0;
        for round in 0..rr {
            // let the previous round's connection be closed on the server side first
            std::thread::sleep(Duration::from_millis(150));
            let mut dummies: Vec<std::fs::File> = Vec::new();
            while let Ok(f) = std::fs::File::open("/dev/null") { dummies.push(f); if dummies.len() > 4096 { break; } }
            dummies.pop(); // exactly one descriptor is free: the client's socket takes it
            let mut c = match TcpStream::connect_timeout(&srv.addr, Duration::from_secs(5)) {
                Ok(c) => c,
                Err(e) => { drop(dummies); let _ = set_nofile_soft(20000); return format!("noconn:{e}"); }
            };
            let _ = c.write_all(format!("GET /ok?{round} HTTP/1.1\r\n\r\n").as_bytes());
            let _ = c.set_read_timeout(Some(Duration::from_millis(250)));
            // waiting in the backlog is what a failed accept means; a connection that is closed instead means the listener went away
            let first = read_response(&mut c);
            if first.starts_with("timeout") { starved += 1; } else if !first.starts_with("200") { dropped += 1; }
            if hold_ms > 250 {
                // a long episode of failing accepts: the client keeps waiting in the backlog
                let _ = c.set_read_timeout(Some(Duration::from_millis(hold_ms - 250)));
                let again = read_response(&mut c);
                if !again.starts_with("timeout") && !again.starts_with("200") { dropped += 1; }
            }
            drop(dummies);
            let _ = c.set_read_timeout(Some(Duration::from_secs(5)));
            if read_response(&mut c) == "200/2" { served += 1; }
        }
        let _ = set_nofile_soft(20000);
        // no slot was consumed by the failed accepts
        let fresh: Vec<_> = (0..nn).map(|j| { let addr = srv.addr; std::thread::spawn(move || client(addr, 'g', 2000 + j, 0)) }).collect();
        let full = wait_gauge(|g| g.entered >= nn, Duration::from_secs(8));
        release_all();
        let fresh_ok = fresh.into_iter().map(|h| h.join().map(|r| r.0).unwrap_or_default()).filter(|r| r == "200").count();
        let max = gate().0.lock().unwrap().max;
        let stopped = stop(srv);
        drop(log_guard);
        let logged = log_counter.join().unwrap_or(0);
        format!("starved={starved} dropped={dropped} served={served} emfile_logged={} full={} fresh={fresh_ok} max={max} stopped={}", u8::from(dead || logged >= rr), u8::from(full), u8::from(stopped))
    });
    ctx.emit("c12e", &[n, rounds, logger, hold], &obs);
}

pub fn run_emfile(ctx: &mut Ctx) {
    let cases: &[(usize, usize, &str, u64)] = if ctx.thorough() { &[(1, 1, "live", 250), (1, 3, "live", 250), (2, 2, "live", 250), (3, 1, "live", 250), (4, 2, "live", 250), (1, 2, "dead", 250), (3, 1, "dead", 250), (2, 1, "live", 4700), (1, 1, "live", 11000)] }
        else { &[(1, 1, "live", 250), (2, 2, "live", 250), (2, 1, "dead", 250), (2, 1, "live", 4700)] };
    for (i, (n, r, l, h)) in cases.iter().enumerate() {
        if ctx.mine(i as u64 + 1) { case_emfile(ctx, &n.to_string(), &r.to_string(), l, &h.to_string()); }
    }
}


/// c13e: revocation while accept() keeps failing (descriptor table full, a client waiting in the backlog).
pub fn case_shutdown_emfile(ctx: &mut Ctx, n: &str, delay: &str) {
    let nn: usize = n.parse().unwrap();
    let delay_ms: u64 = delay.parse().unwrap();
    let obs = guard(move || {
        let mut srv = start(nn);
        if !set_nofile_soft(192) { return "no-prlimit".to_string(); }
        let mut dummies: Vec<std::fs::File> = Vec::new();
        while let Ok(f) = std::fs::File::open("/dev/null") { dummies.push(f); if dummies.len() > 4096 { break; } }
        dummies.pop();
        let mut c = match TcpStream::connect_timeout(&srv.addr, Duration::from_secs(5)) {
            Ok(c) => c,
            Err(e) => { drop(dummies); let _ = set_nofile_soft(20000); return format!("noconn:{e}"); }
        };
        let _ = c.write_all(b"GET /ok HTTP/1.1\r\n\r\n");
        let _ = c.set_read_timeout(Some(Duration::from_millis(150 + delay_ms)));
        let starved = read_response(&mut c).starts_with("timeout");
        let early = srv.stopped.try_recv().is_ok();
        let t0 = Instant::now();
        drop(srv.permit.take());
        let stopped = srv.stopped.recv_timeout(Duration::from_secs(4)).is_ok();
        let took = t0.elapsed().as_millis();
        drop(dummies);
        let _ = set_nofile_soft(20000);
        let late = match TcpStream::connect_timeout(&srv.addr, Duration::from_millis(500)) { Err(_) => "refused", Ok(_) => "accepted" };
        release_all();
        format!("starved={} early={} stopped={} bounded={} late={late}", u8::from(starved), u8::from(early), u8::from(stopped), u8::from(stopped && took < 2500))
    });
    ctx.emit("c13e", &[n, delay], &obs);
}

pub fn run_shutdown_emfile(ctx: &mut Ctx) {
    let cases: &[(usize, u64)] = if ctx.thorough() { &[(1, 0), (2, 100), (3, 300), (1, 450), (4, 600), (1, 4200), (2, 9000)] } else { &[(1, 0), (2, 300), (1, 4200)] };
    for (i, (n, d)) in cases.iter().enumerate() {
        if ctx.mine(i as u64 + 1) { case_shutdown_emfile(ctx, &n.to_string(), &d.to_string()); }
    }
}

/// c08s: a client that stops reading in the middle of a large response for `secs` seconds and then resumes must still
/// receive exactly that one response (a write that is slow is not a write that failed; nothing else may follow).
pub fn case_stall(ctx: &mut Ctx, secs: &str) {
    let s: u64 = secs.parse().unwrap();
    let obs = guard(move || {
        let srv = start(1);
        let Some(mut c) = connect(srv.addr) else { return "noconn".to_string() };
        let _ = c.set_read_timeout(Some(Duration::from_secs(20)));
        let _ = c.write_all(b"GET /huge HTTP/1.1\r\n\r\n");
        let mut acc: Vec<u8> = Vec::new();
        let mut buf = vec![0u8; 65536];
        while acc.len() < 200_000 { match c.read(&mut buf) { Ok(0) | Err(_) => break, Ok(k) => acc.extend_from_slice(&buf[..k]) } }
        std::thread::sleep(Duration::from_secs(s));
        let _ = c.shutdown(std::net::Shutdown::Write);
        loop { match c.read(&mut buf) { Ok(0) | Err(_) => break, Ok(k) => acc.extend_from_slice(&buf[..k]) } }
        let he = acc.windows(4).position(|w| w == b"\r\n\r\n").map_or(0, |p| p + 4);
        let head = String::from_utf8_lossy(&acc[..he]).to_ascii_lowercase();
        let status = head.split(' ').nth(1).unwrap_or("?").to_string();
        let cl: usize = head.lines().find_map(|l| l.strip_prefix("content-length: ").map(|v| v.trim().parse().unwrap_or(0))).unwrap_or(0);
        let body = acc.len().saturating_sub(he).min(cl);
        let extra = acc.len().saturating_sub(he + cl);
        let second_status = acc[he..].windows(9).any(|w| w == b"HTTP/1.1 ");
        let stopped = stop(srv);
        format!("status={status} declared={cl} body={body} extra={extra} second_status_line={} stopped={}", u8::from(second_status), u8::from(stopped))
    });
    ctx.emit("c08s", &[secs], &obs);
}

pub fn run_stall(ctx: &mut Ctx) {
    for (i, secs) in [12u64, 1].iter().enumerate() {
        if ctx.mine(i as u64) { case_stall(ctx, &secs.to_string()); }
    }
}

/// c10r: the permit is revoked while a handler owns an upload's file (phase f, alone and next to other connections).
pub fn run_upload_revoked(ctx: &mut Ctx) {
    let cases: &[(usize, &str)] = if ctx.thorough() { &[(1, "f"), (2, "f"), (2, "ff"), (3, "fif"), (2, "xf"), (4, "frfb")] } else { &[(1, "f"), (2, "ff"), (3, "fxi")] };
    for (i, (n, ph)) in cases.iter().enumerate() {
        if ctx.mine(i as u64 + 1) { case_shutdown(ctx, &n.to_string(), ph, &(7 * i).to_string()); }
    }
}

/// c13p: the connection task itself (`handle_http_conn`) with `k` requests already waiting and a permit that is revoked before
/// the task starts (`j` = 0), by the handler of the `j`-th request, or never (`j` = -).
pub fn case_permit(ctx: &mut Ctx, k: &str, j: &str) {
    let kk: usize = k.parse().unwrap();
    let jj: Option<usize> = j.parse().ok();
    let obs = guard(move || {
        let crate::net::Pair { mut client, conn } = crate::net::pair();
        for i in 0..kk { client.write_all(format!("GET /{i} HTTP/1.1\r\n\r\n").as_bytes()).unwrap(); }
        let _ = client.shutdown(std::net::Shutdown::Write);
        let parent = Arc::new(Mutex::new(Some(Permit::new())));
        let sub = parent.lock().unwrap().as_ref().unwrap().new_sub();
        if jj == Some(0) { parent.lock().unwrap().take(); }
        let calls = Arc::new(std::sync::atomic::AtomicUsize::new(0));
        let (calls2, parent2) = (calls.clone(), parent.clone());
        let handler = move |_req: Request| {
            let (calls3, parent3) = (calls2.clone(), parent2.clone());
            async move {
                let n = calls3.fetch_add(1, std::sync::atomic::Ordering::SeqCst) + 1;
                if Some(n) == jj { parent3.lock().unwrap().take(); }
                Response::text(200, "served")
            }
        };
        crate::io_script::block_on(servlin::internal::handle_http_conn(sub, Token::new(), conn, None, 65536, handler));
        let t = crate::net::read_transcript(&mut client);
        let served = String::from_utf8_lossy(&t).matches("HTTP/1.1 200 OK").count();
        format!("served={served} calls={}", calls.load(std::sync::atomic::Ordering::SeqCst))
    });
    ctx.emit("c13p", &[k, j], &obs);
}

pub fn run_permit(ctx: &mut Ctx) {
    let mut idx = 0u64;
    for k in 0..=5usize {
        for j in ["-".to_string()].into_iter().chain((0..=k + 1).map(|x| x.to_string())) {
            idx += 1;
            if ctx.mine(idx) { case_permit(ctx, &k.to_string(), &j); }
        }
    }
}

pub fn run_tokens(ctx: &mut Ctx) {
    let mut idx = 0u64;
    // large sets: more units than any fixed-size internal queue one might pick
    for (sz, back) in [(1025usize, 1025usize), (1100, 1100), (1100, 1030), (5000, 5000), (70000, 66000)] {
        idx += 1;
        if ctx.mine(idx) { case_tokens_big(ctx, &sz.to_string(), &back.to_string()); }
    }
    if ctx.thorough() {
        enumerate(ctx, &['w', 't', 'o', 'y'], 8, &[1, 2, 3], &mut idx);
        enumerate(ctx, &['w', 't', 'a', 'o', 'y', 'n'], 6, &[1, 2, 3], &mut idx);
    } else {
        enumerate(ctx, &['w', 't', 'o', 'y'], 6, &[1, 2, 3], &mut idx);
        enumerate(ctx, &['w', 't', 'a', 'o', 'y', 'n'], 4, &[1, 2, 4], &mut idx);
    }
}

pub fn run_limit(ctx: &mut Ctx) {
    let mut rng = Rng::new(ctx.seed.wrapping_add(12));
    let count = if ctx.thorough() { 160 } else { 24 };
    let all = ['g', 'e', 'p', 'd', 'm', 'a', 'u', 'v', 'w', 'x', 'y', 'q', 'k', 'r', 'E', 'P', 'D', 'M'];
    for idx in 0..count {
        let n = 1 + (idx as usize % 4);
        let clients = rng.range(2 * n as u64, 3 * n as u64) as usize;
        // every ending kind appears; some histories are dominated by one kind (a leak per kind then starves the pool)
        let dominant = if rng.chance(1, 2) { Some(all[rng.below(all.len() as u64) as usize]) } else { None };
        let kinds: String = (0..clients).map(|_| match dominant { Some(k) if rng.chance(2, 3) => k, _ => all[rng.below(all.len() as u64) as usize] }).collect();
        let delays: Vec<String> = (0..clients).map(|_| rng.below(12).to_string()).collect();
        // every fourth history runs under a stalled logger
        let prefix = if idx % 4 == 3 { "L1:" } else { "" };
        if ctx.mine(idx + 1) { case_limit(ctx, &n.to_string(), &kinds, &format!("{prefix}{}", delays.join(","))); }
    }
    // histories made of connections that end in an error (malformed request, aborted upload with a reset), under a stalled logger
    for (j, (n, kinds)) in [(2usize, "mmmmgg"), (1, "mmwmg"), (2, "wwwwgg"), (3, "mwmwmwggg"), (2, "MmMmgg"), (2, "xxxgg"), (1, "xxg"), (3, "xmxwxggg"), (2, "yyygg"), (1, "yg"), (1, "qqg"), (2, "qgqg")].iter().enumerate() {
        for prefix in ["L1:", ""] {
            if ctx.mine(1000 + j as u64) {
                let delays: Vec<String> = (0..kinds.len()).map(|i| (i * 3).to_string()).collect();
                case_limit(ctx, &n.to_string(), kinds, &format!("{prefix}{}", delays.join(",")));
            }
        }
    }
}

/// c13b: every thread of the handler pool is inside a handler when the permit is revoked (pool of `k` threads, `k` gated
/// requests): the listening socket is released and the stopped signal delivered all the same, within the bound and before the
/// handlers return; the requests in flight then get their responses.
pub fn case_shutdown_busy(ctx: &mut Ctx, k: &str) {
    let kk: usize = k.parse().unwrap();
    let obs = guard(move || {
        let ex = small_executor(kk);
        let mut srv = start_on(&ex, kk + 1, 0);
        let clients: Vec<_> = (0..kk).map(|i| { let addr = srv.addr; std::thread::spawn(move || client(addr, 'g', 3000 + i, 0)) }).collect();
        let inside = wait_gauge(|g| g.entered >= kk, Duration::from_secs(5));
        let early = srv.stopped.try_recv().is_ok();
        let t0 = Instant::now();
        drop(srv.permit.take());
        let stopped = srv.stopped.recv_timeout(Duration::from_secs(3)).is_ok();
        let took = t0.elapsed();
        let refused = TcpStream::connect_timeout(&srv.addr, Duration::from_millis(500)).is_err();
        let still_running = gate().0.lock().unwrap().entered;
        release_all();
        let outs: Vec<String> = clients.into_iter().map(|h| h.join().map(|r| r.0).unwrap_or_default()).collect();
        format!("inside={} early={} stopped={} bounded={} refused={} handlers_still_running={} out={}", u8::from(inside), u8::from(early), u8::from(stopped),
            u8::from(took < Duration::from_millis(2500)), u8::from(refused), still_running, outs.join(","))
    });
    ctx.emit("c13b", &[k], &obs);
}

pub fn run_shutdown_busy(ctx: &mut Ctx) {
    for (i, k) in [1usize, 2, 3].iter().enumerate() {
        if ctx.mine(i as u64) { case_shutdown_busy(ctx, &k.to_string()); }
    }
}

/// c12i: accepts keep failing (descriptor table full) on a server whose executor has ONE async thread, while `k` idle
/// keep-alive clients end their connections (they shut down both directions and keep their descriptors): only the server's
/// own connection tasks can free descriptors.  They must get to run: the client waiting in the backlog is then served.
pub fn case_emfile_idle(ctx: &mut Ctx, k: &str) {
    let kk: usize = k.parse().unwrap();
    let obs = guard(move || {
        let ex = small_executor(8);
        let srv = start_on(&ex, kk + 2, 0);
        let mut idle: Vec<TcpStream> = Vec::new();
        for _ in 0..kk {
            let Some(mut c) = connect(srv.addr) else { return "noconn".to_string() };
            let _ = c.write_all(b"GET /ok HTTP/1.1\r\n\r\n");
            if read_response(&mut c) != "200/2" { return "setup-failed".to_string(); }
            idle.push(c);
        }
        if !set_nofile_soft(192) { return "no-prlimit".to_string(); }
        let mut dummies: Vec<std::fs::File> = Vec::new();
        while let Ok(f) = std::fs::File::open("/dev/null") { dummies.push(f); if dummies.len() > 4096 { break; } }
        dummies.pop();
        let mut w = match TcpStream::connect_timeout(&srv.addr, Duration::from_secs(5)) {
            Ok(c) => c,
            Err(e) => { drop(dummies); let _ = set_nofile_soft(20000); return format!("noconn:{e}"); }
        };
        let _ = w.write_all(b"GET /ok?w HTTP/1.1\r\n\r\n");
        let _ = w.set_read_timeout(Some(Duration::from_millis(700)));
        let starved = read_response(&mut w).starts_with("timeout");
        // the idle clients end their connections but keep their descriptors
        for c in &idle { let _ = c.shutdown(std::net::Shutdown::Both); }
        let _ = w.set_read_timeout(Some(Duration::from_secs(4)));
        let served = read_response(&mut w) == "200/2";
        drop(dummies);
        let _ = set_nofile_soft(20000);
        drop(idle);
        let stopped = stop(srv);
        format!("starved={} served={} stopped={}", u8::from(starved), u8::from(served), u8::from(stopped))
    });
    ctx.emit("c12i", &[k], &obs);
}

pub fn run_emfile_idle(ctx: &mut Ctx) {
    for (i, k) in [4usize, 2].iter().enumerate() {
        if ctx.mine(i as u64) { case_emfile_idle(ctx, &k.to_string()); }
    }
}

/// c01k: clients whose request could not be read (malformed head) and who then neither close nor half-close, some of them
/// going on sending: the connection task ends once it has answered — the slots come back without the clients' help.
pub fn run_c01k(ctx: &mut Ctx) {
    for (i, (n, kinds)) in [(1usize, "MMg"), (2, "MMMgg"), (1, "MgM"), (3, "MMMMggg")].iter().enumerate() {
        if ctx.mine(i as u64) {
            let delays: Vec<String> = (0..kinds.len()).map(|k| (k * 5).to_string()).collect();
            case_limit(ctx, &n.to_string(), kinds, &delays.join(","));
        }
    }
}

/// c12s: a connection that is being sent an event stream is being serviced: with `max_conns` streams open, one more
/// client is served only once a stream has ended.
pub fn case_streams(ctx: &mut Ctx, n: &str) {
    let nn: usize = n.parse().unwrap();
    let obs = guard(move || {
        let srv = start(nn);
        let t0 = Instant::now();
        let streams: Vec<_> = (0..nn).map(|i| { let addr = srv.addr; std::thread::spawn(move || {
            let Some(mut c) = connect(addr) else { return (0u128, 0usize) };
            let _ = c.write_all(format!("GET /sse/{i} HTTP/1.1\r\n\r\n").as_bytes());
            let mut got = Vec::new();
            let mut buf = [0u8; 4096];
            while !got.ends_with(b"0\r\n\r\n") { match c.read(&mut buf) { Ok(k) if k > 0 => got.extend_from_slice(&buf[..k]), _ => break } }
            (t0.elapsed().as_millis(), got.windows(10).filter(|w| w.starts_with(b"data: tick")).count())
        }) }).collect();
        std::thread::sleep(Duration::from_millis(100));
        let extra = { let addr = srv.addr; std::thread::spawn(move || {
            let Some(mut c) = connect(addr) else { return (0u128, "noconn".to_string()) };
            let _ = c.write_all(b"GET /ok HTTP/1.1\r\n\r\n");
            let r = read_response(&mut c);
            (t0.elapsed().as_millis(), r)
        }) };
        let ends: Vec<(u128, usize)> = streams.into_iter().map(|h| h.join().unwrap_or((0, 0))).collect();
        let (t_extra, r_extra) = extra.join().unwrap_or((0, "panic".to_string()));
        let first_end = ends.iter().map(|e| e.0).min().unwrap_or(0);
        let stopped = stop(srv);
        format!("events={} extra={r_extra} extra_waited_for_a_stream_to_end={} stopped={}", ends.iter().map(|e| e.1.to_string()).collect::<Vec<_>>().join(","),
            u8::from(t_extra + 40 >= first_end), u8::from(stopped))
    });
    ctx.emit("c12s", &[n], &obs);
}

pub fn run_streams(ctx: &mut Ctx) {
    for (i, n) in [1usize, 2].iter().enumerate() {
        if ctx.mine(i as u64) { case_streams(ctx, &n.to_string()); }
    }
}

/// c13f: only the upload phases of c13 (a replacement server starts on the same cache directory while the stopped server's
/// handler still works on the uploaded file).  Shared with C09.
pub fn run_c13f(ctx: &mut Ctx) {
    for (i, (n, ph, delay)) in [(1usize, "f", 0u64), (2, "fx", 15), (2, "ff", 30)].iter().enumerate() {
        if ctx.mine(i as u64) { case_shutdown(ctx, &n.to_string(), ph, &delay.to_string()); }
    }
}

/// c13w: only the "response being written" phase of c13 (a 6 MiB response to a client that is not reading yet, the permit
/// revoked meanwhile): the response must arrive complete.  Shared with C06.
pub fn run_c13w(ctx: &mut Ctx) {
    for (i, (n, ph, delay)) in [(1usize, "w", 0u64), (2, "w", 10), (2, "ww", 20), (1, "w", 40), (1, "s", 0), (2, "s", 30), (3, "ss", 90), (2, "sw", 150)].iter().enumerate() {
        if ctx.mine(i as u64) { case_shutdown(ctx, &n.to_string(), ph, &delay.to_string()); }
    }
}

pub fn run_shutdown(ctx: &mut Ctx) {
    let mut rng = Rng::new(ctx.seed.wrapping_add(13));
    let mut idx = 0u64;
    let phases = ['i', 'h', 'r', 'b', 'w', 'I', 'H', 'x', 'f', 's'];
    // fixed schedules first: no connection; every single phase; all slots occupied by idle connections
    let mut cases: Vec<(usize, String)> = vec![(1, "-".to_string()), (3, "-".to_string())];
    for p in phases { cases.push((2, p.to_string())); cases.push((1, p.to_string())); }
    for n in 1..=4 { cases.push((n, "i".repeat(n))); }
    // the application's logger is stalled while the server shuts down
    cases.push((2, "L".to_string())); cases.push((2, "Lr".to_string())); cases.push((1, "Li".to_string()));
    let extra = if ctx.thorough() { 120 } else { 14 };
    for _ in 0..extra {
        let n = rng.range(1, 4) as usize;
        let k = rng.range(1, n as u64) as usize;
        cases.push((n, (0..k).map(|_| phases[rng.below(phases.len() as u64) as usize]).collect()));
    }
    // every slot held for 5.6 s without a revocation: the server goes on (no stopped signal before the revocation)
    let long_hold = cases.len() + 1;
    cases.push((1, "i".to_string()));
    for (n, ph) in cases {
        idx += 1;
        let delay = if idx as usize == long_hold { "5600".to_string() } else { rng.below(25).to_string() };
        if ctx.mine(idx) { case_shutdown(ctx, &n.to_string(), &ph, &delay); }
    }
}
