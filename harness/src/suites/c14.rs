//! C14: HeaderList operation sequences, AsciiString constructors.
use crate::gen::{hex, unhex, Rng};
use crate::{guard, Ctx};
use servlin::{AsciiString, HeaderList};
use std::borrow::Cow;

fn show_headers(l: &HeaderList) -> String {
    l.iter()
        .map(|h| format!("{}:{}", hex(h.name.as_bytes()), hex(h.value.as_bytes())))
        .collect::<Vec<_>>()
        .join(",")
}

fn opt(v: Option<&AsciiString>) -> String {
    match v {
        None => "N".to_string(),
        Some(s) => format!("S:{}", hex(s.as_bytes())),
    }
}

fn list<'a>(vs: impl Iterator<Item = &'a AsciiString>) -> String {
    format!("L:{}", vs.map(|s| hex(s.as_bytes())).collect::<Vec<_>>().join(","))
}

fn s(bytes: &[u8]) -> String {
    String::from_utf8(bytes.to_vec()).unwrap()
}

/// `init` = `name:value,...` (hex), `ops` = `add:n:v;go:n;ga:n;ro:n;ra:n` (hex).
pub fn case_ops(ctx: &mut Ctx, init: &str, ops: &str) {
    let init_o = init.to_string();
    let ops_o = ops.to_string();
    let observed = guard(move || {
        let mut l = HeaderList::new();
        for h in init_o.split(',').filter(|x| !x.is_empty()) {
            let (n, v) = h.split_once(':').unwrap();
            l.add(s(&unhex(n)), AsciiString::try_from(s(&unhex(v))).unwrap());
        }
        let mut outs = Vec::new();
        for op in ops_o.split(';').filter(|x| !x.is_empty()) {
            let parts: Vec<&str> = op.split(':').collect();
            let name = s(&unhex(parts[1]));
            outs.push(match parts[0] {
                "add" => {
                    l.add(name, AsciiString::try_from(s(&unhex(parts[2]))).unwrap());
                    "-".to_string()
                }
                "go" => opt(l.get_only(name)),
                "ga" => list(l.get_all(name).into_iter()),
                "ro" => opt(l.remove_only(name).as_ref()),
                "ra" => list(l.remove_all(name).iter()),
                _ => unreachable!(),
            });
        }
        format!("{} | {}", outs.join(";"), show_headers(&l))
    });
    ctx.emit("c14", &[init, ops], &observed);
}

fn res(r: Result<AsciiString, String>) -> String {
    match r {
        Ok(a) => format!("ok:{}", hex(a.as_bytes())),
        Err(_) => "err".to_string(),
    }
}

/// Every `TryFrom` constructor of `AsciiString` on the UTF-8 string `input` (hex).
pub fn case_ascii(ctx: &mut Ctx, ctor: &str, input: &str) {
    let text = String::from_utf8(unhex(input)).unwrap();
    let ctor_o = ctor.to_string();
    let observed = guard(move || match ctor_o.as_str() {
        "char" => res(AsciiString::try_from(text.chars().next().unwrap())),
        "String" => res(AsciiString::try_from(text.clone())),
        "&String" => res(AsciiString::try_from(&text)),
        "&str" => res(AsciiString::try_from(text.as_str())),
        "&mut str" => {
            let mut t = text.clone();
            res(AsciiString::try_from(t.as_mut_str()))
        }
        "Box<str>" => res(AsciiString::try_from(text.clone().into_boxed_str())),
        "CowB" => res(AsciiString::try_from(Cow::Borrowed(text.as_str()))),
        "CowO" => res(AsciiString::try_from(Cow::<str>::Owned(text.clone()))),
        _ => unreachable!(),
    });
    ctx.emit("c14a", &[ctor, input], &observed);
}

/// Numeric `From` conversions yield the decimal ASCII rendering.
pub fn case_num(ctx: &mut Ctx, ty: &str, val: &str) {
    let v: i128 = val.parse().unwrap();
    let a: AsciiString = match ty {
        "i8" => (v as i8).into(),
        "u8" => (v as u8).into(),
        "i16" => (v as i16).into(),
        "u16" => (v as u16).into(),
        "i32" => (v as i32).into(),
        "u32" => (v as u32).into(),
        "i64" => (v as i64).into(),
        "u64" => (v as u64).into(),
        "usize" => (v as usize).into(),
        _ => unreachable!(),
    };
    ctx.emit("c14n", &[ty, val], &format!("ok:{}", hex(a.as_bytes())));
}

const SPELL: [&str; 6] = ["a", "A", "b", "B", "c", "C"];

fn enum_collections(max_fields: usize) -> Vec<String> {
    // all sequences of ≤ max_fields names over the 6 spellings, values pairwise distinct
    let mut out = vec![String::new()];
    let mut frontier: Vec<Vec<usize>> = vec![vec![]];
    for _ in 0..max_fields {
        let mut next = Vec::new();
        for c in &frontier {
            for i in 0..6 {
                let mut d = c.clone();
                d.push(i);
                out.push(
                    d.iter()
                        .enumerate()
                        .map(|(k, &n)| format!("{}:{}", hex(SPELL[n].as_bytes()), hex(format!("{}", k + 1).as_bytes())))
                        .collect::<Vec<_>>()
                        .join(","),
                );
                next.push(d);
            }
        }
        frontier = next;
    }
    out
}

fn enum_op_seqs(names: &[&str], max_ops: usize) -> Vec<String> {
    let mut alphabet = Vec::new();
    for op in ["go", "ga", "ro", "ra"] {
        for n in names {
            alphabet.push(format!("{}:{}", op, hex(n.as_bytes())));
        }
    }
    let mut out = vec![String::new()];
    let mut frontier = vec![String::new()];
    for _ in 0..max_ops {
        let mut next = Vec::new();
        for p in &frontier {
            for a in &alphabet {
                let q = if p.is_empty() { a.clone() } else { format!("{p};{a}") };
                out.push(q.clone());
                next.push(q);
            }
        }
        frontier = next;
    }
    out
}

pub fn run(ctx: &mut Ctx) {
    let mut idx = 0u64;
    // (1) exhaustive small scopes: initial collection x operation suffix
    let scopes: Vec<(usize, Vec<&str>, usize)> = if ctx.thorough() {
        vec![(5, SPELL.to_vec(), 2), (4, vec!["a", "A", "b"], 3)]
    } else {
        vec![(4, vec!["a", "A", "b"], 2), (5, vec!["A", "b"], 1)]
    };
    for (max_fields, names, max_ops) in scopes {
        let cols = enum_collections(max_fields);
        let seqs = enum_op_seqs(&names, max_ops);
        for c in &cols {
            for q in &seqs {
                idx += 1;
                if ctx.mine(idx) {
                    case_ops(ctx, c, q);
                }
            }
        }
    }
    // (2) random longer sequences over all five operations, up to 8 initial fields
    let mut rng = Rng::new(ctx.seed);
    let n_random = if ctx.thorough() { 200_000 } else { 20_000 };
    let pool = ["a", "A", "b", "B", "c", "C", "Content-Type", "content-type", "x-y", "X-Y", ""];
    for _ in 0..n_random {
        let nf = rng.below(9) as usize;
        let mut val = 0;
        let mut fields = Vec::new();
        // one case in four draws its values from two spellings only: repeated fields that are byte-identical
        let few_values = rng.chance(1, 4);
        for _ in 0..nf {
            val += 1;
            let v = if few_values { format!("w{}", rng.below(2)) } else { format!("v{val}") };
            fields.push(format!("{}:{}", hex(rng.pick(&pool).as_bytes()), hex(v.as_bytes())));
        }
        let nops = rng.range(1, 12) as usize;
        let mut ops = Vec::new();
        for _ in 0..nops {
            let name = hex(rng.pick(&pool).as_bytes());
            ops.push(match rng.below(5) {
                0 => {
                    val += 1;
                    let v = if few_values { format!("w{}", rng.below(2)) } else { format!("v{val}") };
                    format!("add:{}:{}", name, hex(v.as_bytes()))
                }
                1 => format!("go:{name}"),
                2 => format!("ga:{name}"),
                3 => format!("ro:{name}"),
                _ => format!("ra:{name}"),
            });
        }
        idx += 1;
        if ctx.mine(idx) {
            case_ops(ctx, &fields.join(","), &ops.join(";"));
        }
    }
    // (2b) names that differ only in one non-letter byte, in particular by bit 5 (^ ~, | \, ` @, _ DEL, digits and controls):
    // only ASCII letters fold; every ASCII byte x its partner under each single-bit flip, looked up and removed both ways
    for b in 0u8..128 {
        for bit in [0x20u8, 0x40, 0x01, 0x10] {
            let p = b ^ bit;
            if p >= 128 { continue; }
            let n1 = hex(&[b'n', b, b'z']);
            let n2 = hex(&[b'n', p, b'z']);
            let fields = format!("{n1}:{},{n2}:{},{n1}:{}", hex(b"1"), hex(b"2"), hex(b"3"));
            for ops in [format!("ga:{n1};go:{n2};ra:{n2};ga:{n1}"), format!("go:{n1};ro:{n2};ga:{n2};ra:{n1}")] {
                idx += 1;
                if ctx.mine(idx) { case_ops(ctx, &fields, &ops); }
            }
        }
    }
    // (3) AsciiString constructors on ASCII and non-ASCII input
    let inputs: Vec<String> = vec![
        "".into(), "a".into(), "abc XYZ 09~".into(), "\u{7f}".into(), "\u{80}".into(), "é".into(),
        "a\u{e9}b".into(), "€".into(), "\u{10000}".into(), "ab\u{0}c".into(), "\r\n".into(), "x\u{ff}".into(),
    ];
    for ctor in ["char", "String", "&String", "&str", "&mut str", "Box<str>", "CowB", "CowO"] {
        for inp in &inputs {
            if ctor == "char" && inp.chars().count() != 1 {
                continue;
            }
            idx += 1;
            if ctx.mine(idx) {
                case_ascii(ctx, ctor, &hex(inp.as_bytes()));
            }
        }
    }
    for _ in 0..2000 {
        let n = rng.below(6) as usize;
        let t: String = (0..n)
            .map(|_| char::from_u32(if rng.chance(3, 4) { rng.below(128) as u32 } else { rng.range(128, 0x2000) as u32 }).unwrap_or('x'))
            .collect();
        let ctor = *rng.pick(&["String", "&String", "&str", "&mut str", "Box<str>", "CowB", "CowO"]);
        idx += 1;
        if ctx.mine(idx) {
            case_ascii(ctx, ctor, &hex(t.as_bytes()));
        }
    }
    // (4) numeric conversions
    let nums: Vec<(&str, Vec<i128>)> = vec![
        ("i8", vec![i8::MIN as i128, -1, 0, 1, i8::MAX as i128]),
        ("u8", vec![0, 1, u8::MAX as i128]),
        ("i16", vec![i16::MIN as i128, -1, 0, i16::MAX as i128]),
        ("u16", vec![0, u16::MAX as i128]),
        ("i32", vec![i32::MIN as i128, -1, 0, i32::MAX as i128]),
        ("u32", vec![0, u32::MAX as i128]),
        ("i64", vec![i64::MIN as i128, -1, 0, i64::MAX as i128]),
        ("u64", vec![0, 10, u64::MAX as i128]),
        ("usize", vec![0, 123, usize::MAX as i128]),
    ];
    for (ty, vals) in nums {
        for v in vals {
            idx += 1;
            if ctx.mine(idx) {
                case_num(ctx, ty, &v.to_string());
            }
        }
    }
}
