//! C16: DateTime::new / iso8601_utc / Add<Duration>.
use crate::gen::Rng;
use crate::{guard, Ctx};
use servlin::internal::{DateTime, FormatTime};
use std::time::{Duration, UNIX_EPOCH};

fn show(dt: &DateTime) -> String {
    format!("{} {} {} {} {} {}", dt.year, dt.month, dt.day, dt.hour, dt.min, dt.sec)
}

pub fn case_new(ctx: &mut Ctx, secs: &str) {
    let s: u64 = secs.parse().unwrap();
    let obs = guard(move || {
        let dt = DateTime::new(s as i64);
        let iso = (UNIX_EPOCH + Duration::from_secs(s)).iso8601_utc();
        format!("{} {}", show(&dt), iso)
    });
    ctx.emit("c16n", &[secs], &obs);
}

/// The three places where the library renders an instant (`secs` + `nanos` after the epoch): `SystemTime::iso8601_utc`,
/// a cookie's `Expires` attribute, and the `time` member of a log line.
pub fn case_funnels(ctx: &mut Ctx, secs: &str, nanos: &str) {
    let s: u64 = secs.parse().unwrap();
    let n: u32 = nanos.parse().unwrap();
    let obs = guard(move || {
        let t = UNIX_EPOCH + Duration::new(s, n);
        let iso = t.iso8601_utc();
        let cookie = servlin::Cookie::new("k", servlin::AsciiString::try_from("v").unwrap()).with_expires(t).to_string();
        let expires = cookie.split("; ").find_map(|a| a.strip_prefix("Expires=")).unwrap_or("-").to_string();
        // the log line of an event created at that instant, through the process's captured logger
        static LOGGER: std::sync::OnceLock<std::sync::Mutex<std::sync::mpsc::Receiver<servlin::log::internal::LogEvent>>> = std::sync::OnceLock::new();
        let rx = LOGGER.get_or_init(|| {
            let (tx, rx) = std::sync::mpsc::sync_channel(16);
            std::mem::forget(servlin::log::set_global_logger(tx).expect("logger"));
            std::sync::Mutex::new(rx)
        });
        let rx = rx.lock().unwrap_or_else(std::sync::PoisonError::into_inner);
        // `time_ns` is a u64 of nanoseconds: the library documents a panic for instants from the year 2554 on (`epoch_ns`);
        // the log-line funnel is exercised below that
        let logged = if (s as u128) * 1_000_000_000 + (n as u128) > u64::MAX as u128 { "-".to_string() } else {
            let _ = servlin::log::internal::log(t, servlin::log::Level::Info, ());
            let line = match rx.recv_timeout(Duration::from_secs(2)) {
                Ok(ev) => { let mut v = Vec::new(); let _ = ev.write_jsonl(&mut v); String::from_utf8_lossy(&v).to_string() }
                Err(_) => String::new(),
            };
            line.split("\"time\":\"").nth(1).and_then(|r| r.split('"').next()).unwrap_or("?").to_string()
        };
        format!("{iso} {expires} {logged}")
    });
    ctx.emit("c16f", &[secs, nanos], &obs);
}

pub fn case_add(ctx: &mut Ctx, dt: &str, dur: &str) {
    let f: Vec<i64> = dt.split(' ').map(|x| x.parse().unwrap()).collect();
    // `<secs>` or `<secs>+<nanos>`: a broken-down time names a whole second, so the sub-second part of the duration is dropped
    let (ds, dn) = dur.split_once('+').unwrap_or((dur, "0"));
    let d: u64 = ds.parse().unwrap();
    let n: u32 = dn.parse().unwrap();
    let obs = guard(move || {
        let start = DateTime { year: f[0], month: f[1], day: f[2], hour: f[3], min: f[4], sec: f[5] };
        show(&(start + Duration::new(d, n)))
    });
    ctx.emit("c16a", &[dt, dur], &obs);
}

fn is_leap(y: i64) -> bool {
    y % 400 == 0 || (y % 100 != 0 && y % 4 == 0)
}
fn mlen(y: i64, m: i64) -> i64 {
    match m {
        2 => if is_leap(y) { 29 } else { 28 },
        4 | 6 | 9 | 11 => 30,
        _ => 31,
    }
}

pub fn run(ctx: &mut Ctx) {
    let mut rng = Rng::new(ctx.seed);
    let mut idx = 0u64;
    let mut emit_new = |ctx: &mut Ctx, s: u64| {
        idx += 1;
        if ctx.mine(idx) {
            case_new(ctx, &s.to_string());
        }
    };
    let day = 86400u64;
    let last_day: u64 = 2_932_896; // 9999-12-31 is day number 2932896 since the epoch
    let sods: [u64; 7] = [0, 1, 59, 60, 3599, 3600, 86399];
    // (1) day boundaries
    let full_until = if ctx.thorough() { last_day } else { 161_000 }; // quick: through year 2410
    for d in 0..=full_until {
        if ctx.thorough() {
            for sod in sods {
                emit_new(ctx, d * day + sod);
            }
        } else {
            emit_new(ctx, d * day);
            emit_new(ctx, d * day + 86399);
            emit_new(ctx, d * day + sods[(d % 5 + 1) as usize]);
        }
    }
    // (2) around every year start and the end of every February through 9999 (walk the calendar)
    let mut dn: u64 = 0;
    for y in 1970..=9999i64 {
        let feb28 = dn + 31 + 27;
        for base in [dn, feb28, feb28 + 1, feb28 + 2] {
            for delta in [-1i64, 0, 1, 86399, 86400] {
                let s = (base * day) as i64 + delta;
                if s >= 0 {
                    emit_new(ctx, s as u64);
                }
            }
        }
        dn += if is_leap(y) { 366 } else { 365 };
    }
    // (3) every k-th second of selected days (leap day, century, 400-year boundary, year 9999)
    let step = if ctx.thorough() { 1 } else { 61 };
    for base_day in [0u64, 789, 11016, 11017, 47540, 47541, 2_932_896, 19_782] {
        let mut s = 0;
        while s < 86400 {
            emit_new(ctx, base_day * day + s);
            s += step;
        }
    }
    // (4) random instants through year 9999 and a few beyond
    let n = if ctx.thorough() { 300_000 } else { 20_000 };
    for _ in 0..n {
        emit_new(ctx, rng.below(253_402_300_800));
    }
    for s in [253_402_300_799u64, 253_402_300_800, 300_000_000_000, 1 << 40] {
        emit_new(ctx, s);
    }
    // (6) the rendering funnels with sub-second parts (the fraction never moves an instant into the next second) and at the
    //     end of the representable range
    let mut idx3 = 0u64;
    let nanos: [u32; 7] = [0, 1, 500_000_000, 999_999_000, 999_999_900, 999_999_999, 123_456_789];
    let mut instants: Vec<u64> = vec![0, 1, 59, 86399, 86400, 951_782_399, 951_782_400, 1_735_689_599, 1_735_689_600, 4_102_444_799, 13_574_563_199,
        253_402_214_399, 253_402_214_400, 253_402_257_600, 253_402_300_798, 253_402_300_799];
    for _ in 0..(if ctx.thorough() { 20_000 } else { 1_500 }) { instants.push(rng.below(253_402_300_800)); }
    for (i, s) in instants.iter().enumerate() {
        for (j, n) in nanos.iter().enumerate() {
            if i < 16 || (i + j) % 7 == 0 {
                idx3 += 1;
                if ctx.mine(idx3) { case_funnels(ctx, &s.to_string(), &n.to_string()); }
            }
        }
    }
    // (5) additions: every month start 1970..2405 (and day 28 / last day) x durations
    let durs: [u64; 9] = [0, 1, day, 365 * day, 366 * day, 367 * day, 1461 * day, 36524 * day, 146_097 * day];
    let mut idx2 = 0u64;
    let last_year = if ctx.thorough() { 2405 } else { 2405 };
    for y in 1970..=last_year {
        for m in 1..=12 {
            let days: Vec<i64> = if ctx.thorough() { vec![1, 15, 28, mlen(y, m)] } else { vec![1, mlen(y, m)] };
            for d in days {
                let tod = if (y + m) % 3 == 0 { (23, 59, 59) } else { (0, 0, 0) };
                let dt = format!("{y} {m} {d} {} {} {}", tod.0, tod.1, tod.2);
                let mut ds: Vec<u64> = durs.to_vec();
                ds.push(rng.below(400 * 366 * day));
                ds.push(rng.below(3 * 366 * day));
                for du in ds {
                    idx2 += 1;
                    if ctx.mine(idx2) {
                        let sub = [0u32, 0, 1, 499_999_999, 500_000_000, 999_999_999][(idx2 % 6) as usize];
                        case_add(ctx, &dt, &if sub == 0 { du.to_string() } else { format!("{du}+{sub}") });
                    }
                }
            }
        }
    }
}
