//! C05: HttpConn protocol-state contract for every sequence of API calls (loopback socket).
use crate::gen::{dec, enc, hex, Rng};
use crate::io_script::block_on;
use crate::net::{pair, read_transcript, send_script};
use crate::{guard, Ctx};
use servlin::internal::{ReadState, WriteState};
use servlin::{AsciiString, ContentType, Request, RequestBody, Response};

static FILE_SEQ: std::sync::atomic::AtomicU64 = std::sync::atomic::AtomicU64::new(0);

pub fn show_states(conn: &servlin::HttpConn) -> String {
    let rs = match &conn.read_state {
        ReadState::Head => "H".to_string(),
        ReadState::Body { len, expect_continue, chunked, gzip } => format!(
            "B{}{}{}{}",
            len.map_or("-".to_string(), |n| n.to_string()),
            if *expect_continue { "e" } else { "" },
            if *chunked { "c" } else { "" },
            if *gzip { "g" } else { "" }
        ),
        ReadState::Shutdown => "S".to_string(),
    };
    let ws = match conn.write_state { WriteState::None => "N", WriteState::Response => "R", WriteState::Shutdown => "S" };
    format!("{rs},{ws},{}", u8::from(conn.is_ready()))
}

pub fn show_req(req: &Request) -> String {
    let body = match &req.body {
        RequestBody::PendingKnown(n) => format!("K{n}"),
        RequestBody::PendingUnknown => "U".to_string(),
        other => format!("L{}", other.len().unwrap_or(0)),
    };
    format!("req:{}:{}:{}", hex(req.method.as_bytes()), hex(req.url.path().as_bytes()), body)
}

pub fn show_body(b: &RequestBody) -> String {
    match b {
        RequestBody::Vec(v) => format!("vec:{}", enc(v)),
        RequestBody::TempFile(tf, len) => format!("file:{}:{}", len, enc(&std::fs::read(tf.path()).unwrap_or_default())),
        RequestBody::StaticStr(s) => format!("vec:{}", enc(s.as_bytes())),
        other => format!("other:{other:?}"),
    }
}

/// `wr:<code>:<variant>`
pub fn make_response(code: u16, variant: &str) -> Response {
    match variant {
        "n" => Response::text(code, "body-of-response"),
        "e" => Response::new(code),
        "d" => Response::drop_connection(),
        "g" => Response::get_body_and_reprocess(10),
        // the response carries a `connection` field of its own
        "k" => Response::new(code).with_header("Connection", AsciiString::try_from("keep-alive").unwrap()),
        "u" => Response::text(code, "x").with_header("connection", AsciiString::try_from("Upgrade").unwrap()).with_header("x-a", AsciiString::try_from("1").unwrap()),
        "c" => Response::text(code, "x").with_header("Content-Length", AsciiString::try_from("1").unwrap()),
        "t" => Response::new(code).with_type(ContentType::Html).with_header("content-type", AsciiString::try_from("a/b").unwrap()),
        v if v.starts_with('f') => {
            // f<declared>-<actual|m>: a File body of declared length whose file holds `actual` bytes (m = missing)
            let (d, a) = v[1..].split_once('-').unwrap();
            let declared: u64 = d.parse().unwrap();
            let path = super::c06::scratch_dir().join(format!("c08c-{}-{}", std::process::id(), FILE_SEQ.fetch_add(1, std::sync::atomic::Ordering::SeqCst)));
            let _ = std::fs::remove_file(&path);
            if a != "m" {
                let n: usize = a.parse().unwrap();
                std::fs::write(&path, (0..n).map(|i| b'a' + (i % 26) as u8).collect::<Vec<u8>>()).unwrap();
            }
            Response::new(code).with_type(ContentType::OctetStream).with_body(servlin::ResponseBody::File(path, declared))
        }
        "s" => {
            let (mut sender, r) = Response::event_stream();
            sender.send(servlin::Event::Message("tick".to_string()));
            drop(sender);
            r.with_status(code)
        }
        _ => panic!("variant"),
    }
}

pub fn err_str<T>(r: &Result<T, servlin::internal::HttpError>) -> Option<String> {
    r.as_ref().err().map(|e| format!("err:{}", super::req::err_name(e)))
}

pub fn case(ctx: &mut Ctx, script: &str, ops: &str) {
    case_m(ctx, script, ops, "");
}

/// `mode` = "rst": the client sends the script, waits until the server has written something (the interim response), and
/// then closes without reading it: the server's next read fails with a reset instead of reporting the end of the stream.
pub fn case_m(ctx: &mut Ctx, script: &str, ops: &str, mode: &str) {
    let sc = dec(script);
    let ops_o = ops.to_string();
    let rst = mode == "rst";
    let obs = guard(move || {
        let crate::net::Pair { client: client0, conn } = pair();
        // (in `rst` mode the only handle of the client socket moves into the thread that closes it)
        let mut client_opt = Some(client0);
        struct P { client: Option<std::net::TcpStream>, conn: servlin::HttpConn }
        let mut resetter = None;
        if rst {
            use std::io::Write;
            let mut c2 = client_opt.take().unwrap();
            let _ = c2.write_all(&sc);
            resetter = Some(std::thread::spawn(move || {
                let _ = c2.set_read_timeout(Some(std::time::Duration::from_millis(1500)));
                let mut b = [0u8; 1];
                let _ = c2.peek(&mut b);
                std::thread::sleep(std::time::Duration::from_millis(40));
                drop(c2);
            }));
        } else {
            send_script(client_opt.as_mut().unwrap(), &sc);
        }
        let mut p = P { client: client_opt, conn };
        let dir = super::c06::scratch_dir().join("c05");
        std::fs::create_dir_all(&dir).unwrap();
        let mut outs = Vec::new();
        let mut held: Vec<RequestBody> = Vec::new();
        block_on(async {
            for op in ops_o.split(';').filter(|x| !x.is_empty()) {
                let parts: Vec<&str> = op.split(':').collect();
                let res = match parts[0] {
                    "rr" => { let r = p.conn.read_request().await; err_str(&r).unwrap_or_else(|| format!("ok:{}", show_req(r.as_ref().unwrap()))) }
                    "bv" => { let r = p.conn.read_body_to_vec().await; let s = err_str(&r).unwrap_or_else(|| format!("ok:{}", show_body(r.as_ref().unwrap()))); if let Ok(b) = r { held.push(b); } s }
                    "bf" => { let r = p.conn.read_body_to_file(&dir, parts[1].parse().unwrap()).await; let s = err_str(&r).unwrap_or_else(|| format!("ok:{}", show_body(r.as_ref().unwrap()))); if let Ok(b) = r { held.push(b); } s }
                    "wc" => { let r = p.conn.write_http_continue().await; err_str(&r).unwrap_or_else(|| "ok".to_string()) }
                    "wr" => { let resp = make_response(parts[1].parse().unwrap(), parts[2]); let r = p.conn.write_response(&resp).await; err_str(&r).unwrap_or_else(|| "ok".to_string()) }
                    "sw" => { p.conn.shutdown_write(); "ok".to_string() }
                    _ => panic!("op"),
                };
                outs.push(format!("{}({})", res, show_states(&p.conn)));
            }
        });
        drop(held);
        let client = p.client;
        drop(p.conn);
        let wire = match client { Some(mut c) => read_transcript(&mut c), None => Vec::new() };
        if let Some(h) = resetter { let _ = h.join(); }
        format!("{} wire={}", outs.join(";"), enc(&wire))
    });
    if mode.is_empty() { ctx.emit("c05", &[script, ops], &obs); } else { ctx.emit("c05", &[script, ops, mode], &obs); }
}

pub fn scripts() -> Vec<Vec<u8>> {
    vec![
        b"".to_vec(),
        b"GET /a HTTP/1.1\r\n\r\n".to_vec(),
        b"POST /b HTTP/1.1\r\ncontent-length: 5\r\n\r\nhello".to_vec(),
        b"POST /c HTTP/1.1\r\ncontent-length: 5\r\n\r\nhelloGET /next HTTP/1.1\r\n\r\n".to_vec(),
        b"PUT /d HTTP/1.1\r\nexpect: 100-continue\r\ncontent-length: 5\r\n\r\nhello".to_vec(),
        b"POST /e HTTP/1.1\r\n\r\nunknown-length-body".to_vec(),
        b"POST /f HTTP/1.1\r\ntransfer-encoding: chunked\r\n\r\n5\r\nhello\r\n0\r\n\r\n".to_vec(),
        b"POST /g HTTP/1.1\r\ncontent-length: 10\r\n\r\nhell".to_vec(),
        b"\x00\xffgarbage\r\n\r\n".to_vec(),
        b"POST /h HTTP/1.1\r\ntransfer-encoding: gzip\r\ncontent-length: 5\r\n\r\nhelloGET /n HTTP/1.1\r\n\r\n".to_vec(),
        // an explicit zero length, then a second request on the same connection
        b"GET /i HTTP/1.1\r\ncontent-length: 0\r\n\r\nGET /j HTTP/1.1\r\n\r\n".to_vec(),
        // chunked together with a zero length; expect with the body already in the same segment
        b"POST /k HTTP/1.1\r\ntransfer-encoding: chunked\r\ncontent-length: 0\r\n\r\n0\r\n\r\n".to_vec(),
        b"PUT /l HTTP/1.1\r\nexpect: 100-continue\r\n\r\nbody-without-length".to_vec(),
        // the client announces that it will close: no effect on the protocol state (interim responses in particular stay interim)
        b"PUT /m HTTP/1.1\r\nconnection: close\r\nexpect: 100-continue\r\ncontent-length: 5\r\n\r\nhello".to_vec(),
        b"GET /n HTTP/1.1\r\nConnection: close\r\n\r\nGET /o HTTP/1.1\r\n\r\n".to_vec(),
    ]
}

/// C03 at connection level: 1..8 messages concatenated on one stream; each is read, its body read (to memory or
/// to a file), answered; the next request must start exactly after the previous body.
pub fn run_c03b(ctx: &mut Ctx) {
    run_rst(ctx);
    let mut rng = Rng::new(ctx.seed.wrapping_add(33));
    let n = if ctx.thorough() { 20_000 } else { 2_500 };
    for i in 0..n {
        let k = rng.range(1, 8);
        let mut script = Vec::new();
        let mut ops: Vec<String> = Vec::new();
        for j in 0..k {
            let method = *rng.pick(&["GET", "POST", "PUT", "DELETE", "HEAD"]);
            let blen = *rng.pick(&[0usize, 1, 5, 17, 300]);
            let framing = rng.below(10);
            let mut head = format!("{method} /m{j} HTTP/1.1\r\n");
            let mut body: Vec<u8> = (0..blen).map(|x| b'a' + ((x + j as usize) % 26) as u8).collect();
            match framing {
                0 => head.push_str("transfer-encoding: chunked\r\n"),
                1 => head.push_str(&format!("transfer-encoding: gzip\r\ncontent-length: {blen}\r\n")),
                2 => head.push_str(&format!("content-length: {blen}\r\nexpect: 100-continue\r\n")),
                3 => { body.clear(); }
                4 if j + 1 == k => { head.push_str("transfer-encoding: chunked\r\ncontent-length: 0\r\n"); }
                5 if j + 1 == k => { head.push_str("expect: 100-continue\r\n"); }
                _ => head.push_str(&format!("content-length: {blen}\r\n")),
            }
            if rng.chance(1, 3) { head.push_str("x-pad: 1\r\n"); }
            head.push_str("\r\n");
            script.extend_from_slice(head.as_bytes());
            if j + 1 == k && rng.chance(1, 6) && !body.is_empty() {
                body.truncate(body.len() / 2); // last body truncated by EOF
            }
            script.extend_from_slice(&body);
            ops.push("rr".to_string());
            ops.push(match rng.below(4) { 0 => "bf:100000".to_string(), 1 => format!("bf:{}", blen), 2 => "bf:3".to_string(), _ => "bv".to_string() });
            ops.push(format!("wr:{}:e", *rng.pick(&[200u32, 204, 404])));
        }
        if ctx.mine(i) {
            case(ctx, &enc(&script), &ops.join(";"));
        }
    }
    // long pipelines: several connection buffers' worth of small messages in flight at once, so that single reads fill
    // the buffer completely and its tail holds the beginning of the next message
    let nl = if ctx.thorough() { 60 } else { 8 };
    for i in 0..nl {
        let k = rng.range(180, 700);
        let mut script = Vec::new();
        let mut ops: Vec<String> = Vec::new();
        for j in 0..k {
            let blen = *rng.pick(&[0usize, 0, 3, 11, 40]);
            let pad = "p".repeat(rng.below(30) as usize);
            let head = if blen == 0 { format!("GET /l{j}{pad} HTTP/1.1\r\n\r\n") } else { format!("POST /l{j}{pad} HTTP/1.1\r\ncontent-length: {blen}\r\n\r\n") };
            script.extend_from_slice(head.as_bytes());
            script.extend((0..blen).map(|x| b'a' + ((x + j as usize) % 26) as u8));
            ops.push("rr".to_string());
            if blen > 0 { ops.push("bv".to_string()); }
            ops.push("wr:200:e".to_string());
        }
        if ctx.mine(n + i) {
            case(ctx, &enc(&script), &ops.join(";"));
        }
    }
}

/// C20 clause "every 5xx that is sent is marked connection: close": every status code x body kinds.
pub fn run_c20c(ctx: &mut Ctx) {
    let script = enc(b"GET /x HTTP/1.1\r\n\r\n");
    let mut idx = 0u64;
    for code in 100..=999u32 {
        for v in ["e", "n", "s", "k", "u"] {
            idx += 1;
            if ctx.mine(idx) && (v == "e" || v == "n" || v == "s" || code % 100 < 4 || code % 7 == 0) {
                case(ctx, &script, &format!("rr;wr:{code}:{v};wr:200:e;rr"));
            }
        }
    }
}

/// C08 at connection level: body files truncated / missing; then an attempt to send a 500, then another read.
pub fn run_c08c(ctx: &mut Ctx) {
    let script = enc(b"GET /x HTTP/1.1\r\n\r\nGET /y HTTP/1.1\r\n\r\n");
    let mut idx = 0u64;
    for declared in [1u64, 2, 40, 1000, 70_000, 200_000] {
        let mut actuals: Vec<String> = vec!["m".into(), "0".into(), "1".into(), (declared / 2).to_string(), (declared - 1).to_string(), declared.to_string(), (declared + 3).to_string()];
        actuals.dedup();
        for a in actuals {
            for code in [200u32, 404, 503, 103] {
                for tail in ["wr:500:n;rr", "rr;wr:500:n", "wr:500:e;wr:200:n"] {
                    idx += 1;
                    if ctx.mine(idx) {
                        case(ctx, &script, &format!("rr;wr:{code}:f{declared}-{a};{tail}"));
                    }
                }
            }
        }
    }
}

/// C08 at connection level, pre-write refusals: a response of every class that is refused with nothing written, then the fallback.
pub fn run_c08d(ctx: &mut Ctx) {
    run_c08d_expect(ctx);
    let script = enc(b"GET /x HTTP/1.1\r\n\r\nGET /y HTTP/1.1\r\n\r\n");
    let mut idx = 0u64;
    for code in [200u32, 302, 404, 500, 503, 599] {
        for variant in ["c", "t", "g", "d"] {
            for tail in ["wr:500:n;rr", "wr:500:e;rr;wr:200:n", "wc;wr:200:n", "rr"] {
                idx += 1;
                if ctx.mine(idx) {
                    case(ctx, &script, &format!("rr;wr:{code}:{variant};{tail}"));
                }
            }
        }
    }
}

/// … the same after an interim `100 Continue` has already gone out for this request (the refused final response still has
/// sent nothing: the fallback must be possible)
pub fn run_c08d_expect(ctx: &mut Ctx) {
    let script = enc(b"PUT /d HTTP/1.1\r\nexpect: 100-continue\r\ncontent-length: 5\r\n\r\nhelloGET /y HTTP/1.1\r\n\r\n");
    let mut idx = 1000u64;
    for code in [200u32, 404, 500] {
        for variant in ["c", "t", "g", "d"] {
            for (read, tail) in [("bv", "wr:500:n;rr"), ("bf:100", "wr:500:e;rr;wr:200:n"), ("wc", "wr:500:n;rr")] {
                idx += 1;
                if ctx.mine(idx) {
                    case(ctx, &script, &format!("rr;{read};wr:{code}:{variant};{tail}"));
                }
            }
        }
    }
}

/// Bodies that end with a connection reset instead of end-of-stream (API level): a reset is an error, not the end of a body.
pub fn run_rst(ctx: &mut Ctx) {
    let nolen = enc(b"PUT /l HTTP/1.1\r\nexpect: 100-continue\r\n\r\nbody-without-length");
    let short = enc(b"PUT /d HTTP/1.1\r\nexpect: 100-continue\r\ncontent-length: 50\r\n\r\nhello");
    let mut idx = 2000u64;
    // (`sw` after the reset: the socket call fails on a connection the peer has reset — the write side counts as shut down all the same)
    for (script, opss) in [(&nolen, vec!["rr;bv", "rr;bf:100000", "rr;bf:5", "rr;bv;bv", "rr;bf:100000;rr", "rr;bv;sw;rr", "rr;bv;sw;wr:200:n;rr", "rr;bf:100000;sw;wc"]), (&short, vec!["rr;bv", "rr;bf:100", "rr;bv;rr", "rr;bv;sw;rr", "rr;bf:100;sw;wr:500:n"])] {
        for ops in opss {
            idx += 1;
            if ctx.mine(idx) { case_m(ctx, script, ops, "rst"); }
        }
    }
}

pub const OPS: [&str; 14] = ["rr", "bv", "bf:0", "bf:4", "bf:5", "bf:100000", "wc", "wr:100:e", "wr:200:n", "wr:404:n", "wr:500:n", "wr:200:d", "wr:200:c", "sw"];

pub fn run(ctx: &mut Ctx) {
    run_rst(ctx);
    let mut rng = Rng::new(ctx.seed.wrapping_add(5));
    let mut idx = 0u64;
    let depth = if ctx.thorough() { 4 } else { 3 };
    for sc in scripts() {
        let s = enc(&sc);
        // all op sequences up to `depth`
        let mut cur: Vec<usize> = vec![0];
        loop {
            idx += 1;
            if ctx.mine(idx) {
                let ops: Vec<&str> = cur.iter().map(|&i| OPS[i]).collect();
                case(ctx, &s, &ops.join(";"));
            }
            let mut pos = cur.len();
            loop {
                if pos == 0 { cur = vec![0; cur.len() + 1]; break; }
                pos -= 1;
                if cur[pos] + 1 < OPS.len() { cur[pos] += 1; for c in cur.iter_mut().skip(pos + 1) { *c = 0; } break; }
            }
            if cur.len() > depth { break; }
        }
    }
    // random depth-5..8 sequences, biased towards protocol-conforming prefixes
    // f<declared>-<actual>: file bodies that end early (the source fails after the head is on the wire) or are missing
    let extra = ["wr:503:e", "wr:102:e", "wr:200:s", "wr:301:e", "wr:200:t", "wr:599:n", "wr:200:g", "wr:200:f40-20", "wr:200:f40-m", "wr:404:f3-0", "wr:200:f5-5",
        // a 5xx (or 4xx) response that is refused before any byte is written must leave the connection usable for the fallback
        "wr:503:c", "wr:500:t", "wr:404:c", "wr:503:g", "wr:500:d"];
    let n = if ctx.thorough() { 40_000 } else { 4_000 };
    let scs = scripts();
    for _ in 0..n {
        idx += 1;
        let sc = rng.pick(&scs);
        let len = rng.range(4, 8);
        let ops: Vec<&str> = (0..len).map(|i| if i == 0 && rng.chance(2, 3) { "rr" } else if rng.chance(1, 6) { *rng.pick(&extra) } else { *rng.pick(&OPS) }).collect();
        if ctx.mine(idx) {
            case(ctx, &enc(sc), &ops.join(";"));
        }
    }
}
