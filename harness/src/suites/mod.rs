use crate::Ctx;
pub mod c01;
pub mod c02;
pub mod c03;
pub mod c04;
pub mod c05;
pub mod c06;
pub mod c07;
pub mod req;
pub mod c11;
pub mod c12;
pub mod c14;
pub mod c15;
pub mod c16;
pub mod c17;
pub mod c18;
pub mod c19;
pub mod c20;
pub mod tables;

pub fn run(ctx: &mut Ctx, suite: &str) {
    match suite {
        "c01" => c01::run(ctx),
        "c01s" => c01::run_pipelines(ctx),
        "c02" => c02::run(ctx),
        "c14r" => c02::run_c14r(ctx),
        "c03" => c03::run(ctx),
        "c04" => c04::run(ctx),
        "c09" => c04::run_c09(ctx),
        "c10" => c04::run_c10(ctx),
        "c05" => c05::run(ctx),
        "c20c" => c05::run_c20c(ctx),
        "c20x" => c20::run_c20x(ctx),
        "c03b" => c05::run_c03b(ctx),
        "c08c" => c05::run_c08c(ctx),
        "c08d" => c05::run_c08d(ctx),
        "c06" => c06::run(ctx),
        "c08" => c06::run_c08(ctx),
        "c07" => c07::run(ctx),
        "c11" => c11::run(ctx),
        "c11c" => c11::run_ctor(ctx),
        "c14" => c14::run(ctx),
        "c15" => c15::run(ctx),
        "c16" => c16::run(ctx),
        "c17" => c17::run(ctx),
        "c18" => c18::run(ctx),
        "c12t" => c12::run_tokens(ctx),
        "c12" => c12::run_limit(ctx),
        "c12e" => c12::run_emfile(ctx),
        "c13" => c12::run_shutdown(ctx),
        "c13e" => c12::run_shutdown_emfile(ctx),
        "c13p" => c12::run_permit(ctx),
        "c13w" => c12::run_c13w(ctx),
        "c13f" => c12::run_c13f(ctx),
        "c12s" => c12::run_streams(ctx),
        "c01k" => c12::run_c01k(ctx),
        "c13b" => c12::run_shutdown_busy(ctx),
        "c12i" => c12::run_emfile_idle(ctx),
        "c11w" => c06::run_c11w(ctx),
        "c10r" => c12::run_upload_revoked(ctx),
        "c20w" => c04::run_c20w(ctx),
        "c01l" => c04::run_c01l(ctx),
        "c01n" => c04::run_c01n(ctx),
        "c04e" => c04::run_c04e(ctx),
        "c04p" => c04::run_c04p(ctx),
        "c10s" => c04::run_c10s(ctx),
        "c08s" => c12::run_stall(ctx),
        "c19" => c19::run(ctx),
        "c19a" => c19::run_age(ctx),
        "c20" => c20::run(ctx),
        "tables" => tables::gen(),
        "headtab" => tables::gen_head(),
        _ => {
            eprintln!("unknown suite {suite}");
            std::process::exit(2);
        }
    }
}

/// Re-runs one case (given by its suite tag and input fields) against the implementation.
pub fn replay(ctx: &mut Ctx, tag: &str, args: &[&str]) {
    match tag {
        "c01" | "c02" | "c03" | "c15r" | "c14r" => req::case(ctx, tag, args[0], args[1], args[2], args[3], args[4], args[5]),
        "c01s" => req::case_seq(ctx, args[0], args[1], args[2], args[3], args[4]),
        "c04" | "c09" | "c10" => c04::case(ctx, tag, args[0], args[1], args[2], args[3]),
        "c05" => c05::case_m(ctx, args[0], args[1], args.get(2).copied().unwrap_or("")),
        "c06" | "c08" => c06::case(ctx, tag, args),
        "c07" => c07::case_f(ctx, args[0], args[1], args[2], args[3], args[4], args.get(5).copied().unwrap_or("-")),
        "c11" => c11::case(ctx, args[0]),
        "c11c" => c11::case_ctor(ctx, args[0], args[1]),
        "c11t" => c11::case_stress(ctx, args[0], args[1]),
        "c14" => c14::case_ops(ctx, args[0], args[1]),
        "c14a" => c14::case_ascii(ctx, args[0], args[1]),
        "c14n" => c14::case_num(ctx, args[0], args[1]),
        "c15s" => c15::case_set(ctx, args),
        "c16n" => c16::case_new(ctx, args[0]),
        "c16f" => c16::case_funnels(ctx, args[0], args[1]),
        "c16a" => c16::case_add(ctx, args[0], args[1]),
        "c17" => c17::case(ctx, args[0], args[1]),
        "c18" => c18::case(ctx, args[0]),
        "c12t" => c12::case_tokens(ctx, args[0], args[1]),
        "c12" => c12::case_limit(ctx, args[0], args[1], args[2]),
        "c12e" => c12::case_emfile(ctx, args[0], args[1], args.get(2).copied().unwrap_or("live"), args.get(3).copied().unwrap_or("250")),
        "c12b" => c12::case_tokens_big(ctx, args[0], args[1]),
        "c13e" => c12::case_shutdown_emfile(ctx, args[0], args[1]),
        "c13p" => c12::case_permit(ctx, args[0], args[1]),
        "c13b" => c12::case_shutdown_busy(ctx, args[0]),
        "c12i" => c12::case_emfile_idle(ctx, args[0]),
        "c12s" => c12::case_streams(ctx, args[0]),
        "c13" => c12::case_shutdown(ctx, args[0], args[1], args[2]),
        "c08s" => c12::case_stall(ctx, args[0]),
        "c19s" => c19::case_set(ctx, args[0], args[1]),
        "c19w" => c19::case_writer(ctx, args[0], args[1], args[2], args[3], args[4]),
        "c20e" => c20::case_error(ctx, args[0]),
        "c20x" => c20::case_x(ctx, args[0]),
        "c20s" => c20::case_status(ctx, args[0], args[1], args.get(2).copied().unwrap_or("0")),
        _ => eprintln!("unknown case tag {tag}"),
    }
}
