//! Shared by C01/C02/C03/C14/C15: run `read_http_request` on a scripted stream and canonicalise.
use crate::gen::{dec, enc, hex, parse_sizes};
use crate::io_script::{block_on, ScriptReader};
use crate::{guard, Ctx};
use fixed_buffer::FixedBuf;
use servlin::internal::{read_http_request, HttpError};
use servlin::{ContentType, Request, RequestBody};
use std::net::SocketAddr;
use url::Url;

pub fn err_name(e: &HttpError) -> String {
    let d = format!("{e:?}");
    d.split('(').next().unwrap().to_string()
}

pub fn show_ctype(c: &ContentType) -> String {
    match c {
        ContentType::None => "N".to_string(),
        ContentType::Str(s) => format!("O:{}", hex(s.as_bytes())),
        ContentType::String(s) => format!("O:{}", hex(s.as_bytes())),
        other => format!("K:{other:?}"),
    }
}

pub fn show_request(req: &Request) -> String {
    let mut cookies: Vec<(Vec<u8>, Vec<u8>)> = req.cookies.iter().map(|(k, v)| (k.as_bytes().to_vec(), v.as_bytes().to_vec())).collect();
    cookies.sort();
    let body = match &req.body {
        RequestBody::PendingKnown(n) => format!("K:{n}"),
        RequestBody::PendingUnknown => "U".to_string(),
        other => match other.len() {
            Some(0) => "E".to_string(),
            _ => "?".to_string(),
        },
    };
    format!(
        "ok m={} p={} q={} h={} ck={} ct={} ex={} ch={} gz={} cl={} body={}",
        hex(req.method.as_bytes()),
        hex(req.url.path().as_bytes()),
        req.url.query().map_or("-".to_string(), |q| format!("S{}", hex(q.as_bytes()))),
        req.headers.iter().map(|h| format!("{}:{}", hex(h.name.as_bytes()), hex(h.value.as_bytes()))).collect::<Vec<_>>().join(","),
        cookies.iter().map(|(k, v)| format!("{}={}", hex(k), hex(v))).collect::<Vec<_>>().join(","),
        show_ctype(&req.content_type),
        u8::from(req.expect_continue),
        u8::from(req.chunked),
        u8::from(req.gzip),
        req.content_length.map_or("-".to_string(), |n| n.to_string()),
        body
    )
}

/// What servlin's call of the `url` crate answers for `target`: `U:<path>:<query|->` or `E`;
/// `-` when the target is not valid UTF-8 (the call cannot be made).
pub fn url_info(target: &[u8]) -> String {
    match std::str::from_utf8(target) {
        Err(_) => "-".to_string(),
        Ok(t) => match Url::parse(&format!("http://unknown{t}")) {
            Ok(u) => format!("U:{}:{}", hex(u.path().as_bytes()), u.query().map_or("-".to_string(), |q| format!("S{}", hex(q.as_bytes())))),
            Err(_) => "E".to_string(),
        },
    }
}

/// The candidate target: second SP-separated token of the first line of the first `cap` bytes.
pub fn candidate_target(all: &[u8], cap: usize) -> Vec<u8> {
    let vis = &all[..all.len().min(cap)];
    let line_end = vis.iter().position(|b| *b == b'\n').unwrap_or(vis.len());
    let line = &vis[..line_end];
    let mut parts = line.split(|b| *b == b' ');
    let _ = parts.next();
    let t = parts.next().unwrap_or(&[]).to_vec();
    match t.last() {
        Some(b'\r') => t[..t.len() - 1].to_vec(),
        _ => t,
    }
}

fn run_with<const N: usize>(buf0: &[u8], reader: &mut ScriptReader) -> (Result<Request, HttpError>, Vec<u8>) {
    let mut buf: FixedBuf<N> = FixedBuf::new();
    // put the initial bytes at a non-zero read index so that `shift()` matters
    if !buf0.is_empty() {
        buf.write_bytes(b"x").unwrap();
        buf.write_bytes(buf0).unwrap();
        buf.try_read_exact(1).unwrap();
    }
    let addr: SocketAddr = "127.0.0.1:1".parse().unwrap();
    let r = block_on(read_http_request(addr, &mut buf, &mut *reader));
    (r, buf.readable().to_vec())
}

/// args: tag, cap, initial buffer, stream, end (eof|err), read sizes, pending period
pub fn case(ctx: &mut Ctx, tag: &str, cap: &str, buf0: &str, stream: &str, end: &str, sizes: &str, pending: &str) {
    let capn: usize = cap.parse().unwrap();
    let b0 = dec(buf0);
    let st = dec(stream);
    let mut all = b0.clone();
    all.extend_from_slice(&st);
    let info = url_info(&candidate_target(&all, capn));
    let rs = parse_sizes(sizes);
    let end_err = end == "err";
    let pend: u64 = pending.parse().unwrap();
    let obs = guard(move || {
        let mut reader = ScriptReader::new(st, rs, end_err, pend);
        let (r, left_buf) = match capn {
            16 => run_with::<16>(&b0, &mut reader),
            64 => run_with::<64>(&b0, &mut reader),
            256 => run_with::<256>(&b0, &mut reader),
            8192 => run_with::<8192>(&b0, &mut reader),
            _ => panic!("unsupported cap"),
        };
        let mut left = left_buf;
        left.extend_from_slice(&reader.data[reader.pos..]);
        match r {
            Ok(req) => format!("{} left={}", show_request(&req), enc(&left)),
            Err(e) => format!("err:{} left={}", err_name(&e), enc(&left)),
        }
    });
    ctx.emit(tag, &[cap, buf0, stream, end, sizes, pending, &info], &obs);
}

fn seq_with<const N: usize>(reader: &mut ScriptReader) -> (Vec<String>, Vec<u8>) {
    let mut buf: FixedBuf<N> = FixedBuf::new();
    let addr: SocketAddr = "127.0.0.1:1".parse().unwrap();
    let mut outs = Vec::new();
    loop {
        match block_on(read_http_request(addr, &mut buf, &mut *reader)) {
            Ok(req) => outs.push(show_request(&req)),
            Err(e) => {
                outs.push(format!("err:{}", err_name(&e)));
                break;
            }
        }
        if outs.len() > 64 {
            break;
        }
    }
    (outs, buf.readable().to_vec())
}

/// A sequence of requests read through ONE buffer (all of them bodiless): outcomes joined by `|`.
pub fn case_seq(ctx: &mut Ctx, cap: &str, stream: &str, end: &str, sizes: &str, pending: &str) {
    let capn: usize = cap.parse().unwrap();
    let st = dec(stream);
    let rs = parse_sizes(sizes);
    let end_err = end == "err";
    let pend: u64 = pending.parse().unwrap();
    let obs = guard(move || {
        let mut reader = ScriptReader::new(st, rs, end_err, pend);
        let (outs, left_buf) = match capn {
            64 => seq_with::<64>(&mut reader),
            256 => seq_with::<256>(&mut reader),
            8192 => seq_with::<8192>(&mut reader),
            _ => panic!("unsupported cap"),
        };
        let mut left = left_buf;
        left.extend_from_slice(&reader.data[reader.pos..]);
        format!("{} left={}", outs.join("|"), enc(&left))
    });
    ctx.emit("c01s", &[cap, stream, end, sizes, pending], &obs);
}

pub fn emit(ctx: &mut Ctx, tag: &str, cap: usize, buf0: &[u8], stream: &[u8], end: &str, sizes: &[usize], pending: u64) {
    case(ctx, tag, &cap.to_string(), &enc(buf0), &enc(stream), end, &crate::gen::sizes_str(sizes), &pending.to_string());
}
