//! C17: every log line is one valid JSON object preserving the tag values.
use crate::gen::{hex, unhex, Rng};
use crate::{guard, Ctx};
use servlin::log::internal::{LogEvent, Tag, TagValue};
use servlin::log::Level;

fn leak(s: String) -> &'static str {
    Box::leak(s.into_boxed_str())
}

/// tag spec: `<namehex>=<kind>:<payload>`; kinds s,t (string / static str, hex utf8), b (0/1), n (null),
/// i8..i128,u8..u128,usize (decimal), f32,f64 (bits in hex), o<kind> (Option::Some of that kind), on (None)
pub fn parse_tag(spec: &str) -> Tag {
    let (n, rest) = spec.split_once('=').unwrap();
    let name = leak(String::from_utf8(unhex(n)).unwrap());
    let (kind, payload) = rest.split_once(':').unwrap();
    let text = || String::from_utf8(unhex(payload)).unwrap();
    let value: TagValue = match kind {
        "s" => text().into(),
        "t" => TagValue::Str(leak(text())),
        "b" => (payload == "1").into(),
        "n" => TagValue::Null,
        "on" => Option::<u8>::None.into(),
        "os" => Some(text()).into(),
        "oi64" => Some(payload.parse::<i64>().unwrap()).into(),
        "i8" => payload.parse::<i8>().unwrap().into(),
        "i16" => payload.parse::<i16>().unwrap().into(),
        "i32" => payload.parse::<i32>().unwrap().into(),
        "i64" => payload.parse::<i64>().unwrap().into(),
        "i128" => payload.parse::<i128>().unwrap().into(),
        "u8" => payload.parse::<u8>().unwrap().into(),
        "u16" => payload.parse::<u16>().unwrap().into(),
        "u32" => payload.parse::<u32>().unwrap().into(),
        "u64" => payload.parse::<u64>().unwrap().into(),
        "u128" => payload.parse::<u128>().unwrap().into(),
        "usize" => payload.parse::<usize>().unwrap().into(),
        "f32" => f32::from_bits(u32::from_str_radix(payload, 16).unwrap()).into(),
        "f64" => f64::from_bits(u64::from_str_radix(payload, 16).unwrap()).into(),
        _ => panic!("kind {kind}"),
    };
    Tag { name, value }
}

/// What Rust renders for the float (the model takes this text as given).
fn float_text(spec: &str) -> String {
    let (_, rest) = spec.split_once('=').unwrap();
    let (kind, payload) = rest.split_once(':').unwrap();
    match kind {
        "f32" => format!("{}", f32::from_bits(u32::from_str_radix(payload, 16).unwrap())),
        "f64" => format!("{}", f64::from_bits(u64::from_str_radix(payload, 16).unwrap())),
        _ => String::new(),
    }
}

/// A writer that takes at most `max` bytes per call and answers every `every`-th call with `Interrupted`
/// (what a pipe, socket or tty may do): a log line must come out whole through it.
struct Choppy { out: Vec<u8>, max: usize, every: usize, calls: usize }
impl std::io::Write for Choppy {
    fn write(&mut self, buf: &[u8]) -> std::io::Result<usize> {
        self.calls += 1;
        if self.every > 0 && self.calls % self.every == 0 { return Err(std::io::Error::new(std::io::ErrorKind::Interrupted, "interrupted")); }
        let n = buf.len().min(self.max);
        self.out.extend_from_slice(&buf[..n]);
        Ok(n)
    }
    fn flush(&mut self) -> std::io::Result<()> { Ok(()) }
}

pub fn case(ctx: &mut Ctx, level: &str, tags: &str) {
    let specs: Vec<String> = tags.split(',').filter(|x| !x.is_empty()).map(|x| x.to_string()).collect();
    let floats: Vec<String> = specs.iter().map(|s| hex(float_text(s).as_bytes())).collect();
    let lv = level.to_string();
    let obs = guard(move || {
        let tv: Vec<Tag> = specs.iter().map(|s| parse_tag(s)).collect();
        let level = match lv.as_str() { "error" => Level::Error, "info" => Level::Info, _ => Level::Debug };
        let ev = LogEvent::new(level, tv);
        // the writer varies with the case: a Vec, or a writer that does short writes and reports interruptions
        let k = specs.iter().map(|s| s.len()).sum::<usize>() + specs.len();
        if k % 3 == 0 {
            let mut out = Vec::new();
            ev.write_jsonl(&mut out).unwrap();
            hex(&out)
        } else {
            let mut w = Choppy { out: Vec::new(), max: [1, 7, 64, 4096][k % 4], every: [0, 2, 5][k % 3], calls: 0 };
            match ev.write_jsonl(&mut w) { Ok(()) => hex(&w.out), Err(e) => format!("err:{:?}", e.kind()) }
        }
    });
    ctx.emit("c17", &[level, tags, &floats.join(",")], &obs);
}

fn sval(s: &str) -> String {
    format!("s:{}", hex(s.as_bytes()))
}

pub fn run(ctx: &mut Ctx) {
    let mut rng = Rng::new(ctx.seed.wrapping_add(17));
    let mut idx = 0u64;
    let name = |s: &str| hex(s.as_bytes());
    macro_rules! go {
        ($level:expr, $tags:expr) => {{
            idx += 1;
            if ctx.mine(idx) {
                case(ctx, $level, $tags);
            }
        }};
    }
    // (1) every Unicode scalar value as a one-character string (thorough: all; quick: all < U+3000 + samples)
    let mut cp: u32 = 0;
    while cp <= 0x10FFFF {
        if let Some(c) = char::from_u32(cp) {
            let t = format!("{}={}", name("c"), sval(&c.to_string()));
            go!("info", &t);
        }
        cp += if ctx.thorough() || cp < 0x3000 { 1 } else if cp < 0x10000 { 97 } else { 4099 };
    }
    for c in ['\u{d7ff}', '\u{e000}', '\u{fffd}', '\u{ffff}', '\u{10000}', '\u{10ffff}', '\u{2028}', '\u{2029}', '\u{200b}', '\u{feff}'] {
        let t = format!("{}={}", name("c"), sval(&format!("a{c}b")));
        go!("error", &t);
    }
    // (2) all integer types at min/max/0/-1
    let ints: Vec<(&str, Vec<String>)> = vec![
        ("i8", vec![i8::MIN.to_string(), "-1".into(), "0".into(), i8::MAX.to_string()]),
        ("i16", vec![i16::MIN.to_string(), "-1".into(), "0".into(), i16::MAX.to_string()]),
        ("i32", vec![i32::MIN.to_string(), "-1".into(), "0".into(), i32::MAX.to_string()]),
        ("i64", vec![i64::MIN.to_string(), "-1".into(), "0".into(), i64::MAX.to_string()]),
        ("i128", vec![i128::MIN.to_string(), "-1".into(), "0".into(), i128::MAX.to_string()]),
        ("u8", vec!["0".into(), u8::MAX.to_string()]),
        ("u16", vec!["0".into(), u16::MAX.to_string()]),
        ("u32", vec!["0".into(), u32::MAX.to_string()]),
        ("u64", vec!["0".into(), "10".into(), u64::MAX.to_string()]),
        ("u128", vec!["0".into(), u128::MAX.to_string()]),
        ("usize", vec!["0".into(), usize::MAX.to_string()]),
    ];
    for (k, vals) in &ints {
        for v in vals {
            go!("debug", &format!("{}={}:{}", name("n"), k, v));
        }
    }
    // (3) floats
    let f64s: Vec<u64> = vec![0f64.to_bits(), (-0f64).to_bits(), 1, f64::MAX.to_bits(), f64::MIN_POSITIVE.to_bits(), f64::NAN.to_bits(),
        f64::INFINITY.to_bits(), f64::NEG_INFINITY.to_bits(), 1.5f64.to_bits(), 1e21f64.to_bits(), 1e-7f64.to_bits(), 0.1f64.to_bits(), (-123.456f64).to_bits()];
    for b in f64s {
        go!("info", &format!("{}=f64:{:x}", name("f"), b));
    }
    let f32s: Vec<u32> = vec![0f32.to_bits(), (-0f32).to_bits(), 1, f32::MAX.to_bits(), f32::NAN.to_bits(), f32::INFINITY.to_bits(), f32::NEG_INFINITY.to_bits(), 0.1f32.to_bits()];
    for b in f32s {
        go!("info", &format!("{}=f32:{:x}", name("f"), b));
    }
    for _ in 0..(if ctx.thorough() { 5000 } else { 500 }) {
        go!("info", &format!("{}=f64:{:x},{}=f32:{:x}", name("a"), rng.next(), name("b"), rng.next() as u32));
    }
    // (4) bool / null / Option, 0..20 tags, random strings mixing all escape classes, odd tag names
    go!("info", "");
    go!("error", &format!("{}=b:1,{}=b:0,{}=n:,{}=on:,{}=os:{},{}=oi64:-5", name("a"), name("b"), name("c"), name("d"), name("e"), hex(b"x\"y"), name("f")));
    let classes: Vec<char> = vec!['"', '\\', '\n', '\r', '\t', '\0', '\u{1}', '\u{1f}', '\u{7f}', '\u{80}', '\u{9f}', 'a', 'Z', ' ', '/', '\'', '{', '}', ',', ':',
        'é', '€', '\u{200b}', '\u{2028}', '\u{fffd}', '\u{10348}', '\u{1f600}', '\u{e0001}', '\u{301}'];
    let names = ["msg", "path", "k", "with space", "q\"uote", "back\\slash", "ctl\u{1}", "ünï", "a:b", "x,y", "{}", ""];
    let n = if ctx.thorough() { 30_000 } else { 3_000 };
    for _ in 0..n {
        let nt = rng.below(21);
        let mut tags = Vec::new();
        for _ in 0..nt {
            let nm = if rng.chance(1, 4) { *rng.pick(&names) } else { *rng.pick(&["msg", "path", "k", "http_method", "code", "n1", "n2"]) };
            let v = match rng.below(8) {
                0 => "b:1".to_string(),
                1 => "n:".to_string(),
                2 => format!("i64:{}", rng.next() as i64),
                3 => format!("u128:{}", (rng.next() as u128) << 64 | rng.next() as u128),
                4 => format!("f64:{:x}", rng.next()),
                5 => format!("t:{}", hex((0..rng.below(6)).map(|_| *rng.pick(&classes)).collect::<String>().as_bytes())),
                _ => sval(&(0..rng.below(12)).map(|_| *rng.pick(&classes)).collect::<String>()),
            };
            tags.push(format!("{}={}", name(nm), v));
        }
        go!(*rng.pick(&["error", "info", "debug"]), &tags.join(","));
    }
    // (5) long lines: one value whose escaped text runs past 64 KiB and 128 KiB, at every alignment of its escape sequences,
    //     followed by further tags; and many medium-sized tags
    for ch in ['"', '\\', '\u{1}', 'é', 'a', '\n'] {
        for k in 0..6usize {
            let count = if ch == 'a' { 70_000 } else { 34_000 };
            let v: String = "a".repeat(k) + &ch.to_string().repeat(count);
            go!("info", &format!("{}={},{}=i64:200,{}={}", name("msg"), sval(&v), name("code"), name("tail"), sval("end\"x")));
        }
    }
    let many: Vec<String> = (0..900).map(|i| format!("{}={}", name(&format!("k{i}")), sval(&format!("{i}-{}", "v\"\\".repeat(30))))).collect();
    go!("error", &many.join(","));
}
