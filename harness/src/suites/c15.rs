//! C15: Cookie request parsing and Set-Cookie formatting.
use super::req::emit;
use crate::gen::{hex, unhex, Rng};
use crate::{guard, Ctx};
use servlin::{AsciiString, Cookie, Response, SameSite};
use std::time::{Duration, UNIX_EPOCH};

const COOKIE_OCTETS: &[u8] = b"!#$%&'()*+-./0123456789:<=>?@ABCDEFGHIJKLMNOPQRSTUVWXYZ[]^_`abcdefghijklmnopqrstuvwxyz{|}~";
const TOKEN: &[u8] = b"!#$%&'*+-.^_`|~0123456789ABCDEFGHIJKLMNOPQRSTUVWXYZabcdefghijklmnopqrstuvwxyz";

fn s(h: &str) -> String {
    String::from_utf8(unhex(h)).unwrap()
}

/// args: name value domain path maxage_secs maxage_nanos httponly secure samesite expires
pub fn case_set(ctx: &mut Ctx, a: &[&str]) {
    let args: Vec<String> = a.iter().map(|x| x.to_string()).collect();
    let obs = guard(move || {
        let mut c = Cookie::new(s(&args[0]), AsciiString::try_from(s(&args[1])).unwrap());
        if args[2] != "-" { c = c.with_domain(s(&args[2])); }
        if args[3] != "-" { c = c.with_path(s(&args[3])); }
        if args[4] != "-" { c = c.with_max_age(Duration::new(args[4].parse().unwrap(), args[5].parse().unwrap())); }
        if args[6] != "-" { c = c.with_http_only(args[6] == "1"); }
        if args[7] != "-" { c = c.with_secure(args[7] == "1"); }
        c = match args[8].as_str() { "strict" => c.with_same_site(SameSite::Strict), "lax" => c.with_same_site(SameSite::Lax), "none" => c.with_same_site(SameSite::None), _ => c };
        if args[9] != "-" { c = c.with_expires(UNIX_EPOCH + Duration::from_secs(args[9].parse().unwrap())); }
        // (the status code rotates with the case: a cookie is set on a 204 or 304 just as on a 200)
        let code = [200u16, 204, 304, 201, 404, 302, 500][(args[0].len() + args[1].len() + args[4].len()) % 7];
        let r = Response::new(code).with_set_cookie(c.clone()).with_set_cookie(c);
        // the fields as the client receives them: taken from the serialised response, not from the header list
        let mut w = crate::io_script::ScriptWriter::new(vec![], None, 0);
        let _ = crate::io_script::block_on(servlin::internal::write_http_response(&mut w, &r, false));
        let head_end = w.out.windows(4).position(|x| x == b"\r\n\r\n").unwrap_or(w.out.len());
        let vals: Vec<String> = w.out[..head_end].split(|b| *b == b'\n').filter_map(|l| l.strip_suffix(b"\r").unwrap_or(l).strip_prefix(b"set-cookie: ").map(hex)).collect();
        let listed = r.headers.get_all("set-cookie").len();
        format!("n={} {}", if listed == vals.len() { r.headers.len() } else { 999 }, vals.join(","))
    });
    ctx.emit("c15s", a, &obs);
}

fn gen_cookie_value(rng: &mut Rng) -> Vec<u8> {
    let npairs = rng.below(11);
    let mut v = Vec::new();
    for i in 0..npairs {
        if i > 0 || rng.chance(1, 8) {
            v.push(b';');
        }
        for _ in 0..rng.below(3) { v.push(*rng.pick(b" \t")); }
        let name: Vec<u8> = if rng.chance(1, 3) { vec![*rng.pick(b"abAB")] } else { (0..rng.range(1, 6)).map(|_| *rng.pick(TOKEN)).collect() };
        v.extend_from_slice(&name);
        if !rng.chance(1, 60) {
            v.push(b'=');
            let quoted = rng.chance(1, 6);
            if quoted { v.push(b'"'); }
            for _ in 0..rng.below(8) { v.push(if rng.chance(1, 6) { b'=' } else { *rng.pick(COOKIE_OCTETS) }); }
            if quoted { v.push(b'"'); }
        }
        for _ in 0..rng.below(2) { v.push(*rng.pick(b" \t")); }
        if rng.chance(1, 10) { v.extend_from_slice(b";;"); }
    }
    while matches!(v.first(), Some(b' ' | b'\t')) { v.remove(0); }
    while matches!(v.last(), Some(b' ' | b'\t')) { v.pop(); }
    v
}

pub fn run(ctx: &mut Ctx) {
    let mut rng = Rng::new(ctx.seed.wrapping_add(15));
    let mut idx = 0u64;
    // request side
    let n = if ctx.thorough() { 40_000 } else { 5_000 };
    for _ in 0..n {
        idx += 1;
        let nfields = rng.range(1, 4);
        let mut head = b"GET / HTTP/1.1\r\n".to_vec();
        // fields the library consumes, in front of / between / behind the Cookie fields: the cookie fields keep their order
        let consumed: [&[u8]; 4] = [b"content-type: text/plain\r\n", b"expect: 100-continue\r\n", b"transfer-encoding: chunked\r\n", b"Content-Type: a/b\r\n"];
        let with_consumed = rng.chance(1, 3);
        // (a repeated Transfer-Encoding is a framing error that pre-empts cookie parsing: at most one)
        let mut te_used = false;
        let mut pick_consumed = |rng: &mut Rng| -> &[u8] { loop { let c = *rng.pick(&consumed); if c.starts_with(b"transfer") { if te_used { continue; } te_used = true; } return c; } };
        for _ in 0..nfields {
            if with_consumed && rng.chance(1, 2) { head.extend_from_slice(pick_consumed(&mut rng)); }
            if rng.chance(1, 3) { head.extend_from_slice(b"x: y\r\n"); }
            head.extend_from_slice(*rng.pick(&[&b"Cookie: "[..], b"cookie:", b"COOKIE: "]));
            head.extend_from_slice(&gen_cookie_value(&mut rng));
            head.extend_from_slice(b"\r\n");
        }
        if with_consumed && rng.chance(1, 2) { head.extend_from_slice(pick_consumed(&mut rng)); }
        head.extend_from_slice(b"\r\n");
        if ctx.mine(idx) {
            emit(ctx, "c15r", 8192, &[], &head, "eof", &[], 0);
        }
    }
    // long Cookie fields: 50, 51, 60 and 180 pairs, a late duplicate that overrides an early one, a late segment without '='
    for npairs in [49usize, 50, 51, 60, 180] {
        for variant in 0..3 {
            idx += 1;
            if !ctx.mine(idx) { continue; }
            let mut pairs: Vec<String> = (0..npairs).map(|k| format!("c{k}=v{k}")).collect();
            if variant == 1 { pairs[0] = "sid=stale".to_string(); let last = pairs.len() - 1; pairs[last] = "sid=fresh".to_string(); }
            if variant == 2 { let last = pairs.len() - 1; pairs[last] = "novalue".to_string(); }
            let head = format!("GET / HTTP/1.1\r\nCookie: a=b\r\nCookie: {}\r\nCookie: z=9\r\n\r\n", pairs.join("; "));
            emit(ctx, "c15r", 8192, &[], head.as_bytes(), "eof", &[], 0);
        }
    }
    // every Cookie value of up to 6 (7) symbols over {a = ; " SP}: quotes (balanced or not) never shield a ';'
    let calpha: [u8; 5] = [b'a', b'=', b';', b'"', b' '];
    let cmax = if ctx.thorough() { 7 } else { 6 };
    let mut cur: Vec<usize> = vec![0];
    loop {
        let v: Vec<u8> = cur.iter().map(|&i| calpha[i]).collect();
        idx += 1;
        if ctx.mine(idx) && v.first() != Some(&b' ') && v.last() != Some(&b' ') {
            let head = [&b"GET / HTTP/1.1\r\nCookie: "[..], &v, b"\r\n\r\n"].concat();
            emit(ctx, "c15r", 8192, &[], &head, "eof", &[], 0);
        }
        let mut pos = cur.len();
        loop {
            if pos == 0 { cur = vec![0; cur.len() + 1]; break; }
            pos -= 1;
            if cur[pos] + 1 < calpha.len() { cur[pos] += 1; for c in cur.iter_mut().skip(pos + 1) { *c = 0; } break; }
        }
        if cur.len() > cmax { break; }
    }
    // response side: all attribute combinations x names x values x Max-Age
    let names: Vec<Vec<u8>> = vec![b"a".to_vec(), b"SID".to_vec(), TOKEN.to_vec(), b"__Host-x".to_vec()];
    let values: Vec<Vec<u8>> = vec![b"".to_vec(), b"v".to_vec(), COOKIE_OCTETS.to_vec(), b"a=b==".to_vec(), b"abc123".to_vec()];
    let domains = ["-", "example.com", "a.b-c.example", "localhost"];
    let paths = ["-", "/", "/a/b", "/p?q=1&r", "/x y", "/app/", "//", "/a/b//"];
    let ages: Vec<(&str, &str)> = vec![("-", "0"), ("0", "0"), ("1", "0"), ("59", "999999999"), ("0", "500000000"), ("86400", "0"), ("1099511627776", "0"), ("18446744073709551615", "0")];
    let flags = ["-", "0", "1"];
    let sames = ["-", "strict", "lax", "none"];
    for (ni, name) in names.iter().enumerate() {
        for (vi, value) in values.iter().enumerate() {
            for (di, d) in domains.iter().enumerate() {
                for (pi, p) in paths.iter().enumerate() {
                    for (ai, (secs, nanos)) in ages.iter().enumerate() {
                        let k = ni + vi + di + pi + ai;
                        let ho = flags[k % 3];
                        let se = flags[(k / 3) % 3];
                        let ss = sames[k % 4];
                        let ex = if k % 5 == 0 { "1700000000" } else { "-" };
                        idx += 1;
                        if ctx.mine(idx) {
                            case_set(ctx, &[&hex(name), &hex(value), &if *d == "-" { "-".to_string() } else { hex(d.as_bytes()) }, &if *p == "-" { "-".to_string() } else { hex(p.as_bytes()) }, secs, nanos, ho, se, ss, ex]);
                        }
                    }
                }
            }
        }
    }
    for ho in flags { for se in flags { for ss in sames {
        idx += 1;
        if ctx.mine(idx) { case_set(ctx, &[&hex(b"n"), &hex(b"v"), "-", "-", "-", "0", ho, se, ss, "-"]); }
    }}}
    let n = if ctx.thorough() { 20_000 } else { 2_000 };
    for _ in 0..n {
        idx += 1;
        let name: Vec<u8> = (0..rng.range(1, 8)).map(|_| *rng.pick(TOKEN)).collect();
        let value: Vec<u8> = (0..rng.below(12)).map(|_| *rng.pick(COOKIE_OCTETS)).collect();
        let age = rng.below(1 << 41).to_string();
        let ho = *rng.pick(&flags); let se = *rng.pick(&flags); let ss = *rng.pick(&sames);
        let d = *rng.pick(&domains); let p = *rng.pick(&paths);
        if ctx.mine(idx) {
            case_set(ctx, &[&hex(&name), &hex(&value), &if d == "-" { "-".to_string() } else { hex(d.as_bytes()) }, &if p == "-" { "-".to_string() } else { hex(p.as_bytes()) }, &age, "0", ho, se, ss, "-"]);
        }
    }
}
