//! C18: log events carry the right tags and reach the installed logger exactly once.
//! The logger is process-global: this suite must be the only thing running in its process.
use crate::gen::{hex, unhex, Rng};
use crate::{guard, Ctx};
use servlin::log::internal::LogEvent;
use servlin::log::{add_thread_local_log_tag, clear_thread_local_log_tags, log_request_and_response, set_global_logger, tag, TagList};
use servlin::{ContentType, Error, HeaderList, Request, RequestBody, Response};
use std::sync::mpsc::sync_channel;

fn leak(s: String) -> &'static str {
    Box::leak(s.into_boxed_str())
}

fn canon(ev: &LogEvent) -> String {
    let mut buf = Vec::new();
    ev.write_jsonl(&mut buf).unwrap();
    let line = String::from_utf8(buf).unwrap();
    // {"time":"YYYY-MM-DDThh:mm:ssZ","level":...,"time_ns":N}\n  ->  "level":...
    let body = &line[31..];
    let end = body.rfind(",\"time_ns\":").unwrap();
    let mut s = body[..end].to_string();
    for key in ["\"duration_ms\":", "\"request_id\":"] {
        if let Some(p) = s.find(key) {
            let start = p + key.len();
            let len = s[start..].chars().take_while(|c| c.is_ascii_digit()).count();
            s.replace_range(start..start + len, "0");
        }
    }
    hex(s.as_bytes())
}

fn make_request(method: &str, path: &str, body: &str) -> Request {
    Request {
        id: 42,
        remote_addr: "127.0.0.1:9".parse().unwrap(),
        method: method.to_string(),
        url: url::Url::parse(&format!("http://unknown{path}")).unwrap(),
        headers: HeaderList::new(),
        cookies: std::collections::HashMap::new(),
        content_type: ContentType::None,
        expect_continue: false,
        chunked: false,
        gzip: false,
        content_length: None,
        body: if body == "P" { RequestBody::PendingUnknown } else { RequestBody::Vec(unhex(body)) },
    }
}

fn parse_tags(s: &str) -> TagList {
    let mut tl = TagList::new();
    for kv in s.split('+').filter(|x| !x.is_empty()) {
        let (n, v) = kv.split_once('=').unwrap();
        let name = leak(String::from_utf8(unhex(n)).unwrap());
        if let Some(num) = v.strip_prefix('#') {
            tl.push(name, num.parse::<i64>().unwrap());
        } else {
            tl.push(name, String::from_utf8(unhex(v)).unwrap());
        }
    }
    tl
}

/// One thread's program; returns the results of its logging calls.
fn run_program(prog: &str) -> Vec<String> {
    let mut results = Vec::new();
    for op in prog.split(',').filter(|x| !x.is_empty()) {
        let (k, rest) = op.split_at(1);
        match k {
            "a" => {
                let (n, v) = rest.split_once('=').unwrap();
                add_thread_local_log_tag(leak(String::from_utf8(unhex(n)).unwrap()), String::from_utf8(unhex(v)).unwrap());
            }
            "c" => clear_thread_local_log_tags(),
            // another thread panics while it holds the handle of the global logger (the mutex is poisoned from then on)
            "z" => {
                let _ = std::thread::spawn(|| {
                    let _handle = servlin::log::internal::global_logger();
                    panic!("scripted panic while holding the global logger handle");
                }).join();
            }
            "l" => {
                // l<level>:<msg hex>:<tags>
                let p: Vec<&str> = rest.splitn(3, ':').collect();
                let msg = String::from_utf8(unhex(p[1])).unwrap();
                let tags = parse_tags(p[2]);
                let r = match p[0] {
                    "e" => servlin::log::error(msg, tags),
                    "i" => servlin::log::info(msg, tags),
                    _ => servlin::log::debug(msg, tags),
                };
                results.push(if r.is_ok() { "ok".to_string() } else { "stopped".to_string() });
            }
            "w" => {
                // w<kind>:<method>:<path hex>:<body>:<code>:<resp body len>:<etags>:<emsg hex>
                let p: Vec<&str> = rest.split(':').collect();
                let req = make_request(p[1], &String::from_utf8(unhex(p[2])).unwrap(), p[3]);
                let code: u16 = p[4].parse().unwrap();
                let blen: usize = p[5].parse().unwrap();
                let kind = p[0].to_string();
                let etags = p[6].to_string();
                let emsg = String::from_utf8(unhex(p[7])).unwrap();
                let r = log_request_and_response(req, move |_req| {
                    let resp = Response::new(code).with_body(vec![b'x'; blen]);
                    match kind.as_str() {
                        "o" => Ok(resp),
                        "g" => Ok(Response::get_body_and_reprocess(1000)),
                        "h" => {
                            let mut e = Error::client_error(Response::get_body_and_reprocess(1000));
                            for t in parse_tags(&etags).into_vec() { e.tags.push(t); }
                            if !emsg.is_empty() { e = e.with_msg(emsg); }
                            Err(e)
                        }
                        "e" => {
                            let mut e = Error::client_error(resp);
                            for t in parse_tags(&etags).into_vec() { e.tags.push(t); }
                            if !emsg.is_empty() { e = e.with_msg(emsg); }
                            Err(e)
                        }
                        _ => {
                            let mut e = Error::new();
                            for t in parse_tags(&etags).into_vec() { e.tags.push(t); }
                            if !emsg.is_empty() { e = e.with_msg(emsg); }
                            Err(e)
                        }
                    }
                });
                results.push(match r { Ok(resp) => format!("resp{}", resp.code), Err(_) => "stopped".to_string() });
            }
            _ => panic!("op {k}"),
        }
    }
    results
}

/// phases separated by '|': `<logger>@<prog0>/<prog1>/...`; logger: A (installed, receiver alive), D (installed, receiver dropped), N (none)
pub fn case(ctx: &mut Ctx, phases: &str) {
    let ph = phases.to_string();
    let obs = guard(move || {
        let mut out = Vec::new();
        // the first program of every phase runs on one thread that lives for the whole case (a handler thread of a pool outlives
        // the loggers that come and go); the other programs run on fresh threads
        let (work_tx, work_rx) = std::sync::mpsc::channel::<String>();
        let (done_tx, done_rx) = std::sync::mpsc::channel::<Vec<String>>();
        let _worker = std::thread::spawn(move || {
            while let Ok(p) = work_rx.recv() {
                let r = run_program(&p);
                clear_thread_local_log_tags();
                if done_tx.send(r).is_err() { break; }
            }
        });
        for phase in ph.split('|') {
            let (logger, progs) = phase.split_once('@').unwrap();
            if logger == "R" {
                out.push(format!("{}#", install_race(progs.parse().unwrap())));
                continue;
            }
            if logger == "Y" {
                out.push(format!("{}#", removal_fence(progs.parse().unwrap())));
                continue;
            }
            let progs: Vec<String> = progs.split('/').map(|s| s.to_string()).collect();
            // S: a live logger whose queue holds 2 events and whose consumer starts late (callers must wait, not lose events)
            // X: as S with a queue of one, and the guard is dropped while a thread is still blocked inside a logging call
            let (sender, receiver) = sync_channel::<LogEvent>(if logger == "S" { 2 } else if logger == "X" { 1 } else { 100_000 });
            let guard_opt = if logger == "N" { None } else { Some(set_global_logger(sender.clone()).expect("set logger")) };
            let mut consumer = None;
            let receiver = if logger == "D" {
                drop(receiver);
                None
            } else if logger == "S" || logger == "X" {
                let wait = if logger == "X" { 60 } else { 15 };
                consumer = Some(std::thread::spawn(move || {
                    std::thread::sleep(std::time::Duration::from_millis(wait));
                    let mut evs = Vec::new();
                    while let Ok(e) = receiver.recv_timeout(std::time::Duration::from_secs(5)) { evs.push(canon(&e)); }
                    evs
                }));
                None
            } else {
                Some(receiver)
            };
            work_tx.send(progs[0].clone()).unwrap();
            let handles: Vec<_> = progs.iter().skip(1).cloned().map(|p| std::thread::spawn(move || { let r = run_program(&p); clear_thread_local_log_tags(); r })).collect();
            let mut guard_opt = guard_opt;
            if logger == "X" {
                std::thread::sleep(std::time::Duration::from_millis(20));
                drop(guard_opt.take());
            }
            let first = done_rx.recv_timeout(std::time::Duration::from_secs(20)).expect("persistent thread").join(",");
            let results: Vec<String> = std::iter::once(first).chain(handles.into_iter().map(|h| h.join().unwrap().join(","))).collect();
            drop(guard_opt);
            drop(sender);
            let events: Vec<String> = match consumer {
                Some(c) => c.join().unwrap(),
                None => receiver.map_or(Vec::new(), |r| r.try_iter().map(|e| canon(&e)).collect()),
            };
            out.push(format!("{}#{}", results.join("/"), events.join(";")));
        }
        out.join("|")
    });
    ctx.emit("c18", &[phases], &obs);
}

/// `rounds` times: no logger is set; one thread makes a logging call (which starts the stdout default) while another
/// installs a logger, with a swept offset between the two.  An installed logger must then receive the next event,
/// and dropping its guard must not panic.
fn install_race(rounds: u64) -> String {
    let (mut lost, mut panics, mut refused) = (0u64, 0u64, 0u64);
    for round in 0..rounds {
        let (tx, rx) = sync_channel::<LogEvent>(1000);
        let barrier = std::sync::Arc::new(std::sync::Barrier::new(2));
        let (b1, b2) = (barrier.clone(), barrier);
        let spin = |n: u64| { let t = std::time::Instant::now(); while (t.elapsed().as_nanos() as u64) < n * 2_000 { std::hint::spin_loop(); } };
        let a = std::thread::spawn(move || { b1.wait(); spin(round % 7); let _ = servlin::log::info("race", TagList::new()); });
        let b = std::thread::spawn(move || { b2.wait(); spin((round / 7) % 40); set_global_logger(tx) });
        let _ = a.join();
        match b.join().unwrap() {
            Err(_) => refused += 1,
            Ok(guard) => {
                let _ = servlin::log::info("probe", TagList::new());
                let got = rx.try_iter().any(|e| { let mut v = Vec::new(); e.write_jsonl(&mut v).is_ok() && String::from_utf8_lossy(&v).contains("\"probe\"") });
                if !got { lost += 1; }
                if std::panic::catch_unwind(std::panic::AssertUnwindSafe(move || drop(guard))).is_err() { panics += 1; }
            }
        }
        // whatever happened, leave the state clean for the next round
        if servlin::log::internal::lock_global_logger().is_some() { *servlin::log::internal::lock_global_logger() = servlin::log::internal::GlobalLoggerState::None; }
    }
    format!("lost={lost},panics={panics},refused={refused}")
}

/// `rounds` times: a logger whose one-slot queue is full, a thread inside a logging call that waits for room, and the owner
/// removing the logger (dropping its guard).  Once the removal has returned, nothing more may arrive at the removed logger
/// (an owner that drains its receiver after removing the logger must have seen every event).
fn removal_fence(rounds: u64) -> String {
    let mut late = 0u64;
    for round in 0..rounds {
        let (tx, rx) = sync_channel::<LogEvent>(1);
        let Ok(guard) = set_global_logger(tx.clone()) else { return "refused".to_string() };
        let _ = tx.try_send(LogEvent::new(servlin::log::Level::Info, TagList::new()));
        let worker = std::thread::spawn(|| { let _ = servlin::log::info("in-flight", TagList::new()); });
        std::thread::sleep(std::time::Duration::from_millis(15 + round % 3 * 5));
        let (done_tx, done_rx) = std::sync::mpsc::channel::<()>();
        let remover = std::thread::spawn(move || { drop(guard); let _ = done_tx.send(()); });
        // an implementation may make the removal wait for the call in flight: then it returns only after room has been made
        let mut removed = done_rx.recv_timeout(std::time::Duration::from_millis(40)).is_ok();
        let mut seen_before = 0;
        if !removed {
            if rx.recv_timeout(std::time::Duration::from_millis(500)).is_ok() { seen_before += 1; }
            removed = done_rx.recv_timeout(std::time::Duration::from_secs(3)).is_ok();
        }
        // everything delivered up to the removal
        std::thread::sleep(std::time::Duration::from_millis(5));
        seen_before += rx.try_iter().count();
        // ... and what still arrives afterwards
        let mut after = 0;
        let t0 = std::time::Instant::now();
        while t0.elapsed() < std::time::Duration::from_millis(120) {
            after += rx.try_iter().count();
            std::thread::sleep(std::time::Duration::from_millis(5));
        }
        if !removed || after > 0 { late += 1; }
        let _ = seen_before;
        drop(rx);
        let _ = worker.join();
        let _ = remover.join();
        drop(tx);
        if servlin::log::internal::lock_global_logger().is_some() { *servlin::log::internal::lock_global_logger() = servlin::log::internal::GlobalLoggerState::None; }
    }
    format!("late={late}")
}

fn h(s: &str) -> String { hex(s.as_bytes()) }

pub fn run(ctx: &mut Ctx) {
    let mut rng = Rng::new(ctx.seed.wrapping_add(18));
    let n = if ctx.thorough() { 6000 } else { 600 };
    let names = ["msg", "http_method", "path", "request_body_len", "request_body", "response_body_len", "code", "k1", "k2", "zeta", "alpha"];
    for i in 0..n {
        let nphases = rng.range(1, 3);
        let mut phases = Vec::new();
        for _ in 0..nphases {
            let logger = match rng.below(9) { 0 => "D", 1 => "N", 2 => "S", 3 => "X", _ => "A" };
            let nthreads = if logger == "X" { 1 } else { rng.range(1, 8) };
            let mut progs = Vec::new();
            for t in 0..nthreads {
                let len = if logger == "X" { rng.range(3, 5) } else { rng.range(1, 8) };
                let mut ops = Vec::new();
                // now and then a thread carries many tags of its own (sorting 20+ tags must still be stable)
                if rng.chance(1, 10) {
                    for k in 0..rng.range(10, 30) { ops.push(format!("a{}={}", h(*rng.pick(&names)), h(&format!("T{t}{k}")))); }
                }
                if logger == "A" && rng.chance(1, 12) { ops.push("z".to_string()); }
                for k in 0..len {
                    ops.push(match if logger == "X" { 9 } else { rng.below(10) } {
                        0 | 1 => format!("a{}={}", h(*rng.pick(&names)), h(&format!("v{t}{k}"))),
                        2 => "c".to_string(),
                        3 | 4 => {
                            let kind = *rng.pick(&["o", "e", "n", "o", "e", "n", "g", "h"]);
                            let code = if kind == "g" || kind == "h" { 0 } else { *rng.pick(&[200u16, 201, 404, 500, 503]) };
                            let etags: Vec<String> = (0..rng.below(3)).map(|j| format!("{}={}", h(*rng.pick(&names)), h(&format!("e{j}")))).collect();
                            format!("w{kind}:{}:{}:{}:{code}:{}:{}:{}", *rng.pick(&["GET", "POST"]), h(&format!("/t{t}/{k}")), if rng.chance(1, 3) { "P".to_string() } else { h("body") }, if code == 0 { 0 } else { rng.below(4) }, etags.join("+"), if rng.chance(1, 2) { h("oops") } else { String::new() })
                        }
                        _ => {
                            let ntags = if rng.chance(1, 8) { rng.range(15, 45) } else { rng.below(7) };
                            let tags: Vec<String> = (0..ntags).map(|j| if rng.chance(1, 4) { format!("{}=#{}", h(*rng.pick(&names)), j) } else { format!("{}={}", h(*rng.pick(&names)), h(&format!("c{j}"))) }).collect();
                            format!("l{}:{}:{}", *rng.pick(&["e", "i", "d"]), h(&format!("t{t}-{k}")), tags.join("+"))
                        }
                    });
                }
                progs.push(ops.join(","));
            }
            phases.push(format!("{logger}@{}", progs.join("/")));
        }
        // after an X phase another logger must be installable, and get that phase's events
        if phases.last().is_some_and(|p| p.starts_with("X@")) {
            phases.push(format!("A@l{}:{}:", "i", h("t0-0")));
        }
        if ctx.mine(i) {
            case(ctx, &phases.join("|"));
        }
    }
    // a thread dies while holding the global logger's handle; the installed logger keeps receiving, a later one can be installed
    if ctx.mine(n + 2) { case(ctx, &format!("A@l{}:{}:,z,l{}:{}:/l{}:{}:|A@l{}:{}:|N@l{}:{}:", "i", h("t0-0"), "e", h("t0-1"), "i", h("t1-0"), "i", h("t0-2"), "i", h("t0-3"))); }
    // long values (a logged body, a backtrace): messages of 16383..16385 and 40000 bytes, a 20000-byte call tag under a 32002-byte thread tag
    if ctx.mine(n + 5) {
        let big = |k: usize| h(&"v".repeat(k));
        let msg = |i: usize, k: usize| h(&format!("t0-{i}{}", "v".repeat(k - 4)));
        case(ctx, &format!("A@l{}:{}:,l{}:{}:,l{}:{}:,a{}={},l{}:{}:{}={},we:GET:{}:P:500:0::{}", "i", msg(0, 16383), "i", msg(1, 16384), "e", msg(2, 16385), h("k1"), big(32002), "i", msg(3, 40000), h("k2"), big(20000), h("/t0/9"), big(40000)));
    }
    // removal while a call is in flight, alone and between ordinary phases
    if ctx.mine(n + 3) { case(ctx, "Y@6"); }
    if ctx.mine(n + 4) { case(ctx, &format!("A@l{}:{}:|Y@3|A@l{}:{}:", "i", h("t0-0"), "i", h("t0-1"))); }
    // the install race, alone and after ordinary phases
    let rounds = if ctx.thorough() { 1200 } else { 280 };
    if ctx.mine(n) { case(ctx, &format!("R@{rounds}")); }
    if ctx.mine(n + 1) { case(ctx, &format!("A@l{}:{}:|R@{}|A@l{}:{}:", "i", h("t0-0"), rounds / 2, "i", h("t0-1"))); }
}
