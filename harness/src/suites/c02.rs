//! C02: parsed head is faithful to the bytes (RFC 7230 grammar agreement).
use super::c01::{gen_head, TCHARS};
use super::req::emit;
use crate::gen::Rng;
use crate::Ctx;

fn odd_target(rng: &mut Rng) -> Vec<u8> {
    let ts: [&[u8]; 16] = [
        b"//a/b?q", b"/a/../b", b"/a/./b", b"/%2e%2e/x", b"/a\"b", b"/a#frag", b"/a?x='y'", b"/\\x/y", b"/a b", b"*", b"http://h/p",
        b"/\xc3\xa9", b"/\xff", b"/a?b?c", b"/a;b=c", b"/a|b^c[d]{e}<f>",
    ];
    let t: &[u8] = *rng.pick(&ts);
    t.to_vec()
}

/// Heads with 0..12 fields in random order containing 0..3 of the fields the library consumes.
pub fn consumed_fields(ctx: &mut Ctx, rng: &mut Rng, idx: &mut u64) {
    let n = if ctx.thorough() { 20_000 } else { 2_500 };
    for _ in 0..n {
        let mut fields: Vec<(String, String)> = Vec::new();
        for (name, val) in [("Content-Type", "text/plain"), ("expect", "100-continue"), ("Transfer-Encoding", "chunked")] {
            if rng.chance(1, 2) {
                let nm: String = name.chars().map(|c| if rng.chance(1, 3) { c.to_ascii_lowercase() } else { c }).collect();
                fields.push((nm, val.to_string()));
                if rng.chance(1, 8) {
                    fields.push((name.to_string(), val.to_string()));
                }
            }
        }
        for j in 0..rng.below(10) {
            fields.push((format!("x-{}", rng.below(4)), format!("v{j}")));
        }
        // a declared length (with `expect`, the combination "nothing to wait for"), and values with VT / FF at their edges
        // (not whitespace for HTTP: they belong to the value)
        if rng.chance(1, 3) { fields.push((rng.pick(&["content-length", "Content-Length"]).to_string(), rng.pick(&["0", "4", "0"]).to_string())); }
        if rng.chance(1, 6) { fields.push((format!("x-{}", rng.below(4)), rng.pick(&["\u{b}v", "v\u{c}", "\u{c}", "a\u{b}b", "\u{1f}v\u{7f}"]).to_string())); }
        // repeated Cookie fields stay separate fields, in place
        for j in 0..rng.below(4) {
            if rng.chance(1, 3) { fields.push((rng.pick(&["Cookie", "cookie"]).to_string(), format!("c{j}=v{j}"))); }
        }
        for i in (1..fields.len()).rev() {
            let j = rng.below(i as u64 + 1) as usize;
            fields.swap(i, j);
        }
        let mut h = b"GET /c HTTP/1.1\r\n".to_vec();
        // (one head in four ends some of its field lines with a bare LF, which the library accepts as a line end)
        let bare = rng.chance(1, 4);
        for (k, (n, v)) in fields.iter().enumerate() {
            let le = if bare && k + 1 < fields.len() && rng.chance(1, 2) { "\n" } else { "\r\n" };
            h.extend_from_slice(format!("{n}: {v}{le}").as_bytes());
        }
        h.extend_from_slice(b"\r\nTAIL");
        *idx += 1;
        if ctx.mine(*idx) {
            emit(ctx, "c02", 8192, &[], &h, "eof", &[], 0);
        }
    }
}

pub fn run_c14r(ctx: &mut Ctx) {
    let mut rng = Rng::new(ctx.seed.wrapping_add(14));
    let mut idx = 0u64;
    consumed_fields(ctx, &mut rng, &mut idx);
    for nf in [99usize, 100, 101, 150, 300] {
        let mut h = b"GET /many HTTP/1.1\r\n".to_vec();
        for j in 0..nf {
            h.extend_from_slice(format!("h{}: {j}\r\n", j % 7).as_bytes());
        }
        h.extend_from_slice(b"content-type: a/b\r\nx-last: z\r\n\r\nTAIL");
        idx += 1;
        if ctx.mine(idx) { emit(ctx, "c02", 8192, &[], &h, "eof", &[], 0); }
    }
}

pub fn run(ctx: &mut Ctx) {
    let mut rng = Rng::new(ctx.seed.wrapping_add(2));
    let mut idx = 0u64;
    macro_rules! go {
        ($st:expr) => {{
            idx += 1;
            if ctx.mine(idx) {
                let sizes: Vec<usize> = if idx % 3 == 0 { vec![] } else { vec![(idx % 23 + 1) as usize] };
                emit(ctx, "c02", 8192, &[], $st, "eof", &sizes, 0);
            }
        }};
    }
    let nbase = if ctx.thorough() { 12_000 } else { 1_500 };
    for i in 0..nbase {
        let mut h = gen_head(&mut rng, if i % 12 == 0 { 40 } else { 5 });
        if i % 5 == 0 {
            // swap in an unusual target
            let sp1 = h.iter().position(|b| *b == b' ').unwrap();
            let sp2 = sp1 + 1 + h[sp1 + 1..].iter().position(|b| *b == b' ').unwrap();
            let mut n = h[..=sp1].to_vec();
            n.extend_from_slice(&odd_target(&mut rng));
            n.extend_from_slice(&h[sp2..]);
            h = n;
        }
        let mut base = h.clone();
        base.extend_from_slice(b"TAIL");
        go!(&base);
        // systematic single-byte edits at random positions, over all byte values
        let nmut = if ctx.thorough() { 16 } else { 8 };
        for _ in 0..nmut {
            let mut m = h.clone();
            let pos = rng.below(m.len() as u64) as usize;
            let byte = match rng.below(5) {
                0 => rng.next() as u8,
                1 => *rng.pick(b" \t\r\n:"),
                2 => rng.range(0x80, 0xff) as u8,
                3 => *rng.pick(TCHARS),
                _ => rng.range(0, 0x20) as u8,
            };
            match rng.below(3) {
                0 => m[pos] = byte,
                1 => m.insert(pos, byte),
                _ => {
                    m.remove(pos);
                }
            }
            if rng.chance(1, 4) && !m.is_empty() {
                // second edit
                let pos = rng.below(m.len() as u64) as usize;
                if rng.chance(1, 2) {
                    m[pos] = rng.next() as u8;
                } else {
                    m.remove(pos);
                }
            }
            m.extend_from_slice(b"TAIL");
            go!(&m);
        }
        // bare-LF line ends (implementation-free class)
        if i % 7 == 0 {
            let mut m = Vec::new();
            let mut k = 0;
            while k < h.len() {
                if h[k] == b'\r' && k + 1 < h.len() && h[k + 1] == b'\n' && k + 4 < h.len() && rng.chance(1, 2) {
                    k += 1;
                    continue;
                }
                m.push(h[k]);
                k += 1;
            }
            m.extend_from_slice(b"TAIL");
            go!(&m);
        }
    }
    consumed_fields(ctx, &mut rng, &mut idx);
    // fields that servers commonly interpret, with values that would matter if this one did: the target alone decides path and query
    let known = ["Host", "host", "Connection", "X-Forwarded-Host", "X-Forwarded-Proto", "X-Original-URL", "X-Rewrite-URL", "Forwarded", "Origin", "Referer",
        "Upgrade", "TE", "Trailer", "Range", "Authorization", "Content-Location", "Location", "Via", "Accept", "User-Agent"];
    let values = ["example.com/public?", "", "evil.com#", "a b", "example.com:8080", "[::1]:80", "\\x", "/other/path?z=1", "http://h/p?q", "..", "keep-alive", "close", "?x", "#f"];
    let targets: [&[u8]; 4] = [b"/admin?a=1", b"/admin/delete", b"/", b"/a/b;c=d?e=f&g"];
    for (ki, k) in known.iter().enumerate() {
        for (vi, v) in values.iter().enumerate() {
            let t = targets[(ki + vi) % targets.len()];
            let mut h = b"GET ".to_vec();
            h.extend_from_slice(t);
            h.extend_from_slice(b" HTTP/1.1\r\n");
            if (ki + vi) % 3 == 0 { h.extend_from_slice(b"x-first: 1\r\n"); }
            h.extend_from_slice(format!("{k}: {v}\r\n").as_bytes());
            if vi % 4 == 1 { h.extend_from_slice(format!("{k}: {}\r\n", values[(vi + 3) % values.len()]).as_bytes()); }
            h.extend_from_slice(b"\r\nTAIL");
            go!(&h);
        }
    }
    // many fields: 90..260 short ones (all of them must be handed on, in order)
    for nf in [90usize, 99, 100, 101, 102, 128, 200, 260] {
        let mut h = b"GET /many HTTP/1.1\r\n".to_vec();
        for j in 0..nf {
            h.extend_from_slice(format!("h{j}: {j}\r\n").as_bytes());
        }
        h.extend_from_slice(b"Content-Length: 0\r\nAuthorization: last\r\n\r\nTAIL");
        go!(&h);
    }
    // every tchar as a one-byte method and field name; every VCHAR/SP/HT inside a value
    for &c in TCHARS {
        let s = [&[c][..], b" / HTTP/1.1\r\n", &[c][..], b": v\r\n\r\n"].concat();
        go!(&s);
    }
    for b in 0u16..=255 {
        let b = b as u8;
        let s = [b"GET / HTTP/1.1\r\nn: a", &[b][..], b"b\r\n\r\n"].concat();
        go!(&s);
        let s = [b"GET / HTTP/1.1\r\nn", &[b][..], b": x\r\n\r\n"].concat();
        go!(&s);
        // every byte at either end of a value (only SP, HT, CR, LF may be stripped), alone and next to OWS
        let s = [b"GET / HTTP/1.1\r\nn:", &[b][..], b"v\r\nm: w", &[b][..], b"\r\n\r\n"].concat();
        go!(&s);
        let s = [b"GET / HTTP/1.1\r\nn: ", &[b][..], b" v \t", &[b][..], b" \r\n\r\n"].concat();
        go!(&s);
        let s = [b"GE", &[b][..], b"T /", &[b][..], b" HTTP/1.1\r\n\r\n"].concat();
        go!(&s);
    }
}
