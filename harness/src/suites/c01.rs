//! C01: request reading is total and independent of fragmentation.
use super::req::emit;
use crate::gen::Rng;
use crate::Ctx;

pub const TCHARS: &[u8] = b"!#$%&'*+-.^_`|~0123456789ABCDEFGHIJKLMNOPQRSTUVWXYZabcdefghijklmnopqrstuvwxyz";

/// A grammar-derived head (valid by construction), returned with its length.
pub fn gen_head(rng: &mut Rng, max_fields: usize) -> Vec<u8> {
    let mut h = Vec::new();
    let mlen = rng.range(1, 7) as usize;
    if rng.chance(3, 4) {
        let ms: [&[u8]; 6] = [b"GET", b"POST", b"PUT", b"HEAD", b"DELETE", b"OPTIONS"];
        let m: &[u8] = *rng.pick(&ms);
        h.extend_from_slice(m);
    } else {
        for _ in 0..mlen {
            h.push(*rng.pick(TCHARS));
        }
    }
    h.push(b' ');
    h.extend_from_slice(&gen_target(rng));
    h.extend_from_slice(b" HTTP/1.1\r\n");
    let nf = rng.below(max_fields as u64 + 1) as usize;
    for _ in 0..nf {
        let nl = rng.range(1, 12) as usize;
        for _ in 0..nl {
            h.push(*rng.pick(TCHARS));
        }
        h.push(b':');
        for _ in 0..rng.below(3) {
            h.push(*rng.pick(b" \t"));
        }
        let vl = rng.below(20) as usize;
        let mut v = Vec::new();
        for _ in 0..vl {
            v.push(if rng.chance(1, 8) { *rng.pick(b" \t") } else { rng.range(0x21, 0x7e) as u8 });
        }
        while matches!(v.first(), Some(b' ' | b'\t')) {
            v.remove(0);
        }
        while matches!(v.last(), Some(b' ' | b'\t')) {
            v.pop();
        }
        h.extend_from_slice(&v);
        for _ in 0..rng.below(3) {
            h.push(*rng.pick(b" \t"));
        }
        h.extend_from_slice(b"\r\n");
    }
    h.extend_from_slice(b"\r\n");
    h
}

/// Class-A origin-form target: 1*( "/" *pchar ) [ "?" *( pchar / "/" / "?" ) ], no dot-segments, no `'` in the query.
pub fn gen_target(rng: &mut Rng) -> Vec<u8> {
    const PCHAR: &[u8] = b"ABCDEFGHIJKLMNOPQRSTUVWXYZabcdefghijklmnopqrstuvwxyz0123456789-._~!$&'()*+,;=:@";
    let mut t = Vec::new();
    for _ in 0..rng.range(1, 4) {
        t.push(b'/');
        let n = rng.below(6) as usize;
        let mut seg = Vec::new();
        for _ in 0..n {
            if rng.chance(1, 10) {
                let es: [&[u8]; 4] = [b"%20", b"%41", b"%zz", b"%2F"];
                let e: &[u8] = *rng.pick(&es);
                seg.extend_from_slice(e);
            } else {
                seg.push(*rng.pick(PCHAR));
            }
        }
        if seg == b"." || seg == b".." {
            seg = b"d".to_vec();
        }
        t.extend_from_slice(&seg);
    }
    if rng.chance(1, 3) {
        t.push(b'?');
        for _ in 0..rng.below(8) {
            let c = *rng.pick(PCHAR);
            t.push(if c == b'\'' { b'q' } else if rng.chance(1, 8) { *rng.pick(b"/?") } else { c });
        }
    }
    t
}

pub fn mutate(rng: &mut Rng, h: &[u8]) -> Vec<u8> {
    let mut m = h.to_vec();
    for _ in 0..rng.range(1, 2) {
        if m.is_empty() {
            break;
        }
        let pos = rng.below(m.len() as u64) as usize;
        let byte = match rng.below(4) {
            0 => rng.next() as u8,
            1 => *rng.pick(b" \t\r\n:/"),
            2 => rng.range(0x80, 0xff) as u8,
            _ => rng.range(0, 0x7f) as u8,
        };
        match rng.below(3) {
            0 => m[pos] = byte,
            1 => m.insert(pos, byte),
            _ => {
                m.remove(pos);
            }
        }
    }
    m
}

/// Sequences of requests read through ONE connection buffer (suite `c01s`, also part of `c01`).
pub fn pipelines(ctx: &mut Ctx, rng: &mut Rng, idx: &mut u64) {
    // (vi) sequences of small requests through one buffer, reads not aligned with request boundaries
    let nseq = if ctx.thorough() { 3000 } else { 400 };
    for _ in 0..nseq {
        let k = rng.range(2, 14);
        let mut s = Vec::new();
        // (one sequence in five has stray line ends between two messages — an extra CRLF after a message, as some clients send:
        //  not part of the grammar of a request line, so the message that follows is refused, wherever the read boundaries fall)
        let stray = rng.chance(1, 5);
        for j in 0..k {
            if stray && j > 0 && rng.chance(1, 3) { s.extend_from_slice(*rng.pick(&[&b"\r\n"[..], b"\r\n\r\n", b"\n", b"\r\n\r\n\r\n"])); }
            s.extend_from_slice(format!("GET /{j} HTTP/1.1\r\n").as_bytes());
            if rng.chance(1, 2) {
                s.extend_from_slice(b"a: b\r\n");
            }
            s.extend_from_slice(b"\r\n");
        }
        if rng.chance(1, 4) {
            s.extend_from_slice(b"GARBAGE");
        }
        let sizes: Vec<usize> = (0..rng.range(1, 4)).map(|_| rng.range(1, 50) as usize).collect();
        *idx += 1;
        if ctx.mine(*idx) {
            super::req::case_seq(ctx, if rng.chance(1, 2) { "64" } else { "256" }, &crate::gen::enc(&s), if rng.chance(1, 2) { "eof" } else { "err" }, &crate::gen::sizes_str(&sizes), "0");
        }
    }
    // (vii) a small request, then a head that needs (almost) the whole buffer, the first read ending inside the second head
    for cap in [64usize, 256, 8192] {
        let first = b"GET /0 HTTP/1.1\r\n\r\n";
        let r = first.len();
        let lens: Vec<usize> = if cap == 8192 { vec![cap / 2 - 1, cap / 2 + 1, cap - r - 1, cap - r, cap - r + 1, cap - 3, cap - 1, cap, cap + 1] }
            else { (cap / 2 - 2..=cap + 1).collect() };
        for total in lens {
            if total < 24 { continue; }
            let mut s = first.to_vec();
            s.extend_from_slice(b"GET /1 HTTP/1.1\r\nx:");
            s.extend(std::iter::repeat(b'v').take(total - 24));
            s.extend_from_slice(b"\r\n\r\nGET /2 HTTP/1.1\r\n\r\n");
            for d in [1usize, 5, cap / 4] {
                for rest in [cap, 7] {
                    *idx += 1;
                    if ctx.mine(*idx) {
                        super::req::case_seq(ctx, &cap.to_string(), &crate::gen::enc(&s), "eof", &crate::gen::sizes_str(&[r + d, rest]), "0");
                    }
                }
            }
        }
    }
}

pub fn run_pipelines(ctx: &mut Ctx) {
    let mut rng = Rng::new(ctx.seed.wrapping_add(101));
    let mut idx = 0u64;
    pipelines(ctx, &mut rng, &mut idx);
}

fn all_splits2(n: usize) -> Vec<Vec<usize>> {
    (1..n).map(|i| vec![i, n - i]).collect()
}

pub fn run(ctx: &mut Ctx) {
    let mut rng = Rng::new(ctx.seed);
    let mut idx = 0u64;
    macro_rules! go {
        ($cap:expr, $buf:expr, $st:expr, $end:expr, $sizes:expr, $pend:expr) => {{
            idx += 1;
            if ctx.mine(idx) {
                emit(ctx, "c01", $cap, $buf, $st, $end, $sizes, $pend);
            }
        }};
    }
    // (i) exhaustive raw strings over an 8-symbol alphabet (delimiter search, truncation, garbage)
    let alpha: [u8; 8] = [b'G', b'/', b' ', b':', b'\r', b'\n', 0x80, b'a'];
    let maxlen = if ctx.thorough() { 7 } else { 6 };
    let mut cur: Vec<usize> = Vec::new();
    loop {
        let s: Vec<u8> = cur.iter().map(|&i| alpha[i]).collect();
        let sizes: Vec<usize> = match s.len() % 3 { 0 => vec![], 1 => vec![1], _ => vec![2, 1] };
        go!(16, &[], &s, if s.len() % 2 == 0 { "eof" } else { "err" }, &sizes, 0);
        // odometer
        let mut pos = cur.len();
        loop {
            if pos == 0 {
                cur = vec![0; cur.len() + 1];
                break;
            }
            pos -= 1;
            if cur[pos] + 1 < alpha.len() {
                cur[pos] += 1;
                for c in cur.iter_mut().skip(pos + 1) {
                    *c = 0;
                }
                break;
            }
        }
        if cur.len() > maxlen {
            break;
        }
    }
    // (ii) exhaustive token sequences: request-line variant ++ <= k tokens ++ CRLFCRLF
    let rls: [&[u8]; 12] = [
        b"GET / HTTP/1.1", b"G /a?b HTTP/1.1", b"GET / HTTP/1.0", b"GET  / HTTP/1.1", b"GET /", b"GET a HTTP/1.1",
        b" GET / HTTP/1.1", b"G(T / HTTP/1.1", b"GET /\t HTTP/1.1", b"GET / HTTP/1.1 ", b"GET /\x80 HTTP/1.1", b"",
    ];
    let toks: [&[u8]; 7] = [b"a", b":", b" ", b"\t", b"\r", b"\n", b"\x80"];
    let maxtok = if ctx.thorough() { 6 } else { 5 };
    for rl in rls {
        let mut cur: Vec<usize> = Vec::new();
        loop {
            let mut s = rl.to_vec();
            s.extend_from_slice(b"\r\n");
            for &i in &cur {
                s.extend_from_slice(toks[i]);
            }
            s.extend_from_slice(b"\r\n\r\nNEXT");
            go!(64, &[], &s, "eof", &[], 0);
            let mut pos = cur.len();
            loop {
                if pos == 0 {
                    cur = vec![0; cur.len() + 1];
                    break;
                }
                pos -= 1;
                if cur[pos] + 1 < toks.len() {
                    cur[pos] += 1;
                    for c in cur.iter_mut().skip(pos + 1) {
                        *c = 0;
                    }
                    break;
                }
            }
            if cur.len() > maxtok {
                break;
            }
        }
    }
    // (iii) grammar-derived heads and their 1-2 byte mutations, random fragmentation, tails
    let n = if ctx.thorough() { 60_000 } else { 6_000 };
    for i in 0..n {
        let mut h = gen_head(&mut rng, if i % 10 == 0 { 40 } else { 6 });
        if i % 2 == 1 {
            h = mutate(&mut rng, &h);
        }
        let tail: Vec<u8> = match rng.below(4) {
            0 => vec![],
            1 => b"GET /next HTTP/1.1\r\n\r\n".to_vec(),
            2 => { let k = rng.below(30) as usize; rng.bytes(k) }
            _ => b"\r\n\r\n".to_vec(),
        };
        let mut s = h.clone();
        s.extend_from_slice(&tail);
        let sizes: Vec<usize> = match rng.below(4) {
            0 => vec![],
            1 => vec![1],
            _ => (0..rng.range(1, 5)).map(|_| rng.range(1, 40) as usize).collect(),
        };
        let pre = if rng.chance(1, 4) { rng.below(s.len() as u64 + 1) as usize } else { 0 };
        go!(8192, &s[..pre], &s[pre..], if rng.chance(1, 2) { "eof" } else { "err" }, &sizes, if rng.chance(1, 3) { 2 } else { 0 });
    }
    // (iv) heads of length BUF-2..BUF+2 for BUF in {64, 8192}
    for cap in [64usize, 8192] {
        for total in cap - 3..=cap + 3 {
            // "GET / HTTP/1.1\r\nx:" + pad + "\r\n\r\n" has length 18 + pad + 4
            let pad = total - 22;
            let mut s = b"GET / HTTP/1.1\r\nx:".to_vec();
            s.extend(std::iter::repeat(b'v').take(pad));
            s.extend_from_slice(b"\r\n\r\n");
            for extra in [&b""[..], b"TAIL"] {
                let mut t = s.clone();
                t.extend_from_slice(extra);
                for sizes in [vec![], vec![1], vec![7, 3]] {
                    go!(cap, &[], &t, "eof", &sizes, 0);
                }
                // no delimiter at all
                let nod: Vec<u8> = t.iter().map(|&b| if b == b'\n' { b'n' } else { b }).collect();
                go!(cap, &[], &nod, "eof", &[], 0);
            }
        }
    }
    pipelines(ctx, &mut rng, &mut idx);
    // (viii) every Cookie value of up to 5 (thorough: 6) symbols over {a = ; " SP}: quotes, empty names and values, stray separators
    let calpha: [u8; 5] = [b'a', b'=', b';', b'"', b' '];
    let cmax = if ctx.thorough() { 6 } else { 5 };
    let mut cur: Vec<usize> = vec![0];
    loop {
        let v: Vec<u8> = cur.iter().map(|&i| calpha[i]).collect();
        let s = [&b"GET / HTTP/1.1\r\nCookie: "[..], &v, b"\r\n\r\n"].concat();
        go!(8192, &[], &s, "eof", &[], 0);
        let mut pos = cur.len();
        loop {
            if pos == 0 { cur = vec![0; cur.len() + 1]; break; }
            pos -= 1;
            if cur[pos] + 1 < calpha.len() { cur[pos] += 1; for c in cur.iter_mut().skip(pos + 1) { *c = 0; } break; }
        }
        if cur.len() > cmax { break; }
    }
    // (v) all 2-way splits and EOF/error at every offset of short heads
    let shorts: [&[u8]; 4] = [b"GET / HTTP/1.1\r\n\r\n", b"PUT /a?b=c HTTP/1.1\r\nh: v\r\n\r\nX", b"G / HTTP/1.1\r\na:\x80\r\n\r\n", b"\r\n\r\n"];
    for s in shorts {
        for sp in all_splits2(s.len()) {
            go!(64, &[], s, "eof", &sp, 0);
            go!(64, &s[..sp[0]], &s[sp[0]..], "err", &[], 3);
        }
        for cut in 0..=s.len() {
            go!(64, &[], &s[..cut], "eof", &[2], 0);
            go!(64, &[], &s[..cut], "err", &[], 0);
        }
    }
}
