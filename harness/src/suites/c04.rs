//! C04 / C09 / C10: the full server (HttpServerBuilder::spawn) over loopback with a scripted handler.
use crate::gen::{dec, enc, Rng};
use crate::{guard, Ctx};
use servlin::{HttpServerBuilder, Request, Response};
use std::collections::HashMap;
use std::io::{Read, Write};
use std::net::{Shutdown, SocketAddr, TcpStream};
use std::path::PathBuf;
use std::sync::{Arc, Mutex, OnceLock};
use std::time::Duration;

#[derive(Clone, Debug)]
pub enum Beh {
    Normal(u16),
    GetBody(u64),
    /// fetch the body (limit), then on the second call behave like the boxed behaviour
    GetBodyThen(u64, Box<Beh>),
    AlwaysGetBody(u64),
    Drop,
    Panic,
    /// a response whose body is a file: (status, declared length, bytes on disk or None = file missing)
    File(u16, u64, Option<usize>),
    /// fetch the body (limit 1 000 000), then take `ms` milliseconds over it
    Wait(u64),
    /// an event stream of `n` messages sent 25 ms apart by another thread, then closed
    Events(u32),
    /// the same with status 503 (a response that closes the connection)
    EventsClosing(u32),
    /// fetch the body (limit 1 000 000); the second call sends `k` events before it returns an event stream (the queue holds 50)
    UploadThenEvents(u32),
    /// fetch the body (limit 1 000 000); the second call answers with the uploaded file itself as the response body
    EchoUpload,
    /// the documented helper: `req.recv_body(M)`
    RecvBody(u64),
    /// an event stream of `n` small events, then one that does not fit the encoder's read slice (70 000 bytes), then one more
    EventsThenOversize(u32),
    /// an event stream whose `n` events of 30 000 bytes are all queued before the response is returned
    EventBurst(u32),
    /// a response that the serialiser refuses before it writes anything (it carries a Content-Length field of its own)
    Unwritable,
    /// fetch the body (limit 1 000 000); the second call keeps a clone of the request (an audit queue) and answers 200
    UploadKeepClone,
}

struct Shared {
    behaviours: HashMap<String, Beh>,
    log: Vec<String>,
}

fn shared() -> &'static Mutex<Shared> {
    static S: OnceLock<Mutex<Shared>> = OnceLock::new();
    S.get_or_init(|| Mutex::new(Shared { behaviours: HashMap::new(), log: Vec::new() }))
}

/// Sets (or lifts) the soft limit on the size of files this process writes.
fn set_fsize_soft(limit: Option<u64>) -> bool {
    let v = limit.map_or("unlimited".to_string(), |l| l.to_string());
    std::process::Command::new("prlimit").args(["--pid", &std::process::id().to_string(), &format!("--fsize={v}:")]).status().map(|s| s.success()).unwrap_or(false)
}

/// Requests kept by `UploadKeepClone` handlers (dropped at the end of each case, after the cache directory has been looked at).
fn kept_requests() -> &'static Mutex<Vec<Request>> {
    static K: OnceLock<Mutex<Vec<Request>>> = OnceLock::new();
    K.get_or_init(|| Mutex::new(Vec::new()))
}

/// Gate for the `busy` schedule: handlers of `/__gate` block here (occupying a thread of the blocking pool).
fn busy_gate() -> &'static (Mutex<(usize, bool)>, std::sync::Condvar) {
    static G: OnceLock<(Mutex<(usize, bool)>, std::sync::Condvar)> = OnceLock::new();
    G.get_or_init(|| (Mutex::new((0, false)), std::sync::Condvar::new()))
}

fn handler(req: Request) -> Response {
    let path = req.url.path().to_string();
    if path == "/__gate" {
        let (m, cv) = busy_gate();
        let mut g = m.lock().unwrap();
        g.0 += 1;
        cv.notify_all();
        let deadline = std::time::Instant::now() + Duration::from_secs(10);
        while !g.1 && std::time::Instant::now() < deadline {
            g = cv.wait_timeout(g, Duration::from_millis(100)).unwrap().0;
        }
        g.0 -= 1;
        return Response::text(200, "gate");
    }
    let body_desc = if req.body.is_pending() {
        "P".to_string()
    } else {
        let mut v = Vec::new();
        req.body.reader().unwrap().read_to_end(&mut v).unwrap();
        format!("B{}", enc(&v))
    };
    let beh = {
        let mut g = shared().lock().unwrap();
        g.log.push(format!("{}:{}:{}", req.method, path, body_desc));
        g.behaviours.get(&path).cloned().unwrap_or(Beh::Normal(200))
    };
    match beh {
        Beh::Normal(code) => Response::text(code, format!("resp-{path}")),
        Beh::GetBody(m) => {
            if req.body.is_pending() { Response::get_body_and_reprocess(m) } else { Response::text(200, format!("got-{path}-{}", req.body.len().unwrap_or(0))) }
        }
        Beh::GetBodyThen(m, second) => {
            if req.body.is_pending() {
                Response::get_body_and_reprocess(m)
            } else {
                match *second {
                    Beh::Normal(code) => Response::text(code, format!("resp-{path}")),
                    Beh::Drop => Response::drop_connection(),
                    Beh::Panic => panic!("scripted handler panic"),
                    _ => Response::get_body_and_reprocess(m),
                }
            }
        }
        Beh::AlwaysGetBody(m) => Response::get_body_and_reprocess(m),
        Beh::Drop => Response::drop_connection(),
        Beh::Panic => panic!("scripted handler panic"),
        Beh::File(code, declared, actual) => {
            static SEQ: std::sync::atomic::AtomicU64 = std::sync::atomic::AtomicU64::new(0);
            let p = super::c06::scratch_dir().join(format!("c04-resp-{}", SEQ.fetch_add(1, std::sync::atomic::Ordering::SeqCst)));
            let _ = std::fs::remove_file(&p);
            if let Some(n) = actual {
                std::fs::write(&p, (0..n).map(|i| b'a' + (i % 26) as u8).collect::<Vec<u8>>()).unwrap();
            }
            Response::new(code).with_type(servlin::ContentType::OctetStream).with_body(servlin::ResponseBody::File(p, declared))
        }
        Beh::Wait(ms) => {
            if req.body.is_pending() { Response::get_body_and_reprocess(1_000_000) } else {
                std::thread::sleep(Duration::from_millis(ms));
                Response::text(200, format!("got-{path}-{}", req.body.len().unwrap_or(0)))
            }
        }
        Beh::EchoUpload => {
            if req.body.is_pending() { return Response::get_body_and_reprocess(1_000_000); }
            match req.body {
                servlin::RequestBody::TempFile(tf, len) => Response::new(200).with_body(servlin::ResponseBody::TempFile(tf, len)),
                other => Response::text(200, format!("mem-{path}-{}", other.len().unwrap_or(0))),
            }
        }
        Beh::RecvBody(m) => match req.recv_body(m) {
            Ok(req) => Response::text(200, format!("got-{path}-{}", req.body.len().unwrap_or(0))),
            Err(response) => response,
        },
        Beh::EventsThenOversize(n) => {
            let (mut sender, r) = Response::event_stream();
            for i in 1..=n { sender.send(servlin::Event::Message(format!("e{i}-{path}"))); }
            sender.send(servlin::Event::Message("x".repeat(70_000)));
            sender.send(servlin::Event::Message("never".to_string()));
            r
        }
        Beh::EventBurst(n) => {
            let (mut sender, r) = Response::event_stream();
            for i in 1..=n { sender.send(servlin::Event::Message(format!("e{i}-{path}-{}", "b".repeat(30_000)))); }
            r
        }
        Beh::Unwritable => Response::text(200, "x").with_header("Content-Length", servlin::AsciiString::try_from("1").unwrap()),
        Beh::UploadThenEvents(k) => {
            if req.body.is_pending() { return Response::get_body_and_reprocess(1_000_000); }
            let (mut sender, r) = Response::event_stream();
            for i in 1..=k { sender.send(servlin::Event::Message(format!("e{i}-{path}"))); }
            r
        }
        Beh::UploadKeepClone => {
            if req.body.is_pending() { return Response::get_body_and_reprocess(1_000_000); }
            let len = req.body.len().unwrap_or(0);
            kept_requests().lock().unwrap().push(req.clone());
            Response::text(200, format!("got-{path}-{len}"))
        }
        Beh::Events(n) | Beh::EventsClosing(n) => {
            let (mut sender, r) = Response::event_stream();
            std::thread::spawn(move || {
                for i in 1..=n {
                    std::thread::sleep(Duration::from_millis(25));
                    sender.send(servlin::Event::Message(format!("e{i}-{path}")));
                }
            });
            if matches!(beh, Beh::EventsClosing(_)) { r.with_status(503) } else { r }
        }
    }
}

pub struct Server {
    pub addr: SocketAddr,
    pub cache: Option<PathBuf>,
}

fn executor() -> &'static Arc<safina::executor::Executor> {
    static E: OnceLock<Arc<safina::executor::Executor>> = OnceLock::new();
    E.get_or_init(|| {
        safina::timer::start_timer_thread();
        safina::executor::Executor::new(2, 8).unwrap()
    })
}

pub fn executor_block_on<F: std::future::Future>(f: F) -> F::Output {
    futures_lite::future::block_on(f)
}

/// One server per (small_body_len, cache dir?) configuration, started lazily and kept for the process.
pub fn server(small: usize, cache: u8) -> Server {
    static SERVERS: OnceLock<Mutex<HashMap<(usize, u8), (SocketAddr, Option<PathBuf>)>>> = OnceLock::new();
    let map = SERVERS.get_or_init(|| Mutex::new(HashMap::new()));
    let mut g = map.lock().unwrap();
    if let Some((addr, dir)) = g.get(&(small, cache)) {
        return Server { addr: *addr, cache: dir.clone() };
    }
    let dir = if cache > 0 {
        let d = super::c06::scratch_dir().join(format!("cache-{small}-{cache}"));
        let _ = std::fs::remove_dir_all(&d);
        std::fs::create_dir_all(&d).unwrap();
        Some(d)
    } else {
        None
    };
    let mut b = HttpServerBuilder::new().max_conns(64).small_body_len(small);
    if let Some(d) = &dir {
        b = b.receive_large_bodies(d);
    }
    let (addr, stopped) = executor().block_on(b.spawn(handler)).unwrap();
    std::mem::forget(stopped);
    if cache == 2 {
        // the cache directory disappears after the server started: every upload fails to create its file
        let _ = std::fs::remove_dir_all(dir.as_ref().unwrap());
    }
    g.insert((small, cache), (addr, dir.clone()));
    Server { addr, cache: dir }
}

pub fn count_files(dir: &Option<PathBuf>) -> usize {
    dir.as_ref().map_or(0, |d| std::fs::read_dir(d).map(|r| r.count()).unwrap_or(0))
}

/// One request of a scenario: `<method>:<path>:<framing>:<body>:<beh>`
/// framing: n none | k content-length | u unknown length (no CL) | e expect + content-length | x malformed | c chunked | d declared length `L` given as `d<L>` (body may be shorter)
pub fn request_bytes(spec: &str) -> (Vec<u8>, String, Beh) {
    let p: Vec<&str> = spec.split(':').collect();
    let (method, path, framing, body, beh) = (p[0], p[1], p[2], dec(p[3]), p[4]);
    let mut out = Vec::new();
    match framing {
        "x" => out.extend_from_slice(format!("{method} {path}\r\n\r\n").as_bytes()),
        // requests that the server answers with an error response of its own: h HTTP/1.0 (505), l head too long (431),
        // q cookie without '=' (400), z non-numeric length (400)
        "h" => out.extend_from_slice(format!("{method} {path} HTTP/1.0\r\n\r\n").as_bytes()),
        "l" => out.extend_from_slice(format!("{method} {path} HTTP/1.1\r\nx-pad: {}\r\n\r\n", "x".repeat(9000)).as_bytes()),
        "q" => out.extend_from_slice(format!("{method} {path} HTTP/1.1\r\ncookie: novalue\r\n\r\n").as_bytes()),
        "z" => out.extend_from_slice(format!("{method} {path} HTTP/1.1\r\ncontent-length: abc\r\n\r\n").as_bytes()),
        _ => {
            out.extend_from_slice(format!("{method} {path} HTTP/1.1\r\n").as_bytes());
            match framing {
                "k" => out.extend_from_slice(format!("content-length: {}\r\n", body.len()).as_bytes()),
                "e" => out.extend_from_slice(format!("content-length: {}\r\nexpect: 100-continue\r\n", body.len()).as_bytes()),
                "c" => out.extend_from_slice(b"transfer-encoding: chunked\r\n"),
                f if f.starts_with('d') => out.extend_from_slice(format!("content-length: {}\r\n", &f[1..]).as_bytes()),
                f if f.starts_with('f') => out.extend_from_slice(format!("content-length: {}\r\nexpect: 100-continue\r\n", &f[1..]).as_bytes()),
                "v" => out.extend_from_slice(b"expect: 100-continue\r\n"),
                // the client asks for a persistent connection explicitly
                "K" => out.extend_from_slice(b"Connection: keep-alive\r\n"),
                _ => {}
            }
            out.extend_from_slice(b"\r\n");
            out.extend_from_slice(&body);
        }
    }
    let b = match &beh[..1] {
        "n" => Beh::Normal(beh[1..].parse().unwrap()),
        "g" if beh.contains('-') => {
            let (m, second) = beh[1..].split_once('-').unwrap();
            let sb = match &second[..1] { "n" => Beh::Normal(second[1..].parse().unwrap()), "d" => Beh::Drop, "p" => Beh::Panic, _ => Beh::AlwaysGetBody(0) };
            Beh::GetBodyThen(m.parse().unwrap(), Box::new(sb))
        }
        "g" => Beh::GetBody(beh[1..].parse().unwrap()),
        "a" => Beh::AlwaysGetBody(beh[1..].parse().unwrap()),
        "d" => Beh::Drop,
        // F<code>-<declared>-<actual|m>
        "E" => Beh::Events(beh[1..].parse().unwrap()),
        "X" => Beh::EventsClosing(beh[1..].parse().unwrap()),
        "S" => Beh::UploadThenEvents(beh[1..].parse().unwrap()),
        "Q" => Beh::UploadKeepClone,
        "U" => Beh::Unwritable,
        "B" => Beh::EventBurst(beh[1..].parse().unwrap()),
        "R" => Beh::RecvBody(beh[1..].parse().unwrap()),
        "T" => Beh::EchoUpload,
        "O" => Beh::EventsThenOversize(beh[1..].parse().unwrap()),
        "w" => Beh::Wait(beh[1..].parse().unwrap()),
        "F" => {
            let parts: Vec<&str> = beh[1..].split('-').collect();
            Beh::File(parts[0].parse().unwrap(), parts[1].parse().unwrap(), if parts[2] == "m" { None } else { Some(parts[2].parse().unwrap()) })
        }
        _ => Beh::Panic,
    };
    (out, path.to_string(), b)
}

fn read_all(c: &mut TcpStream) -> Vec<u8> {
    let _ = c.set_read_timeout(Some(Duration::from_secs(15)));
    let mut out = Vec::new();
    let mut buf = [0u8; 65536];
    loop {
        match c.read(&mut buf) {
            Ok(0) | Err(_) => break,
            Ok(n) => out.extend_from_slice(&buf[..n]),
        }
    }
    out
}

/// Reads one complete response (content-length framed), following 1xx interim responses.
fn read_one_response(c: &mut TcpStream, acc: &mut Vec<u8>) -> bool {
    if c.read_timeout().ok().flatten().is_none() {
        let _ = c.set_read_timeout(Some(Duration::from_secs(10)));
    }
    let mut buf = [0u8; 4096];
    let start = acc.len();
    loop {
        // try to parse what we have from `start`
        let data = &acc[start..];
        let mut off = 0;
        let mut done = false;
        while let Some(pos) = data[off..].windows(4).position(|w| w == b"\r\n\r\n") {
            let head = &data[off..off + pos];
            let text = String::from_utf8_lossy(head).to_string();
            let cl = text.lines().find_map(|l| l.strip_prefix("content-length: ").map(|v| v.trim().parse::<usize>().unwrap_or(0))).unwrap_or(0);
            let end = off + pos + 4 + cl;
            if data.len() < end {
                break;
            }
            let interim = text.starts_with("HTTP/1.1 1");
            off = end;
            if !interim {
                done = true;
                break;
            }
        }
        if done {
            return true;
        }
        match c.read(&mut buf) {
            Ok(0) | Err(_) => return false,
            Ok(n) => acc.extend_from_slice(&buf[..n]),
        }
    }
}

/// args: small_body_len, cache (0|1), schedule (single|bytes|frag|pingpong|cut<N>), requests
pub fn case(ctx: &mut Ctx, tag: &str, small: &str, cache: &str, schedule: &str, requests: &str) {
    let small_n: usize = small.parse().unwrap();
    let cache_b: u8 = cache.parse().unwrap();
    // `L0:` / `L1:` in front of the schedule: the application's logger is dead (receiver gone) / stalled (one-slot queue full, never drained)
    let (logger_env, schedule_rest) = match schedule.split_once(':') { Some((l, r)) if l == "L0" || l == "L1" => (l, r), _ => ("", schedule) };
    let logger_env = logger_env.to_string();
    let sched = schedule_rest.to_string();
    let reqs = requests.to_string();
    let seed = ctx.seed ^ ctx.count;
    let obs = guard(move || {
        let srv = server(small_n, cache_b);
        let _logger = match logger_env.as_str() {
            "L1" => Some(super::c12::stalled_logger_guard()),
            "L0" => {
                let (tx, rx) = std::sync::mpsc::sync_channel::<servlin::log::internal::LogEvent>(1);
                let g = servlin::log::set_global_logger(tx).expect("logger");
                let (_tx2, rx2) = std::sync::mpsc::sync_channel::<servlin::log::internal::LogEvent>(1);
                drop(rx);
                Some((g, rx2))
            }
            _ => None,
        };
        let specs: Vec<(Vec<u8>, String, Beh)> = reqs.split(';').filter(|x| !x.is_empty()).map(request_bytes).collect();
        {
            let mut g = shared().lock().unwrap();
            g.behaviours.clear();
            g.log.clear();
            for (_, path, beh) in &specs {
                g.behaviours.insert(path.clone(), beh.clone());
            }
        }
        let before = count_files(&srv.cache);
        // cache = 3: no file of this process can grow beyond 4096 bytes while the requests are served (RLIMIT_FSIZE; the harness
        // runs with SIGXFSZ ignored, so the write fails with EFBIG as on a full disk)
        if cache_b == 3 && !set_fsize_soft(Some(4096)) { return "no-prlimit".to_string(); }
        let mut client = TcpStream::connect(srv.addr).unwrap();
        client.set_nodelay(true).unwrap();
        let mut transcript = Vec::new();
        let all: Vec<u8> = specs.iter().flat_map(|s| s.0.clone()).collect();
        // read concurrently with writing: a reset caused by writing to a closed connection may discard
        // received data that has not been read yet
        let reader = if sched != "pingpong" && sched != "hold" && sched != "linger" && sched != "wait100" && !sched.starts_with("rst") {
            let mut rc = client.try_clone().unwrap();
            Some(std::thread::spawn(move || read_all(&mut rc)))
        } else {
            None
        };
        let mut rng = Rng::new(seed);
        let mut peak = 0usize;
        let mut others: Vec<Vec<u8>> = Vec::new();
        let mut early = false;
        match sched.as_str() {
            "single" => { let _ = client.write_all(&all); }
            "bytes" => { for b in &all { if client.write_all(&[*b]).is_err() { break; } } }
            // the last k bytes of every request arrive 25 ms after the rest of it (k = 1: the final LF of a head in a piece of its own)
            t if t.starts_with("tail") => {
                let k: usize = t[4..].parse().unwrap();
                for (bytes, _, _) in &specs {
                    let cut = bytes.len().saturating_sub(k);
                    if client.write_all(&bytes[..cut]).is_err() { break; }
                    std::thread::sleep(Duration::from_millis(25));
                    if client.write_all(&bytes[cut..]).is_err() { break; }
                }
            }
            // each further request 35 ms after the one before: it arrives while the response to the earlier one is still being produced
            "mid" => {
                for (i, (bytes, _, _)) in specs.iter().enumerate() {
                    if i > 0 { std::thread::sleep(Duration::from_millis(35)); }
                    if client.write_all(bytes).is_err() { break; }
                }
            }
            "frag" => {
                let mut pos = 0;
                while pos < all.len() {
                    let n = (rng.range(1, 40) as usize).min(all.len() - pos);
                    if client.write_all(&all[pos..pos + n]).is_err() { break; }
                    pos += n;
                    if rng.chance(1, 5) { std::thread::sleep(Duration::from_millis(1)); }
                    peak = peak.max(count_files(&srv.cache));
                }
            }
            "pingpong" => {
                for (bytes, _, _) in &specs {
                    if client.write_all(bytes).is_err() { break; }
                    if !read_one_response(&mut client, &mut transcript) { break; }
                }
            }
            "linger" => {
                // one request at a time on a connection that stays open: an upload's file must be gone once its
                // request has been answered, not only when the connection ends
                for (bytes, _, _) in &specs {
                    if client.write_all(bytes).is_err() { break; }
                    if !read_one_response(&mut client, &mut transcript) { break; }
                    std::thread::sleep(Duration::from_millis(25));
                    let mut n = count_files(&srv.cache);
                    for _ in 0..150 {
                        if n <= before { break; }
                        std::thread::sleep(Duration::from_millis(2));
                        n = count_files(&srv.cache);
                    }
                    peak = peak.max(n.saturating_sub(before));
                }
            }
            "wait100" => {
                // a client that sends the head, waits for the interim response (up to 700 ms), then sends the body
                let _ = client.set_read_timeout(Some(Duration::from_millis(700)));
                for (bytes, _, _) in &specs {
                    let he = bytes.windows(4).position(|w| w == b"\r\n\r\n").map_or(bytes.len(), |p| p + 4);
                    if client.write_all(&bytes[..he]).is_err() { break; }
                    if he < bytes.len() {
                        let mut buf = [0u8; 256];
                        let mut got = Vec::new();
                        while !got.windows(4).any(|w| w == b"\r\n\r\n") {
                            match client.read(&mut buf) { Ok(k) if k > 0 => got.extend_from_slice(&buf[..k]), _ => break }
                        }
                        let interim = got.starts_with(b"HTTP/1.1 100");
                        transcript.extend_from_slice(&got);
                        if !got.is_empty() && !interim { continue; } // final answer without the body: next request
                        if client.write_all(&bytes[he..]).is_err() { break; }
                    }
                    let _ = client.set_read_timeout(Some(Duration::from_secs(8)));
                    if !read_one_response(&mut client, &mut transcript) { break; }
                    let _ = client.set_read_timeout(Some(Duration::from_millis(700)));
                }
            }
            s if s.starts_with("busy") => {
                // the upload is under way; then every thread of the blocking pool is taken by a slow handler of another
                // connection; then the client abandons the upload: its file must go although no pool thread is free
                let n: usize = s[4..].parse::<usize>().unwrap().min(all.len());
                // part of the bytes before the pool is saturated, the rest after it (the upload makes progress meanwhile)
                let n1 = n - (n / 3).min(20_000);
                let _ = client.write_all(&all[..n1]);
                std::thread::sleep(Duration::from_millis(40));
                { busy_gate().0.lock().unwrap().1 = false; }
                let addr = srv.addr;
                let gs: Vec<_> = (0..8).map(|_| std::thread::spawn(move || {
                    let mut c = TcpStream::connect(addr).unwrap();
                    let _ = c.write_all(b"GET /__gate HTTP/1.1\r\n\r\n");
                    let _ = c.shutdown(Shutdown::Write);
                    read_all(&mut c)
                })).collect();
                {
                    let (m, cv) = busy_gate();
                    let mut g = m.lock().unwrap();
                    let deadline = std::time::Instant::now() + Duration::from_secs(5);
                    while g.0 < 8 && std::time::Instant::now() < deadline { g = cv.wait_timeout(g, Duration::from_millis(50)).unwrap().0; }
                }
                let _ = client.write_all(&all[n1..n]);
                std::thread::sleep(Duration::from_millis(15));
                let _ = client.shutdown(Shutdown::Write);
                let mut left = count_files(&srv.cache);
                for _ in 0..400 {
                    if left <= before { break; }
                    std::thread::sleep(Duration::from_millis(3));
                    left = count_files(&srv.cache);
                }
                peak = left.saturating_sub(before);
                { let (m, cv) = busy_gate(); m.lock().unwrap().1 = true; cv.notify_all(); }
                for g in gs { let _ = g.join(); }
            }
            "par3" => {
                // two more connections send the same bytes concurrently
                let addr = srv.addr;
                let hs: Vec<_> = (0..2).map(|_| { let a = all.clone(); std::thread::spawn(move || {
                    let mut c = TcpStream::connect(addr).unwrap();
                    let mut rc = c.try_clone().unwrap();
                    let r = std::thread::spawn(move || read_all(&mut rc));
                    let _ = c.write_all(&a);
                    let _ = c.shutdown(Shutdown::Write);
                    r.join().unwrap()
                })}).collect();
                let _ = client.write_all(&all);
                for h in hs { others.push(h.join().unwrap()); }
            }
            "hold" => {
                // send everything but keep the sending side open: does the answer arrive without waiting for EOF?
                let _ = client.write_all(&all);
                // generous when an early answer is due (over-limit body), short when the server has to wait for EOF
                let due = specs.iter().any(|(bytes, _, beh)| matches!(beh, Beh::GetBody(m) if (bytes.len() as u64) > *m + 22));
                let _ = client.set_read_timeout(Some(Duration::from_millis(if due { 8000 } else { 400 })));
                early = read_one_response(&mut client, &mut transcript);
            }
            s if s.starts_with("split") => {
                let n: usize = s[5..].parse::<usize>().unwrap().min(all.len());
                let _ = client.write_all(&all[..n]);
                std::thread::sleep(Duration::from_millis(120));
                let _ = client.write_all(&all[n..]);
            }
            s if s.starts_with("rst") => {
                // send the first N bytes, leave the server's interim response unread and close: the kernel answers the
                // server's next read with a reset (an error, not end-of-stream)
                let n: usize = s[3..].parse::<usize>().unwrap().min(all.len());
                let _ = client.write_all(&all[..n]);
                std::thread::sleep(Duration::from_millis(80));
                peak = peak.max(count_files(&srv.cache));
                let old = std::mem::replace(&mut client, TcpStream::connect(srv.addr).unwrap());
                drop(old);
            }
            s if s.starts_with("cut") => {
                // send only the first N bytes, then disconnect abruptly (after a short pause so the server starts the upload)
                let n: usize = s[3..].parse::<usize>().unwrap().min(all.len());
                let _ = client.write_all(&all[..n]);
                std::thread::sleep(Duration::from_millis(3));
                peak = peak.max(count_files(&srv.cache));
            }
            _ => panic!("schedule"),
        }
        let _ = client.shutdown(Shutdown::Write);
        match reader {
            Some(h) => transcript.extend_from_slice(&h.join().unwrap()),
            None => transcript.extend_from_slice(&read_all(&mut client)),
        }
        drop(client);
        if cache_b == 3 { let _ = set_fsize_soft(None); }
        // the connection task finishes asynchronously: wait for the cache dir to settle
        let mut files_after = count_files(&srv.cache);
        for _ in 0..200 {
            if files_after <= before { break; }
            std::thread::sleep(Duration::from_millis(2));
            files_after = count_files(&srv.cache);
        }
        kept_requests().lock().unwrap().clear();
        let mut log = shared().lock().unwrap().log.clone();
        if sched == "par3" {
            log.sort();
            if others.iter().any(|o| *o != transcript) {
                transcript = b"TRANSCRIPTS-DIFFER".to_vec();
            }
        }
        let e = if sched == "hold" { format!(" early={}", u8::from(early)) } else if sched == "linger" || sched.starts_with("busy") { format!(" outlived={peak}") } else { String::new() };
        format!("calls={} wire={} files={}{e}", log.join("|"), enc(&transcript), files_after.saturating_sub(before))
    });
    ctx.emit(tag, &[small, cache, schedule, requests], &obs);
}

fn body(rng: &mut Rng, n: usize) -> String {
    if n > 2000 { enc(&vec![b'a' + (rng.below(26) as u8); n]) } else { enc(&rng.bytes(n)) }
}

/// Event streams inside a sequence of requests: the requests that follow arrive with the first one, in fragments, or while the
/// stream is still being produced, and the client half-closes its side as soon as it has sent everything (legal: it keeps
/// reading).  Every event, the terminating chunk and every later response must arrive, in order.
fn events_in_sequences(ctx: &mut Ctx, rng: &mut Rng) {
    let mut eidx = 50_000u64;
    for n in [1u32, 2, 3] {
        for sched in ["single", "frag", "mid"] {
            for shape in 0..5 {
                eidx += 1;
                if !ctx.mine(eidx) { continue; }
                // shape 3: a burst of 30 000-byte events queued before the stream starts (several fit one read of the encoder, not all)
                // shape 4: the stream fails in mid-body (an event too large for the encoder): what was sent stays, nothing follows it
                // (once: a burst of 12 events, 360 kB, consumed back to back)
                let n = if shape == 3 && n == 3 && sched == "single" { 11 } else { n };
                let reqs = if shape == 4 { format!("GET:/pre{eidx}:n::n200;GET:/ev{eidx}:n::O{n};GET:/after{eidx}:n::n200") } else if shape == 3 { format!("GET:/ev{eidx}:n::B{};GET:/after{eidx}:n::n200", n + 1) } else if shape == 2 { format!("GET:/pre{eidx}:n::n200;GET:/ev{eidx}:n::X{n};GET:/after{eidx}:n::n200") } else if shape == 0 { format!("GET:/ev{eidx}:n::E{n};GET:/after{eidx}:n::n200") }
                    else { format!("GET:/pre{eidx}:n::n200;GET:/ev{eidx}:n::E{n};POST:/post{eidx}:k:{}:n201;GET:/ev2{eidx}:n::E1", body(rng, 30)) };
                case(ctx, "c04", "100", "1", sched, &reqs);
            }
        }
    }
}

/// c04e: only the event-stream sequences (shared by C04, C07 and C11)
pub fn run_c04e(ctx: &mut Ctx) {
    let mut rng = Rng::new(ctx.seed.wrapping_add(44));
    events_in_sequences(ctx, &mut rng);
}

/// C04: sequences of 1..12 requests x behaviours x schedules.
pub fn run(ctx: &mut Ctx) {
    let mut rng = Rng::new(ctx.seed.wrapping_add(4));
    let n = if ctx.thorough() { 6000 } else { 700 };
    for i in 0..n {
        let small = *rng.pick(&[100usize, 65536]);
        let cache = rng.chance(3, 4);
        let k = rng.range(1, 12);
        let mut reqs = Vec::new();
        for j in 0..k {
            let last = j + 1 == k;
            let kind = rng.below(12);
            let beh = match rng.below(14) {
                0 => "n404".to_string(), 1 => "n500".to_string(), 2 => "d".to_string(), 3 => "p".to_string(),
                4 | 5 => format!("g{}", *rng.pick(&[0u64, 10, 150, 5000, 1_000_000])), 6 => "a1000".to_string(),
                7 => "n201".to_string(),
                // file-backed response bodies: intact, shorter than declared, longer, missing (only after a request without upload)
                8 if kind < 3 || kind == 11 => format!("F200-{}", *rng_pick(&["40-40", "900-300", "40-0", "40-m", "40-60", "70000-70000", "70000-100", "40-39"])),
                _ => "n200".to_string(),
            };
            let spec = match kind {
                0 | 1 | 2 => format!("GET:/r{j}:n::{beh}"),
                3 | 4 => format!("POST:/r{j}:k:{}:{beh}", body(&mut rng, *rng_pick(&[0usize, 1, 50, 100]))),
                5 | 6 => format!("PUT:/r{j}:k:{}:{beh}", body(&mut rng, *rng_pick(&[101usize, 150, 3000]))),
                7 => format!("POST:/r{j}:e:{}:{beh}", body(&mut rng, *rng_pick(&[5usize, 120]))),
                8 if last => format!("POST:/r{j}:u:{}:{beh}", body(&mut rng, *rng_pick(&[0usize, 7, 200, 6000]))),
                9 => format!("GET:/r{j}:{}::{beh}", *rng_pick(&["x", "x", "h", "l", "q", "z"])),
                10 => format!("POST:/r{j}:c:{}:{beh}", enc(b"5\r\nhello\r\n0\r\n\r\n")),
                _ => format!("DELETE:/r{j}:n::{beh}"),
            };
            reqs.push(spec);
        }
        let total: usize = reqs.iter().map(|r| r.len()).sum();
        let wire_len: usize = reqs.iter().map(|r| request_bytes(r).0.len()).sum();
        let cut = format!("cut{}", rng.below(wire_len as u64 + 1));
        let sched = match rng.below(8) { 0 | 1 => "single", 2 if total < 1500 => "bytes", 3 => "frag", 4 => "pingpong", 5 | 6 => cut.as_str(), _ => "single" };
        if ctx.mine(i) {
            case(ctx, "c04", &small.to_string(), if cache { "1" } else { "0" }, sched, &reqs.join(";"));
        }
    }
    events_in_sequences(ctx, &mut rng);
    // the end of a head (and of a body) delayed: the last 1..5 bytes of every request arrive in a piece of their own
    for k in 1..=5usize {
        for (j, reqs) in ["GET:/a:n::n200", "GET:/a:n::n200;GET:/b:n::n404;GET:/c:n::n200", "POST:/p:k:3031323334353637:n201;GET:/q:n::n200"].iter().enumerate() {
            if ctx.mine(61_000 + (k * 10 + j) as u64) { case(ctx, "c04", "100", "1", &format!("tail{k}"), reqs); }
        }
    }
    // the handler answers with the uploaded file itself (it keeps the file past its own return): three exchanges on one connection
    for (j, sched) in ["single", "pingpong"].iter().enumerate() {
        if ctx.mine(62_000 + j as u64) {
            let b = |n: usize, ch: u8| enc(&(0..n).map(|i| ch + (i % 7) as u8).collect::<Vec<u8>>());
            case(ctx, "c04", "100", "1", sched, &format!("POST:/echo1:k:{}:T;PUT:/echo2:k:{}:T;POST:/echo3:e:{}:T;GET:/after:n::n200", b(5000, b'a'), b(101, b'k'), b(70_000, b'q')));
        }
    }
    // long keep-alive sequences: 130 and 260 requests on one connection, pipelined and one at a time
    for (k, (count, sched)) in [(130usize, "single"), (130, "pingpong"), (260, "frag")].iter().enumerate() {
        if ctx.mine(60_000 + k as u64) {
            let reqs: Vec<String> = (0..*count).map(|j| format!("GET:/r{j}:n::n200")).collect();
            case(ctx, "c04", "100", "1", sched, &reqs.join(";"));
        }
    }
    // a client that waits for `100 Continue` before sending the body (head first, body after the interim response)
    let nw = if ctx.thorough() { 200 } else { 30 };
    for i in 0..nw {
        let k = rng.range(1, 3);
        let mut reqs = Vec::new();
        for j in 0..k {
            let last = j + 1 == k;
            let beh = match rng.below(6) { 0 => "n200".to_string(), 1 => "g3".to_string(), _ => "g1000000".to_string() };
            let blen = *rng_pick(&[5usize, 120, 150, 3000]);
            let framing = if last && rng.chance(1, 2) { "v" } else { "e" };
            reqs.push(format!("POST:/w{j}:{framing}:{}:{beh}", body(&mut rng, blen)));
        }
        if ctx.mine(n + 5000 + i) {
            case(ctx, "c04", "100", if rng.chance(5, 6) { "1" } else { "0" }, "wait100", &reqs.join(";"));
        }
    }
    // long pipelines of short requests in one write: reads fill the connection buffer completely again and again
    let nl = if ctx.thorough() { 40 } else { 6 };
    for i in 0..nl {
        let k = rng.range(200, 600);
        let reqs: Vec<String> = (0..k).map(|j| format!("GET:/s{j}{}:n::n200", "y".repeat(rng.below(25) as usize))).collect();
        if ctx.mine(n + 6000 + i) {
            case(ctx, "c04", "100", "1", "single", &reqs.join(";"));
        }
    }
    // pipelines of padded requests (more than the 8 KiB connection buffer in flight), delivered in two writes with a pause,
    // so that a request head straddles the end of the buffer while earlier requests are still being answered
    let np = if ctx.thorough() { 400 } else { 60 };
    for i in 0..np {
        let k = rng.range(12, 16);
        let pad = rng.range(700, 900) as usize;
        let reqs: Vec<String> = (0..k).map(|j| format!("GET:/p{j}/{}:n::n200", "x".repeat(pad))).collect();
        let wire_len: usize = reqs.iter().map(|r| request_bytes(r).0.len()).sum();
        let split = rng.range(7000, 8191.min(wire_len as u64 - 1));
        if ctx.mine(n + i) {
            case(ctx, "c04", "100", "1", &format!("split{split}"), &reqs.join(";"));
        }
    }
}

/// C20 on the wire: every request class the server answers with an error response of its own, and handler answers of
/// every 5xx / 4xx kind, alone and after an ordinary request; the bytes the client receives are compared with the model
/// (status, `connection: close` on every 5xx, body that names only the error kind) and nothing may follow.
pub fn run_c20w(ctx: &mut Ctx) {
    let mut idx = 0u64;
    for framing in ["x", "h", "l", "q", "z", "c"] {
        for prefix in ["", "GET:/ok:n::n200;"] {
            for sched in ["single", "frag"] {
                idx += 1;
                if ctx.mine(idx) && !(framing == "l" && sched == "frag") {
                    case(ctx, "c04", "100", "1", sched, &format!("{prefix}GET:/e{idx}:{framing}::n200;GET:/after:n::n200"));
                }
            }
        }
    }
    // an incomplete request, then the client half-closes and keeps reading: the answer is the 400 of `Truncated`
    for (req, cut) in [("GET:/t1:n::n200", 9usize), ("GET:/t2:n::n200", 24), ("POST:/t3:k:30313233343536373839:n200", 50), ("GET:/ok:n::n200;GET:/t4:n::n200", 40)] {
        idx += 1;
        if ctx.mine(idx) { case(ctx, "c04", "100", "1", &format!("cut{cut}"), req); }
    }
    // 5xx answers to requests that ask for a persistent connection explicitly
    for beh in ["n500", "n503", "p", "n200"] {
        idx += 1;
        if ctx.mine(idx) { case(ctx, "c04", "100", "1", "single", &format!("GET:/k{idx}:K::{beh};GET:/after:n::n200")); }
    }
    // a response that cannot be written (nothing was sent for it) is answered by the 500 of its error — on a fresh connection,
    // on one that has carried responses before, and after an interim 100 Continue
    for prefix in ["", "GET:/ok:n::n200;", "GET:/ok:n::n200;POST:/p:k:3031:n201;"] {
        for sched in ["single", "pingpong"] {
            idx += 1;
            if ctx.mine(idx) { case(ctx, "c04", "100", "1", sched, &format!("{prefix}GET:/dup{idx}:n::U;GET:/after:n::n200")); }
        }
    }
    idx += 1;
    if ctx.mine(idx) { case(ctx, "c04", "5", "1", "single", &format!("POST:/dupe{idx}:e:{}:U;GET:/after:n::n200", enc(b"0123456789"))); }
    // the disk fails while an upload is being saved: a fault of the server (500, connection closed), never the client's (400)
    // (several 64 KiB blocks: the failure then surfaces inside the copy loop; with a short body it surfaces when the file is closed)
    for (framing, len) in [("k", 400_000usize), ("u", 400_000), ("e", 300_000), ("k", 70_000), ("k", 4097)] {
        idx += 1;
        if ctx.mine(idx) { case(ctx, "c04", "100", "3", "single", &format!("POST:/full{idx}:{framing}:{}:g1000000;GET:/after:n::n200", enc(&vec![b'f'; len]))); }
    }
    for beh in ["n500", "n503", "n599", "n404", "p", "g5", "a9"] {
        for (framing, body) in [("n", String::new()), ("k", enc(b"0123456789")), ("u", enc(b"0123456789"))] {
            idx += 1;
            if ctx.mine(idx) {
                let cache = if idx % 4 == 0 { "0" } else { "1" };
                case(ctx, "c04", "5", cache, "single", &format!("POST:/h{idx}:{framing}:{body}:{beh};GET:/after:n::n200"));
            }
        }
    }
}

/// c01n: a server in a process that never started the `safina` timer thread (a legal configuration: the library needs the
/// timer only to pace retries after accept errors).  Requests that arrive late, in pieces, or after a pause on a kept-alive
/// connection must be served as usual.
pub fn run_c01n(ctx: &mut Ctx) {
    if !ctx.mine(0) { return; }
    let obs = guard(move || {
        let ex = safina::executor::Executor::new(1, 2).unwrap();
        let b = HttpServerBuilder::new().max_conns(8).listen_addr("127.0.0.1:0".parse().unwrap());
        let (addr, stopped) = ex.block_on(b.spawn(|_req: Request| Response::text(200, "ok"))).unwrap();
        std::mem::forget(stopped);
        let one = |parts: &[&[u8]], pause_first: bool| -> String {
            let mut c = TcpStream::connect(addr).unwrap();
            let _ = c.set_read_timeout(Some(Duration::from_secs(4)));
            if pause_first { std::thread::sleep(Duration::from_millis(60)); }
            let mut out = Vec::new();
            for (i, p) in parts.iter().enumerate() {
                if i > 0 { std::thread::sleep(Duration::from_millis(60)); }
                if c.write_all(p).is_err() { return "wfail".to_string(); }
                if p.ends_with(b"\r\n\r\n") {
                    let mut acc = Vec::new();
                    if !read_one_response(&mut c, &mut acc) { return format!("{}closed", out.join("+")); }
                    out.push(String::from_utf8_lossy(&acc).split(' ').nth(1).unwrap_or("?").to_string());
                }
            }
            out.join("+")
        };
        let a = one(&[b"GET /a HTTP/1.1\r\n\r\n"], true);
        let b2 = one(&[b"GET /b HTT", b"P/1.1\r\nx: y\r\n\r\n"], false);
        let c3 = one(&[b"GET /c HTTP/1.1\r\n\r\n", b"GET /d HTTP/1.1\r\n\r\n"], false);
        // 130 requests, one at a time, on one connection
        let long = {
            let mut c = TcpStream::connect(addr).unwrap();
            let _ = c.set_read_timeout(Some(Duration::from_secs(4)));
            let mut n = 0;
            for i in 0..130 {
                if c.write_all(format!("GET /l{i} HTTP/1.1\r\n\r\n").as_bytes()).is_err() { break; }
                let mut acc = Vec::new();
                if !read_one_response(&mut c, &mut acc) || !acc.starts_with(b"HTTP/1.1 200") { break; }
                n += 1;
            }
            n
        };
        format!("late={a} split={b2} keepalive={c3} long={long}")
    });
    ctx.emit("c01n", &["-"], &obs);
}

/// c04p: handler panics on `n` connections at once, on a server whose handler pool has exactly `n` threads, while a plain
/// request and an upload of other connections are queued behind them.  Everyone must be answered (the panickers with 500),
/// and the upload's file must be gone.
pub fn case_pool(ctx: &mut Ctx, n: &str) {
    let nn: usize = n.parse().unwrap();
    let obs = guard(move || {
        use std::sync::atomic::{AtomicUsize, Ordering};
        static ENTERED: AtomicUsize = AtomicUsize::new(0);
        static CALLS: AtomicUsize = AtomicUsize::new(0);
        static RELEASE: std::sync::atomic::AtomicBool = std::sync::atomic::AtomicBool::new(false);
        ENTERED.store(0, Ordering::SeqCst);
        CALLS.store(0, Ordering::SeqCst);
        RELEASE.store(false, Ordering::SeqCst);
        safina::timer::start_timer_thread();
        let ex = safina::executor::Executor::new(2, nn).unwrap();
        let dir = super::c06::scratch_dir().join(format!("c04p-{nn}"));
        let _ = std::fs::remove_dir_all(&dir);
        std::fs::create_dir_all(&dir).unwrap();
        let handler = |req: Request| {
            CALLS.fetch_add(1, Ordering::SeqCst);
            let path = req.url.path().to_string();
            if path.starts_with("/panic") {
                ENTERED.fetch_add(1, Ordering::SeqCst);
                let deadline = std::time::Instant::now() + Duration::from_secs(10);
                while !RELEASE.load(Ordering::SeqCst) && std::time::Instant::now() < deadline { std::thread::sleep(Duration::from_millis(2)); }
                // (every other panic carries a payload that is not a string)
                if path.ends_with('0') || path.ends_with('2') { std::panic::panic_any(42u32); }
                panic!("scripted handler panic");
            }
            if path == "/up" {
                return if req.body.is_pending() { Response::get_body_and_reprocess(1_000_000) } else { Response::text(200, format!("up-{}", req.body.len().unwrap_or(0))) };
            }
            Response::text(200, "q")
        };
        let b = HttpServerBuilder::new().max_conns(32).small_body_len(100).receive_large_bodies(&dir).listen_addr("127.0.0.1:0".parse().unwrap());
        let (addr, stopped) = ex.block_on(b.spawn(handler)).unwrap();
        std::mem::forget(stopped);
        let status = |c: &mut TcpStream| -> String {
            let _ = c.set_read_timeout(Some(Duration::from_secs(4)));
            let mut acc = Vec::new();
            if read_one_response(c, &mut acc) { String::from_utf8_lossy(&acc).split(' ').nth(1).unwrap_or("?").to_string() } else { "none".to_string() }
        };
        let mut panickers: Vec<TcpStream> = (0..nn).map(|i| { let mut c = TcpStream::connect(addr).unwrap(); c.write_all(format!("GET /panic/{i} HTTP/1.1\r\n\r\n").as_bytes()).unwrap(); c }).collect();
        let t0 = std::time::Instant::now();
        while ENTERED.load(Ordering::SeqCst) < nn && t0.elapsed() < Duration::from_secs(5) { std::thread::sleep(Duration::from_millis(2)); }
        // every thread of the pool is inside a handler now: these two are queued
        let mut q = TcpStream::connect(addr).unwrap();
        q.write_all(b"GET /q HTTP/1.1\r\n\r\n").unwrap();
        let mut u = TcpStream::connect(addr).unwrap();
        u.write_all(b"POST /up HTTP/1.1\r\ncontent-length: 300\r\n\r\n").unwrap();
        u.write_all(&[b'u'; 300]).unwrap();
        std::thread::sleep(Duration::from_millis(60));
        RELEASE.store(true, Ordering::SeqCst);
        let a: Vec<String> = panickers.iter_mut().map(|c| status(c)).collect();
        let qs = status(&mut q);
        let us = status(&mut u);
        drop(panickers); drop(q); drop(u);
        let mut files = count_files(&Some(dir.clone()));
        for _ in 0..200 { if files == 0 { break; } std::thread::sleep(Duration::from_millis(2)); files = count_files(&Some(dir.clone())); }
        format!("a={} q={qs} u={us} files={files} calls={}", a.join(","), CALLS.load(Ordering::SeqCst))
    });
    ctx.emit("c04p", &[n], &obs);
}

pub fn run_c04p(ctx: &mut Ctx) {
    for (i, n) in [1usize, 2, 3].iter().enumerate() {
        if ctx.mine(i as u64) { case_pool(ctx, &n.to_string()); }
    }
}

/// c10s: `k` uploads are stalled (their clients stopped sending in mid-body and hold their connections); one more upload
/// starts and its client goes away: its file must go although the others are still stalled; when they leave, theirs go too.
pub fn run_c10s(ctx: &mut Ctx) {
    for (j, k) in [32usize, 40].iter().enumerate() {
        if !ctx.mine(j as u64) { continue; }
        let kk = *k;
        let obs = guard(move || {
            let srv = server(100, 1);
            {
                let mut g = shared().lock().unwrap();
                g.behaviours.clear();
                g.log.clear();
                for i in 0..kk { g.behaviours.insert(format!("/st{i}"), Beh::GetBody(1_000_000)); }
                g.behaviours.insert("/victim".to_string(), Beh::GetBody(1_000_000));
            }
            let before = count_files(&srv.cache);
            let wait_files = |want: usize, ms: u64| -> usize {
                let t0 = std::time::Instant::now();
                loop {
                    let n = count_files(&srv.cache).saturating_sub(before);
                    if n == want || t0.elapsed() > Duration::from_millis(ms) { return n; }
                    std::thread::sleep(Duration::from_millis(5));
                }
            };
            let mut stallers = Vec::new();
            for i in 0..kk {
                let mut c = TcpStream::connect(srv.addr).unwrap();
                let _ = c.write_all(format!("POST /st{i} HTTP/1.1\r\ncontent-length: 500000\r\n\r\n").as_bytes());
                let _ = c.write_all(&vec![b's'; 70_000]);
                stallers.push(c);
            }
            let stalled = wait_files(kk, 4000);
            let mut v = TcpStream::connect(srv.addr).unwrap();
            let _ = v.write_all(b"POST /victim HTTP/1.1\r\ncontent-length: 500000\r\n\r\n");
            let _ = v.write_all(&vec![b'v'; 70_000]);
            std::thread::sleep(Duration::from_millis(150));
            drop(v);
            // the victim's file is gone while the others are still there
            std::thread::sleep(Duration::from_millis(100));
            let with_victim_gone = wait_files(kk, 1500);
            drop(stallers);
            let after = wait_files(0, 3000);
            format!("stalled={stalled} after_victim_left={with_victim_gone} after={after}")
        });
        ctx.emit("c10s", &[&kk.to_string()], &obs);
    }
}

/// c01l: requests that cannot be read (and ordinary ones) while the application's logger has stopped: the connection task
/// must still answer with the error's response — never die silently.
pub fn run_c01l(ctx: &mut Ctx) {
    let mut idx = 0u64;
    for framing in ["x", "h", "l", "q", "z", "n"] {
        for prefix in ["", "GET:/ok:n::n200;"] {
            idx += 1;
            if ctx.mine(idx) { case(ctx, "c04", "100", "1", "L0:single", &format!("{prefix}GET:/e{idx}:{framing}::n200")); }
        }
    }
    for cut in [7usize, 20] {
        idx += 1;
        if ctx.mine(idx) { case(ctx, "c04", "100", "1", &format!("L0:cut{cut}"), "GET:/trunc:n::n200"); }
    }
}

fn rng_pick<T>(xs: &[T]) -> &T {
    // deterministic helper for array literals inside format! (uses a thread-local counter)
    use std::cell::Cell;
    thread_local! { static K: Cell<usize> = const { Cell::new(0) }; }
    K.with(|k| { k.set(k.get().wrapping_add(7)); &xs[k.get() % xs.len()] })
}

/// C09: the S x M x L boundary grid (declared / undeclared, with / without Expect, cache dir on / off).
pub fn run_c09(ctx: &mut Ctx) {
    run_c09_hold(ctx);
    let mut idx = 0u64;
    for s in [0u64, 1, 100, 65536] {
        let mut ms: Vec<u64> = vec![0, 1, s.saturating_sub(1), s, s + 1, 70_000, 1 << 63, u64::MAX];
        ms.sort(); ms.dedup();
        for m in ms {
            let mut ls: Vec<u64> = vec![0, 1, s.saturating_sub(1), s, s + 1, m.saturating_sub(1), m, m.saturating_add(1), m.saturating_add(2)];
            ls.sort(); ls.dedup();
            for l in ls {
                for declared in [true, false] {
                    for expect in [false, true] {
                        for cache in ["1", "0"] {
                            // bodies are capped at 150 KB; a larger *declared* length is sent with a short body (client EOF)
                            let actual = l.min(150_000) as usize;
                            if !declared && l > 150_000 { continue; }
                            if cache == "0" && !(l <= 1 || l == s || l == s + 1) { continue; }
                            let framing = match (declared, expect) {
                                (true, false) => if l as usize == actual { "k".to_string() } else { format!("d{l}") },
                                (true, true) => if l as usize == actual { "e".to_string() } else { format!("f{l}") },
                                (false, false) => "u".to_string(),
                                (false, true) => "v".to_string(),
                            };
                            idx += 1;
                            if !ctx.mine(idx) { continue; }
                            let body = enc(&(0..actual).map(|i| b'a' + (i % 23) as u8).collect::<Vec<u8>>());
                            // a body that was sent completely is followed by a second request on the same connection
                            let follow = if (framing == "k" || framing == "e") && idx % 2 == 0 { ";GET:/r1:n::n200" } else { "" };
                            let req = format!("POST:/r0:{framing}:{body}:g{m}{follow}");
                            case(ctx, "c09", &s.to_string(), cache, if idx % 3 == 0 && actual < 20_000 { "frag" } else { "single" }, &req);
                        }
                    }
                }
            }
        }
    }
    // methods other than POST/PUT with a declared body: the same boundaries (a declared length frames a body whatever the method)
    for method in ["GET", "HEAD", "TRACE", "DELETE", "OPTIONS", "M"] {
        for (l, m) in [(50u64, 100u64), (100, 100), (101, 101), (101, 100), (3000, 1_000_000), (3000, 10)] {
            idx += 1;
            if !ctx.mine(idx) { continue; }
            let body = enc(&(0..l as usize).map(|i| b'a' + (i % 23) as u8).collect::<Vec<u8>>());
            case(ctx, "c09", "100", "1", "single", &format!("{method}:/r0:k:{body}:g{m};GET:/r1:n::n200"));
        }
    }
    // the handler supplies its limit through the documented helper `Request::recv_body(M)`
    for (framing, l, m) in [("u", 1u64, 70_000u64), ("u", 1000, 70_000), ("u", 70_000, 70_000), ("u", 70_001, 70_000), ("v", 500, 1000), ("k", 5000, 5000), ("k", 101, 1_000_000), ("e", 3000, 3000), ("k", 50, 100)] {
        idx += 1;
        if !ctx.mine(idx) { continue; }
        let body = enc(&(0..l as usize).map(|i| b'a' + (i % 23) as u8).collect::<Vec<u8>>());
        case(ctx, "c09", "100", "1", "single", &format!("POST:/r0:{framing}:{body}:R{m}"));
    }
    // the disk fails while (or only when the file is closed after) a body within the limit is saved: never accepted
    for (framing, l) in [("k", 4097u64), ("k", 6000), ("e", 5000), ("u", 4500), ("k", 300_000)] {
        idx += 1;
        if !ctx.mine(idx) { continue; }
        let body = enc(&(0..l as usize).map(|i| b'a' + (i % 23) as u8).collect::<Vec<u8>>());
        case(ctx, "c09", "100", "3", "single", &format!("POST:/r0:{framing}:{body}:g1000000"));
    }
    // declared lengths written with leading zeros (Content-Length = 1*DIGIT), also wider than the 20 digits of u64::MAX:
    // the same boundaries apply to the value, not to its spelling
    for (l, width) in [(0u64, 21usize), (3, 21), (100, 24), (101, 21), (101, 40), (5000, 22), (5000, 3), (7, 20), (7, 19)] {
        for m in [l, l.saturating_sub(1), 1_000_000] {
            for expect in [false, true] {
                idx += 1;
                if !ctx.mine(idx) { continue; }
                let body = enc(&(0..l as usize).map(|i| b'a' + (i % 23) as u8).collect::<Vec<u8>>());
                let framing = format!("{}{:0width$}", if expect { "f" } else { "d" }, l, width = width);
                case(ctx, "c09", "100", "1", "single", &format!("POST:/r0:{framing}:{body}:g{m};GET:/r1:n::n200"));
            }
        }
    }
}

/// C09: an over-limit body of undeclared length is refused after M+1 bytes, without waiting for the end of the stream.
pub fn run_c09_hold(ctx: &mut Ctx) {
    let mut idx = 0u64;
    for m in [0u64, 10, 1000, 70_000] {
        for extra in [-5i64, 0, 1, 2, 50, 5000] {
            let l = (m as i64 + extra).max(0) as usize;
            idx += 1;
            if !ctx.mine(idx) { continue; }
            let body = enc(&vec![b'h'; l]);
            case(ctx, "c09", "100", "1", "hold", &format!("POST:/r0:u:{body}:g{m}"));
        }
    }
}

/// C10: uploads cut by client disconnect at offset classes x handler outcome after receipt x cache dir removed x concurrency.
pub fn run_c10(ctx: &mut Ctx) {
    let mut idx = 0u64;
    let mut rng = Rng::new(ctx.seed.wrapping_add(10));
    // an upload that the handler answers without asking for the body, the client having sent only part of it and then
    // stalling: the request is answered, so no file may appear for it afterwards
    for (declared, sent) in [(5000usize, 200usize), (5000, 0), (200_000, 70_000), (101, 100)] {
        for code in ["n200", "n303", "n201"] {
            idx += 1;
            if !ctx.mine(idx) { continue; }
            let body = enc(&vec![b'p'; sent]);
            case(ctx, "c10", "100", "1", "linger", &format!("POST:/r0:d{declared}:{body}:{code}"));
        }
    }
    // the handler answers with the uploaded file itself as the response body (it keeps the file past its own return):
    // three exchanges on one connection; the file is gone once its response has been sent
    idx += 1;
    if ctx.mine(idx) {
        let b = |n: usize, ch: u8| enc(&(0..n).map(|i| ch + (i % 7) as u8).collect::<Vec<u8>>());
        case(ctx, "c10", "100", "1", "linger", &format!("POST:/echo1:k:{}:T;PUT:/echo2:k:{}:T;POST:/echo3:e:{}:T;GET:/after:n::n200", b(5000, b'a'), b(101, b'k'), b(70_000, b'q')));
    }
    idx += 1;
    if ctx.mine(idx) { case(ctx, "c10", "100", "1", "single", &format!("POST:/echo4:u:{}:T", enc(&vec![b'z'; 3000]))); }
    // an upload whose handler reports 10 / 50 / 51 / 80 events before it returns (the event queue holds 50), and one whose
    // handler keeps a clone of the request beyond its return: answered, file gone
    for (k, beh) in ["S10", "S50", "S51", "S80", "Q"].iter().enumerate() {
        for sched in ["single", "linger"] {
            idx += 1;
            if !ctx.mine(idx) { continue; }
            let _ = k;
            let follow = if beh.starts_with('S') || sched == "linger" { "" } else { ";GET:/r1:n::n200" };
            if beh.starts_with('S') && sched == "linger" { continue; }
            case(ctx, "c10", "100", "1", sched, &format!("POST:/up{idx}:k:{}:{beh}{follow}", enc(&vec![b'q'; 400])));
        }
    }
    // the disk fails while an upload is saved and the client goes away before it has sent its declared length: answered (500),
    // nothing left behind, no waiting for bytes that will not come
    // (enough bytes arrive for the write failure to surface inside the copy loop; with fewer, "truncated" is an equally valid verdict)
    for (declared, sent) in [(400_000usize, 200_000usize), (1_000_000, 300_000)] {
        idx += 1;
        if ctx.mine(idx) { case(ctx, "c10", "100", "3", "single", &format!("POST:/r0:d{declared}:{}:g1000000", enc(&vec![b'd'; sent]))); }
    }
    // a handler that takes 11 s over a received upload: the response is the handler's own, and the file is gone once it is sent
    idx += 1;
    if ctx.mine(idx) {
        case(ctx, "c10", "100", "1", "single", &format!("POST:/slow:k:{}:w11000;GET:/r1:n::n200", enc(&vec![b's'; 300])));
    }
    let lens: Vec<usize> = if ctx.thorough() { vec![1, 200, 8191, 8192, 8193, 65536, 100_000] } else { vec![200, 8192, 70_000] };
    for len in lens {
        let body = enc(&(0..len).map(|i| b'A' + (i % 26) as u8).collect::<Vec<u8>>());
        for framing in ["k", "u", "e"] {
            for second in ["", "-n200", "-n503", "-d", "-p", "-a"] {
                for m in [len as u64, 1_000_000, (len as u64).saturating_sub(1)] {
                    let req = format!("POST:/r0:{framing}:{body}:g{m}{second};GET:/r1:n::n200");
                    // complete upload, different deliveries
                    for sched in ["single", "frag", "par3"] {
                        idx += 1;
                        if ctx.mine(idx) && (sched != "frag" || len < 20_000) {
                            case(ctx, "c10", "100", "1", sched, &req);
                        }
                    }
                    // cache dir removed
                    idx += 1;
                    if ctx.mine(idx) { case(ctx, "c10", "100", "2", "single", &req); }
                    // the connection stays open after each answer: the file must be gone by then
                    idx += 1;
                    if ctx.mine(idx) && m == 1_000_000 && framing != "u" {
                        let req2 = format!("POST:/r0:{framing}:{body}:g{m}{second};GET:/r1:n::n200;POST:/r2:{framing}:{body}:g{m};GET:/r3:n::n200");
                        case(ctx, "c10", "100", "1", "linger", &req2);
                    }
                }
            }
            // client disconnects at offset classes of the upload
            let head_len = request_bytes(&format!("POST:/r0:{framing}:{body}:g1000000")).0.len() - len;
            for off in [0usize, 1, 4096, 8192 - head_len.min(8192), len.saturating_sub(1), len, len + 1] {
                let cut = head_len + off.min(len + 30);
                idx += 1;
                if ctx.mine(idx) {
                    let second = *rng.pick(&["", "-n200", "-p"]);
                    let req = format!("POST:/r0:{framing}:{body}:g1000000{second};GET:/r1:n::n200");
                    case(ctx, "c10", "100", "1", &format!("cut{cut}"), &req);
                }
                // … the same abandonment while the application's logger is stalled (its queue is full and nobody drains it)
                idx += 1;
                if ctx.mine(idx) && (ctx.thorough() || off == 1 || off == len - 1) {
                    let req = format!("POST:/r0:{framing}:{body}:g1000000;GET:/r1:n::n200");
                    case(ctx, "c10", "100", "1", &format!("L1:cut{cut}"), &req);
                }
                // … the same offsets, but the client goes away with a reset (socket error on the server's read) instead of a FIN
                idx += 1;
                if ctx.mine(idx) && framing == "e" && (ctx.thorough() || off == 1 || off == 4096 || off == len - 1) {
                    let req = format!("POST:/r0:{framing}:{body}:g1000000;GET:/r1:n::n200");
                    case(ctx, "c10", "100", "1", &format!("rst{cut}"), &req);
                    // … and for a body of undeclared length (announced with Expect): a reset is not the end of the body
                    let req = format!("POST:/r0:v:{body}:g1000000");
                    let hl = request_bytes(&req).0.len() - len;
                    case(ctx, "c10", "100", "1", &format!("rst{}", hl + off.min(len)), &req);
                }
                // … and the same abandonment while all handler threads are busy with other connections
                idx += 1;
                // (a body of undeclared length ends with the connection: that upload is complete, not abandoned)
                if ctx.mine(idx) && framing != "u" && off >= 1 && off < len && (ctx.thorough() || off == 1 || off == len - 1) {
                    let req = format!("POST:/r0:{framing}:{body}:g1000000;GET:/r1:n::n200");
                    case(ctx, "c10", "100", "1", &format!("busy{cut}"), &req);
                }
            }
        }
    }
}
