//! Finite tables of the code, regenerated on every run by *executing* it: `Gen/CodeTables.lean`.
//! The Lean theorems in `Props/CodeTables.lean` re-check the model's tables against what the code says now.
use servlin::internal::{month_len_days, reason_phrase};
use servlin::log::internal::LogEvent;
use servlin::log::{set_global_logger, TagList};
use servlin::ContentType;

fn lean_bytes(b: &[u8]) -> String {
    format!("[{}]", b.iter().map(|x| x.to_string()).collect::<Vec<_>>().join(", "))
}

fn ctype_name(c: &ContentType) -> String {
    match c {
        ContentType::Str(_) | ContentType::String(_) => "other".to_string(),
        ContentType::None => "none".to_string(),
        k => format!("{k:?}"),
    }
}

pub fn gen() {
    println!("import ServlinVerif.Basic.Bytes");
    println!("/- GENERATED on every run by `svharness tables gen` by executing /repo's code. Do not edit. -/");
    println!("namespace Servlin.Gen");
    println!("/-- (status code, `reason_phrase(code)`) for every code 100..999 -/");
    println!("def reasonTable : List (Nat × List UInt8) := [");
    let rows: Vec<String> = (100u16..=999).map(|c| format!("  ({c}, {})", lean_bytes(reason_phrase(c).as_bytes()))).collect();
    println!("{}\n]", rows.join(",\n"));
    println!("set_option maxRecDepth 20000 in");
    println!("/-- (year, month, `month_len_days(year, month)`) for one 400-year cycle -/");
    println!("def monthLenRows : List (List (Nat × Nat × Nat)) := [");
    let mut rows = Vec::new();
    for y in 2000i64..2400 {
        let ms: Vec<String> = (1i64..=12).map(|m| format!("({y}, {m}, {})", month_len_days(y, m))).collect();
        rows.push(format!("  [{}]", ms.join(", ")));
    }
    println!("{}\n]", rows.join(",\n"));
    println!("def monthLenTable : List (Nat × Nat × Nat) := monthLenRows.flatten");
    // ContentType::parse on every variant's own text, every bare media type, parameters, case changes, blanks
    let variants = [
        ContentType::Css, ContentType::Csv, ContentType::EventStream, ContentType::FormUrlEncoded, ContentType::Gif, ContentType::Html,
        ContentType::JavaScript, ContentType::Jpeg, ContentType::Json, ContentType::Markdown, ContentType::MultipartForm, ContentType::None,
        ContentType::OctetStream, ContentType::Pdf, ContentType::PlainText, ContentType::Png, ContentType::Svg,
    ];
    let mut probes: Vec<String> = Vec::new();
    for v in &variants {
        let full = v.as_str().to_string();
        let bare = full.split(';').next().unwrap().to_string();
        probes.push(full.clone());
        probes.push(bare.clone());
        probes.push(format!("{bare};x=1"));
        probes.push(format!("{bare} ; charset=UTF-8"));
        probes.push(bare.to_uppercase());
        probes.push(format!(" {bare}"));
        probes.push(format!("{bare}x"));
    }
    probes.extend([";", ";a", "a/b", "text/plain;", "TEXT/HTML; charset=UTF-8", "text", "application/jsonp"].map(String::from));
    probes.sort();
    probes.dedup();
    println!("/-- (text given to `ContentType::parse`, variant it answered: its name, `none`, or `other` for Str/String) -/");
    println!("def contentTypeTable : List (List UInt8 × String) := [");
    let rows: Vec<String> = probes.iter().map(|p| format!("  ({}, \"{}\")", lean_bytes(p.as_bytes()), ctype_name(&ContentType::parse(p)))).collect();
    println!("{}\n]", rows.join(",\n"));
    // the order in which `log()` delivers a fixed list of tags
    let names: [&'static str; 12] = ["zeta", "code", "response_body_len", "request_body", "alpha", "request_body_len", "path", "http_method", "msg", "k1", "path", "msg"];
    let (tx, rx) = std::sync::mpsc::sync_channel::<LogEvent>(16);
    let guard = set_global_logger(tx).expect("logger");
    let mut tl = TagList::new();
    for (i, n) in names.iter().enumerate() {
        tl.push(n, i as i64);
    }
    servlin::log::internal::clear_thread_local_log_tags();
    let _ = servlin::log::internal::log(std::time::SystemTime::now(), servlin::log::Level::Info, tl);
    drop(guard);
    let ev = rx.try_recv().expect("event");
    // members between "level" and "time_ns" of the JSON line, in order (all values are integers here)
    let mut line = Vec::new();
    ev.write_jsonl(&mut line).expect("write_jsonl");
    let line = String::from_utf8(line).unwrap();
    let order: Vec<String> = line.trim_end().trim_start_matches('{').trim_end_matches('}').split(',')
        .filter_map(|m| { let (k, v) = m.split_once(':')?; let k = k.trim_matches('"'); if k == "time" || k == "level" || k == "time_ns" { None } else { Some(format!("(\"{k}\", {v})")) } })
        .collect();
    println!("/-- tags given to `log()` (name, index) and the order in which the event carries them -/");
    println!("def tagProbe : List (String × Int) := [{}]", names.iter().enumerate().map(|(i, n)| format!("(\"{n}\", {i})")).collect::<Vec<_>>().join(", "));
    println!("def tagOrder : List (String × Int) := [{}]", order.join(", "));
    println!("end Servlin.Gen");
}

/// `Gen/HeadTable.lean`: see `Props/HeadTable.lean`.  Numbers are plain `Nat` literals (cheap to elaborate); one table per
/// position class: `(bytes before, bytes after)` and a row `(byte, outcome code, method, fields, bytes left)` per byte value.
pub fn gen_head() {
    println!("/- GENERATED on every run by `svharness headtab gen` by executing /repo's code. Do not edit. -/");
    println!("namespace Servlin.Gen");
    // `Head::try_read` on every byte value at every position class of a request head (method, target, version, field name,
    // inside / at the edges of a field value, line ends): outcome, parsed method and fields, bytes left in the buffer
    let shapes: Vec<(&[u8], &[u8])> = vec![
        (b"", b" / HTTP/1.1\r\n\r\n"), (b"G", b"T / HTTP/1.1\r\n\r\n"), (b"GET /a", b"c HTTP/1.1\r\n\r\n"), (b"GET ", b" HTTP/1.1\r\n\r\n"),
        (b"GET / HTTP/1.", b"\r\n\r\n"), (b"GET / ", b"TTP/1.1\r\n\r\n"), (b"GET / HTTP/1.1\r\nn", b"m: v\r\n\r\n"), (b"GET / HTTP/1.1\r\n", b": v\r\n\r\n"),
        (b"GET / HTTP/1.1\r\nn", b" v\r\n\r\n"), (b"GET / HTTP/1.1\r\nn: a", b"c\r\n\r\n"), (b"GET / HTTP/1.1\r\nn: ", b"c\r\n\r\n"), (b"GET / HTTP/1.1\r\nn: a", b"\r\n\r\n"),
        (b"GET / HTTP/1.1\r\nn:", b"\r\nm: w\r\n\r\n"), (b"GET / HTTP/1.1", b"\nn: v\r\n\r\nREST"), (b"GET / HTTP/1.1\r\nn: v\r", b"\r\n\r\nREST"), (b"GET / HTTP/1.1\r\nn: v\r\n", b"\n\r\n\r\nR"),
    ];
    println!("/-- outcome codes: 0 = parsed, then the variants of `HeadError` in declaration order, 7 = panic -/");
    println!("def headErrCodes : List String := [\"\", \"Truncated\", \"MissingRequestLine\", \"MalformedRequestLine\", \"MalformedPath\", \"UnsupportedProtocol\", \"MalformedHeader\", \"PANIC\"]");
    let names = ["", "Truncated", "MissingRequestLine", "MalformedRequestLine", "MalformedPath", "UnsupportedProtocol", "MalformedHeader", "PANIC"];
    for (si, (pre, post)) in shapes.iter().enumerate() {
        let mut rows = Vec::new();
        for b in 0u16..=255 {
            let probe: Vec<u8> = [*pre, &[b as u8][..], *post].concat();
            let mut buf: fixed_buffer::FixedBuf<256> = fixed_buffer::FixedBuf::new();
            buf.write_bytes(&probe).expect("probe fits");
            let out = std::panic::catch_unwind(std::panic::AssertUnwindSafe(|| servlin::internal::Head::try_read(&mut buf)));
            let left = buf.len();
            let (err, method, fields) = match out {
                Err(_) => ("PANIC".to_string(), Vec::new(), Vec::new()),
                Ok(Err(e)) => (format!("{e:?}"), Vec::new(), Vec::new()),
                Ok(Ok(h)) => (String::new(), h.method.as_bytes().to_vec(), h.headers.iter().map(|f| (f.name.as_bytes().to_vec(), f.value.as_bytes().to_vec())).collect::<Vec<_>>()),
            };
            let code = names.iter().position(|n| *n == err).expect("error name");
            let fs: Vec<String> = fields.iter().map(|(n, v)| format!("({}, {})", lean_bytes(n), lean_bytes(v))).collect();
            rows.push(format!("({b}, {code}, {}, [{}], {left})", lean_bytes(&method), fs.join(", ")));
        }
        println!("def headShape{si} : List Nat × List Nat := ({}, {})", lean_bytes(pre), lean_bytes(post));
        println!("set_option maxRecDepth 100000 in");
        println!("def headRows{si} : List (Nat × Nat × List Nat × List (List Nat × List Nat) × Nat) := [\n  {}]", rows.join(",\n  "));
    }
    println!("/-- one table per position class; each has a row for every byte value -/");
    println!("def headByteTables : List ((List Nat × List Nat) × List (Nat × Nat × List Nat × List (List Nat × List Nat) × Nat)) := [{}]",
        (0..shapes.len()).map(|i| format!("(headShape{i}, headRows{i})")).collect::<Vec<_>>().join(", "));
    println!("end Servlin.Gen");
}
