//! C07: copy_chunked_async under scripted readers/writers.
use crate::gen::{dec, enc, parse_sizes, sizes_str, Rng};
use crate::io_script::{block_on, ScriptReader, ScriptWriter};
use crate::{guard, Ctx};
use servlin::internal::{copy_chunked_async, CopyResult};

/// args: data, read sizes, end (eof|err), write sizes, pending period
pub fn case(ctx: &mut Ctx, data: &str, rsizes: &str, end: &str, wsizes: &str, pending: &str) {
    case_f(ctx, data, rsizes, end, wsizes, pending, "-");
}

/// as `case`, with a writer that fails once it has accepted `fail_at` bytes (permanently, or once with `Interrupted`)
pub fn case_f(ctx: &mut Ctx, data: &str, rsizes: &str, end: &str, wsizes: &str, pending: &str, fail_at: &str) {
    let bytes = dec(data);
    let rs = parse_sizes(rsizes);
    let ws = parse_sizes(wsizes);
    let end_err = end == "err";
    let pend: u64 = pending.parse().unwrap();
    let fail: Option<usize> = fail_at.parse().ok();
    let obs = guard(move || {
        let mut reader = ScriptReader::new(bytes, rs, end_err, pend);
        let mut writer = ScriptWriter::new(ws, fail, if pend > 0 { pend + 1 } else { 0 });
        let res = block_on(copy_chunked_async(&mut reader, &mut writer));
        let r = match res {
            CopyResult::Ok(n) => format!("ok:{n}"),
            CopyResult::ReaderErr(_) => "rerr".to_string(),
            CopyResult::WriterErr(_) => "werr".to_string(),
        };
        format!("{} {}", enc(&writer.out), r)
    });
    if fail_at == "-" { ctx.emit("c07", &[data, rsizes, end, wsizes, pending], &obs); } else { ctx.emit("c07", &[data, rsizes, end, wsizes, pending, fail_at], &obs); }
}

fn rand_data(rng: &mut Rng, n: usize) -> Vec<u8> {
    // mixture: random bytes, long runs (compress well on the wire of the protocol), CR/LF/'0' heavy
    match rng.below(3) {
        0 => rng.bytes(n),
        1 => {
            let mut v = Vec::with_capacity(n);
            while v.len() < n {
                let b = *rng.pick(&[b'0', b'\r', b'\n', b'a', 0u8, 255u8]);
                let k = (rng.range(1, 70000) as usize).min(n - v.len());
                v.extend(std::iter::repeat(b).take(k));
            }
            v
        }
        _ => (0..n).map(|_| *rng.pick(b"0\r\n0a;")).collect(),
    }
}

pub fn run(ctx: &mut Ctx) {
    let mut rng = Rng::new(ctx.seed);
    let mut idx = 0u64;
    let mut go = |ctx: &mut Ctx, data: &[u8], rs: &[usize], end: &str, ws: &[usize], pend: u64| {
        idx += 1;
        if ctx.mine(idx) {
            case(ctx, &enc(data), &sizes_str(rs), end, &sizes_str(ws), &pend.to_string());
        }
    };
    // (1) every piece length (size-line encoding incl. leading-zero trimming)
    let lens: Vec<usize> = if ctx.thorough() {
        (1..=65528).collect()
    } else {
        let mut v: Vec<usize> = (1..=300).collect();
        for p in [16usize, 256, 4096, 65536] {
            for d in [-2i64, -1, 0, 1, 2] {
                let x = p as i64 + d;
                if (1..=65528).contains(&x) {
                    v.push(x as usize);
                }
            }
        }
        v.extend([0xfff, 0x1000, 0x1001, 0xa0a, 0x0d0a, 0x3030, 0xffef, 65527, 65528, 32768, 40960, 43690]);
        for _ in 0..300 {
            v.push(rng.range(1, 65528) as usize);
        }
        v
    };
    for len in lens {
        let b = if len % 2 == 0 { b'0' } else { b'x' };
        go(ctx, &vec![b; len], &[len], "eof", &[], 0);
    }
    // (2) greedy reader: fills whatever slice it is offered (pieces of 65528)
    for n in [0usize, 1, 65527, 65528, 65529, 131056, 131057, 200_000] {
        go(ctx, &vec![b'g'; n], &[], "eof", &[], 0);
        go(ctx, &vec![b'0'; n], &[usize::MAX / 2], "err", &[7], 3);
    }
    // (3) random streams under random / adversarial piece sequences, short writes, Pending, errors
    let n = if ctx.thorough() { 6000 } else { 600 };
    for i in 0..n {
        let size = match rng.below(10) {
            0 => 0,
            1..=5 => rng.below(200) as usize,
            6..=8 => rng.below(20_000) as usize,
            _ => rng.below(if ctx.thorough() { 1 << 20 } else { 150_000 }) as usize,
        };
        let data = rand_data(&mut rng, size);
        let nr = rng.range(1, 6) as usize;
        let rs: Vec<usize> = (0..nr)
            .map(|_| match rng.below(5) {
                0 => 1,
                1 => rng.range(1, 20) as usize,
                2 => *rng.pick(&[15usize, 16, 17, 255, 256, 257, 4095, 4096, 4097]),
                3 => rng.range(1, 70_000) as usize,
                _ => 65528,
            })
            .collect();
        let ws: Vec<usize> = if rng.chance(1, 2) { vec![] } else { (0..rng.range(1, 4)).map(|_| rng.range(1, 9000) as usize).collect() };
        let end = if i % 3 == 0 { "err" } else { "eof" };
        let pend = if rng.chance(1, 2) { rng.range(2, 5) } else { 0 };
        go(ctx, &data, &rs, end, &ws, pend);
    }
    // (4) source error at every chunk boundary of a fixed stream
    let data: Vec<u8> = (0..40u8).collect();
    for cut in 0..=40usize {
        go(ctx, &data[..cut], &[7, 1, 16], "err", &[3], 2);
        go(ctx, &data[..cut], &[7, 1, 16], "eof", &[1], 0);
    }
    // (5) the writer fails at every offset of a short stream's encoding (permanent error / one `Interrupted`), short writes before it
    let data: Vec<u8> = (0..60u8).collect();
    for k in 0..=95usize {
        for ws in [vec![], vec![3usize], vec![1000, 2]] {
            idx += 1;
            if ctx.mine(idx) {
                case_f(ctx, &enc(&data), &sizes_str(&[20, 9, 31]), "eof", &sizes_str(&ws), "0", &k.to_string());
            }
        }
    }
}
