//! C20: status-named constructors, error -> response mapping.
use crate::gen::{hex, unhex, Rng};
use crate::Ctx;
use servlin::internal::{HttpError, ResponseKind};
use servlin::{Response, ResponseBody};
use std::io::ErrorKind;

include!(concat!(env!("OUT_DIR"), "/status_ctors.rs"));

pub fn body_bytes(r: &Response) -> Option<Vec<u8>> {
    match &r.body {
        ResponseBody::StaticBytes(b) => Some(b.to_vec()),
        ResponseBody::StaticStr(s) => Some(s.as_bytes().to_vec()),
        ResponseBody::Vec(v) => Some(v.clone()),
        _ => None,
    }
}

pub fn kind_str(k: ResponseKind) -> String {
    match k {
        ResponseKind::Normal => "normal".into(),
        ResponseKind::DropConnection => "drop".into(),
        ResponseKind::GetBodyAndReprocess(n) => format!("getbody:{n}"),
    }
}

/// `kind code ctype headers body` (hex where it is text).
pub fn show_response(r: &Response) -> String {
    format!(
        "{} {} {} {} {}",
        kind_str(r.kind),
        r.code,
        if r.content_type == servlin::ContentType::None { "N".to_string() } else { format!("S:{}", hex(r.content_type.as_str().as_bytes())) },
        r.headers.iter().map(|h| format!("{}:{}", hex(h.name.as_bytes()), hex(h.value.as_bytes()))).collect::<Vec<_>>().join(","),
        body_bytes(r).map_or("?".to_string(), |b| format!("B:{}", hex(&b)))
    )
}

fn kind_name(k: ErrorKind) -> String {
    format!("{k:?}")
}

/// All variants; the match below is exhaustive so that a new variant breaks the harness build
/// (a correspondence break) instead of being silently skipped.
fn all_errors(kind: ErrorKind, payload: &str) -> Vec<(String, HttpError)> {
    let p = payload.to_string();
    let list = vec![
        HttpError::AlreadyGotBody, HttpError::BodyNotAvailable, HttpError::BodyNotRead, HttpError::BodyNotUtf8,
        HttpError::BodyTooLong, HttpError::CacheDirNotConfigured, HttpError::Disconnected,
        HttpError::DuplicateContentLengthHeader, HttpError::DuplicateContentTypeHeader,
        HttpError::DuplicateTransferEncodingHeader, HttpError::ErrorReadingFile(kind, p.clone()),
        HttpError::ErrorReadingResponseBody(kind, p.clone()), HttpError::ErrorSavingFile(kind, p.clone()),
        HttpError::HandlerDeadlineExceeded, HttpError::HeadTooLong, HttpError::InvalidContentLength,
        HttpError::MalformedCookieHeader, HttpError::MalformedHeaderLine, HttpError::MalformedPath,
        HttpError::MalformedRequestLine, HttpError::MissingRequestLine, HttpError::ResponseAlreadySent,
        HttpError::ResponseNotSent, HttpError::TimerThreadNotStarted, HttpError::Truncated,
        HttpError::UnsupportedProtocol, HttpError::UnsupportedTransferEncoding, HttpError::UnwritableResponse,
    ];
    list.into_iter().map(|e| (lean_ctor(&e), e)).collect()
}

fn lean_ctor(e: &HttpError) -> String {
    let lower = |s: &str| {
        let mut c = s.chars();
        c.next().map(|f| f.to_ascii_lowercase().to_string() + c.as_str()).unwrap()
    };
    match e {
        HttpError::AlreadyGotBody => lower("AlreadyGotBody"),
        HttpError::BodyNotAvailable => lower("BodyNotAvailable"),
        HttpError::BodyNotRead => lower("BodyNotRead"),
        HttpError::BodyNotUtf8 => lower("BodyNotUtf8"),
        HttpError::BodyTooLong => lower("BodyTooLong"),
        HttpError::CacheDirNotConfigured => lower("CacheDirNotConfigured"),
        HttpError::Disconnected => lower("Disconnected"),
        HttpError::DuplicateContentLengthHeader => lower("DuplicateContentLengthHeader"),
        HttpError::DuplicateContentTypeHeader => lower("DuplicateContentTypeHeader"),
        HttpError::DuplicateTransferEncodingHeader => lower("DuplicateTransferEncodingHeader"),
        HttpError::ErrorReadingFile(k, s) => format!("errorReadingFile:{}:{}", kind_name(*k), hex(s.as_bytes())),
        HttpError::ErrorReadingResponseBody(k, s) => format!("errorReadingResponseBody:{}:{}", kind_name(*k), hex(s.as_bytes())),
        HttpError::ErrorSavingFile(k, s) => format!("errorSavingFile:{}:{}", kind_name(*k), hex(s.as_bytes())),
        HttpError::HandlerDeadlineExceeded => lower("HandlerDeadlineExceeded"),
        HttpError::HeadTooLong => lower("HeadTooLong"),
        HttpError::InvalidContentLength => lower("InvalidContentLength"),
        HttpError::MalformedCookieHeader => lower("MalformedCookieHeader"),
        HttpError::MalformedHeaderLine => lower("MalformedHeaderLine"),
        HttpError::MalformedPath => lower("MalformedPath"),
        HttpError::MalformedRequestLine => lower("MalformedRequestLine"),
        HttpError::MissingRequestLine => lower("MissingRequestLine"),
        HttpError::ResponseAlreadySent => lower("ResponseAlreadySent"),
        HttpError::ResponseNotSent => lower("ResponseNotSent"),
        HttpError::TimerThreadNotStarted => lower("TimerThreadNotStarted"),
        HttpError::Truncated => lower("Truncated"),
        HttpError::UnsupportedProtocol => lower("UnsupportedProtocol"),
        HttpError::UnsupportedTransferEncoding => lower("UnsupportedTransferEncoding"),
        HttpError::UnwritableResponse => lower("UnwritableResponse"),
    }
}

fn parse_kind(s: &str) -> ErrorKind {
    for k in KINDS {
        if kind_name(*k) == s {
            return *k;
        }
    }
    ErrorKind::Other
}

const KINDS: &[ErrorKind] = &[
    ErrorKind::NotFound, ErrorKind::PermissionDenied, ErrorKind::UnexpectedEof, ErrorKind::Other,
    ErrorKind::InvalidData, ErrorKind::BrokenPipe, ErrorKind::WriteZero, ErrorKind::InvalidInput,
];

fn error_from_spec(spec: &str) -> Option<HttpError> {
    let parts: Vec<&str> = spec.split(':').collect();
    let payload = parts.get(2).map(|h| String::from_utf8(unhex(h)).unwrap()).unwrap_or_default();
    let kind = parts.get(1).map_or(ErrorKind::Other, |k| parse_kind(k));
    all_errors(kind, &payload).into_iter().find(|(c, _)| c.split(':').next() == Some(parts[0])).map(|x| x.1)
}

pub fn case_error(ctx: &mut Ctx, spec: &str) {
    let e = error_from_spec(spec).expect("error spec");
    let server = e.is_server_error();
    let desc = e.description();
    let r: Response = e.into();
    ctx.emit("c20e", &[spec], &format!("{} {} D:{}", show_response(&r), server, hex(desc.as_bytes())));
}

/// `variant` = index among the rows of that constructor (one row per argument it was executed on).
pub fn case_status(ctx: &mut Ctx, name: &str, nnn: &str, variant: &str) {
    let k: usize = variant.parse().unwrap_or(0);
    let obs = match status_ctors().into_iter().filter(|r| r.0 == name).nth(k) {
        Some((_, _, Some(r))) => format!("{} {}", kind_str(r.kind), r.code),
        Some((_, _, None)) => "unknown-arg-shape".to_string(),
        None => "no-such-constructor".to_string(),
    };
    ctx.emit("c20s", &[name, nnn, variant], &obs);
}

fn lean_bytes(b: &[u8]) -> String {
    format!("[{}]", b.iter().map(|x| x.to_string()).collect::<Vec<_>>().join(", "))
}

/// Emits `Gen/C20Tables.lean`: the tables obtained by *executing* the code.
pub fn gen(_ctx: &mut Ctx) {
    println!("import ServlinVerif.Model.HttpError");
    println!("/- GENERATED on every run by `svharness c20 gen` from /repo's code. Do not edit. -/");
    println!("namespace Servlin.Gen");
    println!("/-- (constructor name, NNN in the name, observed kind is Normal, observed code) -/");
    println!("def statusTable : List (String × Nat × Bool × Nat) := [");
    let rows = status_ctors();
    let n = rows.len();
    for (i, (name, nnn, r)) in rows.into_iter().enumerate() {
        let (normal, code) = match r {
            Some(r) => (r.kind == ResponseKind::Normal, u64::from(r.code)),
            None => (false, 0),
        };
        println!("  (\"{name}\", {nnn}, {normal}, {code}){}", if i + 1 < n { "," } else { "" });
    }
    println!("]");
    println!("/-- (error value, is_server_error, response kind is Normal, code, content type, body) -/");
    println!("def errorTable : List (HttpError × Bool × Response) := [");
    let errs = all_errors(ErrorKind::NotFound, "/secret/path: No such file or directory (os error 2)\r\nx");
    let n = errs.len();
    for (i, (ctor, e)) in errs.into_iter().enumerate() {
        let server = e.is_server_error();
        let r: Response = e.into();
        let parts: Vec<&str> = ctor.split(':').collect();
        let term = if parts.len() == 3 {
            format!("HttpError.{} \"{}\" {}", parts[0], parts[1], lean_bytes(&unhex(parts[2])))
        } else {
            format!("HttpError.{}", parts[0])
        };
        let kind = match r.kind {
            ResponseKind::Normal => ".normal".to_string(),
            ResponseKind::DropConnection => ".dropConnection".to_string(),
            ResponseKind::GetBodyAndReprocess(n) => format!(".getBodyAndReprocess {n}"),
        };
        let ctype = if r.content_type == servlin::ContentType::None { "none".to_string() } else { format!("some {}", lean_bytes(r.content_type.as_str().as_bytes())) };
        let body = body_bytes(&r).unwrap_or_default();
        let headers = if r.headers.is_empty() { "[]".to_string() } else { "[⟨[0], [0]⟩]".to_string() };
        println!(
            "  ({term}, {server}, {{ kind := {kind}, code := {}, ctype := {ctype}, headers := {headers}, body := Body.ofBytes {} }}){}",
            r.code, lean_bytes(&body), if i + 1 < n { "," } else { "" }
        );
    }
    println!("]");
    println!("end Servlin.Gen");
}

const MORE_KINDS: &[ErrorKind] = &[
    ErrorKind::NotFound, ErrorKind::PermissionDenied, ErrorKind::ConnectionRefused, ErrorKind::ConnectionReset, ErrorKind::ConnectionAborted,
    ErrorKind::NotConnected, ErrorKind::AddrInUse, ErrorKind::AddrNotAvailable, ErrorKind::BrokenPipe, ErrorKind::AlreadyExists,
    ErrorKind::WouldBlock, ErrorKind::InvalidInput, ErrorKind::InvalidData, ErrorKind::TimedOut, ErrorKind::WriteZero,
    ErrorKind::Interrupted, ErrorKind::Unsupported, ErrorKind::UnexpectedEof, ErrorKind::OutOfMemory, ErrorKind::Other,
];

/// c20x: the other error values that become responses.
/// `io:<Kind>:<payload hex>`      `Response::from(std::io::Error::new(kind, payload))`
/// `pend:<what>`                  the library's own "cannot read pending body" error (a fault of the server program), as a response
/// `err:<ctor>:<resp>:<msg hex>`  `log_response(Err(e))` for an `Error` built by <ctor> (server | io | string | client | new), with an
///                                explicit response <resp> (- | <code> (no body) | t<code> (text body "shown")) and message
pub fn case_x(ctx: &mut Ctx, spec: &str) {
    let sp = spec.to_string();
    let obs = crate::guard(move || {
        let p: Vec<&str> = sp.split(':').collect();
        let text = |h: &str| String::from_utf8(unhex(h)).unwrap();
        match p[0] {
            "io" => {
                let kind = *MORE_KINDS.iter().find(|k| kind_name(**k) == p[1]).expect("kind");
                show_response(&Response::from(std::io::Error::new(kind, text(p[2]))))
            }
            "pend" => {
                let body = if p[1] == "known" { servlin::RequestBody::PendingKnown(70_000) } else { servlin::RequestBody::PendingUnknown };
                let e = match p[2] {
                    "reader" => body.reader().err(),
                    "vec" => Vec::<u8>::try_from(body).err(),
                    _ => String::try_from(body).err(),
                };
                show_response(&Response::from(e.expect("pending body must not be readable")))
            }
            _ => {
                // (the events go to a logger of our own so that the stdout default is not started)
                let (tx, rx) = std::sync::mpsc::sync_channel::<servlin::log::internal::LogEvent>(16);
                let g = servlin::log::set_global_logger(tx);
                let msg = text(p[3]);
                let mk = || match p[2] {
                    "-" => None,
                    r if r.starts_with('t') => Some(Response::text(r[1..].parse().unwrap(), "shown")),
                    // the handler's request for the body, carried inside an `Error` (what `req.recv_body(M)?` does)
                    r if r.starts_with('g') => Some(Response::get_body_and_reprocess(r[1..].parse().unwrap())),
                    r => Some(Response::new(r.parse().unwrap())),
                };
                let resp = mk();
                let mut e = match p[1] {
                    "server" => servlin::Error::server_error(msg),
                    "io" => servlin::Error::from(std::io::Error::new(ErrorKind::PermissionDenied, msg)),
                    "string" => servlin::Error::from(msg),
                    "client" => servlin::Error::client_error(mk().unwrap_or_else(|| Response::new(400))).with_msg(msg),
                    _ => servlin::Error::new().with_msg(msg),
                };
                if let (Some(r), true) = (resp, p[1] != "client") { e = e.with_response(r); }
                let out = servlin::log::log_response(Err(e));
                drop(g);
                drop(rx);
                match out { Ok(r) => show_response(&r), Err(_) => "logger-stopped".to_string() }
            }
        }
    });
    ctx.emit("c20x", &[spec], &obs);
}

pub fn run_c20x(ctx: &mut Ctx) {
    let msgs = ["ZQ error opening /var/lib/app/secrets/db.key: Permission denied (os error 13)", "ZQ", "ZQ\r\nset-cookie: a=b"];
    for k in MORE_KINDS {
        for m in msgs { case_x(ctx, &format!("io:{}:{}", kind_name(*k), hex(m.as_bytes()))); }
    }
    for a in ["known", "unknown"] { for b in ["reader", "vec", "string"] { case_x(ctx, &format!("pend:{a}:{b}")); } }
    for ctor in ["server", "io", "string", "client", "new"] {
        for resp in ["-", "500", "501", "503", "400", "404", "t500", "t400", "200", "302", "g70000"] {
            for m in msgs { case_x(ctx, &format!("err:{ctor}:{resp}:{}", hex(m.as_bytes()))); }
        }
    }
}

pub fn run(ctx: &mut Ctx) {
    if ctx.tier == "gen" {
        return gen(ctx);
    }
    let mut seen: std::collections::HashMap<&str, usize> = std::collections::HashMap::new();
    for (name, nnn, _) in status_ctors() {
        let k = seen.entry(name).or_insert(0);
        case_status(ctx, name, &nnn.to_string(), &k.to_string());
        *k += 1;
    }
    let mut rng = Rng::new(ctx.seed);
    let fixed = [
        "", "x", "/etc/passwd", "/secret/path: No such file or directory (os error 2)", "a\r\nSet-Cookie: x=1\r\n\r\n",
        "C:\\Users\\me\\file.txt", "Permission denied (os error 13)", "ü€\u{10000}", "\0", "ZQ Internal",
    ];
    let n = if ctx.thorough() { 20_000 } else { 1_500 };
    let mut payloads: Vec<String> = fixed.iter().map(|s| s.to_string()).collect();
    for _ in 0..n {
        let len = rng.below(40) as usize;
        let s: String = (0..len)
            .map(|_| match rng.below(10) {
                0 => '\r',
                1 => '\n',
                2 => '/',
                3 => char::from_u32(rng.range(0x80, 0x2fff) as u32).unwrap_or('é'),
                _ => (rng.range(0x20, 0x7e) as u8) as char,
            })
            .collect();
        payloads.push(format!("ZQ{s}"));
    }
    for (i, p) in payloads.iter().enumerate() {
        let kind = KINDS[i % KINDS.len()];
        for (ctor, _) in all_errors(kind, p) {
            // payload-free variants only need to be run once per kind
            if !ctor.contains(':') && i >= KINDS.len() {
                continue;
            }
            case_error(ctx, &ctor);
        }
    }
}
