//! C06 / C08: write_http_response into a scripted writer; body variants; fault injection.
use crate::gen::{dec, enc, hex, parse_sizes, sizes_str, unhex, Rng};
use crate::io_script::{block_on, ScriptWriter};
use crate::{guard, Ctx};
use servlin::internal::{write_http_response, HttpError};
use servlin::{AsciiString, ContentType, Event, Response, ResponseBody};
use std::sync::atomic::{AtomicU64, Ordering};

static FILE_SEQ: AtomicU64 = AtomicU64::new(0);

pub fn scratch_dir() -> std::path::PathBuf {
    let d = std::path::PathBuf::from(concat!(env!("CARGO_MANIFEST_DIR"), "/../work/scratch")).join(format!("p{}", std::process::id()));
    // process ids are reused: whatever an earlier process with this id left behind is removed on first use
    static CLEANED: std::sync::Once = std::sync::Once::new();
    CLEANED.call_once(|| { let _ = std::fs::remove_dir_all(&d); });
    std::fs::create_dir_all(&d).unwrap();
    d
}

fn leak(v: Vec<u8>) -> &'static [u8] {
    Box::leak(v.into_boxed_slice())
}

pub fn parse_events(s: &str) -> Vec<Event> {
    s.split(',')
        .filter(|x| !x.is_empty())
        .map(|e| {
            if let Some(rest) = e.strip_prefix('m') {
                Event::Message(String::from_utf8(unhex(rest)).unwrap())
            } else {
                let (t, d) = e[1..].split_once('.').unwrap();
                Event::Custom(String::from_utf8(unhex(t)).unwrap(), String::from_utf8(unhex(d)).unwrap())
            }
        })
        .collect()
}

/// Builds the response; returns it with guards that must stay alive (event sender is dropped
/// before writing so that the stream ends).
pub fn build_response(code: &str, ctype: &str, headers: &str, body: &str) -> Response {
    let mut r = Response::new(code.parse().unwrap());
    if let Some(h) = ctype.strip_prefix("S:") {
        r = r.with_type(ContentType::String(String::from_utf8(unhex(h)).unwrap()));
    } else if let Some(h) = ctype.strip_prefix("T:") {
        r = r.with_type(ContentType::Str(Box::leak(String::from_utf8(unhex(h)).unwrap().into_boxed_str())));
    } else if let Some(k) = ctype.strip_prefix("K:") {
        r = r.with_type(match k {
            "Css" => ContentType::Css, "Csv" => ContentType::Csv, "EventStream" => ContentType::EventStream,
            "FormUrlEncoded" => ContentType::FormUrlEncoded, "Gif" => ContentType::Gif, "Html" => ContentType::Html,
            "JavaScript" => ContentType::JavaScript, "Jpeg" => ContentType::Jpeg, "Json" => ContentType::Json,
            "Markdown" => ContentType::Markdown, "MultipartForm" => ContentType::MultipartForm,
            "OctetStream" => ContentType::OctetStream, "Pdf" => ContentType::Pdf, "PlainText" => ContentType::PlainText,
            "Png" => ContentType::Png, "Svg" => ContentType::Svg, _ => panic!("ctype"),
        });
    }
    for h in headers.split(',').filter(|x| !x.is_empty()) {
        let (n, v) = h.split_once(':').unwrap();
        r = r.with_header(String::from_utf8(unhex(n)).unwrap(), AsciiString::try_from(String::from_utf8(unhex(v)).unwrap()).unwrap());
    }
    let (kind, rest) = body.split_at(1);
    let rest = &rest[1..];
    match kind {
        "V" => r.with_body(dec(rest)),
        "B" => r.with_body(ResponseBody::StaticBytes(leak(dec(rest)))),
        "S" => r.with_body(ResponseBody::StaticStr(std::str::from_utf8(leak(dec(rest))).unwrap())),
        "F" | "T" => {
            // <declared>:<actual content | missing>[:<full content>]
            let parts: Vec<&str> = rest.split(':').collect();
            let declared: u64 = parts[0].parse().unwrap();
            let path = scratch_dir().join(format!("body{}", FILE_SEQ.fetch_add(1, Ordering::SeqCst)));
            if parts[1] != "missing" {
                std::fs::write(&path, dec(parts[1])).unwrap();
            }
            if kind == "F" {
                r.with_body(ResponseBody::File(path, declared))
            } else {
                // a TempFile (created in the scratch dir) deletes its path when dropped
                let tf = temp_file::TempFile::in_dir(scratch_dir()).unwrap();
                if parts[1] == "missing" {
                    std::fs::remove_file(tf.path()).unwrap();
                } else {
                    std::fs::write(tf.path(), dec(parts[1])).unwrap();
                    let _ = std::fs::remove_file(&path);
                }
                r.with_body(ResponseBody::TempFile(tf, declared))
            }
        }
        "E" => {
            let (mut sender, resp) = Response::event_stream();
            for ev in parse_events(rest) {
                sender.send(ev);
            }
            drop(sender);
            let mut resp = resp.with_status(code.parse().unwrap());
            resp.content_type = r.content_type.clone();
            resp.headers = r.headers.clone();
            resp
        }
        _ => panic!("body kind"),
    }
}

pub fn res_str(r: &Result<(), HttpError>) -> String {
    match r {
        Ok(()) => "ok".to_string(),
        Err(e) => format!("err:{}", super::req::err_name(e)),
    }
}

fn cleanup(r: &Response) {
    if let ResponseBody::File(p, _) = &r.body {
        let _ = std::fs::remove_file(p);
    }
}

/// args: code, ctype, headers, body, close, write sizes, fail_at, pending
pub fn case(ctx: &mut Ctx, tag: &str, a: &[&str]) {
    let (code, ctype, headers, body, close, wsizes, fail_at, pending) = (a[0], a[1], a[2], a[3], a[4], a[5], a[6], a[7]);
    let args: Vec<String> = a.iter().map(|s| s.to_string()).collect();
    let ws = parse_sizes(wsizes);
    let fail: Option<usize> = if fail_at == "-" { None } else { Some(fail_at.parse().unwrap()) };
    let pend: u64 = pending.parse().unwrap();
    let cl = close == "1";
    let obs = guard(move || {
        let r = build_response(&args[0], &args[1], &args[2], &args[3]);
        let mut w = ScriptWriter::new(ws, fail, pend);
        let res = block_on(write_http_response(&mut w, &r, cl));
        cleanup(&r);
        let mut s = format!("w={} r={} waf={}", enc(&w.out), res_str(&res), w.writes_after_failure);
        if fail.is_some() {
            // the one correct serialisation: same response with intact body source and a writer that never fails
            let full_body = match args[3].split(':').collect::<Vec<_>>().as_slice() {
                [k, d, _actual, full] => format!("{k}:{d}:{full}"),
                _ => args[3].clone(),
            };
            let r2 = build_response(&args[0], &args[1], &args[2], &full_body);
            let mut w2 = ScriptWriter::new(vec![], None, 0);
            let _ = block_on(write_http_response(&mut w2, &r2, cl));
            cleanup(&r2);
            s.push_str(&format!(" ref={}", enc(&w2.out)));
        }
        s
    });
    ctx.emit(tag, a, &obs);
}

pub const CTYPES: [&str; 17] = [
    "N", "K:Css", "K:Csv", "K:EventStream", "K:FormUrlEncoded", "K:Gif", "K:Html", "K:JavaScript", "K:Jpeg", "K:Json", "K:Markdown",
    "K:MultipartForm", "K:OctetStream", "K:Pdf", "K:PlainText", "K:Png", "K:Svg",
];

pub fn gen_headers(rng: &mut Rng, max: u64, collide: bool) -> String {
    let n = rng.below(max + 1);
    let mut hs = Vec::new();
    for _ in 0..n {
        let name: Vec<u8> = if collide && rng.chance(1, 6) {
            let base: &[u8] = *rng.pick(&[&b"content-type"[..], b"content-length", b"transfer-encoding", b"connection"]);
            base.iter().map(|c| if rng.chance(1, 3) { c.to_ascii_uppercase() } else { *c }).collect()
        } else {
            (0..rng.range(1, 10)).map(|_| *rng.pick(super::c01::TCHARS)).collect()
        };
        let mut v: Vec<u8> = (0..rng.below(16)).map(|_| if rng.chance(1, 10) { b'\t' } else { rng.range(0x20, 0x7e) as u8 }).collect();
        while matches!(v.first(), Some(b' ' | b'\t')) { v.remove(0); }
        while matches!(v.last(), Some(b' ' | b'\t')) { v.pop(); }
        hs.push(format!("{}:{}", hex(&name), hex(&v)));
        if collide && rng.chance(1, 12) {
            hs.push(hs.last().unwrap().clone()); // the same field twice
        }
    }
    hs.join(",")
}

fn gen_body(rng: &mut Rng, big: bool) -> String {
    let sizes: Vec<usize> = if big { vec![0, 1, 65535, 65536, 65537, 200_000, (1 << 20) + 1, 3 << 20] } else { vec![0, 1, 2, 10, 100, 1000, 65535, 65536, 65537] };
    let n = if rng.chance(1, 2) { rng.below(300) as usize } else { *rng.pick(&sizes) };
    let content: Vec<u8> = if n > 4096 { vec![*rng.pick(b"ab0\r\n"); n] } else { rng.bytes(n) };
    match rng.below(6) {
        0 => format!("V:{}", enc(&content)),
        1 => format!("B:{}", enc(&content)),
        2 => {
            // static str bodies: ASCII and multi-byte UTF-8 text
            let text: String = content.iter().map(|b| match b % 23 { 0 => 'é', 1 => '€', 2 => '\u{10348}', _ => (0x20 + b % 0x5f) as char }).collect();
            format!("S:{}", enc(text.as_bytes()))
        }
        // a third of the file bodies are longer on disk than their declared length (e.g. a log that grew after `metadata()`)
        3 | 4 => {
            let mut actual = content.clone();
            if rng.chance(1, 3) { let k = rng.range(1, 20) as usize; actual.extend(rng.bytes(k)); }
            format!("{}:{}:{}", if rng.chance(1, 2) { "F" } else { "T" }, n, enc(&actual))
        }
        _ => {
            let k = rng.below(5);
            let evs: Vec<String> = (0..k)
                .map(|_| {
                    // payload lengths around the chunk-size digit boundaries (16, 256, 4096 bytes per read) and small ones
                    let target = match rng.below(4) { 0 => *rng.pick(&[16usize, 256, 4096]) + rng.below(5) as usize - 2 - 7, 1 => rng.range(1, 6000) as usize, _ => rng.range(1, 30) as usize };
                    let d: String = (0..target.max(1)).map(|_| *rng.pick(&['a', 'b', ' ', '\n', ':', 'é'])).collect();
                    let d = format!("x{d}");
                    if rng.chance(1, 3) { format!("c{}.{}", hex(b"upd"), hex(d.as_bytes())) } else { format!("m{}", hex(d.as_bytes())) }
                })
                .collect();
            format!("E:{}", evs.join(","))
        }
    }
}

pub fn run(ctx: &mut Ctx) {
    let mut rng = Rng::new(ctx.seed.wrapping_add(6));
    let mut idx = 0u64;
    // (1) every status code with rotating content types and small bodies
    for code in 100..=999u32 {
        idx += 1;
        if !ctx.mine(idx) { continue; }
        let ct = CTYPES[(code as usize) % CTYPES.len()];
        let body = if code % 7 == 0 { "E:".to_string() } else { format!("V:{}", enc(&rng.bytes((code % 5) as usize))) };
        let hs = gen_headers(&mut rng, 3, false);
        case(ctx, "c06", &[&code.to_string(), ct, &hs, &body, if code % 2 == 0 { "1" } else { "0" }, "", "-", "0"]);
    }
    // (2) random responses: content types x headers (incl. colliding names) x body variants x writer schedules
    let n = if ctx.thorough() { 8000 } else { 1200 };
    for i in 0..n {
        idx += 1;
        if !ctx.mine(idx) { continue; }
        let code = rng.range(100, 999);
        let ct = if rng.chance(1, 8) { format!("S:{}", hex(b"application/x-custom; v=1")) } else { rng.pick(&CTYPES).to_string() };
        let hs = gen_headers(&mut rng, if i % 10 == 0 { 20 } else { 4 }, true);
        let body = gen_body(&mut rng, ctx.thorough() && i % 40 == 0);
        let ws: Vec<usize> = match rng.below(4) { 0 => vec![], 1 => vec![1], _ => (0..rng.range(1, 4)).map(|_| rng.range(1, 5000) as usize).collect() };
        let pend = if rng.chance(1, 2) { rng.range(2, 6) } else { 0 };
        case(ctx, "c06", &[&code.to_string(), &ct, &hs, &body, if rng.chance(1, 2) { "1" } else { "0" }, &sizes_str(&ws), "-", &pend.to_string()]);
    }
    // (3) custom content types (owned and static strings) whose media type is one the library knows, with other parameters:
    //     what was set is what must be on the wire
    let media = ["text/css", "text/csv", "text/event-stream", "application/x-www-form-urlencoded", "image/gif", "text/html", "text/javascript",
        "image/jpeg", "application/json", "text/markdown", "multipart/form-data", "application/octet-stream", "application/pdf", "text/plain",
        "image/png", "image/svg+xml", "application/wasm"];
    for m in media {
        for suffix in ["", "; charset=UTF-8", "; charset=ISO-8859-1", ";boundary=XyZ123", "; profile=x; q=1"] {
            for kind in ["S", "T"] {
                idx += 1;
                if !ctx.mine(idx) { continue; }
                let text = if suffix == ";boundary=XyZ123" && m.starts_with("text/h") { m.to_uppercase() } else { format!("{m}{suffix}") };
                case(ctx, "c06", &["200", &format!("{kind}:{}", hex(text.as_bytes())), "", &format!("V:{}", enc(b"body")), "0", "", "-", "0"]);
            }
        }
    }
}

/// c11w: event streams through `write_http_response` itself (head + chunked body), among them events that do not fit the
/// encoder's read slice: everything before the failure is on the wire, the failure is reported, and the stream is *not*
/// terminated (only the senders' going away ends an event stream).  Judged by the c08 oracle.
pub fn run_c11w(ctx: &mut Ctx) {
    let long_line = vec![b'a'; 70_000];
    let many_lines: Vec<u8> = (0..9000).flat_map(|i| format!("line{i}\n").into_bytes()).collect();
    let exact = vec![b'b'; 65_528 - 7];
    let families: Vec<String> = vec![
        format!("E:m{},m{}", hex(b"msg1"), hex(&long_line)),
        format!("E:m{}", hex(&long_line)),
        format!("E:m{},c{}.{}", hex(b"one"), hex(b"t"), hex(&many_lines)),
        format!("E:m{},m{},m{}", hex(b"one"), hex(&exact), hex(b"three")),
        format!("E:m{},m{},m{}", hex(b"one"), hex(&long_line), hex(b"never")),
        format!("E:m{},c{}.{}", hex(b"one\ntwo"), hex(b"t"), hex(b"three")),
        "E:".to_string(),
    ];
    let mut idx = 0u64;
    for body in &families {
        for close in ["0", "1"] {
            for ws in [vec![], vec![1000], vec![7, 4096]] {
                idx += 1;
                if !ctx.mine(idx) { continue; }
                case(ctx, "c08", &["200", "K:EventStream", "", body, close, &sizes_str(&ws), "99999999", "0"]);
            }
        }
    }
}

/// C08: write error at every byte offset; body files truncated / missing.
pub fn run_c08(ctx: &mut Ctx) {
    let mut rng = Rng::new(ctx.seed.wrapping_add(8));
    let mut idx = 0u64;
    let content: Vec<u8> = (0..40u8).map(|i| b'A' + i % 26).collect();
    let families: Vec<(String, String, String)> = vec![
        ("200".into(), "K:PlainText".into(), format!("V:{}", enc(&content))),
        ("404".into(), "N".into(), "V:".into()),
        ("200".into(), "K:Html".into(), format!("S:{}", enc(&content[..7]))),
        ("200".into(), "K:OctetStream".into(), format!("F:40:{}:{}", enc(&content), enc(&content))),
        ("500".into(), "K:Json".into(), format!("T:40:{}:{}", enc(&content), enc(&content))),
        ("200".into(), "K:EventStream".into(), format!("E:m{},c{}.{}", hex(b"one\ntwo"), hex(b"t"), hex(b"three"))),
        ("200".into(), "K:EventStream".into(), "E:".into()),
        // the second event does not fit the encoder's read slice: the source fails after the head and the first chunk are out
        ("200".into(), "K:EventStream".into(), format!("E:m{},m{}", hex(b"msg1"), hex(&vec![b'a'; 70_000]))),
    ];
    for (code, ct, body) in &families {
        // length of the full serialisation is not known here: sweep offsets generously; offsets beyond the end mean "no failure"
        let max = if ctx.thorough() { 260 } else { 200 };
        for k in 0..=max {
            for ws in [vec![], vec![1], vec![3, 5]] {
                idx += 1;
                if !ctx.mine(idx) { continue; }
                case(ctx, "c08", &[code, ct, "782d61:31", body, if k % 2 == 0 { "0" } else { "1" }, &sizes_str(&ws), &k.to_string(), if k % 3 == 0 { "2" } else { "0" }]);
            }
        }
    }
    // body source faults: truncated to {0, 1, half, len-1}, missing
    for kind in ["F", "T"] {
        for declared in [1usize, 2, 40, 1000, 70_000] {
            let full: Vec<u8> = (0..declared).map(|i| b'a' + (i % 26) as u8).collect();
            let mut cuts = vec![0, 1, declared / 2, declared - 1, declared, declared + 5];
            cuts.dedup();
            for cut in cuts {
                idx += 1;
                if !ctx.mine(idx) { continue; }
                let mut actual = full.clone();
                if cut <= declared { actual.truncate(cut); } else { actual.extend_from_slice(b"EXTRA"); }
                let body = format!("{kind}:{declared}:{}:{}", enc(&actual), enc(&full));
                let k = rng.range(0, 300);
                case(ctx, "c08", &["200", "K:OctetStream", "", &body, "0", "", "1000000", "0"]);
                case(ctx, "c08", &["200", "K:OctetStream", "", &body, "0", "7", &k.to_string(), "0"]);
            }
            idx += 1;
            if ctx.mine(idx) {
                let body = format!("{kind}:{declared}:missing:{}", enc(&full));
                case(ctx, "c08", &["200", "N", "", &body, "0", "", "1000000", "0"]);
            }
        }
    }
}
