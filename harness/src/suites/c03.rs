//! C03: framing comes only from the headers; ambiguous framing is rejected.
use super::req::case;
use crate::gen::{enc, hex, Rng};
use crate::Ctx;

fn vary_case(rng: &mut Rng, name: &str) -> String {
    name.chars().map(|c| if rng.chance(1, 3) { c.to_ascii_uppercase() } else { c }).collect()
}

pub fn run(ctx: &mut Ctx) {
    let mut rng = Rng::new(ctx.seed);
    let methods = ["GET", "HEAD", "POST", "PUT", "DELETE", "PATCH"];
    let cls: Vec<Vec<&str>> = vec![
        vec![], vec!["0"], vec!["5"], vec!["18446744073709551615"], vec!["18446744073709551616"], vec!["+5"], vec!["-5"],
        vec!["0005"], vec!["abc"], vec![""], vec!["5", "5"], vec!["5", "6"], vec!["5, 5"], vec!["5 5"], vec!["0x10"],
        vec!["99999999999999999999999999"], vec!["0", "0"], vec!["5", "x"], vec!["1", "2", "3"], vec!["\u{b}5"],
        // bytes that other notions of "whitespace" strip: FF, VT, NUL, FS..US, DEL at either end of the value
        vec!["\u{c}5"], vec!["5\u{c}"], vec!["5\u{b}"], vec!["\u{0}5"], vec!["\u{1c}5"], vec!["5\u{1f}"], vec!["5\u{7f}"],
    ];
    let tes: Vec<Vec<&str>> = vec![
        vec![], vec!["chunked"], vec!["gzip"], vec!["gzip, chunked"], vec!["chunked, gzip"], vec!["identity"],
        vec!["chunked", "chunked"], vec!["Chunked"], vec!["gzip,chunked,x"], vec![" , chunked ,"], vec![""], vec!["gzip", "chunked"],
        vec!["chunked\u{c}"], vec!["gzip,gzip"], vec!["chunked;q=1"],
        vec!["\u{c}chunked"], vec!["chunked\u{b}"], vec!["\u{1f}gzip"],
    ];
    let expects: Vec<Vec<&str>> = vec![vec![], vec!["100-continue"], vec!["100-Continue"], vec!["100-continue", "100-continue"]];
    let ctypes: Vec<Vec<&str>> = vec![
        vec![], vec!["text/plain"], vec!["application/json; charset=utf-8"], vec!["text/html;x"], vec!["Text/Plain"], vec![";x"],
        vec!["application/x-www-form-urlencoded"], vec!["image/svg+xml"], vec!["foo/bar"], vec!["text/css", "text/csv"],
        vec!["multipart/form-data; boundary=x"], vec!["text/event-stream"], vec!["application/octet-stream"], vec!["application/pdf"],
        vec!["image/png"], vec!["image/jpeg"], vec!["image/gif"], vec!["text/markdown"], vec!["text/javascript"], vec!["text/csv"],
    ];
    let mut idx = 0u64;
    let thorough = ctx.thorough();
    for (mi, m) in methods.iter().enumerate() {
        for (ci, cl) in cls.iter().enumerate() {
            for (ti, te) in tes.iter().enumerate() {
                for (ei, ex) in expects.iter().enumerate() {
                    // content types: full product in thorough; rotating sample in quick
                    let cts: Vec<&Vec<&str>> = if thorough { ctypes.iter().collect() } else { vec![&ctypes[(mi + ci + ti + ei) % ctypes.len()], &ctypes[(ci * 7 + ti) % ctypes.len()]] };
                    for ct in cts {
                        idx += 1;
                        if !ctx.mine(idx) {
                            continue;
                        }
                        let mut fields: Vec<(String, String)> = Vec::new();
                        for v in cl { fields.push((vary_case(&mut rng, "content-length"), v.to_string())); }
                        for v in te { fields.push((vary_case(&mut rng, "transfer-encoding"), v.to_string())); }
                        for v in ex { fields.push((vary_case(&mut rng, "expect"), v.to_string())); }
                        for v in ct { fields.push((vary_case(&mut rng, "content-type"), v.to_string())); }
                        if rng.chance(1, 2) { fields.push(("x-other".into(), "1".into())); }
                        if rng.chance(1, 4) { fields.push(("cookie".into(), "a=b; c=d".into())); }
                        // random order
                        for i in (1..fields.len()).rev() {
                            let j = rng.below(i as u64 + 1) as usize;
                            fields.swap(i, j);
                        }
                        let mut head = format!("{m} /p HTTP/1.1\r\n").into_bytes();
                        for (n, v) in &fields {
                            head.extend_from_slice(n.as_bytes());
                            head.extend_from_slice(if rng.chance(1, 2) { b": " } else { b":" });
                            head.extend_from_slice(v.as_bytes());
                            if rng.chance(1, 4) { head.extend_from_slice(b" \t"); }
                            head.extend_from_slice(b"\r\n");
                        }
                        head.extend_from_slice(b"\r\n");
                        head.extend_from_slice(b"BODY-OR-NEXT");
                        let fl = fields.iter().map(|(n, v)| format!("{}:{}", hex(n.as_bytes()), hex(v.trim_matches(|c| c == ' ' || c == '\t').as_bytes()))).collect::<Vec<_>>().join(",");
                        let sizes = if rng.chance(1, 2) { String::new() } else { format!("{}", rng.range(1, 30)) };
                        // extra args (method, fields) are for the oracle only
                        let before = ctx.count;
                        case(ctx, "c03", "8192", "", &enc(&head), "eof", &sizes, "0");
                        let _ = (before, &fl);
                    }
                }
            }
        }
    }
    // (3) a bare LF as the line end in front of (or behind) a framing field: it ends the line like CRLF does — the framing field
    //     that follows is a field of its own, never part of the previous value
    for m in ["POST", "GET"] {
        for framing in ["content-length: 3", "content-length: 3\ncontent-length: 4", "transfer-encoding: chunked", "transfer-encoding: gzip\ncontent-length: 3", "expect: 100-continue\ncontent-length: 3"] {
            for shape in 0..4 {
                idx += 1;
                if !ctx.mine(idx) { continue; }
                let fr = framing.replace('\n', if shape % 2 == 0 { "\n" } else { "\r\n" });
                let head = match shape {
                    0 | 1 => format!("{m} /p HTTP/1.1\r\nx-a: 1\n{fr}\r\n\r\nabcGET /second HTTP/1.1\r\n\r\n"),
                    2 => format!("{m} /p HTTP/1.1\n{fr}\nx-b: 2\r\n\r\nabcGET /second HTTP/1.1\r\n\r\n"),
                    _ => format!("{m} /p HTTP/1.1\r\n{fr}\nx-b: 2\r\n\r\nabc"),
                };
                case(ctx, "c03", "8192", "", &enc(head.as_bytes()), "eof", "", "0");
            }
        }
    }
    // (2) framing fields whose value holds a byte >= 0x80 (obs-text), alone, after and before a valid field of the same name:
    //     the head is malformed; the field is never dropped and the request never processed as if it were absent
    let fields: [(&str, &[u8]); 5] = [("content-length", b"5"), ("transfer-encoding", b"chunked"), ("expect", b"100-continue"), ("content-type", b"text/plain"), ("cookie", b"a=b")];
    for m in ["POST", "GET", "PUT"] {
        for (name, good) in fields {
            for hi in [0x80u8, 0x85, 0xa0, 0xe9, 0xff] {
                for pos in 0..3 {
                    let mut bad = good.to_vec();
                    match pos { 0 => bad.insert(0, hi), 1 => bad.push(hi), _ => bad.insert(good.len() / 2, hi) }
                    for arrangement in 0..3 {
                        idx += 1;
                        if !ctx.mine(idx) { continue; }
                        let mut head = format!("{m} /p HTTP/1.1\r\n").into_bytes();
                        let line = |v: &[u8]| [name.as_bytes(), b": ", v, b"\r\n"].concat();
                        match arrangement { 0 => head.extend(line(&bad)), 1 => { head.extend(line(good)); head.extend(line(&bad)); } _ => { head.extend(line(&bad)); head.extend(line(good)); } }
                        head.extend_from_slice(b"\r\nGET /smuggled HTTP/1.1\r\n\r\n");
                        case(ctx, "c03", "8192", "", &enc(&head), "eof", "", "0");
                    }
                }
            }
        }
    }
}
