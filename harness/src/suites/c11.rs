//! C11: server-sent events — sender/receiver interleavings at API-call granularity, contents, stress.
use crate::gen::{enc, hex, Rng};
use crate::io_script::{block_on, ScriptWriter};
use crate::{guard, Ctx};
use servlin::internal::{copy_chunked_async, CopyResult};
use servlin::{Event, EventSender, Response};
use std::future::Future;
use std::sync::Arc;
use std::task::{Context, Poll, Wake, Waker};

struct Noop;
impl Wake for Noop {
    fn wake(self: Arc<Self>) {}
}

fn parse_event(e: &str) -> Event {
    super::c06::parse_events(e).into_iter().next().unwrap()
}

pub fn case(ctx: &mut Ctx, ops: &str) {
    let ops_o = ops.to_string();
    let obs = guard(move || {
        let (sender0, response) = Response::event_stream();
        let mut senders: Vec<Option<EventSender>> = vec![Some(sender0)];
        let reader = block_on(response.body.async_reader()).unwrap();
        let mut writer = ScriptWriter::new(vec![], None, 0);
        let mut outs: Vec<String> = Vec::new();
        let mut result: Option<String> = None;
        {
            let mut fut = Box::pin(copy_chunked_async(reader, &mut writer));
            let waker = Waker::from(Arc::new(Noop));
            let mut cx = Context::from_waker(&waker);
            for op in ops_o.split(';').filter(|x| !x.is_empty()) {
                let (k, rest) = op.split_at(1);
                match k {
                    "p" => {
                        if result.is_none() {
                            if let Poll::Ready(r) = fut.as_mut().poll(&mut cx) {
                                result = Some(match r { CopyResult::Ok(_) => "ok".into(), CopyResult::ReaderErr(_) => "rerr".into(), CopyResult::WriterErr(_) => "werr".into() });
                            }
                        }
                    }
                    "s" => {
                        let (i, ev) = rest.split_once(':').unwrap();
                        if let Some(Some(s)) = senders.get_mut(i.parse::<usize>().unwrap()) {
                            s.send(parse_event(ev));
                        }
                    }
                    "c" => {
                        let i: usize = rest.parse().unwrap();
                        let cl = senders.get(i).cloned().flatten();
                        senders.push(cl);
                    }
                    "x" => {
                        if let Some(Some(s)) = senders.get_mut(rest.parse::<usize>().unwrap()) {
                            s.disconnect();
                        }
                    }
                    "d" => {
                        if let Some(slot) = senders.get_mut(rest.parse::<usize>().unwrap()) {
                            *slot = None;
                        }
                    }
                    _ => panic!("op"),
                }
                outs.push(senders.iter().map(|s| match s { Some(s) if s.is_connected() => '1', _ => '0' }).collect::<String>());
            }
        }
        format!("{} wire={} done={}", outs.join(","), enc(&writer.out), result.unwrap_or_else(|| "-".into()))
    });
    ctx.emit("c11", &[ops], &obs);
}

/// Multi-threaded stress: `threads` senders each send `n` numbered events while the writer runs.
pub fn case_stress(ctx: &mut Ctx, threads: &str, n: &str) {
    let t: usize = threads.parse().unwrap();
    let n: usize = n.parse().unwrap();
    let obs = guard(move || {
        let (sender0, response) = Response::event_stream();
        let mut handles = Vec::new();
        for ti in 0..t {
            let mut s = sender0.clone();
            handles.push(std::thread::spawn(move || {
                let mut accepted = Vec::new();
                for k in 0..n {
                    if !s.is_connected() { break; }
                    s.send(Event::Message(format!("t{ti}-{k}")));
                    if s.is_connected() { accepted.push(k); } else { break; }
                    if k % 7 == 0 { std::thread::yield_now(); }
                }
                accepted
            }));
        }
        drop(sender0);
        let reader = block_on(response.body.async_reader()).unwrap();
        let mut writer = ScriptWriter::new(vec![], None, 0);
        let res = crate::suites::c04::executor_block_on(copy_chunked_async(reader, &mut writer));
        let acc: Vec<String> = handles.into_iter().map(|h| h.join().unwrap().len().to_string()).collect();
        format!("acc={} wire={} done={}", acc.join(","), enc(&writer.out), match res { CopyResult::Ok(_) => "ok", _ => "err" })
    });
    ctx.emit("c11t", &[threads, &n.to_string()], &obs);
}

fn ev(data: &str) -> String { format!("m{}", hex(data.as_bytes())) }
fn evc(t: &str, data: &str) -> String { format!("c{}.{}", hex(t.as_bytes()), hex(data.as_bytes())) }

pub fn run(ctx: &mut Ctx) {
    let mut rng = Rng::new(ctx.seed.wrapping_add(11));
    let mut idx = 0u64;
    macro_rules! go { ($ops:expr) => {{ idx += 1; if ctx.mine(idx) { case(ctx, $ops); } }}; }
    // (1) exhaustive interleavings of sender steps and polls up to depth 4 (5 in thorough) over a small alphabet
    let alpha: Vec<String> = vec![format!("s0:{}", ev("a")), format!("s1:{}", ev("b")), "c0".into(), "x0".into(), "d0".into(), "d1".into(), "p".into(), format!("s0:{}", ev(""))];
    let depth = if ctx.thorough() { 5 } else { 4 };
    let mut cur: Vec<usize> = vec![0];
    loop {
        let ops: Vec<&str> = cur.iter().map(|&i| alpha[i].as_str()).collect();
        go!(&format!("{};p", ops.join(";")));
        let mut pos = cur.len();
        loop {
            if pos == 0 { cur = vec![0; cur.len() + 1]; break; }
            pos -= 1;
            if cur[pos] + 1 < alpha.len() { cur[pos] += 1; for c in cur.iter_mut().skip(pos + 1) { *c = 0; } break; }
        }
        if cur.len() > depth { break; }
    }
    // (2) contents: empty, single-line, multi-line (LF, CRLF, lone CR), leading space/colon, non-ASCII, near the chunk limit
    let contents: Vec<String> = vec![
        "".into(), "x".into(), "a\nb".into(), "a\r\nb".into(), "a\rb".into(), "a\n".into(), "\n".into(), "\n\n".into(), "a\n\nb".into(),
        " lead".into(), ":colon".into(), "data: nested".into(), "event: fake\n\ninjected".into(), "é€\u{10348}".into(), "tab\tq\"uote\\".into(),
        "a".repeat(65520), "a".repeat(65521), "a".repeat(65522), "a".repeat(65528), "a".repeat(70000), "l\n".repeat(9000),
    ];
    // encoded block sizes at the chunk-size digit boundaries: `data: ` + d + LF has 7 + |d| bytes (16, 256, 4096, 65528 and neighbours)
    let mut contents = contents;
    for block in [15usize, 16, 17, 255, 256, 257, 4095, 4096, 4097, 65527, 65528] {
        contents.push("b".repeat(block - 7));
    }
    for c in &contents {
        go!(&format!("s0:{};p;d0;p", ev(c)));
        go!(&format!("s0:{};s0:{};p;d0;p", evc("upd", c), ev("after")));
        if c.len() > 5 && c.len() < 5000 { go!(&format!("s0:{};p;s0:{};p;d0;p", ev(c), ev("after"))); }
    }
    for t in ["t", "", "a b", ":x", "é"] {
        go!(&format!("s0:{};p;d0;p", evc(t, "d")));
    }
    // (3) queue overrun: more than 50 sends without a poll; sends after the stream ended
    for k in [49usize, 50, 51, 52, 120] {
        let sends: Vec<String> = (0..k).map(|i| format!("s0:{}", ev(&format!("e{i}")))).collect();
        go!(&format!("{};p;s0:{};p;d0;p", sends.join(";"), ev("late")));
        go!(&format!("c0;{};s1:{};p;d0;d1;p", sends.join(";"), ev("other")));
    }
    // (4) random longer programs
    let n = if ctx.thorough() { 20_000 } else { 2_000 };
    let pool = ["a", "", "x\ny", "q\r", " z", "multi\nline\ntext", "é"];
    for _ in 0..n {
        let len = rng.range(3, 14);
        let mut nh = 1u64;
        let mut ops = Vec::new();
        for _ in 0..len {
            ops.push(match rng.below(10) {
                0 => { nh += 1; format!("c{}", rng.below(nh - 1)) }
                1 => format!("x{}", rng.below(nh)),
                2 => format!("d{}", rng.below(nh)),
                3 | 4 | 5 => "p".to_string(),
                _ => format!("s{}:{}", rng.below(nh), if rng.chance(1, 4) { evc("t", *rng.pick(&pool)) } else { ev(*rng.pick(&pool)) }),
            });
        }
        go!(&ops.join(";"));
    }
    // (5) multi-threaded stress
    for t in 1..=4 {
        for n in [10usize, 200] {
            idx += 1;
            if ctx.mine(idx) { case_stress(ctx, &t.to_string(), &n.to_string()); }
        }
    }
}

/// c11c: the checked constructor `Event::custom(type, data)`: a type that contains a line break must be refused
/// (it would end the `event:` field early or inject another field); an accepted event is encoded.
pub fn case_ctor(ctx: &mut Ctx, type_hex: &str, data_hex: &str) {
    let t = String::from_utf8(crate::gen::unhex(type_hex)).unwrap();
    let d = String::from_utf8(crate::gen::unhex(data_hex)).unwrap();
    let obs = guard(move || match Event::custom(t, d) {
        Err(_) => "err".to_string(),
        Ok(ev) => {
            let mut buf = vec![0u8; 4096];
            match ev.write_to(&mut buf) {
                Ok(n) => format!("ok:{}", enc(&buf[..n])),
                Err(_) => "ok:write-failed".to_string(),
            }
        }
    });
    ctx.emit("c11c", &[type_hex, data_hex], &obs);
}

pub fn run_ctor(ctx: &mut Ctx) {
    let mut idx = 0u64;
    let fixed = ["tick", "", "a b", "tick\n", "tick\r\n", "tick\r", "\r", "\n", "a\nb", "a\r\nb", "a\rb", "\ntick", "tick\rdata: injected",
        "\u{e9}\n", "tick\u{2028}", "tick\u{85}", "x: y", "tick\n\n", "\r\n"];
    for t in fixed {
        for d in ["", "d", "l1\nl2"] {
            idx += 1;
            if ctx.mine(idx) { case_ctor(ctx, &hex(t.as_bytes()), &hex(d.as_bytes())); }
        }
    }
    // every string of up to 4 (thorough: 5) symbols over a small alphabet that contains both line-break characters
    let alpha = ["a", " ", "\r", "\n", ":", "\u{e9}"];
    let maxlen = if ctx.thorough() { 5 } else { 4 };
    let mut cur: Vec<usize> = vec![0];
    loop {
        idx += 1;
        if ctx.mine(idx) {
            let t: String = cur.iter().map(|&i| alpha[i]).collect();
            case_ctor(ctx, &hex(t.as_bytes()), &hex(b"d"));
        }
        let mut pos = cur.len();
        loop {
            if pos == 0 { cur = vec![0; cur.len() + 1]; break; }
            pos -= 1;
            if cur[pos] + 1 < alpha.len() { cur[pos] += 1; for c in cur.iter_mut().skip(pos + 1) { *c = 0; } break; }
        }
        if cur.len() > maxlen { break; }
    }
}
