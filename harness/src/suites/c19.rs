//! C19: file log writer — PrefixFileSet bookkeeping (set level) and the writer thread (writer level).
use crate::gen::Rng;
use crate::{guard, Ctx};
use servlin::log::internal::{LogEvent, PrefixFile, PrefixFileSet};
use servlin::log::{tag, Level, LogFileWriter};
use std::path::PathBuf;
use std::sync::atomic::{AtomicU64, Ordering};
use std::time::{Duration, SystemTime, UNIX_EPOCH};

static DIR_SEQ: AtomicU64 = AtomicU64::new(0);

fn fresh_dir(tag: &str) -> PathBuf {
    let d = super::c06::scratch_dir().join(format!("{tag}-{}-{}", std::process::id(), DIR_SEQ.fetch_add(1, Ordering::SeqCst)));
    let _ = std::fs::remove_dir_all(&d);
    std::fs::create_dir_all(&d).unwrap();
    d
}

fn listing(dir: &PathBuf) -> Vec<String> {
    let mut v: Vec<String> = std::fs::read_dir(dir).unwrap().map(|e| e.unwrap().file_name().to_string_lossy().to_string()).collect();
    v.sort();
    v
}

fn t(secs: u64) -> SystemTime {
    UNIX_EPOCH + Duration::from_secs(1_000_000 + secs)
}

/// A log event whose own timestamp lies `age` in the past (built by `log()` into a capturing logger of this process).
fn stale_event(tags: Vec<servlin::log::internal::Tag>, age: Duration) -> LogEvent {
    static CAPTURE: std::sync::OnceLock<std::sync::Mutex<std::sync::mpsc::Receiver<LogEvent>>> = std::sync::OnceLock::new();
    let rx = CAPTURE.get_or_init(|| {
        let (tx, rx) = std::sync::mpsc::sync_channel(4);
        std::mem::forget(servlin::log::set_global_logger(tx).expect("logger"));
        std::sync::Mutex::new(rx)
    });
    let rx = rx.lock().unwrap_or_else(std::sync::PoisonError::into_inner);
    servlin::log::internal::clear_thread_local_log_tags();
    let _ = servlin::log::internal::log(SystemTime::now() - age, Level::Info, tags);
    rx.recv_timeout(Duration::from_secs(2)).expect("captured event")
}

/// Set level. `init` = `name:len:mtime,...` files present before `new`; ops: `push:name:len:mtime`, `del`, `age:now:dur`, `over:max`.
pub fn case_set(ctx: &mut Ctx, init: &str, ops: &str) {
    let init_o = init.to_string();
    let ops_o = ops.to_string();
    let obs = guard(move || {
        let dir = fresh_dir("c19s");
        let prefix = dir.join("app.log");
        let mk = |name: &str, len: u64, mtime: u64| {
            let p = dir.join(format!("app.log.{name}"));
            std::fs::write(&p, vec![b'x'; len as usize]).unwrap();
            std::fs::File::options().write(true).open(&p).unwrap().set_modified(t(mtime)).unwrap();
            p
        };
        for f in init_o.split(',').filter(|x| !x.is_empty()) {
            let p: Vec<&str> = f.split(':').collect();
            mk(p[0], p[1].parse().unwrap(), p[2].parse().unwrap());
        }
        // a file that does not carry the prefix must never be touched
        std::fs::write(dir.join("other.txt"), b"keep").unwrap();
        let mut set = PrefixFileSet::new(&prefix).unwrap();
        let mut outs = Vec::new();
        let snap = |set: &PrefixFileSet| format!("{}[{}]", set.verif_snapshot().0, listing(&dir).join(" "));
        outs.push(snap(&set));
        for op in ops_o.split(';').filter(|x| !x.is_empty()) {
            let p: Vec<&str> = op.split(':').collect();
            let r = std::panic::catch_unwind(std::panic::AssertUnwindSafe(|| match p[0] {
                "push" => {
                    let path = mk(p[1], p[2].parse().unwrap(), p[3].parse().unwrap());
                    set.push(PrefixFile { path, mtime: t(p[3].parse().unwrap()), len: p[2].parse().unwrap() });
                    "ok".to_string()
                }
                "del" => set.delete_oldest().map_or_else(|_| "err".to_string(), |()| "ok".to_string()),
                "age" => set.delete_older_than(t(p[1].parse().unwrap()), Duration::from_secs(p[2].parse().unwrap())).map_or_else(|_| "err".to_string(), |()| "ok".to_string()),
                "over" => set.delete_oldest_while_over_max_len(p[1].parse().unwrap()).map_or_else(|_| "err".to_string(), |()| "ok".to_string()),
                _ => panic!("op"),
            }));
            match r {
                Ok(s) => outs.push(format!("{s}:{}", snap(&set))),
                Err(_) => { outs.push("PANIC".to_string()); break; }
            }
        }
        let _ = std::fs::remove_dir_all(&dir);
        outs.join(";")
    });
    ctx.emit("c19s", &[init, ops], &obs);
}

fn line_len(ev: &LogEvent) -> usize {
    let mut b = Vec::new();
    ev.write_jsonl(&mut b).unwrap();
    b.len()
}

/// Writer level. args: max_write, max_keep, keep_age (0 = off), existing `len:agesecs,...`, pad sizes of the events
/// (`|` = the writer is dropped and a new one started on the same directory).
pub fn case_writer(ctx: &mut Ctx, max_write: &str, max_keep: &str, keep_age: &str, existing: &str, pads: &str) {
    let (mw, mk, ka): (u64, u64, u64) = (max_write.parse().unwrap(), max_keep.parse().unwrap(), keep_age.parse().unwrap());
    let ex = existing.to_string();
    let segs: Vec<Vec<usize>> = pads.split('|').map(|seg| seg.split(',').filter(|x| !x.is_empty()).map(|x| x.parse().unwrap()).collect()).collect();
    let obs = guard(move || {
        let dir = fresh_dir("c19w");
        let relative = ex.starts_with('R');
        let ex = ex.trim_start_matches('R').trim_start_matches(',').to_string();
        let prefix = if relative { PathBuf::from("srv.log") } else { dir.join("srv.log") };
        let orig_cwd = std::env::current_dir().unwrap();
        // files with the same (length, age): which of them goes first is not determined; the survivors are shown under the
        // highest of the group's numbers
        let specs: Vec<&str> = ex.split(',').filter(|x| !x.is_empty()).collect();
        let group_of = |k: usize| -> Vec<usize> { (0..specs.len()).filter(|j| specs[*j] == specs[k]).collect() };
        let now = SystemTime::now();
        for (k, f) in ex.split(',').filter(|x| !x.is_empty()).enumerate() {
            let (len, age) = f.split_once(':').unwrap();
            let len: u64 = len.parse().unwrap();
            let p = dir.join(format!("srv.log.old-{k}"));
            std::fs::write(&p, vec![b'o'; len as usize]).unwrap();
            std::fs::File::options().write(true).open(&p).unwrap().set_modified(now - Duration::from_secs(age.parse().unwrap())).unwrap();
        }
        std::fs::write(dir.join("unrelated.txt"), b"keep").unwrap();
        // entries that carry the prefix and are not regular files (an operator's archive directory, a convenience symlink):
        // they are not log files: never counted, never deleted
        std::fs::create_dir(dir.join("srv.log.archive")).unwrap();
        std::fs::write(dir.join("srv.log.archive").join("2020.gz"), vec![b'z'; 5000]).unwrap();
        let _ = std::os::unix::fs::symlink("unrelated.txt", dir.join("srv.log.current"));
        let start_len = line_len(&LogEvent::new(Level::Info, tag("msg", "Starting log writer")));
        let total = |dir: &PathBuf| -> u64 {
            std::fs::read_dir(dir).unwrap().filter_map(|e| e.ok()).filter(|e| e.file_name().to_string_lossy().starts_with("srv.log")).filter_map(|e| e.metadata().ok()).filter(|m| m.is_file()).map(|m| m.len()).sum()
        };
        // (first line id, description, len, path) of the writer's files; old files as (age order)
        let scan = |dir: &PathBuf| -> (Vec<(SystemTime, String, u64)>, Vec<(u64, String, u64, PathBuf)>) {
            let mut old = Vec::new();
            let mut new = Vec::new();
            for e in std::fs::read_dir(dir).unwrap().filter_map(|e| e.ok()) {
                let name = e.file_name().to_string_lossy().to_string();
                if !name.starts_with("srv.log") { continue; }
                let Ok(md) = e.metadata() else { continue };
                if !md.is_file() { continue; }
                if name.contains(".old-") {
                    old.push((md.modified().unwrap(), format!("X{}", name.rsplit('-').next().unwrap()), md.len()));
                } else {
                    let content = std::fs::read(e.path()).unwrap_or_default();
                    let text = String::from_utf8_lossy(&content).to_string();
                    let ids: Vec<String> = text.split_inclusive('\n').map(|l| {
                        if !l.ends_with('\n') { return "PARTIAL".to_string(); }
                        if l.contains("Starting log writer") { return "S".to_string(); }
                        match l.find("\"n\":") { Some(p) => l[p + 4..].chars().take_while(|c| c.is_ascii_digit()).collect(), None => "?".to_string() }
                    }).collect();
                    // order key: the first numbered line (a start line sorts just before the event that follows it)
                    let key = ids.iter().find_map(|x| x.parse::<u64>().ok()).map_or(u64::MAX, |n| 2 * n + u64::from(ids[0] != "S"));
                    new.push((key, format!("L{}", ids.join(".")), content.len() as u64, e.path()));
                }
            }
            old.sort();
            new.sort();
            // relabel within groups of identical files
            let ks: Vec<usize> = old.iter().map(|o| o.1[1..].parse::<usize>().unwrap()).collect();
            let mut done_groups: Vec<Vec<usize>> = Vec::new();
            for &k in &ks {
                let g = group_of(k);
                if g.len() < 2 || done_groups.contains(&g) { continue; }
                let present: Vec<usize> = (0..old.len()).filter(|i| g.contains(&ks[*i])).collect();
                let labels: Vec<usize> = g[g.len() - present.len()..].to_vec();
                for (slot, label) in present.iter().zip(labels) { old[*slot].1 = format!("X{label}"); }
                done_groups.push(g);
            }
            (old, new)
        };
        let mut sizes = Vec::new();
        let mut peak: u64 = 0;
        let mut n = 0u64;
        let mut done = true;
        for seg in &segs {
            if relative { std::env::set_current_dir(&dir).unwrap(); }
            let mut w = LogFileWriter::new_builder(prefix.clone(), mk).with_max_write_bytes(mw);
            if ka > 0 {
                w = w.with_max_keep_age(Duration::from_secs(ka));
            }
            let started = w.start_writer_thread();
            // the application changes its working directory once the writer runs: the log stays where it was started
            if relative { std::env::set_current_dir("/").unwrap(); }
            let sender = match started { Ok(s) => s, Err(_) => { let _ = std::env::set_current_dir(&orig_cwd); return "start-failed".to_string() } };
            peak = peak.max(total(&dir));
            let mut alive = true;
            for (i, pad) in seg.iter().enumerate() {
                n += 1;
                // every fourth event carries an older timestamp of its own (as the events of `log_response(Err(e))` do:
                // they are stamped with the time the error was created): the writer's decisions go by the clock, not by it
                let ev = if n % 4 == 0 { stale_event(vec![tag("n", n), tag("pad", "p".repeat(*pad))], Duration::from_secs(7200)) }
                    else { LogEvent::new(Level::Info, vec![tag("n", n), tag("pad", "p".repeat(*pad))]) };
                sizes.push(line_len(&ev));
                if sender.send(ev).is_err() { alive = false; break; }
                if i % 16 == 15 || seg.len() < 64 { std::thread::sleep(Duration::from_millis(if seg.len() < 64 { 4 } else { 0 })); peak = peak.max(total(&dir)); }
            }
            drop(sender);
            // the writer thread is detached: wait until the last event is on disk (or give up)
            let want = format!("\"n\":{n},");
            let mut seen = seg.is_empty();
            for _ in 0..600 {
                if seen || !alive { break; }
                for e in std::fs::read_dir(&dir).unwrap().filter_map(|e| e.ok()) {
                    if e.file_name().to_string_lossy().starts_with("srv.log.2") {
                        if let Ok(s) = std::fs::read(e.path()) { if String::from_utf8_lossy(&s).contains(&want) { seen = true; } }
                    }
                }
                std::thread::sleep(Duration::from_millis(5));
            }
            std::thread::sleep(Duration::from_millis(10));
            peak = peak.max(total(&dir));
            done &= seen;
            // files of this run become "files of an earlier run": give them distinct mtimes in writing order
            // (the kernel's coarse clock can give files written within one tick the same mtime)
            let (_, new) = scan(&dir);
            let base = SystemTime::now() - Duration::from_secs(3);
            for (i, f) in new.iter().enumerate() {
                if let Ok(fh) = std::fs::File::options().write(true).open(&f.3) { let _ = fh.set_modified(base + Duration::from_millis(i as u64)); }
            }
        }
        let _ = std::env::set_current_dir(&orig_cwd);
        let (old, new) = scan(&dir);
        let unrelated = std::fs::read(dir.join("unrelated.txt")).map(|b| b == b"keep").unwrap_or(false)
            && std::fs::metadata(dir.join("srv.log.archive").join("2020.gz")).map(|m| m.len() == 5000).unwrap_or(false)
            && std::fs::symlink_metadata(dir.join("srv.log.current")).is_ok();
        let _ = std::fs::remove_dir_all(&dir);
        let mut files: Vec<String> = old.iter().map(|f| format!("{}:{}", f.1, f.2)).collect();
        files.extend(new.iter().map(|f| format!("{}:{}", f.1, f.2)));
        format!("start={start_len} sizes={} files={} done={} peak={peak} unrelated={}", sizes.iter().map(|s| s.to_string()).collect::<Vec<_>>().join(","),
            files.join("/"), u8::from(done), u8::from(unrelated))
    });
    ctx.emit("c19w", &[max_write, max_keep, keep_age, existing, pads], &obs);
}

/// c19a: steady traffic (an event every `gap` ms, never a pause) with a per-file age limit: files are rotated by age all the
/// same — no file holds more events than fit its age (plus a little slack for timing).
pub fn case_age(ctx: &mut Ctx, age_ms: &str, gap_ms: &str, n: &str) {
    let (age, gap, nn): (u64, u64, u64) = (age_ms.parse().unwrap(), gap_ms.parse().unwrap(), n.parse().unwrap());
    let obs = guard(move || {
        let dir = fresh_dir("c19a");
        let w = LogFileWriter::new_builder(dir.join("srv.log"), 10_000_000).with_max_write_age(Duration::from_millis(age));
        let sender = match w.start_writer_thread() { Ok(s) => s, Err(_) => return "start-failed".to_string() };
        for k in 1..=nn {
            if sender.send(LogEvent::new(Level::Info, vec![tag("n", k)])).is_err() { return "writer-stopped".to_string(); }
            std::thread::sleep(Duration::from_millis(gap));
        }
        drop(sender);
        std::thread::sleep(Duration::from_millis(150));
        let mut per_file: Vec<Vec<u64>> = Vec::new();
        for e in std::fs::read_dir(&dir).unwrap().filter_map(|e| e.ok()) {
            let text = String::from_utf8_lossy(&std::fs::read(e.path()).unwrap_or_default()).to_string();
            per_file.push(text.lines().filter_map(|l| l.find("\"n\":").map(|p| l[p + 4..].chars().take_while(|c| c.is_ascii_digit()).collect::<String>().parse().unwrap_or(0))).collect());
        }
        let _ = std::fs::remove_dir_all(&dir);
        per_file.retain(|f| !f.is_empty());
        per_file.sort();
        let all: Vec<u64> = per_file.iter().flatten().copied().collect();
        let complete = all == (1..=nn).collect::<Vec<u64>>();
        let most = per_file.iter().map(|f| f.len() as u64).max().unwrap_or(0);
        format!("complete_in_order={} within_age={}", u8::from(complete), u8::from(most <= age / gap + 4))
    });
    ctx.emit("c19a", &[age_ms, gap_ms, n], &obs);
}

pub fn run_age(ctx: &mut Ctx) {
    if ctx.mine(0) { case_age(ctx, "1000", "100", "32"); }
    if ctx.mine(1) { case_age(ctx, "1000", "50", "50"); }
}

pub fn run(ctx: &mut Ctx) {
    let mut rng = Rng::new(ctx.seed.wrapping_add(19));
    let mut idx = 0u64;
    // set level: random op sequences with synthetic clocks
    let n = if ctx.thorough() { 8000 } else { 800 };
    for _ in 0..n {
        idx += 1;
        let ninit = rng.below(5);
        let mut clock = 10u64;
        let mut names = 0;
        let mut init = Vec::new();
        for _ in 0..ninit { clock += rng.range(1, 50); names += 1; init.push(format!("f{names}:{}:{clock}", rng.below(500))); }
        let nops = rng.range(1, 8);
        let mut ops = Vec::new();
        let mut count = ninit;
        for _ in 0..nops {
            clock += rng.range(1, 50);
            match rng.below(6) {
                0 | 1 => { names += 1; count += 1; ops.push(format!("push:f{names}:{}:{clock}", rng.below(500))); }
                2 if count > 0 => { count -= 1; ops.push("del".to_string()); }
                3 => ops.push(format!("age:{clock}:{}", rng.range(1, 120))),
                _ => ops.push(format!("over:{}", rng.below(1200))),
            }
        }
        if ctx.mine(idx) { case_set(ctx, &init.join(","), &ops.join(";")); }
    }
    // many small files of earlier runs (a quiet service restarted often) and then large events: each event may have to delete
    // several files to stay within the keep-size
    for (j, (mw, mk, nold, nev)) in [(65536u64, 131072u64, 40usize, 14usize), (65536, 65536, 25, 9), (131072, 262144, 60, 20)].iter().enumerate() {
        idx += 1;
        if !ctx.mine(idx) { continue; }
        let ex: Vec<String> = (0..*nold).map(|k| format!("{}:{}", 120 + (k * 7) % 150, 3000 - k)).collect();
        let pads: Vec<String> = (0..*nev).map(|k| (30_000 + (k * 3571 + j * 1000) % 25_000).to_string()).collect();
        case_writer(ctx, &mw.to_string(), &mk.to_string(), "0", &ex.join(","), &pads.join(","));
    }
    // events longer than a whole file (they get a file of their own), followed by ordinary ones
    for (j, pads) in ["100,70000,100,200,70000,300,5,5,5", "10,66000,10,10,10,10,10", "10,10,140000,20,20,20,20|30,30"].iter().enumerate() {
        idx += 1;
        if ctx.mine(idx) { case_writer(ctx, "65536", if j == 1 { "131072" } else { "655360" }, "0", "", pads); }
    }
    // writer level
    let nw = if ctx.thorough() { 150 } else { 24 };
    for k in 0..nw {
        idx += 1;
        let mw: u64 = if ctx.thorough() { *rng.pick(&[65536u64, 131072, 1_048_576]) } else { *rng.pick(&[65536u64, 131072]) };
        // 0.25x is outside the property's configurations but accepted by the API: the writer must keep running
        let mk = (mw as f64 * *rng.pick(&[1.0f64, 2.0, 3.5, 10.0, 1.0, 2.0, 3.5, 10.0, 0.25])) as u64;
        let ka = if rng.chance(1, 3) || k % 4 == 1 { 60 } else { 0 };
        let nex = rng.below(6);
        let mut ages: Vec<u64> = Vec::new();
        let ex: Vec<String> = (0..nex).map(|_| {
            let mut age = if rng.chance(1, 2) { 7200 - rng.below(100) } else { 10 + rng.below(20) };
            while ages.contains(&age) { age += 1; }
            ages.push(age);
            format!("{}:{age}", rng.range(100, 90_000))
        }).collect();
        // files restored from a backup or touched together: the same modification time (and, here, the same size) twice
        let mut ex = ex;
        if !ex.is_empty() && rng.chance(1, 3) { let d = ex[rng.below(ex.len() as u64) as usize].clone(); ex.push(d.clone()); if rng.chance(1, 2) { ex.push(d); } }
        // every fifth run gives the writer a relative path prefix and changes the working directory once it runs
        if k % 5 == 2 { ex.insert(0, "R".to_string()); }
        // every fourth run is short: a few small events that never rotate (retention must not wait for a rotation)
        let short = k % 4 == 1;
        let nev = if short { rng.range(1, 6) } else if ctx.thorough() && k % 50 == 7 { 20000 } else if ctx.thorough() && k % 10 == 0 { 4000 } else { rng.range(100, 700) };
        let nrestart = if rng.chance(1, 2) { 0 } else { rng.range(1, 3) };
        let mut pads = String::new();
        for i in 0..nev {
            if i > 0 { pads.push(if nrestart > 0 && rng.chance(nrestart, nev) { '|' } else { ',' }); }
            pads.push_str(&match if short { 9 } else { rng.below(10) } { 0 => rng.range(20_000, 60_000), 1 | 2 => rng.range(2000, 9000), _ => rng.range(1, 400) }.to_string());
        }
        if ctx.mine(idx) { case_writer(ctx, &mw.to_string(), &mk.to_string(), &ka.to_string(), &ex.join(","), &pads); }
    }
}
