//! svharness: runs the real servlin code (path dependency on /repo, rebuilt from the working tree)
//! on generated cases and prints one line per case:
//!     <suite> TAB <args...> TAB => TAB <observed outcome>
//! The same lines are fed to the Lean driver, which prints the model's outcome and the verdict of
//! the property's executable oracle on the observed outcome.
mod gen;
mod io_script;
mod net;
mod suites;

use std::io::Write;

/// Progress counter for the watchdog: incremented by every emitted case.
pub static PROGRESS: std::sync::atomic::AtomicU64 = std::sync::atomic::AtomicU64::new(0);

pub struct Ctx {
    pub tier: String,
    pub seed: u64,
    pub shard: u64,
    pub nshards: u64,
    pub out: std::io::BufWriter<Box<dyn Write>>,
    pub count: u64,
}
impl Ctx {
    /// True when the case with running index `idx` belongs to this shard.
    pub fn mine(&self, idx: u64) -> bool {
        idx % self.nshards == self.shard
    }
    pub fn emit(&mut self, suite: &str, args: &[&str], observed: &str) {
        self.count += 1;
        PROGRESS.fetch_add(1, std::sync::atomic::Ordering::SeqCst);
        let _ = writeln!(self.out, "{}\t{}\t=>\t{}", suite, args.join("\t"), observed);
        if self.count % 256 == 0 {
            let _ = self.out.flush();
        }
    }
    pub fn thorough(&self) -> bool {
        self.tier == "thorough"
    }
}

thread_local! { static GUARD_DEPTH: std::cell::Cell<u32> = const { std::cell::Cell::new(0) }; }

/// Runs `f`, mapping a panic to the string `PANIC`.
pub fn guard<F: FnOnce() -> String + std::panic::UnwindSafe>(f: F) -> String {
    GUARD_DEPTH.with(|d| d.set(d.get() + 1));
    let r = std::panic::catch_unwind(f);
    GUARD_DEPTH.with(|d| d.set(d.get() - 1));
    match r {
        Ok(s) => s,
        Err(_) => "PANIC".to_string(),
    }
}

fn main() {
    let args: Vec<String> = std::env::args().collect();
    if args.len() < 4 {
        eprintln!("usage: svharness <suite> <quick|thorough|replay> <seed> [shard nshards] [replay-file]");
        std::process::exit(2);
    }
    // Run with SIGXFSZ ignored (suites that lower RLIMIT_FSIZE want `EFBIG` from `write`, like a full disk, not a signal):
    // an ignored signal stays ignored across `exec`, so the process replaces itself once through `sh -c "trap '' XFSZ; exec .."`.
    if std::env::var_os("SVH_XFSZ_IGNORED").is_none() {
        use std::os::unix::process::CommandExt;
        if let Ok(exe) = std::env::current_exe() {
            let err = std::process::Command::new("sh").arg("-c").arg("trap '' XFSZ; exec \"$0\" \"$@\"").arg(exe).args(&args[1..]).env("SVH_XFSZ_IGNORED", "1").exec();
            eprintln!("note: could not re-exec with SIGXFSZ ignored: {err}");
        }
    }
    // Panics are expected observations in some suites; keep stderr quiet but recorded.
    std::panic::set_hook(Box::new(|info| {
        // panics inside `guard` are observations; anything else (a bug in a generator) must be visible
        let in_guard = GUARD_DEPTH.with(|d| d.get() > 0);
        if !in_guard || std::env::var("SVH_PANIC_TRACE").is_ok() {
            eprintln!("panic: {info}");
        }
    }));
    let mut ctx = Ctx {
        tier: args[2].clone(),
        seed: args[3].parse().unwrap_or(1),
        shard: args.get(4).and_then(|s| s.parse().ok()).unwrap_or(0),
        nshards: args.get(5).and_then(|s| s.parse().ok()).unwrap_or(1),
        // the library under test prints to stdout (`println!("ERROR ..")`): cases go to $SVH_OUT when set
        out: std::io::BufWriter::with_capacity(
            1 << 20,
            match std::env::var("SVH_OUT") {
                Ok(p) => Box::new(std::fs::File::create(p).expect("create SVH_OUT")) as Box<dyn Write>,
                Err(_) => Box::new(std::io::stdout()) as Box<dyn Write>,
            },
        ),
        count: 0,
    };
    // Watchdog: a case that makes no progress for 40 s (a call into the library that blocks or loops)
    // ends the run with exit code 3; what was emitted so far has been flushed by then.
    std::thread::spawn(|| {
        let mut last = 0;
        let mut idle = 0;
        loop {
            std::thread::sleep(std::time::Duration::from_secs(2));
            let now = PROGRESS.load(std::sync::atomic::Ordering::SeqCst);
            if now == last { idle += 1; } else { idle = 0; last = now; }
            if idle >= 20 {
                eprintln!("WATCHDOG: no progress for 40 s after case #{now}: a call into the library blocked or looped");
                std::process::exit(3);
            }
        }
    });
    if ctx.tier == "replay" {
        // Re-run the implementation on the input part of each line of the replay file.
        let path = args.get(6).expect("replay file");
        let text = std::fs::read_to_string(path).expect("read replay file");
        for line in text.lines() {
            let fields: Vec<&str> = line.split('\t').collect();
            // suite `any`: every line is dispatched by its own tag (a suite may emit cases of another suite's tag)
            if fields.is_empty() || args[1] != "any" && fields[0] != args[1] && !fields[0].starts_with(&args[1]) {
                continue;
            }
            let end = fields.iter().position(|f| *f == "=>").unwrap_or(fields.len());
            suites::replay(&mut ctx, fields[0], &fields[1..end]);
        }
    } else {
        suites::run(&mut ctx, &args[1]);
    }
    let _ = ctx.out.flush();
}
