//! One PRNG (xorshift64*) from which every random choice of the harness is derived.
pub struct Rng(u64);
impl Rng {
    pub fn new(seed: u64) -> Self {
        let mut s = seed.wrapping_mul(0x9E37_79B9_7F4A_7C15) ^ 0xD1B5_4A32_D192_ED03;
        if s == 0 {
            s = 0x1234_5678_9ABC_DEF1;
        }
        Self(s)
    }
    pub fn next(&mut self) -> u64 {
        let mut x = self.0;
        x ^= x >> 12;
        x ^= x << 25;
        x ^= x >> 27;
        self.0 = x;
        x.wrapping_mul(0x2545_F491_4F6C_DD1D)
    }
    /// Uniform in 0..n (n > 0).
    pub fn below(&mut self, n: u64) -> u64 {
        self.next() % n
    }
    pub fn range(&mut self, lo: u64, hi_incl: u64) -> u64 {
        lo + self.below(hi_incl - lo + 1)
    }
    pub fn chance(&mut self, num: u64, den: u64) -> bool {
        self.below(den) < num
    }
    pub fn pick<'a, T>(&mut self, xs: &'a [T]) -> &'a T {
        &xs[self.below(xs.len() as u64) as usize]
    }
    pub fn bytes(&mut self, n: usize) -> Vec<u8> {
        (0..n).map(|_| self.next() as u8).collect()
    }
}

pub fn hex(bs: &[u8]) -> String {
    const D: &[u8; 16] = b"0123456789abcdef";
    let mut s = String::with_capacity(bs.len() * 2);
    for b in bs {
        s.push(D[(b >> 4) as usize] as char);
        s.push(D[(b & 15) as usize] as char);
    }
    s
}

pub fn unhex(s: &str) -> Vec<u8> {
    let b = s.as_bytes();
    let v = |c: u8| if c <= b'9' { c - b'0' } else { c - b'a' + 10 };
    (0..b.len() / 2).map(|i| v(b[2 * i]) * 16 + v(b[2 * i + 1])).collect()
}

/// Compact byte-string syntax of the line protocol: segments joined by `+`, each either plain hex
/// or `hh*count` (a run of `count` >= 16 equal bytes).  Greedy and deterministic; the Lean driver
/// implements the same algorithm.
pub fn enc(bs: &[u8]) -> String {
    let mut segs: Vec<String> = Vec::new();
    let mut pend = String::new();
    let mut i = 0;
    while i < bs.len() {
        let mut j = i;
        while j < bs.len() && bs[j] == bs[i] {
            j += 1;
        }
        if j - i >= 16 {
            if !pend.is_empty() {
                segs.push(std::mem::take(&mut pend));
            }
            segs.push(format!("{}*{}", hex(&bs[i..=i]), j - i));
            i = j;
        } else {
            pend.push_str(&hex(&bs[i..=i]));
            i += 1;
        }
    }
    if !pend.is_empty() {
        segs.push(pend);
    }
    segs.join("+")
}

pub fn dec(s: &str) -> Vec<u8> {
    let mut out = Vec::new();
    for seg in s.split('+').filter(|x| !x.is_empty()) {
        if let Some((h, n)) = seg.split_once('*') {
            let b = unhex(h)[0];
            out.extend(std::iter::repeat(b).take(n.parse().unwrap()));
        } else {
            out.extend(unhex(seg));
        }
    }
    out
}

pub fn sizes_str(v: &[usize]) -> String {
    v.iter().map(|x| x.to_string()).collect::<Vec<_>>().join(",")
}

pub fn parse_sizes(s: &str) -> Vec<usize> {
    s.split(',').filter(|x| !x.is_empty()).map(|x| x.parse().unwrap()).collect()
}
