"""Per-property configuration of bin/check (suites, Lean modules, evidence texts)."""
import re

TRUSTED_BASE = [
    "Lean 4.33.0 kernel (thorough tier: re-checked with leanchecker)",
    "axioms allowed in property theorems: propext, Classical.choice, Quot.sound (printed per theorem; no native_decide, bv_decide, sorry or own axioms)",
    "hand-written Lean model of the Rust code, tied to /repo's working tree only by the correspondence suites run by this check",
    "Rust harness /verif/harness (case generators, canonicalisation), Lean driver's line-protocol parser, bin/check",
]

PROPS = {}
NOT_YET = {}
HOOK_COMMITS = []

PROPS["C14"] = dict(
    suites=["c14"],
    lean_modules=["ServlinVerif.Props.C14"],
    audit="Audit/C14.lean",
    rule="exhaustive: every collection of <=4 (quick) / <=5 (thorough) fields over 6 name spellings with pairwise distinct values x every "
         "sequence of <=2 (<=3) lookups/removals; random sequences of 1..12 ops over all five operations on <=8 fields; every TryFrom "
         "constructor on ASCII/non-ASCII text; numeric conversions. Non-trivial = some operation matched at least one field "
         "(or, for constructors, any case).",
    nontrivial=lambda tag, args, obs: (tag != "c14") or bool(re.search(r"[SL]:[0-9a-f]", obs)),
    klass=lambda tag, args, obs: tag if tag != "c14" else "c14:fields=%d" % (args[0].count(",") + 1 if args[0] else 0),
    explanation="HeaderList (src/headers.rs) modelled as a list with the Rust loops; theorem C14_refines_multimap proves that for every "
                "initial collection and every op sequence the model equals the ordered case-insensitive multimap spec; the suite ties the "
                "model to the real HeaderList/AsciiString and evaluates the spec on the implementation's observed results.",
    trusted=["Rust String/Vec semantics; str::eq_ignore_ascii_case modelled as byte-wise ASCII lower-casing"],
    assumptions=["HeaderList is only reached through its five methods (Deref to Vec is not modelled)"],
    level_text="Proof: Lean theorem C14_refines_multimap shows, for every initial collection and every operation sequence of any length, "
               "that the model of HeaderList (which mirrors the Rust loops) returns the results and reaches the state of an ordered, "
               "ASCII-case-insensitive multimap; constructors accept exactly ASCII. The model is tied to the code by an exhaustive "
               "small-scope + random differential suite run on every check.",
    level_note="Trusted: Lean kernel; the hand-written model (src/headers.rs, src/ascii_string.rs are modelled, not verified); the "
               "correspondence suite c14 (exhaustive <=4/5 fields x <=2/3 ops + random) and its harness; Rust Vec/String semantics.",
)
