"""Per-property configuration of bin/check (suites, Lean modules, evidence texts)."""
import re

TRUSTED_BASE = [
    "Lean 4.33.0 kernel (thorough tier: re-checked with leanchecker)",
    "axioms allowed in property theorems: propext, Classical.choice, Quot.sound (printed per theorem; no native_decide, bv_decide, sorry or own axioms)",
    "hand-written Lean model of the Rust code, tied to /repo's working tree only by the correspondence suites run by this check",
    "Rust harness /verif/harness (case generators, canonicalisation), Lean driver's line-protocol parser, bin/check",
]

PROPS = {}
NOT_YET = {}
HOOK_COMMITS = ["1460123bcc5a44e72392e65465c5bd0c424ce6e9"]  # PrefixFileSet::verif_snapshot behind --cfg servlin_verif (src/log/prefix_file_set.rs, Cargo.toml check-cfg)

PROPS["C12"] = dict(
    suites=["c12t", "c12", "c12e", "c12i", "c12s"],
    random_suites=["c12"],
    shards={"c12t": 8, "c12": 4, "c12e": 1, "c12i": 1, "c12s": 2},
    lean_modules=["ServlinVerif.Props.C12", "ServlinVerif.Props.C13"],
    audit="Audit/C12.lean",
    rule="c12t: the real TokenSet driven exhaustively: every valid sequence up to depth 6 (thorough: 8) over {wait_token (only where a unit is free: it "
         "blocks otherwise), wait_token_timeout(0), drop oldest, drop youngest} and up to depth 4 (6) over those plus {async_wait_token polled once, "
         "stand-alone Token::new() dropped}, sizes 1..3 (and 4); each sequence runs in its own thread with a 3 s hang detector; afterwards the free "
         "units are counted, then all live tokens dropped and the units counted again. c12: 24 (160) whole-server histories on loopback: max_conns 1..4, "
         "2..3x as many concurrent clients with random start delays, each ending in one of {gate+200, gate+500, gate+handler panic, gate+dropped by "
         "handler, malformed request, abort mid-head, abort mid-upload, half-close in the middle of an upload the handler answered without reading, keep-alive then close, two requests; the four kinds that the server ends (500, panic, drop, malformed) also with a client that keeps its socket open afterwards}, half of the histories dominated by one "
         "kind; handlers block on a harness gate that records the number of simultaneously entered handlers; gates are held until min(max_conns, gated "
         "clients) are inside, then opened one at a time; after the history max_conns fresh gated clients must all be inside simultaneously within 8 s. "
         "c12e: 2 (5) servers with max_conns 1..4 run under a lowered descriptor limit (prlimit on the harness process): the descriptor table is filled so "
         "that the client's socket takes the last descriptor and accept() fails with EMFILE 1..3 times (the client is starved for 250 ms, the "
         "'too many open files' event is captured), then the descriptors are released: the client must be served and max_conns fresh gated clients "
         "must all be inside simultaneously. Non-trivial = at least one take that had to fail / at least one connection ended abnormally / accept failed.",
    nontrivial=lambda tag, args, obs: ("O" in obs.split(" ")[0]) if tag == "c12t" else (True if tag in ("c12e", "c12i", "c12s") else bool(re.search(r"[epdmauvwxyEPDM]", args[1]))),
    klass=lambda tag, args, obs: ("c12t:size=%s:len=%d" % (args[0], len(args[1]))) if tag == "c12t" else ("c12e:max_conns=%s" % args[0] if tag == "c12e" else "c12i:idle-clients=" + args[0] if tag == "c12i" else "c12s:streams=" + args[0] if tag == "c12s" else "c12:max_conns=%s:clients=%d" % (args[0], len(args[1]))),
    explanation="Model/Server.lean: TokenSet as (size, units in the channel, live tokens); the accept loop as a four-state machine, connection tasks as "
                "a count, every way a connection can end as one event (its token is dropped). Theorems over all event sequences / API sequences: "
                "C12_tokens (units + live = size, live <= size), C12_drop_returns (try_send never finds the channel full), C12_take_iff, "
                "C12_limit (serving + the accept loop's slot <= max_conns), C12_conserved (free = max_conns - in use), C12_accept_failure_free, "
                "C12_full_again (from any waiting state all free slots can be filled: max_conns serviced simultaneously).",
    trusted=["safina sync_channel / std mpsc bounded channel semantics (try_send, recv), Drop running when a task ends, panics or is cancelled (Rust)",
             "the gauge measures handlers inside the gate, i.e. connections being serviced in their handler; connections parked in read are bounded by the same tokens (model) but not observed by the gauge"],
    assumptions=["c12e needs the prlimit(1) tool to lower the harness process's soft RLIMIT_NOFILE; where it is missing or the injection does not take (client served while the table is full) the case is counted 'free', not as a failure"],
    level_text="Proof: invariant over all histories and schedules of the slot-pool / accept-loop transition system; partial (runtime): which Rust code "
               "paths end a connection task and that each drops its token is observed by the loopback histories, not proved.",
    level_note="Trusted: Lean kernel; model of src/token_set.rs, src/accept.rs, spawn glue of src/lib.rs (modelled, not verified) tied by suites c12t (exact) and c12 (loopback).",
)

PROPS["C13"] = dict(
    suites=["c13", "c13e", "c13p", "c13b"],
    random_suites=["c13"],
    shards={"c13": 4, "c13e": 1, "c13p": 1, "c13b": 1},
    lean_modules=["ServlinVerif.Props.C13"],
    audit="Audit/C13.lean",
    rule="whole servers on loopback with their own permit: revocation injected with 0..45 ms random delay at each phase of a connection's life {no "
         "connection, idle keep-alive, head partially received, handler running (gate), body upload in progress, response being written (6 MiB body, "
         "client not reading), all max_conns slots occupied by idle connections for max_conns 1..4} and 14 (120) random mixes of 1..max_conns "
         "connections in those phases; observed: no stopped signal before revocation, stopped signal within 2 s (3 s wait), connect() after the "
         "signal refused, each connection's in-flight or next request answered completely (status + declared length) and the request after it not "
         "served (closed) — also when the further requests arrive pipelined in one write (phases I, H). c13e: 2 (5) servers whose "
         "accept() keeps failing with EMFILE (descriptor table filled, a client waiting in the backlog; needs prlimit(1)), revoked 150..750 ms into "
         "that state: the stopped signal must still arrive (within 2.5 s: one 500 ms error sleep) and the port must then refuse connections. Non-trivial = at least one open connection at revocation.",
    nontrivial=lambda tag, args, obs: tag == "c13b" or args[1] != "-",
    klass=lambda tag, args, obs: "c13e:accept-failing" if tag == "c13e" else "c13p:revoked-at=" + args[1] if tag == "c13p" else "c13b:pool=" + args[0] if tag == "c13b" else "c13:conns=%d:allslots=%s" % (len(args[1].replace("-", "")), "yes" if len(args[1].replace("-", "")) == int(args[0]) else "no"),
    explanation="Model/Server.lean. C13_rank_decreases/C13_bounded: after revocation the accept loop takes at most 3 more steps of its own in every "
                "schedule; C13_progress: in the repaired loop such a step is always enabled without anything from outside (no free slot, client or "
                "connection ending needed); C13_never_early (stopped only after revocation; at most one straggler accept), C13_stopped_final; "
                "connection task: C13_one_more (at most one more response after revocation, for every client behaviour), C13_inflight_completes. "
                "C13_legacy_parked / C13_legacy_stuck: the pinned loop has no enabled step with all slots taken.",
    trusted=["time is not modelled: 'bounded time' = bounded number of accept-loop steps none of which waits on anything but the 500 ms error sleep; the wall-clock bound is measured by the suite",
             "permit crate: revocation wakes futures awaiting the permit; futures_lite::FutureExt::or polls both sides (cancellation-safe receive)"],
    assumptions=["the stopped signal being sent after the listener is dropped is program order in src/lib.rs (observed by connect() after the signal)"],
    level_text="Proof: rank/progress argument and invariants over all schedules of the accept-loop and connection transition systems; partial (runtime): "
               "wake-ups by the permit crate and the executor are outside the model and observed by the loopback schedules.",
    level_note="Trusted: Lean kernel; model of src/accept.rs and the permit checks of src/http_conn.rs (modelled, not verified) tied by suite c13.",
)

PROPS["C14"] = dict(
    suites=["c14", "c14r"],
    lean_modules=["ServlinVerif.Props.C14", "ServlinVerif.Props.C04Pipeline"],
    audit="Audit/C14.lean",
    rule="exhaustive: every collection of <=4 (quick) / <=5 (thorough) fields over 6 name spellings with pairwise distinct values x every "
         "sequence of <=2 (<=3) lookups/removals; random sequences of 1..12 ops over all five operations on <=8 fields; every TryFrom "
         "constructor on ASCII/non-ASCII text; numeric conversions. Non-trivial = some operation matched at least one field "
         "(or, for constructors, any case).",
    nontrivial=lambda tag, args, obs: (tag != "c14") or bool(re.search(r"[SL]:[0-9a-f]", obs)),
    klass=lambda tag, args, obs: tag if tag != "c14" else "c14:fields=%d" % (args[0].count(",") + 1 if args[0] else 0),
    explanation="HeaderList (src/headers.rs) modelled as a list with the Rust loops; theorem C14_refines_multimap proves that for every "
                "initial collection and every op sequence the model equals the ordered case-insensitive multimap spec; the suite ties the "
                "model to the real HeaderList/AsciiString and evaluates the spec on the implementation's observed results.",
    trusted=["Rust String/Vec semantics; str::eq_ignore_ascii_case modelled as byte-wise ASCII lower-casing"],
    assumptions=["HeaderList is only reached through its five methods (Deref to Vec is not modelled)"],
    level_text="Proof: Lean theorem C14_refines_multimap shows, for every initial collection and every operation sequence of any length, "
               "that the model of HeaderList (which mirrors the Rust loops) returns the results and reaches the state of an ordered, "
               "ASCII-case-insensitive multimap; constructors accept exactly ASCII. The model is tied to the code by an exhaustive "
               "small-scope + random differential suite run on every check.",
    level_note="Trusted: Lean kernel; the hand-written model (src/headers.rs, src/ascii_string.rs are modelled, not verified); the "
               "correspondence suite c14 (exhaustive <=4/5 fields x <=2/3 ops + random) and its harness; Rust Vec/String semantics.",
)

PROPS["C19"] = dict(
    suites=["c19", "c19a"],
    shards={"c19": 8, "c19a": 2},
    lean_modules=["ServlinVerif.Props.C19"],
    audit="Audit/C19.lean",
    rule="set level: 800 (8000) random op sequences (1..8 ops over push / delete_oldest / delete_older_than / delete_oldest_while_over_max_len) "
         "on a real PrefixFileSet over a scratch directory with 0..4 pre-existing prefix files of 0..500 bytes, synthetic strictly increasing "
         "mtimes (File::set_modified), an unrelated file that must survive; after every op the running total (hook verif_snapshot) and the "
         "directory listing are compared with the model. Writer level: 24 (150) runs of the real writer thread in a scratch directory: "
         "max_write_bytes in {64 KiB, 128 KiB} (thorough also 1 MiB), max_keep_bytes in {1x, 2x, 3.5x, 10x, and 0.25x: writer must keep running}, keep-age off / 60 s, 0..5 files of earlier runs "
         "(100 B..90 KB, ages 10..30 s or ~2 h), 100..700 (thorough: every 10th run 4000, every 50th 20000) events of 50 B..60 KiB, 0..3 restarts of the writer "
         "at random points; surviving files, their line numbers and sizes are compared with the model run on the same event sizes; "
         "directory total sampled every 16 events. Non-trivial = at least one file deleted or rotated.",
    nontrivial=lambda tag, args, obs: tag == "c19a" or (tag == "c19s" and re.search(r"(del|age|over)", args[1]) is not None) or (tag == "c19w" and obs.count("/") > 0),
    klass=lambda tag, args, obs: "c19a:age-rotation-under-steady-traffic" if tag == "c19a" else tag + (":ops=%d" % (args[1].count(";") + 1) if tag == "c19s" else ":restarts=%d:age=%s:keepx=%s" % (args[4].count("|"), "on" if args[2] != "0" else "off", str(round(int(args[1]) / int(args[0]), 1)))),
    explanation="Model/LogFiles.lean: PrefixFileSet (files + running total; peek = first file with the smallest mtime) and the writer loop "
                "(rotation decision, delete by age, delete oldest while over keep - current - event with saturating subtraction, append). "
                "Theorems (all histories, all configurations): the two deletion loops never panic from consistent books and equal the "
                "specifications trimTo / dropWhile (suffix, within budget, nothing more than needed deleted); C19_step / C19_run: for every "
                "event history with a non-decreasing clock the writer keeps running and the invariant holds (lines of the files in creation "
                "order = accepted events in order; on-disk files = most-recent suffix; current file <= max_write or one event); "
                "C19_disk_bound: total <= keep + one event when max_write <= keep; C19_start: earlier files found, counted, trimmed. "
                "C19_legacy_*: the three defects of the pinned tree replayed on the model (decide).",
    trusted=["the file system (create_new, write_all, remove_file, mtime), SystemTime::now monotone across events (hypothesis Monotone)",
             "BinaryHeap pops the smallest mtime; with equal mtimes its choice is unspecified (suite uses distinct mtimes)",
             "lines are atomic in the model; the suite checks whole lines on disk (no PARTIAL line, file bytes = sum of its lines)"],
    assumptions=["crash points: a restart is modelled as dropping the sender after the last event was written (clean stop); a crash in the middle "
                 "of write_all is not exercised",
                 "max_write_age (24 h default) is modelled and proved but not exercised by the suite (would need a clock hook)"],
    level_text="Proof: invariant by induction over all event histories and configurations (no bound); partial (runtime): the file system, "
               "the clock and mid-write crashes are outside the model; restarts are covered by C19_start + the suite.",
    level_note="Trusted: Lean kernel; model of src/log/prefix_file_set.rs and the loop of src/log/log_file_writer.rs (modelled, not verified) "
               "tied by suites c19s/c19w; hook verif_snapshot exposes PrefixFileSet.len.",
)

PROPS["C20"] = dict(
    suites=["c20", "c20c", "c20w", "c20x", "c01l"],
    gen=[("c20", "ServlinVerif/Gen/C20Tables.lean")],
    lean_modules=["ServlinVerif.Props.C20", "ServlinVerif.Props.C05", "ServlinVerif.Props.C20Disk"],
    audit="Audit/C20.lean",
    shards={"c20": 1, "c20w": 2, "c20x": 1, "c01l": 2},
    rule="every status-named constructor found by scanning src/response.rs (executed; exhaustive); every HttpError variant (exhaustive, "
         "compile-time exhaustive match in the harness) x payload strings over arbitrary text incl. CR/LF, paths, non-ASCII (random). "
         "Non-trivial = status rows, and error cases carrying a payload.",
    nontrivial=lambda tag, args, obs: tag in ("c20s", "c05", "c04") or ":" in args[0],
    klass=lambda tag, args, obs: "c20w:on-the-wire" if tag == "c04" else ((tag + ":" + " ".join(obs.split(" ")[:2])) if tag != "c05" else "c20c:" + args[1].split(";")[1].split(":")[1][:1] + "xx"),
    explanation="Tables statusTable/errorTable are regenerated by executing the code on every run and re-checked by the kernel "
                "(C20_status_named, C20_model_matches_code); C20_error_classes / C20_no_leak quantify over every error value and payload.",
    trusted=["build.rs scanner for `pub fn <name>_<NNN>(` signatures in src/response.rs and its four argument shapes"],
    assumptions=["the 5xx => connection: close clause: theorem C20_5xx_close on the connection model + suite c20c (every code 100..999 x 3 body kinds through a real HttpConn over loopback)"],
    level_text="Proof: the finite tables (all status-named constructors, all error variants) are regenerated by executing /repo's code on every "
               "run and the kernel re-checks C20_status_named / C20_model_matches_code against them; C20_error_classes and C20_no_leak "
               "are theorems over every error value and every payload string. The suite additionally runs random payloads through the real "
               "mapping and evaluates the spec on the observed responses.",
    level_note="Trusted: Lean kernel; table generator (harness build.rs + c20 gen); the class assignment in Spec/ErrorClasses.lean is my reading "
               "of 'client-caused' vs 'server-caused'. Modelled, not verified: src/http_error.rs, status constructors in src/response.rs.",
)

PROPS["C16"] = dict(
    gen=[("tables", "ServlinVerif/Gen/CodeTables.lean")],
    thorough_seeds=2,
    suites=["c16"],
    lean_modules=["ServlinVerif.Props.C16", "ServlinVerif.Props.CodeTables"],
    audit="Audit/C16.lean",
    rule="quick: both ends + one inner second of every day 1970-01-01..2410; +-1 s around every year start and Feb 28/29/Mar 1 for all years "
         "to 9999; every 61st second of 8 selected days; 20k random instants to year 9999 and 4 beyond; additions from the first and last day "
         "of every month 1970..2405 x {0,1s,1d,365d,366d,367d,1461d,36524d,146097d,2 random}. thorough: all 2,932,897 day boundaries x 7 "
         "seconds-of-day, every second of the selected days, 4 days per month for additions. Non-trivial = instant > 0 / duration > 0.",
    nontrivial=lambda tag, args, obs: args[-1] != "0",
    klass=lambda tag, args, obs: tag + ":" + ("panic" if obs == "PANIC" else "y%s" % (obs.split(" ")[0][:2] + "xx")),
    explanation="DateTime::new / balance cascade / Add / iso8601 modelled with the two while-loops as well-founded recursion; theorems "
                "C16_new_correct, C16_unique, C16_add_eq_new, C16_format hold for every instant/duration (unbounded). The suite compares the "
                "real DateTime with the model and evaluates the calendar spec (toSecs, Valid, format) on the implementation's output.",
    trusted=["Rust i64 arithmetic without overflow below 2^63 seconds; `{:04}`/`{:02}` formatting modelled by pad4/pad2 (tied by the suite)"],
    assumptions=["epoch seconds >= 0 and < 2^63; Duration < 2^63 s (the code panics beyond, outside the property's range)"],
    level_text="Proof: loop-invariant theorems in Lean show for every instant s >= 0 (no upper bound) that DateTime::new(s) is a valid civil "
               "date denoting exactly s, that this date is unique, that the rendering is the fixed-width 20-character form through year 9999, "
               "and that dt + d = new(toSecs dt + d) for every valid dt and every duration.",
    level_note="Trusted: Lean kernel; hand-written model of src/time.rs (modelled, not verified) tied by suite c16 (hundreds of thousands of "
               "instants incl. every day boundary); Rust integer formatting. Negative epoch seconds are outside the property.",
)

PROPS["C07"] = dict(
    suites=["c07", "c04e"],
    lean_modules=["ServlinVerif.Props.C07", "ServlinVerif.Props.C07Prefix"],
    audit="Audit/C07.lean",
    rule="copy_chunked_async(scripted reader, scripted writer): one chunk of every length in 1..300, every power of 16 +-2, 65527/65528 and 300 "
         "random lengths (thorough: every length 1..65528); greedy reader on streams of 0..200000 bytes; 600 (6000) random streams up to "
         "150 KB (1 MiB) with random/adversarial piece sizes, short writes, Pending injection, reader error instead of EOF on every third; "
         "error/EOF at every prefix of a 40-byte stream. Non-trivial = non-empty stream.",
    nontrivial=lambda tag, args, obs: args[0] != "",
    klass=lambda tag, args, obs: "c04e:event-stream-in-sequence:" + args[2] if tag == "c04" else "c07:%s:%s" % (args[2], obs.split(" ")[-1].split(":")[0]),
    explanation="copy_chunked_async modelled as per-read chunk encoding (4 nibbles, CRLF, data, CRLF, all leading '0' trimmed) + terminator; "
                "C07_decode_encode proves the independent RFC 7230 4.1 decoder recovers the source for every piece list with sizes "
                "1..65528; C07_error_truncates proves a source error yields an output the decoder calls incomplete.",
    trusted=["futures_lite write_all / AsyncRead semantics (writer short writes and Pending do not change the bytes written)"],
    assumptions=["the writer accepts all bytes (writer failures are C08)"],
    level_text="Proof: for every list of read pieces with lengths 1..65528 (unbounded number of pieces) the Lean theorem shows the RFC 7230 "
               "decoder returns exactly the concatenated source and nothing else; size lines are minimal hex of the data length; a reader "
               "error leaves an incomplete stream. Tied to the code by running the real copy_chunked_async on scripted readers/writers.",
    level_note="Trusted: Lean kernel; hand-written model of copy_chunked_async (modelled, not verified); decoder spec is my reading of RFC 7230 "
               "4.1 without extensions/trailers; suite c07. C07_no_false_complete (Props/C07Prefix.lean) is the general statement: no proper "
               "prefix of an encoding decodes as a complete message.",
)

PROPS["C01"] = dict(
    suites=["c01", "c03b", "c01l", "c01n", "c01k"],
    shards={"c01n": 1, "c01l": 2, "c01k": 2},
    gen=[("headtab", "ServlinVerif/Gen/HeadTable.lean")],
    lean_modules=["ServlinVerif.Props.C01", "ServlinVerif.Props.C01Bound", "ServlinVerif.Props.HeadTable"],
    audit="Audit/C01.lean",
    rule="read_http_request on scripted streams (FixedBuf<16|64|8192>): exhaustive strings over {G / SP : CR LF 0x80 a} up to length 6 (7 "
         "thorough); exhaustive 12 request-line variants x <=5 (6) tokens over {a : SP HT CR LF 0x80} + CRLFCRLF + tail; 6000 (60000) "
         "grammar-derived heads (0-40 fields) half of them with 1-2 byte mutations over all byte values, random fragmentation, Pending "
         "injection, EOF vs read error, part of the bytes pre-loaded in the buffer at a non-zero read index; heads of length BUF-3..BUF+3 "
         "for BUF in {64, 8192}; all 2-way splits and EOF/error at every offset of 4 short heads. Non-trivial = a blank line is present "
         "(parser reached) or the stream is non-empty.",
    nontrivial=lambda tag, args, obs: not obs.startswith("err:Truncated") and not obs.startswith("err:Disconnected"),
    klass=lambda tag, args, obs: "c03b:ops=%d" % min(args[1].count(";") + 1, 24) if tag == "c05" else ("c01l:stopped-logger" if tag == "c04" else ("c01n:no-timer-thread" if tag == "c01n" else "c01k:refused-client-stays" if tag == "c12" else "c01:" + obs.split(" ")[0][:40])),
    explanation="Head::try_read / read_http_head / read_http_request modelled (regexes as explicit matchers, url crate as parameter supplied "
                "per case by the harness). Theorems: C01_total (never panics, only documented errors), readHeadOp_eq_D / "
                "C01_sched_irrelevant (every read schedule gives the denotational result), C01_consumes_exactly, C01_eof_anywhere.",
    trusted=["url crate (parameter; its answer for each case's target is recorded by the harness)", "safe_regex semantics (the two matchers are hand-modelled; tied by the suite)", "FixedBuf (modelled as a byte list with capacity; shift() exercised by the harness)"],
    assumptions=["Poll::Pending has no effect on results (injected by the harness, not modelled)"],
    level_text="Proof: for every byte sequence, buffer capacity, URL-parser behaviour and read schedule the modelled read loop terminates (WF "
               "recursion accepted by Lean) with a request or a documented error, never a panic; its result and the bytes it leaves equal "
               "those of a function of the concatenated bytes only; exactly the head up to its blank line is consumed.",
    level_note="Trusted: Lean kernel; hand-written model of src/head.rs + the head-reading part of src/request.rs (modelled, not verified), "
               "tied by suite c01 (~540k cases per quick run, all agreeing); url crate, safe_regex, FixedBuf as stated.",
)

PROPS["C03"] = dict(
    gen=[("tables", "ServlinVerif/Gen/CodeTables.lean")],
    suites=["c03", "c03b"],
    lean_modules=["ServlinVerif.Props.C03", "ServlinVerif.Props.C05", "ServlinVerif.Props.C04Pipeline", "ServlinVerif.Props.CodeTables"],
    audit="Audit/C03.lean",
    rule="read_http_request on the cross product method {GET,HEAD,POST,PUT,DELETE,PATCH} x 20 Content-Length multisets (absent, 0, 5, 2^64-1, "
         "2^64, +5, -5, 0005, abc, empty, repeated equal/different, lists, VT-padded...) x 15 Transfer-Encoding multisets (absent, chunked, "
         "gzip, gzip+chunked, reversed, identity, repeated, case, params, FF-padded...) x 4 Expect variants x content types (2 per cell "
         "quick, all 20 thorough), random field order, random name case, optional OWS, random read fragmentation. Non-trivial = at least one "
         "framing field present.",
    nontrivial=lambda tag, args, obs: True,
    klass=lambda tag, args, obs: ("c03:" + (obs.split(" ")[0] if obs.startswith("err") else "ok body=" + obs.split("body=")[1].split(" ")[0][:1])) if tag == "c03" else "c03b:msgs=%d" % (len(args[1].split(";")) // 3),
    explanation="classify (everything read_http_request does after the head) modelled; C03_classify_closed_form expresses it as a function of "
                "the values of the fields named transfer-encoding / cookie / content-length / expect / content-type in the list as sent; "
                "corollaries: repeated or invalid framing fields are rejected, single valid length gives PendingKnown(N). The oracle "
                "(Spec/Framing.lean) recomputes the verdict from the raw field list and compares with the implementation.",
    trusted=["Rust str::parse::<u64>, str::trim, split semantics as modelled (tied by the suite)"],
    assumptions=["message-sequence clause: suite c03b runs 1..8 concatenated messages (all framings incl. chunked/gzip/Expect/truncated) through a real HttpConn with body reads to memory and to files; coding refusal is theorem C05_body_guards"],
    level_text="Proof: closed-form theorem over every head: framing flags, length, body kind, content type, expect flag and cookies are the stated "
               "function of the field list; every repeated / signed / non-numeric / overflowing Content-Length, every repeated Transfer-Encoding "
               "and every unknown or mis-ordered coding list is an error, never 'absent'.",
    level_note="Trusted: Lean kernel; hand-written model of read_http_request (modelled, not verified) tied by suite c03 (14k-140k cross-product "
               "cases) and c01; Framing spec is my reading of the property / RFC 7230 3.3.3.",
)

PROPS["C02"] = dict(
    suites=["c02", "c01s"],
    gen=[("headtab", "ServlinVerif/Gen/HeadTable.lean")],
    lean_modules=["ServlinVerif.Props.C02", "ServlinVerif.Props.HeadTable"],
    audit="Audit/C02.lean",
    rule="1500 (12000) grammar-derived heads (every tchar in methods/names, every VCHAR/SP/HT in values, 0-40 fields, OWS variants, class-A "
         "targets; every 5th with an unusual target: //a/b, dot-segments, quotes, fragments, backslash, non-ASCII, absolute-form, *) each "
         "followed by 8 (16) single/double-byte substitutions/insertions/deletions over all byte values; bare-LF variants; every tchar as "
         "one-byte method/name; every byte value inside a value, before the colon, inside method and target. Each input is classified by the "
         "independent reference parser Spec/Grammar7230 as must-accept (method, fields, and for class-A targets path+query compared "
         "exactly), must-reject (error class compared) or free. Non-trivial = classified must-accept or must-reject.",
    nontrivial=lambda tag, args, obs: True,
    klass=lambda tag, args, obs: "c02:" + obs.split(" ")[0],
    explanation="C02_accepts_wf: every head derivable from the grammar is accepted with method/fields exposed exactly (values stripped of OWS "
                "only) and exactly its bytes consumed; C02_rejects_request_line / C02_request_line / C02_rejects_field_line / C02_field_line: "
                "lines violating the documented shapes are rejected with the corresponding error. Path/query: C02_exposes_path_query under "
                "the hypothesis that the url crate, as called, is verbatim on class-A targets - checked by the suite on the real call.",
    trusted=["url crate beyond class-A targets (parameter)", "Spec/Grammar7230.lean is my reading of RFC 7230 section 3 as documented in head.rs comments"],
    assumptions=["control bytes / obs-text in values, bare-LF line ends, non-class-A targets are implementation-free (only model = implementation and C01 are required there)"],
    level_text="Proof: theorem over all well-formed heads (unbounded number of fields, arbitrary OWS, arbitrary following bytes) that the parser "
               "accepts them, consumes exactly the head and exposes method and fields exactly; theorems that any request line or field line "
               "outside the documented shapes gives MalformedRequestLine / MalformedPath / UnsupportedProtocol / MalformedHeaderLine.",
    level_note="Trusted: Lean kernel; hand-written parser model (src/head.rs modelled, not verified) tied by suites c01+c02; url crate is a parameter "
               "(UrlFaithfulOnClassA is a hypothesis checked case by case on the real call); the reference classifier.",
)

PROPS["C06"] = dict(
    gen=[("tables", "ServlinVerif/Gen/CodeTables.lean")],
    suites=["c06", "c07", "c14", "c13w", "c08c"],
    lean_modules=["ServlinVerif.Props.C06", "ServlinVerif.Props.C06RoundTrip", "ServlinVerif.Props.C06Chunked", "ServlinVerif.Props.C07", "ServlinVerif.Props.CodeTables"],
    audit="Audit/C06.lean",
    rule="write_http_response(scripted writer): every status code 100..999 with rotating content types; 1200 (8000) random responses: all "
         "17 ContentType variants + custom, 0-20 extra fields over all tchar names / printable ASCII+HT values incl. names colliding "
         "case-insensitively with content-type / content-length / transfer-encoding / connection (once and twice), body variants Vec / "
         "static bytes / static str / File / TempFile / event stream with sizes 0..65537 (thorough: up to 3 MiB), writer schedules accepting "
         "1..n bytes per call with interleaved Pending. The wire is parsed by the strict independent parser Spec/RespParser. "
         "Non-trivial = at least one extra field or a non-empty body.",
    nontrivial=lambda tag, args, obs: (args[2] != "" or len(args[3]) > 2) if tag == "c06" else args[0] != "",
    klass=lambda tag, args, obs: "c08c:file-fault-at-connection-level" if tag == "c05" else "c13w:response-in-flight-at-revocation" if tag == "c13" else ("c06:body=%s:%s" % (args[3][:1], (obs.split(" r=")[1].split(" ")[0] if " r=" in obs else obs[:10]))) if tag == "c06" else ("c07" if tag == "c07" else "c14:header-list-ops"),
    explanation="write_http_response modelled (head construction, duplicate guards, sized body via take(len), chunked body via C07's model, "
                "writer failing at an offset). Theorems: C06_dup_refused (a colliding or second framing field => zero bytes written), "
                "C06_head_shape (automatic fields and exactly one framing field, never both), C06_sized_body (Content-Length = bytes sent), "
                "C06_parses_back (Props/C06RoundTrip.lean: for every status 100..999, every grammatical type / user fields and every body of "
                "known length in any pieces, the strict parser accepts the written bytes and returns exactly code, automatic ++ user fields in "
                "order with unchanged values, one content-length, no transfer-encoding, the body, nothing left over), "
                "with C07_decode_encode for the chunked body. The oracle parses the real wire bytes with the strict parser and compares code, "
                "fields in order and body.",
    trusted=["futures_lite write_all/flush; async_fs file reads (body source modelled as 'delivers these bytes / fails to open')",
             "Rust integer Display (decimal) and format! of the status line"],
    assumptions=["field values have no leading/trailing SP/HT (a strict parser strips OWS); names are tokens; values and content type are CR/LF-free ASCII"],
    level_text="Proof: theorems over every response, writer failure offset and body source that (1) a response colliding with an automatic or "
               "framing field writes zero bytes, (2) otherwise the head has the stated shape with exactly one framing field, (3) sized bodies "
               "send exactly Content-Length bytes and chunked bodies decode to the source (C07), (4) C06_parses_back: the whole message with a "
               "body of known length parses back under the strict parser to exactly what was given. For chunked bodies the parse-back is the "
               "composition of C06_head_shape and C07_decode_encode and is additionally checked on the real output on every run.",
    level_note="Trusted: Lean kernel; hand-written model of write_http_response (modelled, not verified) tied by suite c06; RespParser is my "
               "reading of RFC 7230 section 3. Partial: the parse-back theorem covers bodies of known length; for chunked bodies head and body are proved separately.",
)

PROPS["C08"] = dict(
    gen=[("c20", "ServlinVerif/Gen/C20Tables.lean")],
    suites=["c08", "c08c", "c08d"],
    thorough_suites=["c08s"],
    shards={"c08s": 2},
    lean_modules=["ServlinVerif.Props.C06", "ServlinVerif.Props.C05", "ServlinVerif.Props.C06Chunked", "ServlinVerif.Props.C07Prefix", "ServlinVerif.Props.C08Fallback"],
    audit="Audit/C08.lean",
    rule="7 response families (Vec, empty, static str, File, TempFile, event stream with 2 events, empty event stream) x write error injected at "
         "every byte offset 0..200 (260) x 3 short-write schedules x Pending; File/TempFile bodies with declared length in {1,2,40,1000,70000} "
         "truncated to {0,1,half,len-1}, exact, longer, and deleted before open; the reference serialisation is produced by the same code "
         "with an intact source and a writer that never fails. Non-trivial = the failure point lies inside the serialisation.",
    nontrivial=lambda tag, args, obs: "err:" in obs or tag == "c08s",
    klass=lambda tag, args, obs: ("c08:body=%s:%s" % (args[3][:1], (obs.split(" r=")[1].split(" ")[0] if " r=" in obs else obs[:10]))) if tag == "c08" else ("c08s:stall=%ss" % args[0] if tag == "c08s" else "c08c:" + ([o for o in args[1].split(";") if o.startswith("wr:")] or ["wr:0:?"])[0].split(":")[2][:4]),
    explanation="C08_prefix: for every response and failure offset k the bytes that reached the writer are exactly the first k bytes of the "
                "intended serialisation and the result is Disconnected; C08_source_fault: a body source that is shorter than declared, "
                "unreadable or missing yields a prefix of the serialisation with the intact source and an error result. The connection-level "
                "clause (write side shut down iff bytes were sent; a single 500 may follow otherwise) is in the connection model (C05).",
    trusted=["kernel socket errors are reproduced only by the scripted writer (serialiser level)"],
    assumptions=["a writer that has failed keeps failing"],
    level_text="Proof (serialiser level): theorem over every response, close flag and failure offset that the written bytes are a prefix of the "
               "one correct serialisation and truncation is always reported as an error; theorem for faulty body sources. Partial: real TCP "
               "failures at arbitrary offsets cannot be injected; the connection-level consequences are proved on the connection model.",
    level_note="Trusted: Lean kernel; model of write_http_response + scripted writer semantics; suite c08 (failure at every offset). "
               "Partial (runtime): kernel socket behaviour.",
)

PROPS["C15"] = dict(
    suites=["c15"],
    lean_modules=["ServlinVerif.Props.C15", "ServlinVerif.Props.C03"],
    audit="Audit/C15.lean",
    rule="request side: 5000 (40000) requests with 1-3 Cookie fields generated from the cookie-string grammar (0-10 pairs, cookie-octet "
         "values incl. '=' and quotes, empty values, stray ';' and blanks, repeated names, occasional segment without '='), through "
         "read_http_request; response side: names x values x Domain x Path x Max-Age {unset,0,1,sub-second,86400,2^40,2^64-1} x "
         "HttpOnly/Secure/SameSite combinations (1600 grid + 36 flag combinations + 2000 (20000) random with Max-Age up to 2^41), each "
         "cookie added twice with with_set_cookie. Non-trivial = at least one pair / any cookie.",
    nontrivial=lambda tag, args, obs: tag == "c15s" or "ck=" in obs and not " ck= " in obs or obs.startswith("err"),
    klass=lambda tag, args, obs: tag + ":" + obs.split(" ")[0],
    explanation="C15_request_cookies: for all Cookie field values the model's map answers every name with the last pair of that name as RFC 6265 "
                "prescribes, and fails iff a non-empty segment lacks '='; C15_set_cookie_roundtrip: for every cookie with RFC-valid components the "
                "RFC 6265 5.2 client algorithm reads back name, value, Domain, Path, Max-Age, Secure, HttpOnly, SameSite from the emitted field. "
                "The oracle runs both RFC readings on the implementation's real output.",
    trusted=["Rust HashMap insert-overrides semantics (modelled as association list); Duration::as_secs; str::trim vs RFC blanks differ only on VT/FF (excluded by hypothesis Plain)"],
    assumptions=["Expires is outside the property (ISO-8601 text is not an RFC 6265 cookie-date); cookie values contain no CTLs"],
    level_text="Proof: both halves are Lean theorems over all inputs of the stated classes (any number of Cookie fields/pairs; every cookie with "
               "RFC-valid components and any Max-Age), against an independent executable rendering of RFC 6265 4.2/5.2.",
    level_note="Trusted: Lean kernel; hand-written models of the cookie loop in src/request.rs and of Display for Cookie in src/cookie.rs (modelled, "
               "not verified) tied by suite c15; Spec/Rfc6265.lean is my reading of the RFC.",
)

PROPS["C17"] = dict(
    suites=["c17", "c19"],
    lean_modules=["ServlinVerif.Props.C17", "ServlinVerif.Props.C17Line"],
    audit="Audit/C17.lean",
    rule="LogEvent::new(level, tags).write_jsonl: every Unicode scalar value below U+3000 as a one-character string plus every 97th BMP / "
         "4099th astral scalar value (thorough: all 1,112,064), boundary scalars (surrogate neighbours, U+2028/9, U+FEFF...), all integer "
         "types at min/-1/0/max incl. i128/u128, f32/f64 corner values (0, -0, subnormal, max, NaN, +-inf) and 500 (5000) random bit patterns, "
         "bool/null/Option, 3000 (30000) random events with 0-20 tags mixing all escape classes in values and in tag names. The line is "
         "parsed by the strict RFC 8259 parser Spec/JsonParser. Non-trivial = at least one tag.",
    nontrivial=lambda tag, args, obs: tag != "c17" or args[1] != "",
    klass=lambda tag, args, obs: "c19:lines-on-disk" if tag != "c17" else "c17:tags=%d" % min(len([x for x in args[1].split(",") if x]), 5),
    shards={"c19": 8, "c19a": 2},
    explanation="C17_string_roundtrip / C17_no_breakout: for every list of Unicode scalar values the escaped text is read back exactly by the RFC 8259 "
                "string parser, which stops exactly at the serialiser's closing quote - no value or name can break out, add members or split the "
                "line. C17_line (Props/C17Line.lean): for every tag list (arbitrary Unicode names and strings, all integers, booleans, null, "
                "non-finite floats, floats of the shape [-]digits[.digits]) the whole output of write_jsonl is one line with exactly one LF, at the "
                "end, holding one flat JSON object whose members are time, level, the tags in order with names and values unchanged, time_ns. "
                "The executable parser is additionally applied to every line the implementation produced.",
    trusted=["Rust Display of integers and finite floats (taken as text; checked to be JSON numbers by the oracle)", "UTF-8 decoding of the line by Lean's String.fromUTF8?"],
    assumptions=["the time member is produced from SystemTime::now() and only checked for shape"],
    level_text="Proof: the escaping theorem holds for all strings over all 1,112,064 scalar values (by induction, not enumeration). C17_line: the object-level "
               "statement (fixed members, one member per tag in order, numbers, single line) is a theorem for every tag list; that Rust prints finite "
               "floats as [-]digits[.digits] is a fact about Rust's formatter and is checked by the suite.",
    level_note="Trusted: Lean kernel; model of write_jsonl/Display impls (modelled, not verified) tied by suite c17 (model and implementation produce "
               "byte-identical lines); JsonParser is my reading of RFC 8259 for flat objects.",
)

PROPS["C05"] = dict(
    suites=["c05", "c08c", "c08d"],
    lean_modules=["ServlinVerif.Props.C05", "ServlinVerif.Props.C05Seq"],
    audit="Audit/C05.lean",
    rule="a real HttpConn on a loopback socket whose client pre-wrote its script and half-closed: ALL operation sequences up to depth 3 (4 in "
         "thorough) over 14 operations {read_request, read_body_to_vec, read_body_to_file(0|len-1|len|big), write_http_continue, "
         "write_response(1xx|2xx|4xx|5xx|non-writable kind|conflicting header), shutdown_write} x 9 client scripts {nothing+FIN, bodiless, "
         "known body, known body + pipelined request, Expect+body, unknown-length body, chunked, truncated body, garbage}, plus 4000 (40000) "
         "random sequences of length 4..8 incl. event-stream and further response variants; after every call: result, read_state, "
         "write_state, is_ready; at the end the bytes the client received. Non-trivial = at least one call succeeded.",
    nontrivial=lambda tag, args, obs: "ok" in obs.split(" wire=")[0],
    klass=lambda tag, args, obs: "c05:depth=%d" % min(len(args[1].split(";")), 5),
    explanation="HttpConn methods modelled as Conn -> Op -> Conn x result with the wire as part of the state. Theorems over every connection "
                "state / every further call sequence: the documented guard errors (and that they leave wire and states unchanged), "
                "C05_write_effect (1xx keeps the debt, a final response discharges it, 5xx shuts the write side), C05_nothing_after_shutdown "
                "(for every call sequence the wire never grows after shutdown), C08_conn, C20_5xx_close. The oracle (Spec/ConnContract) "
                "re-states the contract over the observed trace and parses the received bytes into complete responses.",
    trusted=["kernel TCP on loopback (client reads everything the server wrote; measured)", "async_net / async-io"],
    assumptions=["socket write errors are not injected at this level (serialiser level: C08)", "Vec::with_capacity(len) for a declared length near 2^63 aborts the process when read_body_to_vec is called directly; scripts use small declared lengths (observation outside the listed properties)"],
    level_text="Proof: the guard / effect / nothing-after-shutdown statements are Lean theorems over every state and every call sequence (unbounded "
               "depth) of the connection model; model and real HttpConn agree on all ~30k exhaustive depth-3 sequences x scripts per run. "
               "Partial (runtime): TCP segmentation, timing and socket errors are outside the model.",
    level_note="Trusted: Lean kernel; hand-written model of src/http_conn.rs (modelled, not verified) tied by suite c05; loopback TCP.",
)

PROPS["C04"] = dict(
    suites=["c04", "c03b", "c04p"],
    shards={"c04": 4, "c04p": 3},
    lean_modules=["ServlinVerif.Props.C04", "ServlinVerif.Props.C05", "ServlinVerif.Props.C04Pipeline", "ServlinVerif.Props.C04Steps", "ServlinVerif.Props.C04Pool"],
    audit="Audit/C04.lean",
    rule="HttpServerBuilder::spawn on loopback with a scripted handler (behaviour looked up by request path; every call logged): 700 (6000) "
         "sequences of 1..12 requests drawn from {no body, small body, body above the in-memory threshold, Expect: 100-continue, unknown-length "
         "body (last), chunked, malformed request line} x handler behaviours {2xx, 404, 500, fetch-body(M in 0,10,150,5000,10^6), "
         "fetch-body-again, drop, panic} x small_body_len {100, 65536} x cache dir on/off x delivery {single write, byte-at-a-time, random "
         "fragments with pauses, ping-pong}; observed = handler call log + client transcript + files left in the cache dir. "
         "Non-trivial = at least one handler call.",
    nontrivial=lambda tag, args, obs: not obs.startswith("calls= "),
    klass=lambda tag, args, obs: "c03b:ops=%d" % min(args[1].count(";") + 1, 24) if tag == "c05" else "c04p:pool=" + args[0] if tag == "c04p" else "c04:%s:calls=%d" % (args[2], min(len([x for x in obs.split(" wire=")[0][6:].split("|") if x]), 6)),
    explanation="handle_http_conn_once / handle_http_conn modelled on top of the connection model with the handler as an oracle; theorems: "
                "C04_runs_per_request (at most two runs; two only after a fetch-body answer, the second with the body present), "
                "C04_closed_after_error / C04_error_status_closes / C04_not_ready_stops (after any error, 4xx/5xx, drop or unread body no "
                "further exchange happens), C04_panic_and_drop. The oracle checks order/multiplicity of calls, bodies seen = bytes sent, "
                "one response per request in order, nothing after an error response, on the real server's call log and transcript.",
    trusted=["safina executor / blocking pool (handler runs), kernel TCP; a reset after the server closed with unread client bytes may drop the tail of the transcript (accepted only in exactly that situation, counted as ok-tail-lost-to-reset)"],
    assumptions=["the refinement of the byte-level loop to a structured per-request specification is not proved as one theorem; the per-exchange theorems plus the suite carry the claim"],
    level_text="Proof: per-exchange theorems over every connection state, handler and configuration; loop-level closure theorems. Partial "
               "(runtime): executor scheduling, TCP segmentation and timing are outside the model; schedule independence is proved for reading "
               "(C01) and tested over TCP.",
    level_note="Trusted: Lean kernel; model of handle_http_conn(_once) and of the panic wrapper in lib.rs (modelled, not verified), tied by suite "
               "c04 (model and real server agree on call log and transcript for every scenario).",
)

PROPS["C09"] = dict(
    suites=["c09", "c20x", "c13f"],
    shards={"c09": 4},
    lean_modules=["ServlinVerif.Props.C09"],
    audit="Audit/C09.lean",
    rule="full server over loopback, one upload per connection: S in {0,1,100,65536} x M in {0,1,S-1,S,S+1,70000,2^63,2^64-1} x "
         "L in {0,1,S-1,S,S+1,M-1,M,M+1,M+2} x {declared, undeclared} x {with, without Expect} x cache dir {on, off (subset)}; bodies up to "
         "150 KB are sent in full, larger declared lengths with a short body (client EOF); handler answers fetch-body(M); observed = handler "
         "call log, transcript, files left. Non-trivial = L > 0.",
    nontrivial=lambda tag, args, obs: tag in ("c20x", "c13") or ":u::" not in args[3] and ":k::" not in args[3],
    klass=lambda tag, args, obs: "c20x:error-values" if tag == "c20x" else "c13f:replacement-server-on-the-same-cache-dir" if tag == "c13" else "c09:S=%s:%s" % (args[0], ("2calls" if obs.count("|") >= 1 else "1call")),
    explanation="The relevant part of the connection model: small-body shortcut (L <= S), BodyTooLong before reading for declared L > M, "
                "take(M+1) then compare for undeclared length (saturating at 2^64-1). Theorems C09_small_direct, C09_large_asks_first, "
                "C09_declared_limit, C09_undeclared_limit (incl. the <= M+1 bytes-on-disk bound), C09_max_limit hold for all L, S, M. The oracle "
                "re-states the boundary table over the observed call log and status code.",
    trusted=["actual heap use is not observable: the in-memory bound is a statement about the model's buffers"],
    assumptions=["declared lengths near 2^63 are only exercised with short bodies (client EOF => Truncated)"],
    level_text="Proof: boundary theorems over all natural L, S, M (no sampling) on the connection model; the grid of the quantifier is run "
               "against the real server on every check. Partial (runtime): memory consumption itself is not measured.",
    level_note="Trusted: Lean kernel; model of read_body_to_vec/file and of the body stage of handle_http_conn_once (modelled, not verified) tied "
               "by suite c09; u64 arithmetic modelled with explicit saturation.",
)

PROPS["C10"] = dict(
    suites=["c10", "c10r", "c10s", "c04p", "c12i"],
    shards={"c10": 4, "c10r": 1, "c10s": 2, "c04p": 3, "c12i": 1},
    lean_modules=["ServlinVerif.Props.C10"],
    audit="Audit/C10.lean",
    rule="full server over loopback with a cache directory: uploads of known / unknown length / Expect, lengths {200, 8192, 70000} (thorough: "
         "1..100000), handler outcome after receipt {200, 503, drop, panic, fetch-body-again, none}, limits {len, 10^6, len-1}; delivered "
         "completely (single write, fragments, 3 concurrent connections), with the cache dir removed, and cut by client disconnect at offsets "
         "{0, 1, mid-buffer, buffer boundary, len-1, len, len+1}; the cache dir is listed after each scenario. Non-trivial = an upload file "
         "was created (second handler call or truncated upload).",
    nontrivial=lambda tag, args, obs: tag in ("c04p", "c12i") or tag == "c10s" or True,
    klass=lambda tag, args, obs: "c04p:pool=" + args[0] if tag == "c04p" else "c12i:failing-accepts" if tag == "c12i" else "c10s:stalled=" + args[0] if tag == "c10s" else "c10r:revoked-while-handler-owns-upload" if tag == "c13" else "c10:%s:cache=%s" % (re.sub(r"[0-9]+", "N", args[2]), args[1]),
    explanation="Upload files are part of the connection model (created ids, live set); readBodyToFile_files: an upload either hands over exactly "
                "one new file owned by the returned body or leaves none - for every input, limit and disk fault; C10_exchange_no_leak and "
                "C10_no_leak: after every exchange, and at the end of handle_http_conn, the live set equals the initial one, for every handler "
                "behaviour. The suite lists the real cache directory after each scenario.",
    trusted=["Rust drop order / temp_file::TempFile delete-on-drop (the model encodes the drop points by hand)", "a killed process never runs Drop (outside the property)"],
    assumptions=["disk write failures are modelled (FsFault) but only create-failure (cache dir removed) is injected against the real server"],
    level_text="Proof: invariant theorem over all client inputs (incl. truncation at any offset), handler behaviours, limits and file-system "
               "faults that no upload file outlives its exchange or the connection. Partial (runtime): Drop semantics and the real file "
               "system are outside the model and observed by scenarios.",
    level_note="Trusted: Lean kernel; hand-encoded drop points in the model of read_http_body_to_file / handle_http_conn_once; suite c10.",
)

PROPS["C11"] = dict(
    suites=["c11", "c11c", "c07", "c04e", "c11w", "c13w"],
    lean_modules=["ServlinVerif.Props.C11", "ServlinVerif.Props.C07", "ServlinVerif.Props.C11Format"],
    audit="Audit/C11.lean",
    rule="c11c: the checked constructor Event::custom on 19 hand-picked types x 3 data and on every type of up to 4 (5) symbols over {a, SP, CR, LF, ':', e-acute} "
         "(a type with a line break must be refused, any other accepted and encoded as the model says). c11: "
         "Response::event_stream() + body.async_reader() + copy_chunked_async polled by hand (no-op waker) between sender steps: ALL "
         "sequences up to depth 4 (5) over {send a, send on a clone, clone, disconnect, drop, drop clone, poll, send empty} + final poll; "
         "21 event contents (empty, LF/CRLF/lone CR, trailing breaks, leading space/colon, field-injection text, non-ASCII, 65520..70000 "
         "bytes, 9000 lines) as message and custom events; queue overruns (49..120 sends without a poll, on one and two handles); 2000 (20000) "
         "random programs of 3..14 steps; multi-threaded stress with 1..4 sender threads x {10, 200} events. Non-trivial = at least one event "
         "was accepted.",
    nontrivial=lambda tag, args, obs: "wire= " not in obs,
    klass=lambda tag, args, obs: (tag + ":" + obs[:3]) if tag == "c11c" else ("c07:chunk-encoder" if tag == "c07" else "c04e:event-stream-in-sequence:" + args[2] if tag == "c04" else "c11w:event-stream-response" if tag == "c08" else "c13w:stream-in-flight-at-revocation" if tag == "c13" else tag + ":done=" + obs.rsplit("done=", 1)[-1]),
    explanation="Channel + encoder modelled as a transition system over {send, clone, disconnect, drop, poll}; C11_invariant (induction over "
                "arbitrary op sequences): delivered ++ queued = accepted in order, queue <= 50, wire = one chunk per delivered event (+ "
                "terminator iff ended), ended only when every sender is gone; C11_never_blocks; C11_ends_when_all_gone. Format: the "
                "full-strength statement C11_format_full is proved FALSE (C11_format_full_false, known finding sse-no-blank-line); partial "
                "statements hold with the blank line appended. The oracle runs the WHATWG parser (Spec/SseParser) on the de-chunked output.",
    trusted=["std::sync::mpsc::sync_channel linearizability (safina wraps it); thread interleavings finer than one channel operation"],
    assumptions=["events fit the 65528-byte read slice (larger ones: known finding sse-oversize-event)"],
    level_text="Proof: channel invariant for every sequence of sender/writer steps (unbounded length, any number of handles). Format: the full "
               "statement is refuted by a kernel-checked witness and recorded as a known finding; the positive statement C11_format_partial "
               "(Props/C11Format.lean) is general: for every sequence of events with clean data (no lone CR, no trailing line break, type without "
               "line breaks) the WHATWG parser recovers exactly the events once each block is closed by the missing blank line; the executable parser also runs on the real output.",
    level_note="Trusted: Lean kernel; model of src/event.rs + the event path of copy_chunked_async (modelled, not verified), tied by suite c11 "
               "(exhaustive depth-4 interleavings at API-call granularity); std mpsc.",
)

PROPS["C18"] = dict(
    gen=[("tables", "ServlinVerif/Gen/CodeTables.lean")],
    suites=["c18"],
    shards={"c18": 6},
    lean_modules=["ServlinVerif.Props.C18", "ServlinVerif.Props.CodeTables", "ServlinVerif.Props.C18World"],
    audit="Audit/C18.lean",
    rule="own process per shard (the logger is process-global): 600 (6000) scenarios of 1..3 phases, each phase installs a logger with a captured "
         "receiver (alive / already dropped) or none, then runs 1..8 threads concurrently, each a random program of 1..8 steps over {add thread "
         "tag, clear, log at each level with 0..6 tags incl. repeated names and priority names, wrapped handler returning Ok / Err with response "
         "/ Err without response with error tags and message}; captured events are projected per thread (by the thread id carried in msg / path) "
         "and compared with the sequential model; call results compared. Non-trivial = at least one event captured.",
    nontrivial=lambda tag, args, obs: "#" in obs and any(len(p.split("#")[1]) > 0 for p in obs.split("|") if "#" in p),
    klass=lambda tag, args, obs: "c18:phases=%d:threads=%d" % (args[0].count("|") + 1, min(args[0].split("|")[0].count("/") + 1, 8)),
    explanation="log() modelled as: extend the call's tags with the calling thread's own tags, stable insertion sort by the priority table, deliver "
                "to the sink installed at that moment. C18_tags proves (for all tag lists) the event's tags are a permutation of call ++ own "
                "thread tags, sorted by priority, and order-preserving within each priority class; C18_one_event, C18_wrap. The oracle checks "
                "the same three conditions on each captured event against the tags the program passed.",
    trusted=["atomicity of the mutex-protected section and thread-locals (Rust); std mpsc; sort_by_key stability (tied by the suite)"],
    assumptions=["events that went to the stdout default logger are not captured (only the call result is checked there)"],
    level_text="Proof: sorting/partition theorem over all tag lists; delivery and wrapper statements by definition of the model; "
               "C18_exactly_once / C18_current_sink / C18_thread_isolation (Props/C18World.lean) over every interleaved history of any number of threads "
               "on the world model (global logger state + per-thread tag lists). Partial (runtime): that Rust's thread_local! gives each thread its own "
               "list is an assumption of that model, observed by the concurrent scenarios.",
    level_note="Trusted: Lean kernel; model of src/log/logger.rs and src/log/mod.rs (modelled, not verified) tied by suite c18.",
)


# ---------------------------------------------------------------------------------------------------
# Session-3 additions (appended to the texts above so that evidence and MANIFEST describe what runs now).
ADD = {
    "C01": dict(
        rule="Also (vii) a small request followed through the same buffer by a head of length cap/2-2..cap+1 (caps 64, 256, 8192), the first read ending 1, 5 or cap/4 bytes "
             "inside the second head; and suite c03b (HttpConn::read_request on 1..8 concatenated messages incl. explicit zero lengths, chunked+zero length, Expect without length, "
             "and pipelines of 180..700 messages): the connection-level read state after every request.",
        level_note="Suite c03b ties the connection-level reader (HttpConn::read_request: read state after each request, next request starts after the body) as well."),
    "C02": dict(
        rule="Also every byte value at either end of a field value, alone and next to OWS (only SP, HT, CR, LF may be stripped); suite c01s: pipelines of requests through one connection buffer "
             "incl. near-capacity heads after a small request."),
    "C03": dict(
        rule="Content-Length / Transfer-Encoding values padded with FF, VT, NUL, FS..US or DEL at either end. c03b: also chunked together with content-length: 0, and Expect without length, as last message.",
        explanation="Props/C04Pipeline.lean: C03_boundary — for a well-formed head with a single valid Content-Length N followed by N body bytes and anything else, read_request + read_body_to_vec "
                    "return exactly the body and leave exactly the following bytes (the next byte starts the next request); classify_plain / classify_plain_length discharge the classification hypothesis "
                    "for explicitly described field lists. Props/CodeTables.lean: contentType_matches — ContentType::parse regenerated on a probe set around every variant and kernel-checked against the model."),
    "C04": dict(
        rule="Also requests answered by the server's own error responses (HTTP/1.0, oversized head, cookie without '=', non-numeric length) inside the sequences, and suite c03b.",
        explanation="Props/C04Pipeline.lean (end-to-end, composing C02_accepts_wf, C03 classification, the connection model and the serialiser): C04_exchange (one exchange: exactly one handler call with "
                    "exactly the body bytes sent, exactly the serialised answer on the wire, exactly the following bytes left unread), C04_pipeline (any number of such requests back to back, whatever follows: "
                    "one call per request in order, the responses in order, connection ready again), C04_pipeline_eof (to the end of the connection); good_plain / good_plain_length show the hypotheses are met by "
                    "ordinary requests; a concrete two-request pipeline is evaluated by the kernel.",
        level_note="Props/C04Steps.lean generalises the pipeline theorem to exchanges of different kinds (Step / C04_pipeline_steps), with the fetched-body exchange (exactly two handler runs, the second with the complete body, file gone afterwards: step_upload) as an instance, and C04_pipeline_steps_then_error (after a failing exchange nothing that follows is interpreted).",
        level_text=" The per-exchange theorems are lifted to whole pipelines of requests of unbounded length (C04_pipeline) for requests without interim responses, uploads to file or refusals."),
    "C05": dict(
        rule="Client scripts now also: explicit zero length followed by a second request, chunked together with a zero length, Expect without length.",
        explanation="Props/C05Seq.lean: C05_misuse_silent (a call answered with ResponseNotSent / BodyNotRead / ResponseAlreadySent / BodyNotAvailable leaves the whole connection unchanged, for every call, "
                    "state and input), C05_single_final (over every call sequence the number of final responses written never exceeds the number of requests taken on), C05_auto_continue."),
    "C06": dict(
        rule="A third of the File/TempFile bodies are longer on disk than declared; the scripted writer implements writev (poll_write_vectored spreads the accepted count over the buffers).",
        explanation="Props/C06Chunked.lean: C06_parses_back_chunked — responses with a body of unknown length parse back through the strict parser and the independent chunk decoder to exactly the bytes the source "
                    "delivered, one transfer-encoding: chunked, no content-length. Props/CodeTables.lean: reason_matches — reason_phrase(code) regenerated for all 900 codes and kernel-checked against the model."),
    "C07": dict(
        explanation="Props/C07Prefix.lean: C07_no_false_complete — no proper prefix of a complete output is accepted by the decoder as complete (decode_extend: acceptance is stable under extension of the input; "
                    "the complete output decodes with nothing left over)."),
    "C08": dict(
        explanation="Props/C06Chunked.lean: C08_failed_stream_incomplete (a body stream that fails is written as head + whole chunks without terminator, and the strict parser answers 'incomplete'); "
                    "Props/C08Fallback.lean: C08_error_responses_wellformed — every response of the error mapping (table regenerated from the code on every run) serialises without error, parses back as exactly one "
                    "message, and carries connection: close when 5xx: the single well-formed 500 the connection can still carry.",
        rule="Thorough tier only: suite c08s — a client stops reading for 12 s (and 1 s) in the middle of a 32 MiB response and resumes: exactly that one response must arrive, nothing may follow."),
    "C09": dict(explanation="Resource bounds as theorems over every state, input, fault and handler behaviour: C09_disk_bound (one read_body_to_file(M) never copies more than M+1 body bytes into its file; "
                         "model counter `written`), C09_accepted_within_limit (an accepted upload holds at most M bytes, exactly the declared number when declared), C09_mem_bound (a body handed over in memory has at most S bytes).",
                rule="Half of the cases with a completely sent declared body are followed by a second request on the same connection."),
    "C10": dict(
        rule="Also rst<N>: the client leaves the interim response unread and closes (reset = read error on the server) at the same offsets; suite c10r: the server's permit is revoked while a handler "
             "owns an upload's file (alone and next to other connections): while the handler holds the request the connection must stay, and once a connection has ended its files must be gone."),
    "C11": dict(
        rule="Contents also with encoded block sizes 15..17, 255..257, 4095..4097, 65527, 65528 bytes (chunk-size digit boundaries), followed by a further event.",
        explanation="Props/C11Format.lean: C11_format_partial — for every list of events with clean data (no CR, no trailing line break; custom types as the checked constructor accepts them, non-empty), each block "
                    "followed by the blank line: the WHATWG parser dispatches exactly these events in order with exactly their types and data (multi-line data, field look-alikes, leading blanks, empty lines, empty data)."),
    "C12": dict(rule="Kind v: a 200 000-byte upload that the handler answers without reading, the client half-closes after 3000 body bytes."),
    "C13": dict(
        rule="New phases: x (handler running on a request that announced its 70 000-byte body with Expect: the 100 Continue, the upload and the complete response must still happen), "
             "f (handler owns an upload file of 100 000 bytes); c13e also with revocation 4.2 s (thorough: 9 s) into the failing-accept state."),
    "C14": dict(explanation="Props/C04Pipeline.lean: C14_request_headers — for every accepted well-formed head (whatever follows it) the request handed on carries exactly the fields sent, in order, "
                         "names verbatim, values stripped of OWS only, minus those named content-type / expect / transfer-encoding.",
                rule="Also names that differ in exactly one bit of one byte (every ASCII byte x bits 0x20, 0x40, 0x01, 0x10), looked up and removed both ways."),
    "C15": dict(rule="A third of the request cases have consumed fields (content-type, expect, transfer-encoding) in front of, between and behind up to 4 Cookie fields."),
    "C16": dict(
        explanation="Props/CodeTables.lean: monthLen_matches — month_len_days regenerated for every month of a 400-year cycle and kernel-checked against the model; monthLen_cycle lifts it to every year."),
    "C17": dict(rule="Two thirds of the cases write through a writer that accepts 1 / 7 / 64 / 4096 bytes per call and answers every 2nd / 5th call with ErrorKind::Interrupted."),
    "C18": dict(
        rule="Handler results also Ok(get_body_and_reprocess) and Err carrying it; R phases: 280 (1200) rounds of set_global_logger racing the first logging call with no logger set (swept offsets): "
             "the installed logger must receive the next event and its guard must drop without panic.",
        explanation="Props/C18World.lean: the global logger state (none / installed / stdout default) and the per-thread tag lists as one transition system over every interleaving of any number of threads: "
                    "C18_exactly_once (one outcome per logging call, nothing else), C18_current_sink (the sink current at the moment of the call), C18_thread_isolation (thread t's outcomes are unchanged when every "
                    "tag operation of every other thread is removed from the history). Props/CodeTables.lean: tagOrder_matches — the order in which log() delivers a probe list of tags is regenerated by execution and kernel-checked against the model's stable priority sort."),
    "C20": dict(
        rule="Every constructor with an argument is executed on several arguments (plain, empty, with CR/LF, control bytes, 5000 bytes; one table row each). Suite c20w: requests the server answers with its own "
             "error response (malformed, HTTP/1.0, oversized head, bad cookie, bad length, chunked) and handler answers 500/503/599/404/panic/over-limit, alone and after an ordinary request, on the wire; "
             "the oracle requires connection: close on every 5xx that is sent and nothing after an error response."),
}
for _pid, _d in ADD.items():
    for _k, _v in _d.items():
        PROPS[_pid][_k] = (PROPS[_pid].get(_k, "") + " " + _v).strip()

# Round-4 strengthening (appended like the texts above).
ADD4 = {
    "C01": dict(rule="Suite c01l: requests that cannot be read (malformed, HTTP/1.0, oversized head, bad cookie, bad length, truncated) and ordinary ones, on the wire, while the application's logger has stopped: the error response must still arrive."),
    "C02": dict(rule="20 commonly interpreted field names (Host, Connection, X-Forwarded-*, Forwarded, Origin, Upgrade, Range, ...) x 14 adversarial values x 4 targets (the target alone decides path and query); heads with 90..260 fields."),
    "C04": dict(rule="Handler answers with file-backed bodies (intact, shorter / longer than declared, empty, missing, 70 000 bytes)."),
    "C06": dict(rule="Suite c14 (HeaderList operations, exhaustive small scopes) is part of this check: the order of a response's fields is the order of its header list."),
    "C07": dict(rule="(5) the writer fails at every offset 0..95 of a three-chunk encoding, under three short-write schedules; every third failure is a one-off ErrorKind::Interrupted."),
    "C08": dict(rule="Event-stream family whose second event exceeds the encoder's read slice (source failure after the first chunk); c08d also after an interim 100 Continue (rr;bv / rr;bf / rr;wc on an Expect request)."),
    "C10": dict(rule="busy<N> sends a third of the bytes after the pool is saturated; L1:cut<N>: the same abandonment while the application's logger is stalled."),
    "C11": dict(rule="Suite c07 (the chunk encoder under short writes, Pending, writer failures at every offset) is part of this check."),
    "C12": dict(rule="c12b: token sets of 1025..70000 units (all taken, up to all given back at once, as many taken again); c12e also with the logger's receiver gone (dead) and with a 4.7 s (thorough: 11 s) episode of failing accepts."),
    "C13": dict(rule="Phases with an L marker run with the application's logger stalled (one-slot queue full, never drained)."),
    "C14": dict(rule="c14r: also repeated Cookie fields among the consumed fields, and heads with 99..300 fields."),
    "C16": dict(rule="c16f: the three rendering funnels (SystemTime::iso8601_utc, cookie Expires, log-line time) on 16 boundary instants x 7 sub-second parts and 1500 (20000) random instants; the log-line funnel below year 2554 (documented u64-nanosecond limit)."),
    "C17": dict(rule="Suite c19 (the file log writer: whole lines on disk across rotations, restarts and backlogs) is part of this check."),
    "C19": dict(rule="Every fourth event carries a timestamp of its own two hours in the past."),
    "C20": dict(rule="c20w also: requests with Connection: keep-alive answered 5xx; truncated requests after which the client half-closes and keeps reading."),
}
for _pid, _d in ADD4.items():
    for _k, _v in _d.items():
        PROPS[_pid][_k] = (PROPS[_pid].get(_k, "") + " " + _v).strip()

# Round-5 strengthening (appended like the texts above).
ADD5 = {
    "C02": dict(explanation="Props/HeadTable.lean: headBytes_match — Head::try_read executed on every byte value at 16 position classes of a head (Gen/HeadTable.lean, regenerated on every run) and kernel-checked against the model's hand-written matchers: outcome, method, fields, bytes left."),
    "C01": dict(explanation="Props/HeadTable.lean: headBytes_match ties the model's byte classes, line splitting and trimming to Head::try_read on every byte value at 16 position classes (table regenerated on every run).", rule="(viii) every Cookie value of up to 5 (6) symbols over {a = ; \" SP}. Suite c01n: a server in a process that never started the safina timer thread; late, split and kept-alive requests must be served (oracle only)."),
    "C03": dict(rule="c03b also in rst mode: the client resets the connection instead of closing it; a body of undeclared length then ends in an error, not in its end.",
                explanation="Conn.inputErr models a stream that ends in an error (reset) instead of EOF: reading a body of undeclared length then fails with Truncated (C09_reset_is_not_eof)."),
    "C04": dict(rule="Event-stream responses (behaviour E<n>: n messages produced 25 ms apart by another thread) inside request sequences, schedules single / frag / mid (the next request is sent while the stream is being produced); every schedule half-closes after its last byte. rst<N> also for uploads of undeclared length."),
    "C05": dict(rule="rst mode: the scripted client leaves the interim response unread and closes; the next read of the connection fails with a reset."),
    "C06": dict(rule="(3) custom content types (owned and static strings) over the 16 media types the library knows and one it does not, x 5 parameter suffixes: the string that was set is on the wire."),
    "C07": dict(rule="Suite c04e: event streams inside request sequences on a real server, the client half-closing at once: every chunk and the terminating chunk arrive."),
    "C09": dict(rule="Zero-padded declared lengths (width 3..40) at the S and M boundaries, followed by a second request.",
                explanation="C09_reset_is_not_eof: a reset while a body of undeclared length is being read is reported as Truncated — nothing is accepted."),
    "C10": dict(rule="An upload the handler answers at once (200/201/303) with the body only partly sent and the client stalling: no file may appear after the answer. One upload whose handler takes 11 s: the response is the handler's own and the file is gone once it is sent."),
    "C11": dict(rule="Suite c04e: event streams on a real server with further requests arriving during the stream and the client half-closing: every event is delivered and the stream ends only when the sender is dropped."),
    "C12": dict(rule="Kind w: an accepted upload aborted by a reset. Every fourth random history and 5 error-heavy histories run under a stalled logger."),
    "C13": dict(rule="Suite c13p: handle_http_conn itself with 0..5 requests waiting and the permit revoked before the start, by the j-th handler, or never.",
                explanation="Server.servedUnder is the whole loop of a connection task over cstep; C13_task_under_permit: revoked before the start it serves nothing, revoked by the j-th handler exactly min j k, never revoked all k."),
    "C14": dict(rule="c14r: one head in four ends some field lines with a bare LF."),
    "C15": dict(rule="c15s takes the Set-Cookie fields from the serialised response (write_http_response), not from the header list."),
    "C16": dict(rule="c16a: durations with sub-second parts (1, 499999999, 500000000, 999999999 ns): a broken-down time names a whole second."),
    "C17": dict(rule="(5) lines beyond 64 KiB and 128 KiB: one value of 34000 escapable characters at six alignments followed by further tags; 900 medium-sized tags."),
    "C18": dict(rule="The first program of every phase runs on one thread that lives for the whole case (loggers come and go under it)."),
    "C19": dict(rule="c19w: the directory also holds a sub-directory and a symlink named with the prefix; they are neither counted nor touched."),
    "C20": dict(rule="Suite c20x: Response::from(std::io::Error) for 20 kinds x 3 texts, the library's own 'cannot read pending body' error, and log_response(Err(e)) for 5 ways of building the Error x 9 attached responses x 3 messages.",
                explanation="HttpError.ofIoError / ofLogError model the two other conversions; C20_other_errors: 400 exactly for InvalidData, else 500; the response is the same for every error text and message."),
}
for _pid, _d in ADD5.items():
    for _k, _v in _d.items():
        PROPS[_pid][_k] = (PROPS[_pid].get(_k, "") + " " + _v).strip()

# Round-6 strengthening (appended like the texts above).
ADD6 = {
    "C01": dict(rule="c01n also: 130 requests one at a time on one connection."),
    "C03": dict(rule="(2) the five framing fields with a byte >= 0x80 at the start, end or middle of the value, alone / after / before a valid field of the same name, a second request behind: the head is refused as malformed (oracle malformed-head-accepted)."),
    "C04": dict(rule="130 / 260 requests on one connection (pipelined, one at a time, fragmented). Suite c04p: n handlers panic at once on a pool of n threads (n = 1, 2, 3) while a plain request and an upload of other connections are queued: every answer arrives and the number of handler calls equals Pool.scenario.",
                explanation="Model/Pool.lean + Props/C04Pool.lean: the handler pool's bookkeeping (threads alive / busy, jobs queued); pool_inv, C04_pool_progress, C04_pool_drains, C04_pool_quiescent for the repaired adapter, C04_pool_legacy_stuck for the pinned behaviour (genuine defect, fix 7ad75dd)."),
    "C06": dict(rule="Suite c13w: a 6 MiB response to a client that is not reading yet while the permit is revoked: the response arrives complete."),
    "C07": dict(rule="c04e also: an event stream with status 503 (a response that closes the connection) is chunked like any other."),
    "C08": dict(rule="c08c also with status 103 (an interim response whose file body is missing or short: the write side is shut down all the same)."),
    "C09": dict(rule="GET, HEAD, TRACE, DELETE, OPTIONS and M requests with declared bodies at the S and M boundaries."),
    "C10": dict(rule="Behaviours S<k> (the upload's handler sends k = 10, 50, 51, 80 events before it returns an event stream) and Q (the handler keeps a clone of the request beyond its return)."),
    "C11": dict(rule="Suite c11w: event streams through write_http_response itself, with events that do not fit the encoder's read slice: the failure is reported and the stream is not terminated."),
    "C12": dict(rule="Kind x: an upload the handler refuses (413). After every history max_conns + 2 fresh gated clients: never more than max_conns inside. Suite c12i: one async thread, failing accepts, idle clients ending their connections: the client in the backlog is served."),
    "C13": dict(rule="The handler owns state whose Drop takes 120 ms. Suite c13b: every thread of the handler pool (1, 2, 3) is inside a handler at revocation: signal within the bound, port refused, then the responses."),
    "C14": dict(rule="c14r also: a declared length among the consumed fields; values with VT / FF / US / DEL at their edges."),
    "C15": dict(rule="c15r also: every Cookie value of up to 6 (7) symbols over {a = ; \" SP}. c15s: the status code rotates over 200, 204, 304, 201, 404, 302, 500."),
    "C18": dict(rule="Op z: another thread panics while it holds the handle returned by global_logger() (the lock is poisoned from then on)."),
    "C19": dict(rule="c19w also: files of an earlier run with identical size and modification time; every fifth run gives a relative prefix and changes the working directory once the writer runs."),
    "C20": dict(rule="c20w also: a response that cannot be written (own Content-Length) as first / second / fourth response of a connection and after a 100 Continue; uploads while the disk fails (RLIMIT_FSIZE 4096, SIGXFSZ ignored): 5xx, never 4xx."),
}
for _pid, _d in ADD6.items():
    for _k, _v in _d.items():
        PROPS[_pid][_k] = (PROPS[_pid].get(_k, "") + " " + _v).strip()

# Round-7 strengthening (appended like the texts above).
ADD7 = {
    "C02": dict(rule="c01s: one pipelined sequence in five has stray line ends (CRLF, CRLFCRLF, LF) between two messages: the message that follows is refused wherever the read boundaries fall."),
    "C04": dict(rule="Schedule tail<k> (the last k = 1..5 bytes of every request arrive 25 ms after the rest); behaviour B<n> (n events of 30000 bytes queued before the response is returned); oracle clause request-not-answered."),
    "C05": dict(rule="Scripts with a connection: close request header (with expect + body; followed by a second request); sw after the reset in rst mode."),
    "C10": dict(rule="Suite c10s: 32 / 40 stalled uploads and one abandoned upload. cache = 3 (failing disk) with a client that goes away before its declared length."),
    "C11": dict(rule="Suite c13w also: an event stream of 8 events in flight at revocation arrives complete, with its terminating chunk."),
    "C12": dict(rule="Kind y (a handler that queues 60 events before it returns). After every history two more clients try the same port on the IPv6 loopback."),
    "C13": dict(rule="Phase s (an event stream in flight). A replacement server starts on the same cache directory right after the stopped signal; the f-phase handler reads its uploaded file after the gate."),
    "C18": dict(rule="Phase Y (removal fence): a call waits for room in a full logger while the owner drops the guard: once the drop has returned nothing more arrives at that logger. Messages / tags of 16383..40000 bytes.",
                explanation="C18_removed_logger_silent (Props/C18World.lean): in every history, after a dropGuard every later delivery goes to the default or to a logger installed afterwards."),
    "C19": dict(rule="c19w also: 25..60 small files left by earlier runs followed by events of 30..55 kB (several deletions per event)."),
    "C20": dict(explanation="C20_disk_fault (Props/C20Disk.lean): a failure to create or write the upload's file is reported as ErrorSavingFile whatever the verdict about the client's bytes, a server error whose response is the constant 500."),
}
for _pid, _d in ADD7.items():
    for _k, _v in _d.items():
        PROPS[_pid][_k] = (PROPS[_pid].get(_k, "") + " " + _v).strip()

# Round-7b strengthening.
ADD8 = {
    "C01": dict(rule="Suite c01k: clients whose malformed request was refused keep their sockets open: the connection tasks end and the slots come back."),
    "C03": dict(rule="(3) a bare LF as the line end in front of / behind Content-Length, Transfer-Encoding and Expect fields."),
    "C07": dict(rule="c04e shape 4: an event stream whose source fails in mid-body (an event the encoder cannot take): the wire ends after the last complete chunk, without terminator and without a second status line."),
    "C09": dict(rule="Behaviour R<M> (Request::recv_body(M)); cache = 3: bodies within the limit while the disk fails at write or only at close are never accepted (sizeCheck clause accepted-despite-disk-failure)."),
    "C15": dict(rule="c15r: Cookie fields of 49..180 pairs with a late overriding duplicate or a late segment without '='. c15s: paths ending in '/'."),
    "C20": dict(rule="Suite c01l (requests that cannot be read, while the application's logger has stopped: the error response must still arrive)."),
}
for _pid, _d in ADD8.items():
    for _k, _v in _d.items():
        PROPS[_pid][_k] = (PROPS[_pid].get(_k, "") + " " + _v).strip()

# Round-8 strengthening.
ADD9 = {
    "C04": dict(rule="Behaviour T: the handler answers with the uploaded file itself as the response body (three exchanges on one connection)."),
    "C06": dict(rule="Suite c08c (responses with missing / short / long body files through a real HttpConn, then the fallback response)."),
    "C09": dict(rule="Suites c20x (an attached get_body_and_reprocess or 3xx response is handed back by log_response as it is) and c13f (a replacement server on the same cache directory while a handler works on an uploaded file)."),
    "C10": dict(rule="Behaviour T. Suites c04p (handler panics, also with non-string payloads, on a saturated pool while an upload is queued) and c12i (failing accepts on one async thread)."),
    "C11": dict(rule="c04e: one burst of 12 events of 30000 bytes consumed back to back."),
    "C12": dict(rule="Kind q (the next request arrives while the first one's handler runs). Suite c12s: max_conns event streams open, one more client is served only once a stream has ended.",
                explanation="C12_full_no_accept (Props/C13.lean): with max_conns connections being serviced no unit is left and neither grant nor acceptOk is enabled."),
    "C13": dict(rule="One case holds every slot for 5.6 s before the revocation: no stopped signal before it."),
    "C19": dict(rule="Suite c19a: an event every 100 / 50 ms with a 1 s per-file age (rotation by age under steady traffic). c19w: events longer than a whole file followed by ordinary ones."),
}
for _pid, _d in ADD9.items():
    for _k, _v in _d.items():
        PROPS[_pid][_k] = (PROPS[_pid].get(_k, "") + " " + _v).strip()
