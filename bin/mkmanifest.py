#!/usr/bin/env python3
"""Writes MANIFEST.json from bin/props.py (claimed properties) + the list of all property ids."""
import json, os, sys
VERIF = os.path.dirname(os.path.dirname(os.path.abspath(__file__)))
sys.path.insert(0, os.path.join(VERIF, "bin"))
import props as P
ids = [json.loads(l)["id"] for l in open(os.path.join(VERIF, "properties.jsonl"))]
checks = []
for pid in ids:
    if pid not in P.PROPS:
        continue
    p = P.PROPS[pid]
    checks.append({
        "property_id": pid,
        "quick_cmd": f"bin/check {pid} quick",
        "thorough_cmd": f"bin/check {pid} thorough",
        "evidence_file": f"/verif/evidence/{pid}.json",
        "replay_cmd_template": f"bin/check {pid} --replay {{path}}",
        "engine": "lean4-proof+correspondence",
        "level_claimed": {"category": "proof", "text": p["level_text"], "design_ref": p.get("design_ref", f"DESIGN.md section 4 ({pid})")},
        "level_note": p["level_note"],
        "technique": p.get("technique", "Lean 4 theorems about a hand-written model + differential correspondence check against the real code"),
    })
na = [{"property_id": pid, "reason": P.NOT_YET.get(pid, "check not built yet; planned, see DESIGN.md section 9")} for pid in ids if pid not in P.PROPS]
m = {
    "version": 1,
    "setup_cmd": "cd /verif/lean && lake build ServlinVerif svdriver && cd /verif/harness && CARGO_NET_OFFLINE=true cargo build --offline",
    "hooks": {
        "guard": "--cfg servlin_verif",
        "enable": "RUSTFLAGS='--cfg servlin_verif' (set in /verif/harness/.cargo/config.toml; the harness has a path dependency on /repo)",
        "baseline_off_cmd": "cd /repo && cargo test --workspace --no-fail-fast --offline --tests",
        "source_commits": P.HOOK_COMMITS,
        "add_only": True,
    },
    "engines": [{
        "name": "lean4-proof+correspondence", "path": "/verif/bin/check",
        "serves_properties": [c["property_id"] for c in checks],
        "kind_free_text": "Lean 4 theorems (lake project /verif/lean) about hand-written executable models; Rust harness (/verif/harness, path dep on /repo) runs the real code on generated cases; compiled Lean driver evaluates model and executable spec oracle on the same cases; bin/check diffs, audits axioms, writes evidence",
    }],
    "checks": checks,
    "notes": "See DESIGN.md. known_findings.json lists recorded findings and fixed defects.",
    "not_applicable": na,
}
json.dump(m, open(os.path.join(VERIF, "MANIFEST.json"), "w"), indent=1)
print("claimed", len(checks), "not_applicable", len(na))
