import ServlinVerif.Props.C14
import ServlinVerif.Props.C04Pipeline
open Servlin.C14
#print axioms C14_step_refines
#print axioms C14_refines_multimap
#print axioms C14_remove_keeps_order
#print axioms C14_get_all_add
#print axioms C14_legacy_violates
#print axioms C14_ascii_accepts
#print axioms C14_ascii_rejects
#print axioms Servlin.C04P.C14_request_headers
