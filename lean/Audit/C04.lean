import ServlinVerif.Props.C04
open Servlin.C04
#print axioms C04_runs_per_request
#print axioms C04_legacy_twice
#print axioms C04_panic_and_drop
#print axioms C04_closed_after_error
#print axioms C04_error_status_closes
#print axioms C04_not_ready_stops
