import ServlinVerif.Props.C04
import ServlinVerif.Props.C04Pipeline
import ServlinVerif.Props.C04Steps
import ServlinVerif.Props.C04Pool
open Servlin.C04
#print axioms C04_runs_per_request
#print axioms C04_legacy_twice
#print axioms C04_panic_and_drop
#print axioms C04_closed_after_error
#print axioms C04_error_status_closes
#print axioms C04_not_ready_stops
open Servlin.C04P
#print axioms C04_exchange
#print axioms C04_pipeline
#print axioms C04_pipeline_eof
#print axioms good_plain
#print axioms good_plain_length
open Servlin.C04S
#print axioms C04_pipeline_steps
#print axioms C04_pipeline_steps_eof
#print axioms C04_pipeline_steps_then_error
#print axioms step_good
#print axioms step_upload
#print axioms step_expecting
#print axioms Servlin.Pool.pool_inv
#print axioms Servlin.Pool.C04_pool_progress
#print axioms Servlin.Pool.C04_pool_drains
#print axioms Servlin.Pool.C04_pool_quiescent
#print axioms Servlin.Pool.C04_pool_legacy_stuck
#print axioms Servlin.Pool.C04_pool_scenario
