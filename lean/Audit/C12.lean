import ServlinVerif.Props.C12
import ServlinVerif.Props.C13
open Servlin.Server
#print axioms C12_drop_returns
#print axioms C12_take_iff
#print axioms C12_tokens
#print axioms step_sinv
#print axioms C12_limit
#print axioms C12_conserved
#print axioms C12_accept_failure_free
#print axioms C12_full_again
#print axioms C12_full_no_accept
