import ServlinVerif.Props.C16
open Servlin.C16
#print axioms C16_new_correct
#print axioms C16_add
#print axioms C16_unique
#print axioms C16_add_eq_new
#print axioms C16_format
#print axioms C16_legacy_add_violates
