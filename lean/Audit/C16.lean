import ServlinVerif.Props.C16
import ServlinVerif.Props.CodeTables
open Servlin.C16
#print axioms C16_new_correct
#print axioms C16_add
#print axioms C16_unique
#print axioms C16_add_eq_new
#print axioms C16_format
#print axioms C16_legacy_add_violates
#print axioms Servlin.CodeTables.monthLen_matches
#print axioms Servlin.CodeTables.monthLen_table_complete
#print axioms Servlin.CodeTables.monthLen_cycle
