import ServlinVerif.Props.C18
open Servlin.C18
#print axioms C18_tags
#print axioms C18_one_event
#print axioms C18_wrap
#print axioms foldl_inv
