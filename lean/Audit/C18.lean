import ServlinVerif.Props.C18
import ServlinVerif.Props.CodeTables
open Servlin.C18
#print axioms C18_tags
#print axioms C18_one_event
#print axioms C18_wrap
#print axioms foldl_inv
#print axioms Servlin.CodeTables.tagOrder_matches
