import ServlinVerif.Props.C18
import ServlinVerif.Props.CodeTables
import ServlinVerif.Props.C18World
open Servlin.C18
#print axioms C18_tags
#print axioms C18_one_event
#print axioms C18_wrap
#print axioms foldl_inv
#print axioms Servlin.CodeTables.tagOrder_matches
#print axioms Servlin.C18W.C18_exactly_once
#print axioms Servlin.C18W.C18_current_sink
#print axioms Servlin.C18W.C18_thread_isolation
#print axioms Servlin.C18W.C18_removed_logger_silent
