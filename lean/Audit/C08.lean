import ServlinVerif.Props.C06
import ServlinVerif.Props.C05
open Servlin.C06
#print axioms C08_prefix
#print axioms C08_source_fault
#print axioms Servlin.C05.C08_conn
#print axioms Servlin.C05.C05_nothing_after_shutdown
