import ServlinVerif.Props.C06
import ServlinVerif.Props.C05
import ServlinVerif.Props.C06Chunked
import ServlinVerif.Props.C07Prefix
import ServlinVerif.Props.C08Fallback
open Servlin.C06
#print axioms C08_prefix
#print axioms C08_source_fault
#print axioms Servlin.C05.C08_conn
#print axioms Servlin.C05.C05_nothing_after_shutdown
#print axioms Servlin.C06.C08_failed_stream_incomplete
#print axioms Servlin.C07.C07_no_false_complete
#print axioms Servlin.C08F.C08_error_responses_wellformed
#print axioms Servlin.C08F.one_drop
