import ServlinVerif.Props.C06
open Servlin.C06
#print axioms C08_prefix
#print axioms C08_source_fault
