import ServlinVerif.Props.C09
open Servlin.C09
#print axioms C09_small_direct
#print axioms C09_large_asks_first
#print axioms C09_declared_limit
#print axioms C09_undeclared_limit
#print axioms C09_max_limit
#print axioms C09_legacy_overflow
#print axioms C09_disk_bound
#print axioms C09_accepted_within_limit
#print axioms C09_mem_bound
#print axioms C09_reset_is_not_eof
