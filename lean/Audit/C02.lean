import ServlinVerif.Props.C02
import ServlinVerif.Props.HeadTable
open Servlin.C02
#print axioms C02_accepts_wf
#print axioms C02_exposes_path_query
#print axioms C02_rejects_request_line
#print axioms C02_request_line
#print axioms C02_rejects_field_line
#print axioms C02_field_line
#print axioms C02_field_accepted
#print axioms trim_ows
#print axioms byte_classes
#print axioms C02_legacy_target
#print axioms Servlin.HeadTable.headBytes_match
#print axioms Servlin.HeadTable.headBytes_classes
