import ServlinVerif.Props.C17
open Servlin.C17
#print axioms C17_string_roundtrip
#print axioms C17_no_breakout
#print axioms C17_legacy_invalid
