import ServlinVerif.Props.C17
import ServlinVerif.Props.C17Line
open Servlin.C17
#print axioms C17_string_roundtrip
#print axioms C17_no_breakout
#print axioms C17_legacy_invalid
#print axioms C17_line
#print axioms members_parse
#print axioms valTok_int
#print axioms valTok_float
#print axioms writeJsonl_eq
