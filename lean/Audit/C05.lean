import ServlinVerif.Props.C05
import ServlinVerif.Props.C05Seq
open Servlin.C05
#print axioms C05_write_guards
#print axioms C05_read_guards
#print axioms C05_body_guards
#print axioms C05_write_effect
#print axioms C05_nothing_after_shutdown
#print axioms C08_conn
#print axioms C20_5xx_close
#print axioms C05_misuse_silent
#print axioms C05_single_final
#print axioms C05_auto_continue
#print axioms owed_only_by_read
#print axioms final_discharges
