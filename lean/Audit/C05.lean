import ServlinVerif.Props.C05
open Servlin.C05
#print axioms C05_write_guards
#print axioms C05_read_guards
#print axioms C05_body_guards
#print axioms C05_write_effect
#print axioms C05_nothing_after_shutdown
#print axioms C08_conn
#print axioms C20_5xx_close
