import ServlinVerif.Props.C07
open Servlin.C07
#print axioms C07_decode_encode
#print axioms C07_shape
#print axioms C07_error_truncates
#print axioms C07_one_terminator
#print axioms C07_piece_bound
