import ServlinVerif.Props.C07
import ServlinVerif.Props.C07Prefix
open Servlin.C07
#print axioms C07_decode_encode
#print axioms C07_shape
#print axioms C07_error_truncates
#print axioms C07_one_terminator
#print axioms C07_piece_bound
#print axioms C07_no_false_complete
#print axioms decode_extend
#print axioms C07_error_output_is_prefix
