import ServlinVerif.Props.C10
open Servlin.C10
#print axioms readBodyToFile_files
#print axioms C10_exchange_no_leak
#print axioms C10_no_leak
