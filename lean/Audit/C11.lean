import ServlinVerif.Props.C11
import ServlinVerif.Props.C11Format
open Servlin.C11
#print axioms C11_invariant
#print axioms init_inv
#print axioms C11_never_blocks
#print axioms C11_ends_when_all_gone
#print axioms C11_format_full_false
#print axioms C11_format_partial_message
#print axioms C11_legacy_empty_terminates
#print axioms C11_custom_type_one_line
open Servlin.C11F
#print axioms C11_format_partial
#print axioms rustLines_clean
#print axioms lines_event
#print axioms process_block
