import ServlinVerif.Props.C06
import ServlinVerif.Props.C06RoundTrip
import ServlinVerif.Props.C06Chunked
import ServlinVerif.Props.CodeTables
open Servlin.C06
#print axioms C06_dup_refused
#print axioms C06_head_shape
#print axioms C06_sized_body
#print axioms C06_legacy_bypass
#print axioms hasField_iff
#print axioms C06_parses_back
#print axioms parse_rendered
#print axioms reason_ok
#print axioms decVal_decimal
#print axioms C06_parses_back_chunked
#print axioms parse_rendered_chunked
#print axioms Servlin.CodeTables.reason_matches
#print axioms Servlin.CodeTables.reason_complete
