import ServlinVerif.Props.C15
open Servlin.C15
#print axioms C15_request_cookies
#print axioms C15_set_cookie_roundtrip
#print axioms C15_one_field_per_cookie
#print axioms decimal_spec
#print axioms lookup_insert
