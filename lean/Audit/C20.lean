import ServlinVerif.Props.C20
import ServlinVerif.Props.C05
import ServlinVerif.Props.C20Disk
open Servlin.C20
#print axioms C20_status_named
#print axioms C20_model_matches_code
#print axioms C20_table_complete
#print axioms C20_error_classes
#print axioms C20_no_leak
#print axioms C20_oracle_accepts_model
#print axioms Servlin.C05.C20_5xx_close
#print axioms C20_other_errors
#print axioms C20_disk_fault
