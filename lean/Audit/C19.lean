import ServlinVerif.Props.C19
open Servlin.LogFiles
#print axioms deleteWhileOver_eq
#print axioms deleteOlderThan_eq
#print axioms trimTo_maximal
#print axioms C19_set_step
#print axioms C19_set_over
#print axioms C19_set_age
#print axioms C19_step
#print axioms C19_run
#print axioms C19_start
#print axioms C19_disk_bound
#print axioms C19_legacy_never_trims
#print axioms C19_legacy_age_panics
#print axioms C19_legacy_budget_underflow
#print axioms C19_budget_saturates
