import ServlinVerif.Props.C03
import ServlinVerif.Props.C04Pipeline
import ServlinVerif.Props.CodeTables
open Servlin.C03
#print axioms ops_eq
#print axioms C03_classify_closed_form
#print axioms C03_rejects_repeated_te
#print axioms C03_rejects_unknown_coding
#print axioms C03_rejects_bad_length
#print axioms C03_length_rules
#print axioms C03_single_length
#print axioms C03_body_table
#print axioms C03_codings
#print axioms C03_legacy_violates
open Servlin.C04P
#print axioms C03_boundary
#print axioms classify_plain
#print axioms classify_plain_length
#print axioms Servlin.CodeTables.contentType_matches
