import ServlinVerif.Props.C13
open Servlin.Server
#print axioms C13_rank_decreases
#print axioms C13_bounded
#print axioms C13_progress
#print axioms C13_never_early
#print axioms C13_stopped_final
#print axioms C13_legacy_parked
#print axioms C13_legacy_stuck
#print axioms C13_one_more
#print axioms C13_inflight_completes
#print axioms C13_conn_after_revoke
#print axioms C13_task_under_permit
#print axioms C13_stops_while_serving
