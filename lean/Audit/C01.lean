import ServlinVerif.Props.C01
import ServlinVerif.Props.C01Bound
import ServlinVerif.Props.HeadTable
open Servlin.C01
#print axioms C01_total
#print axioms C01_sched_irrelevant
#print axioms C01_consumes_exactly
#print axioms C01_eof_anywhere
#print axioms C01_legacy_panics
#print axioms findSlice_eq_firstBlankLine
#print axioms Servlin.HeadModel.readHeadOp_eq_D
#print axioms C01_reads_bounded
#print axioms Servlin.HeadTable.headBytes_match
#print axioms Servlin.HeadTable.headBytes_classes
