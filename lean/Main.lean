import ServlinVerif.Driver.C14
import ServlinVerif.Driver.C20
import ServlinVerif.Driver.C18
import ServlinVerif.Driver.C19
import ServlinVerif.Driver.C12
import ServlinVerif.Driver.C11
import ServlinVerif.Driver.C04
import ServlinVerif.Driver.C05
import ServlinVerif.Driver.C17
import ServlinVerif.Driver.C15
import ServlinVerif.Driver.C06
import ServlinVerif.Driver.Req
import ServlinVerif.Driver.C07
import ServlinVerif.Driver.C16
import ServlinVerif.Model.Pool
/-
  Line-protocol driver.  Input line:  <suite> TAB <arg>... TAB => TAB <observed>
  Output line: <model outcome> TAB <oracle verdict>
  where the oracle verdict is `ok`, `free` or `FAIL:<reason>` — the executable statement of the
  property applied to what the implementation was observed to do.
-/
open Servlin Drv

def splitObserved (fs : List String) : List String × String :=
  match fs.span (· ≠ "=>") with
  | (args, _ :: obs :: _) => (args, obs)
  | (args, _) => (args, "")

/-- Suites whose oracle is "spec outcome = observed outcome". -/
def viaSpec (r : Option (String × String)) (obs : String) : String :=
  match r with
  | none => "bad-case\tFAIL:bad-case"
  | some (model, spec) =>
    model ++ "\t" ++ (if spec == obs then "ok" else "FAIL:spec:" ++ spec)

def handleLine (line : String) : String :=
  match fields line with
  | suite :: rest =>
    let (args, obs) := splitObserved rest
    match suite with
    | "c11" => C11.handle args obs
    | "c11c" => C11.handleCtor args obs
    | "c11t" => C11.handleStress args obs
    | "c14" => viaSpec (C14.handle args) obs
    | "c14a" => viaSpec (C14.handleAscii args) obs
    | "c14n" => viaSpec (C14.handleNum args) obs
    | "c01" => Req.handleC01 args obs
    | "c01s" => Req.handleSeq args obs
    | "c19a" =>
      -- steady traffic under a per-file age limit: every line once, in order, and no file older than its age by more than an event
      -- (the writer decides rotation per event: `LogFiles.onEvent`, theorem C19_step)
      let model := "complete_in_order=1 within_age=1"
      model ++ "\t" ++ (if obs == model then "ok" else if obs == "PANIC" then "FAIL:panic:" else "FAIL:" ++
        (if (obs.splitOn " ").contains "complete_in_order=1" then "file-over-max-age" else "lines-lost-duplicated-or-reordered") ++ ":")
    | "c10s" =>
      -- k stalled uploads hold k files; an upload that is abandoned meanwhile leaves none; at the end none is left
      -- (per connection: `C10_no_leak`; connections do not share anything that one of them could be waiting for)
      match args with
      | [kS] =>
        let model := s!"stalled={kS} after_victim_left={kS} after=0"
        model ++ "\t" ++ (if obs == model then "ok" else if obs == "PANIC" then "FAIL:panic:" else "FAIL:temp-file-outlives-its-request:")
      | _ => "bad-case\tFAIL:bad-case"
    | "c04p" =>
      -- the handler pool: `n` panicking handlers on a pool of `n` threads, two requests of other connections queued behind them;
      -- the pool model (`Pool.scenario`) says how many handler calls complete
      match args with
      | [nS] =>
        let n := nS.toNat?.getD 0
        let calls := (Pool.scenario true n).getD 0
        let model := s!"a={",".intercalate (List.replicate n "500")} q=200 u=200 files=0 calls={calls}"
        let fails := (if (obs.splitOn " ").any (· == "q=none") || (obs.splitOn " ").any (· == "u=none") then ["request-queued-behind-a-panic-not-answered"] else []) ++
          (if (obs.splitOn " ").any (· == "files=0") then [] else ["temp-file-left-behind"]) ++
          (if obs == model then [] else ["differs-from-model"])
        model ++ "\t" ++ (if fails.isEmpty then "ok" else "FAIL:" ++ ",".intercalate fails ++ ":")
      | _ => "bad-case\tFAIL:bad-case"
    | "c01n" =>
      -- a server without the timer thread: late, split and kept-alive requests are served as usual
      let model := "late=200 split=200 keepalive=200+200 long=130"
      model ++ "\t" ++ (if obs == model then "ok" else "FAIL:request-not-served-without-timer-thread:")
    | "c02" => Req.handleC02 args obs
    | "c03" => Req.handleC03 args obs
    | "c04" | "c09" | "c10" => C04.handle suite args obs
    | "c05" => C05.handle args obs
    | "c06" => C06.handleC06 args obs
    | "c08" => C06.handleC08 args obs
    | "c07" => C07.handle args obs
    | "c15r" => C15.handleReq args obs
    | "c15s" => C15.handleSet args obs
    | "c16n" => C16.handleNew args obs
    | "c16f" => C16.handleFunnels args obs
    | "c16a" => C16.handleAdd args obs
    | "c17" => C17.handle args obs
    | "c18" => C18.handle args obs
    | "c12t" => C12.handleTokens args obs
    | "c12" => C12.handleLimit args obs
    | "c12e" => C12.handleEmfile args obs
    | "c12b" => C12.handleTokensBig args obs
    | "c13" => C12.handleShutdown args obs
    | "c13e" => C12.handleShutdownEmfile args obs
    | "c13p" => C12.handlePermit args obs
    | "c13b" => C12.handleShutdownBusy args obs
    | "c12i" => C12.handleEmfileIdle args obs
    | "c12s" => C12.handleStreams args obs
    | "c08s" => C12.handleStall args obs
    | "c19s" => C19.handleSet args obs
    | "c19w" => C19.handleWriter args obs
    | "c20e" => C20.handleError args obs
    | "c20x" => C20.handleX args obs
    | "c20s" => C20.handleStatus args obs
    | _ => "bad-suite\tFAIL:bad-suite"
  | [] => "bad-line\tFAIL:bad-line"

partial def loop (h : IO.FS.Stream) (out : IO.FS.Stream) : IO Unit := do
  let line ← h.getLine
  if line.isEmpty then return ()
  let line := if line.endsWith "\n" then (line.dropEnd 1).toString else line
  out.putStrLn (handleLine line)
  loop h out

def main : IO Unit := do
  loop (← IO.getStdin) (← IO.getStdout)
