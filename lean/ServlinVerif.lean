-- Root of the `ServlinVerif` library: models, specs, lemmas and property theorems.
import ServlinVerif.Basic.Bytes
import ServlinVerif.Model.Headers
import ServlinVerif.Spec.Multimap
import ServlinVerif.Lemmas.Headers
