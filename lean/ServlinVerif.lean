-- Root of the `ServlinVerif` library: models, specs, lemmas and property theorems.
import ServlinVerif.Basic.Bytes
import ServlinVerif.Model.Headers
import ServlinVerif.Spec.Multimap
import ServlinVerif.Lemmas.Headers
import ServlinVerif.Model.Response
import ServlinVerif.Model.HttpError
import ServlinVerif.Spec.ErrorClasses
import ServlinVerif.Gen.C20Tables
import ServlinVerif.Props.C14
import ServlinVerif.Props.C20
import ServlinVerif.Props.C16
import ServlinVerif.Props.C07
import ServlinVerif.Props.C01
import ServlinVerif.Props.C03
import ServlinVerif.Props.C02
import ServlinVerif.Props.C06
import ServlinVerif.Props.C15
