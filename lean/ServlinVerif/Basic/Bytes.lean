/-
  Basic byte-level definitions shared by every model.  No imports: the driver executable links
  against these files, so nothing here (or in Model/, Spec/, Driver/) may import Mathlib.
-/
namespace Servlin

abbrev Bytes := List UInt8

/-- `u8::to_ascii_lowercase`. -/
def toLower (b : UInt8) : UInt8 := if 65 ≤ b ∧ b ≤ 90 then b + 32 else b

/-- `str::eq_ignore_ascii_case`: same length and byte-wise equal after ASCII lower-casing. -/
def eqIgnoreCase (a b : Bytes) : Bool := a.map toLower == b.map toLower

def isAscii (bs : Bytes) : Bool := bs.all (· < 128)

/-- Rust `str::trim` restricted to ASCII input: U+0009..U+000D and U+0020 are `White_Space`. -/
def isAsciiWs (b : UInt8) : Bool := b == 32 || (9 ≤ b && b ≤ 13)

def trimStartWs : Bytes → Bytes
  | [] => []
  | b :: bs => if isAsciiWs b then trimStartWs bs else b :: bs

def trimWs (bs : Bytes) : Bytes := (trimStartWs (trimStartWs bs).reverse).reverse

/-- Split on a separator byte (Rust `split(c)`: always at least one piece). -/
def splitOn (sep : UInt8) : Bytes → List Bytes
  | [] => [[]]
  | b :: bs =>
    match splitOn sep bs with
    | [] => [[]]  -- unreachable
    | p :: ps => if b == sep then [] :: p :: ps else (b :: p) :: ps

def str (s : String) : Bytes := s.toUTF8.toList

/-- `b!"text"`: the UTF-8 bytes of a string literal as an explicit list literal, so that the
    kernel can compute with it (`String` literals do not reduce in `decide`). -/
syntax "b!" str : term
macro_rules
  | `(b! $s:str) => do
    let bytes := s.getString.toUTF8.toList
    let lits := bytes.toArray.map fun b => Lean.Syntax.mkNumLit (toString b.toNat)
    `(([$lits,*] : List UInt8))

/-- Decimal rendering of a natural number as ASCII bytes (Rust `Display` for unsigned ints). -/
def natToDec (n : Nat) : Bytes := str (toString n)

end Servlin
