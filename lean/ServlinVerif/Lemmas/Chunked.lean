import ServlinVerif.Model.Chunked
import ServlinVerif.Spec.ChunkDecoder
/- Helper lemmas for C07. -/
namespace Servlin
namespace Chunked
open ChunkDecoder

theorem hexVal_hexDigit : ∀ n, n < 16 → hexVal (hexDigit n) = some n := by decide

theorem hexDigit_eq_48 : ∀ n, n < 16 → (hexDigit n = 48 ↔ n = 0) := by decide

theorem hexVal_13 : hexVal 13 = none := by decide

theorem trimPrefix_append_stop (p c : UInt8) (hc : c ≠ p) (A Z rest : Bytes) :
    trimPrefix p (A ++ c :: Z) ++ rest = trimPrefix p (A ++ c :: (Z ++ rest)) := by
  induction A with
  | nil => simp [trimPrefix, hc]
  | cons a A ih =>
    simp only [List.cons_append, trimPrefix]
    split
    · exact ih
    · simp

/-- Size line of four nibbles, trimmed, then CRLF: the decoder reads back exactly the length, and
    the first byte written is not '0'. -/
theorem parse_trimmed_nibbles (n3 n2 n1 n0 : Nat) (h3 : n3 < 16) (h2 : n2 < 16) (h1 : n1 < 16)
    (h0 : n0 < 16) (hpos : 0 < 4096 * n3 + 256 * n2 + 16 * n1 + n0) (Y : Bytes) :
    parseSize (trimPrefix 48 ([hexDigit n3, hexDigit n2, hexDigit n1, hexDigit n0] ++ 13 :: 10 :: Y)) 0 false
      = .ok (4096 * n3 + 256 * n2 + 16 * n1 + n0) Y ∧
    (trimPrefix 48 ([hexDigit n3, hexDigit n2, hexDigit n1, hexDigit n0] ++ 13 :: 10 :: Y)).head? ≠ some 48 := by
  have e3 := hexDigit_eq_48 n3 h3
  have e2 := hexDigit_eq_48 n2 h2
  have e1 := hexDigit_eq_48 n1 h1
  have e0 := hexDigit_eq_48 n0 h0
  have v3 := hexVal_hexDigit n3 h3
  have v2 := hexVal_hexDigit n2 h2
  have v1 := hexVal_hexDigit n1 h1
  have v0 := hexVal_hexDigit n0 h0
  have hz : hexDigit 0 = 48 := rfl
  by_cases z3 : n3 = 0
  · by_cases z2 : n2 = 0
    · by_cases z1 : n1 = 0
      · have z0 : n0 ≠ 0 := by omega
        subst z3 z2 z1
        have : hexDigit n0 ≠ 48 := fun h => z0 (e0.mp h)
        simp [trimPrefix, hz, this, parseSize, v0, hexVal_13]
      · subst z3 z2
        have : hexDigit n1 ≠ 48 := fun h => z1 (e1.mp h)
        simp [trimPrefix, hz, this, parseSize, v0, v1, hexVal_13]; omega
    · subst z3
      have : hexDigit n2 ≠ 48 := fun h => z2 (e2.mp h)
      simp [trimPrefix, hz, this, parseSize, v0, v1, v2, hexVal_13]; omega
  · have : hexDigit n3 ≠ 48 := fun h => z3 (e3.mp h)
    simp [trimPrefix, this, parseSize, v0, v1, v2, v3, hexVal_13]; omega

theorem parse_trimmed_sizeLine (len : Nat) (h1 : 1 ≤ len) (h2 : len < 65536) (Y : Bytes) :
    parseSize (trimPrefix 48 (sizeLine len ++ 13 :: 10 :: Y)) 0 false = .ok len Y ∧
    (trimPrefix 48 (sizeLine len ++ 13 :: 10 :: Y)).head? ≠ some 48 := by
  have := parse_trimmed_nibbles (len / 4096 % 16) (len / 256 % 16) (len / 16 % 16) (len % 16)
    (by omega) (by omega) (by omega) (by omega) (by omega) Y
  have hl : 4096 * (len / 4096 % 16) + 256 * (len / 256 % 16) + 16 * (len / 16 % 16) + len % 16 = len := by
    omega
  rw [hl] at this
  exact this

/-- `encodeChunk d ++ rest` in the form the decoder lemmas need. -/
theorem encodeChunk_append (d rest : Bytes) :
    encodeChunk d ++ rest = trimPrefix 48 (sizeLine d.length ++ 13 :: 10 :: (d ++ 13 :: 10 :: rest)) := by
  unfold encodeChunk crlf
  have := trimPrefix_append_stop 48 13 (by decide) (sizeLine d.length) (10 :: (d ++ [13, 10])) rest
  simp only [List.append_assoc, List.cons_append, List.nil_append] at this ⊢
  exact this

theorem decodeAux_chunk (fuel : Nat) (d rest : Bytes) (acc : List Bytes) (h1 : 1 ≤ d.length)
    (h2 : d.length < 65536) :
    decodeAux (fuel + 1) (encodeChunk d ++ rest) acc = decodeAux fuel rest (d :: acc) := by
  rw [encodeChunk_append]
  have hp := (parse_trimmed_sizeLine d.length h1 h2 (d ++ 13 :: 10 :: rest)).1
  rw [decodeAux, hp]
  obtain ⟨n, hn⟩ : ∃ n, d.length = n + 1 := ⟨d.length - 1, by omega⟩
  rw [hn]
  simp only
  have hdrop : (d ++ 13 :: 10 :: rest).drop (n + 1) = 13 :: 10 :: rest := by
    rw [← hn]; simp
  have htake : (d ++ 13 :: 10 :: rest).take (n + 1) = d := by
    rw [← hn]; simp
  rw [hdrop, htake]
  simp [hn]

theorem decodeAux_terminator (fuel : Nat) (rest : Bytes) (acc : List Bytes) :
    decodeAux (fuel + 1) (terminator ++ rest) acc = .complete acc.reverse.flatten rest := by
  have h48 : hexVal 48 = some 0 := by decide
  simp [decodeAux, terminator, parseSize, hexVal_13, h48]

theorem decodeAux_chunks (ps : List Bytes) (hps : ∀ p ∈ ps, 1 ≤ p.length ∧ p.length < 65536)
    (fuel : Nat) (tail : Bytes) (acc : List Bytes) :
    decodeAux (fuel + ps.length) ((ps.map encodeChunk).flatten ++ tail) acc =
      decodeAux fuel tail (ps.reverse ++ acc) := by
  induction ps generalizing acc with
  | nil => simp
  | cons p ps ih =>
    have hp := hps p (by simp)
    simp only [List.map_cons, List.flatten_cons, List.length_cons, List.append_assoc]
    rw [show fuel + (ps.length + 1) = (fuel + ps.length) + 1 by omega]
    rw [decodeAux_chunk _ _ _ _ hp.1 hp.2]
    rw [ih (fun q hq => hps q (by simp [hq]))]
    simp

theorem encodeChunk_length_pos (d : Bytes) (h1 : 1 ≤ d.length) (h2 : d.length < 65536) :
    1 ≤ (encodeChunk d).length := by
  have := encodeChunk_append d []
  simp only [List.append_nil] at this
  have hh := (parse_trimmed_sizeLine d.length h1 h2 (d ++ [13, 10])).1
  rw [this]
  cases hc : trimPrefix 48 (sizeLine d.length ++ 13 :: 10 :: (d ++ [13, 10])) with
  | nil => rw [hc] at hh; simp [parseSize] at hh
  | cons a as => simp

theorem chunks_length_ge (ps : List Bytes) (hps : ∀ p ∈ ps, 1 ≤ p.length ∧ p.length < 65536) :
    ps.length ≤ ((ps.map encodeChunk).flatten).length := by
  induction ps with
  | nil => simp
  | cons p ps ih =>
    have hp := hps p (by simp)
    have := encodeChunk_length_pos p hp.1 hp.2
    have := ih (fun q hq => hps q (by simp [hq]))
    simp only [List.map_cons, List.flatten_cons, List.length_cons, List.length_append]
    omega

end Chunked
end Servlin
