import ServlinVerif.Spec.Multimap
/- Helper lemmas for C14 (no property statements here). -/
namespace Servlin
namespace Headers
open Multimap (isMatch)

theorem getOnlyLoop_some (name : Bytes) (l : HeaderList) (x : Bytes) :
    getOnlyLoop name l (some x) =
      if (l.filter (isMatch name)) = [] then some x else none := by
  induction l with
  | nil => simp [getOnlyLoop]
  | cons h t ih =>
    unfold getOnlyLoop
    by_cases hm : eqIgnoreCase h.name name = true
    · simp [List.filter_cons, isMatch, hm]
    · simp only [hm, if_false, ih, List.filter_cons, isMatch]
      simp

theorem getOnlyLoop_none (name : Bytes) (l : HeaderList) :
    getOnlyLoop name l none = Multimap.getOnly l name := by
  induction l with
  | nil => simp [getOnlyLoop, Multimap.getOnly, Multimap.getAll]
  | cons h t ih =>
    unfold getOnlyLoop
    by_cases hm : eqIgnoreCase h.name name = true
    · simp only [hm, if_true, Option.isSome_none, Bool.false_eq_true, if_false, getOnlyLoop_some]
      simp only [Multimap.getOnly, Multimap.getAll, List.filter_cons, isMatch, hm, if_true,
        List.map_cons]
      cases hf : List.filter (isMatch name) t with
      | nil => simp [isMatch] at hf ⊢
      | cons a as =>
        have : List.filter (fun h => eqIgnoreCase h.name name) t = a :: as := hf
        simp [this]
    · simp only [hm, if_false, ih]
      simp [Multimap.getOnly, Multimap.getAll, List.filter_cons, isMatch, hm]

theorem getAll_foldl (name : Bytes) (l : HeaderList) (acc : List Bytes) :
    l.foldl (fun acc h => if eqIgnoreCase h.name name then acc ++ [h.value] else acc) acc =
      acc ++ (l.filter (isMatch name)).map Header.value := by
  induction l generalizing acc with
  | nil => simp
  | cons h t ih =>
    simp only [List.foldl_cons, ih, List.filter_cons, isMatch]
    by_cases hm : eqIgnoreCase h.name name = true <;> simp [hm]

theorem removeAllLoop_eq (name : Bytes) (l : HeaderList) (n : Nat) (vals : List Bytes) :
    removeAllLoop name l n vals =
      (vals ++ ((l.drop n).filter (isMatch name)).map Header.value,
       l.take n ++ (l.drop n).filter (fun h => !isMatch name h)) := by
  fun_induction removeAllLoop name l n vals with
  | case1 l n vals h hm ih =>
    rw [ih]
    have hd : l.drop n = l[n] :: l.drop (n + 1) := (List.drop_eq_getElem_cons h)
    have he : (l.eraseIdx n).drop n = l.drop (n + 1) := by
      rw [List.eraseIdx_eq_take_drop_succ]
      rw [List.drop_append]
      have : (List.take n l).length = n := by simp; omega
      simp [this]
    have ht : (l.eraseIdx n).take n = l.take n := by
      rw [List.eraseIdx_eq_take_drop_succ]
      rw [List.take_append]
      have : (List.take n l).length = n := by simp; omega
      rw [List.take_of_length_le (by omega)]; simp [this]
    rw [he, ht, hd]
    simp only [List.filter_cons, isMatch, hm, if_true, Bool.not_true, Bool.false_eq_true,
      if_false, List.map_cons, List.append_assoc, List.singleton_append]
  | case2 l n vals h hm ih =>
    rw [ih]
    have hd : l.drop n = l[n] :: l.drop (n + 1) := (List.drop_eq_getElem_cons h)
    rw [hd]
    have hm' : eqIgnoreCase l[n].name name = false := by simpa using hm
    have htk : l.take (n + 1) = l.take n ++ [l[n]] := by
      rw [List.take_add_one]; simp [h]
    simp only [List.filter_cons, isMatch, hm', Bool.false_eq_true, if_false, Bool.not_false,
      if_true, htk, List.append_assoc, List.singleton_append]
  | case3 l n vals h =>
    have : l.length ≤ n := by omega
    simp [List.drop_of_length_le this, List.take_of_length_le this]

end Headers
end Servlin
