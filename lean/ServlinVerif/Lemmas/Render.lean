import ServlinVerif.Lemmas.Head
import ServlinVerif.Lemmas.Split
import ServlinVerif.Spec.ReadSpec
/- Lemmas about CRLF-joined lines: where the first blank line is, and how `split('\n')` +
   `trim_trailing_cr` recover the lines. -/
namespace Servlin
namespace Render
open HeadModel

/-- Lines joined by CRLF (no trailing CRLF). -/
def joinCrlf : List Bytes → Bytes
  | [] => []
  | [l] => l
  | l :: l2 :: ls => l ++ 13 :: 10 :: joinCrlf (l2 :: ls)

/-- A line as it may appear in a head: non-empty, free of CR and LF. -/
def CleanLine (l : Bytes) : Prop := l ≠ [] ∧ ∀ b ∈ l, b ≠ 13 ∧ b ≠ 10

open ReadSpec in
theorem fbl_skip_line (l X : Bytes) (h : ∀ b ∈ l, b ≠ 13) :
    firstBlankLine (l ++ X) = (firstBlankLine X).map (· + l.length) := by
  induction l with
  | nil => simp
  | cons x t ih =>
    have hx : x ≠ 13 := h x (by simp)
    have := ih (fun b hb => h b (List.mem_cons_of_mem _ hb))
    simp only [List.cons_append, firstBlankLine, hx, false_and, if_false, this, Option.map_map,
      List.length_cons]
    congr 1

open ReadSpec in
theorem fbl_skip_crlf (c : UInt8) (Y : Bytes) (hc : c ≠ 13) :
    firstBlankLine (13 :: 10 :: c :: Y) = (firstBlankLine (c :: Y)).map (· + 2) := by
  have h1 : ¬ ((13 : UInt8) = 13 ∧ List.take 3 (10 :: c :: Y) = [10, 13, 10]) := by
    intro ⟨_, h⟩
    simp only [List.take_succ_cons, List.cons.injEq] at h
    exact hc h.2.1
  have h2 : ¬ ((10 : UInt8) = 13 ∧ List.take 3 (c :: Y) = [10, 13, 10]) := by
    intro ⟨h, _⟩; revert h; decide
  rw [firstBlankLine, if_neg h1, firstBlankLine, if_neg h2, Option.map_map]
  congr 1

open ReadSpec in
theorem fbl_at_blank (rest : Bytes) : firstBlankLine (13 :: 10 :: 13 :: 10 :: rest) = some 0 := by
  simp [firstBlankLine]

theorem joinCrlf_head (l : Bytes) (ls : List Bytes) (hl : CleanLine l) :
    ∃ c Y, joinCrlf (l :: ls) = c :: Y ∧ c ≠ 13 := by
  obtain ⟨hne, hb⟩ := hl
  cases l with
  | nil => exact absurd rfl hne
  | cons c t =>
    cases ls with
    | nil => exact ⟨c, t, rfl, (hb c (by simp)).1⟩
    | cons l2 ls => exact ⟨c, t ++ 13 :: 10 :: joinCrlf (l2 :: ls), rfl, (hb c (by simp)).1⟩

open ReadSpec in
/-- In a rendered head the first blank line is the final one, whatever follows. -/
theorem fbl_rendered (L : List Bytes) (hne : L ≠ []) (hL : ∀ l ∈ L, CleanLine l) (rest : Bytes) :
    firstBlankLine (joinCrlf L ++ 13 :: 10 :: 13 :: 10 :: rest) = some (joinCrlf L).length := by
  induction L with
  | nil => exact absurd rfl hne
  | cons l ls ih =>
    have hl := hL l (by simp)
    cases ls with
    | nil =>
      simp only [joinCrlf]
      rw [fbl_skip_line l _ (fun b hb => (hl.2 b hb).1), fbl_at_blank]
      simp
    | cons l2 ls2 =>
      have ih' := ih (by simp) (fun x hx => hL x (List.mem_cons_of_mem _ hx))
      obtain ⟨c, Y, hY, hc⟩ := joinCrlf_head l2 ls2 (hL l2 (by simp))
      simp only [joinCrlf, List.append_assoc, List.cons_append]
      rw [fbl_skip_line l _ (fun b hb => (hl.2 b hb).1)]
      rw [hY] at ih' ⊢
      simp only [List.cons_append] at ih' ⊢
      rw [fbl_skip_crlf c _ hc, ih']
      simp only [Option.map_some, List.length_append, List.length_cons]
      congr 1; omega

theorem trimTrailingCr_append_cr (l : Bytes) : trimTrailingCr (l ++ [13]) = l := by
  unfold trimTrailingCr
  simp

theorem trimTrailingCr_clean (l : Bytes) (h : ∀ b ∈ l, b ≠ 13) : trimTrailingCr l = l := by
  unfold trimTrailingCr
  cases hl : l.getLast? with
  | none => rfl
  | some b =>
    have hm : b ∈ l := List.mem_of_getLast? hl
    have := h b hm
    split
    · next heq => simp only [Option.some.injEq] at heq; exact absurd heq this
    · rfl

/-- `head.split('\n').map(trim_trailing_cr)` recovers the lines of a rendered head. -/
theorem split_lines (L : List Bytes) (hne : L ≠ []) (hL : ∀ l ∈ L, CleanLine l) :
    (splitOn 10 (joinCrlf L)).map trimTrailingCr = L := by
  induction L with
  | nil => exact absurd rfl hne
  | cons l ls ih =>
    have hl := hL l (by simp)
    cases ls with
    | nil =>
      simp only [joinCrlf]
      rw [splitOn_no_sep 10 l (fun b hb => (hl.2 b hb).2)]
      simp [trimTrailingCr_clean l (fun b hb => (hl.2 b hb).1)]
    | cons l2 ls2 =>
      have ih' := ih (by simp) (fun x hx => hL x (List.mem_cons_of_mem _ hx))
      simp only [joinCrlf]
      have : l ++ 13 :: 10 :: joinCrlf (l2 :: ls2) = (l ++ [13]) ++ 10 :: joinCrlf (l2 :: ls2) := by simp
      rw [this, splitOn_append_sep 10 (l ++ [13]) _ (by
        intro b hb
        simp only [List.mem_append, List.mem_singleton] at hb
        rcases hb with hb | rfl
        · exact (hl.2 b hb).2
        · decide)]
      simp only [List.map_cons, trimTrailingCr_append_cr, ih']

end Render
end Servlin
