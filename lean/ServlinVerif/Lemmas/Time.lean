import ServlinVerif.Spec.Calendar
/- Helper lemmas for C16: each balancing step preserves the instant denoted by the record. -/
namespace Servlin
namespace Time
open Calendar

theorem isLeap_iff (y : Nat) :
    isLeap y = true ↔ (y % 400 = 0 ∨ (y % 100 ≠ 0 ∧ y % 4 = 0)) := by
  unfold isLeap; split <;> (try split) <;> simp <;> omega

theorem daysBeforeYear_succ (y : Nat) (hy : 1970 ≤ y) :
    daysBeforeYear (y + 1) = daysBeforeYear y + yearLen y := by
  unfold daysBeforeYear leapsThrough yearLen
  have hl := isLeap_iff y
  by_cases h : isLeap y = true
  · simp only [h, if_true]
    have := hl.mp h
    omega
  · simp only [h]
    have : ¬ (y % 400 = 0 ∨ (y % 100 ≠ 0 ∧ y % 4 = 0)) := fun c => h (hl.mpr c)
    simp only [Bool.false_eq_true, if_false]
    omega

theorem feb_eq (y : Nat) :
    (if y % 400 = 0 then 29 else if y % 100 = 0 then 28 else if y % 4 = 0 then 29 else 28) =
      if isLeap y = true then 29 else 28 := by
  unfold isLeap
  split <;> (try split) <;> (try split) <;> simp_all

theorem monthLen?_eq (y m : Nat) (h1 : 1 ≤ m) (h2 : m ≤ 12) :
    monthLen? y m = some (monthLen y m) := by
  unfold monthLen? monthLen
  rcases m with _ | _ | _ | _ | _ | _ | _ | _ | _ | _ | _ | _ | _ | m <;>
    first | omega | rfl | (show some _ = some _; rw [feb_eq]; rfl) | skip

/-- 1-based day number since the epoch of an unnormalised (year, month ≤ 12, day). -/
def absDay (y m d : Nat) : Nat := daysBeforeYear y + daysBeforeMonth y m + d

theorem daysBeforeMonth_succ (y m : Nat) (h1 : 1 ≤ m) (h2 : m < 12) :
    daysBeforeMonth y (m + 1) = daysBeforeMonth y m + monthLen y m := by
  unfold daysBeforeMonth monthLen
  rcases m with _ | _ | _ | _ | _ | _ | _ | _ | _ | _ | _ | _ | m <;> simp at * <;>
    (try (by_cases h : isLeap y = true <;> simp [h])) <;> omega

theorem yearLen_eq (y : Nat) : yearLen y = daysBeforeMonth y 12 + 31 := by
  unfold yearLen daysBeforeMonth
  by_cases h : isLeap y = true <;> simp [h]

theorem balanceMonth_le (y m : Nat) (h : m ≤ 12) : balanceMonth y m = some (y, m) := by
  unfold balanceMonth; simp; omega

theorem balanceMonth_13 (y : Nat) : balanceMonth y 13 = some (y + 1, 1) := by
  unfold balanceMonth; simp

theorem stepLen_spec (y m : Nat) (hy : 1970 ≤ y) (h1 : 1 ≤ m) (h2 : m ≤ 12) :
    daysBeforeYear (y + 1) + daysBeforeMonth (y + 1) m = daysBeforeYear y + daysBeforeMonth y m + stepLen y m := by
  rw [daysBeforeYear_succ y hy]
  unfold stepLen yearLen daysBeforeMonth
  by_cases hm : m > 2
  · simp only [hm, if_true, true_and]
    by_cases ha : isLeap y = true <;> by_cases hb : isLeap (y + 1) = true <;> simp [ha, hb] <;> omega
  · have : m = 1 ∨ m = 2 := by omega
    rcases this with rfl | rfl <;> simp <;> omega

theorem stepLen_bounds (y m : Nat) : 365 ≤ stepLen y m ∧ stepLen y m ≤ 366 := by
  unfold stepLen yearLen; split <;> split <;> omega

theorem yearLoop_spec (y m d : Nat) (hy : 1970 ≤ y) (h1 : 1 ≤ m) (h2 : m ≤ 12) (hd : 1 ≤ d) :
    y ≤ (yearLoop y m d).1 ∧ 1 ≤ (yearLoop y m d).2 ∧ (yearLoop y m d).2 ≤ 366 ∧
    absDay (yearLoop y m d).1 m (yearLoop y m d).2 = absDay y m d := by
  fun_induction yearLoop y m d with
  | case1 y d hgt ih =>
    have hb := stepLen_bounds y m
    have := ih (by omega) (by omega)
    have hs := stepLen_spec y m hy h1 h2
    unfold absDay at *
    omega
  | case2 y d hle => dsimp only; unfold absDay; omega

theorem monthLen_bounds (y m : Nat) : 28 ≤ monthLen y m ∧ monthLen y m ≤ 31 := by
  unfold monthLen; split <;> (try split) <;> omega

theorem monthLoop_spec (y m d : Nat) (hy : 1970 ≤ y) (h1 : 1 ≤ m) (h2 : m ≤ 12) (hd : 1 ≤ d) :
    ∃ y' m' d', monthLoop y m d = some (y', m', d') ∧ y ≤ y' ∧ 1 ≤ m' ∧ m' ≤ 12 ∧ 1 ≤ d' ∧
      d' ≤ monthLen y' m' ∧ absDay y' m' d' = absDay y m d := by
  fun_induction monthLoop y m d with
  | case1 y m d hnone => rw [monthLen?_eq y m h1 h2] at hnone; cases hnone
  | case2 y m d ml hml hgt hbm => 
    exfalso
    by_cases hm : m < 12
    · rw [balanceMonth_le y (m + 1) (by omega)] at hbm; cases hbm
    · have : m = 12 := by omega
      subst this; rw [balanceMonth_13] at hbm; cases hbm
  | case3 y m d ml hml hgt y' m' hbm ih =>
    rw [monthLen?_eq y m h1 h2] at hml
    cases hml
    have hb := monthLen_bounds y m
    by_cases hm : m < 12
    · rw [balanceMonth_le y (m + 1) (by omega)] at hbm
      cases hbm
      obtain ⟨y2, m2, d2, he, hy2, hm1, hm2, hd1, hd2, habs⟩ := ih hy (by omega) (by omega) (by omega)
      refine ⟨y2, m2, d2, he, hy2, hm1, hm2, hd1, hd2, ?_⟩
      rw [habs]; unfold absDay
      rw [daysBeforeMonth_succ y m h1 hm]; omega
    · have : m = 12 := by omega
      subst this
      rw [balanceMonth_13] at hbm
      cases hbm
      obtain ⟨y2, m2, d2, he, hy2, hm1, hm2, hd1, hd2, habs⟩ := ih (by omega) (by omega) (by omega) (by omega)
      refine ⟨y2, m2, d2, he, by omega, hm1, hm2, hd1, hd2, ?_⟩
      rw [habs]; unfold absDay
      rw [daysBeforeYear_succ y hy, yearLen_eq y]
      have : daysBeforeMonth (y + 1) 1 = 0 := by simp [daysBeforeMonth]
      have h31 : monthLen y 12 = 31 := by simp [monthLen]
      omega
  | case4 y m d ml hml hle =>
    rw [monthLen?_eq y m h1 h2] at hml
    cases hml
    exact ⟨y, m, d, rfl, by omega, h1, h2, hd, by omega, rfl⟩

end Time
end Servlin
