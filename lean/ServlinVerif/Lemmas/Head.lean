import ServlinVerif.Model.Request
/- Helper lemmas for C01/C02: delimiter search, schedule independence of the read loop. -/
namespace Servlin
namespace HeadModel

theorem splitOn_ne_nil (sep : UInt8) (l : Bytes) : splitOn sep l ≠ [] := by
  induction l with
  | nil => simp [splitOn]
  | cons b t ih =>
    unfold splitOn
    cases h : splitOn sep t with
    | nil => exact absurd h ih
    | cons p ps => simp only []; split <;> simp

/-! ### findSlice -/

theorem isPrefixOf_append {n a : Bytes} (b : Bytes) (h : n.isPrefixOf a = true) :
    n.isPrefixOf (a ++ b) = true := by
  rw [List.isPrefixOf_iff_prefix] at *
  exact List.IsPrefix.trans h (List.prefix_append a b)

theorem findSlice_bound {n a : Bytes} {i : Nat} (h : findSlice n a = some i) :
    i + n.length ≤ a.length := by
  induction a generalizing i with
  | nil =>
    simp only [findSlice] at h
    split at h
    · next hn => cases h; subst hn; simp
    · cases h
  | cons x t ih =>
    simp only [findSlice] at h
    split at h
    · next hp =>
      cases h
      rw [List.isPrefixOf_iff_prefix] at hp
      have := hp.length_le
      simpa using this
    · cases hf : findSlice n t with
      | none => simp [hf] at h
      | some j =>
        simp only [hf, Option.map_some, Option.some.injEq] at h
        have := ih hf
        simp only [List.length_cons]; omega

/-- A match found in a prefix is the match found in the whole. -/
theorem findSlice_append {n a : Bytes} {i : Nat} (b : Bytes) (h : findSlice n a = some i) :
    findSlice n (a ++ b) = some i := by
  induction a generalizing i with
  | nil =>
    simp only [findSlice] at h
    split at h
    · next hn => cases h; subst hn; cases b <;> simp [findSlice]
    · cases h
  | cons x t ih =>
    simp only [findSlice, List.cons_append] at h ⊢
    split at h
    · next hp =>
      cases h
      have := isPrefixOf_append b hp
      simp only [List.cons_append] at this
      simp [this]
    · next hp =>
      cases hf : findSlice n t with
      | none => simp [hf] at h
      | some j =>
        simp only [hf, Option.map_some, Option.some.injEq] at h
        subst h
        have hnp : n.isPrefixOf (x :: (t ++ b)) = false := by
          -- n is not a prefix of x :: t, but n fits inside t's first j + |n| bytes ...
          have hb := findSlice_bound hf
          cases hq : n.isPrefixOf (x :: (t ++ b)) with
          | false => rfl
          | true =>
            exfalso
            rw [List.isPrefixOf_iff_prefix] at hq
            have hlen : n.length ≤ (x :: t).length := by simp only [List.length_cons]; omega
            have : n <+: x :: t := by
              have h2 : x :: t <+: x :: (t ++ b) := by
                rw [← List.cons_append]; exact List.prefix_append _ _
              exact List.prefix_of_prefix_length_le hq h2 hlen
            rw [← List.isPrefixOf_iff_prefix] at this
            exact hp this
        simp [hnp, ih hf]

/-- If nothing is found in `a ++ b`, nothing is found in `a` (needle non-empty). -/
theorem findSlice_none_of_append {n a b : Bytes} (h : findSlice n (a ++ b) = none) :
    findSlice n a = none := by
  cases hf : findSlice n a with
  | none => rfl
  | some i => rw [findSlice_append b hf] at h; cases h

/-- A match in `a ++ b` that fits inside `a` is a match in `a`. -/
theorem findSlice_of_append {n a b : Bytes} {i : Nat} (h : findSlice n (a ++ b) = some i)
    (hfit : i + n.length ≤ a.length) (hn : n ≠ []) : findSlice n a = some i := by
  induction a generalizing i with
  | nil =>
    have : n.length = 0 := by simp only [List.length_nil] at hfit; omega
    exact absurd (List.length_eq_zero_iff.mp this) hn
  | cons x t ih =>
    simp only [findSlice, List.cons_append] at h ⊢
    split at h
    · next hp =>
      cases h
      rw [List.isPrefixOf_iff_prefix] at hp
      have h2 : x :: t <+: x :: (t ++ b) := by
        rw [← List.cons_append]; exact List.prefix_append _ _
      have : n <+: x :: t := List.prefix_of_prefix_length_le hp h2 (by simpa using hfit)
      rw [← List.isPrefixOf_iff_prefix] at this
      simp [this]
    · next hp =>
      cases hf : findSlice n (t ++ b) with
      | none => simp [hf] at h
      | some j =>
        simp only [hf, Option.map_some, Option.some.injEq] at h
        subst h
        have hnp : n.isPrefixOf (x :: t) = false := by
          cases hq : n.isPrefixOf (x :: t) with
          | false => rfl
          | true =>
            have := isPrefixOf_append b hq
            simp only [List.cons_append] at this
            exact absurd this hp
        have := ih hf (by simp only [List.length_cons] at hfit; omega)
        simp [hnp, this]

end HeadModel
end Servlin

namespace Servlin
namespace HeadModel

theorem parseRequestLine_ne_truncated (u : Bytes → Option Url) (l : Bytes) :
    parseRequestLine u l ≠ .error .truncated ∧ parseRequestLine u l ≠ .error .missingRequestLine ∧
    parseRequestLine u l ≠ .error .malformedHeader := by
  unfold parseRequestLine
  split
  · split
    · split
      · simp
      · split
        · simp
        · split
          · simp
          · split <;> simp
    · simp
  · simp

theorem parseHead_cases (pan : Bool) (u : Bytes → Option Url) (h : Bytes) :
    parseHead pan u h ≠ .err .truncated ∧ parseHead pan u h ≠ .err .missingRequestLine := by
  unfold parseHead
  split
  · next heq =>
    exfalso
    have := splitOn_ne_nil 10 h
    cases hs : splitOn 10 h with
    | nil => exact this hs
    | cons a b => simp [hs] at heq
  · next rl ls heq =>
    have hr := parseRequestLine_ne_truncated u rl
    split
    · next e he =>
      refine ⟨?_, ?_⟩
      · intro hc; cases hc; exact hr.1 he
      · intro hc; cases hc; exact hr.2.1 he
    · split <;> simp

theorem tryRead_found {pan : Bool} {u : Bytes → Option Url} {buf : Bytes} {i : Nat}
    (h : findSlice delim buf = some i) :
    tryRead pan u buf = (parseHead pan u (buf.take i), buf.drop (i + 4)) := by
  simp [tryRead, h]

theorem tryRead_none {pan : Bool} {u : Bytes → Option Url} {buf : Bytes}
    (h : findSlice delim buf = none) : tryRead pan u buf = (.err .truncated, buf) := by
  simp [tryRead, h]

/-- `tryRead` answers `Truncated` exactly when the buffer holds no blank line. -/
theorem tryRead_truncated_iff {pan : Bool} {u : Bytes → Option Url} {buf buf' : Bytes}
    (h : tryRead pan u buf = (.err .truncated, buf')) : findSlice delim buf = none := by
  cases hf : findSlice delim buf with
  | none => rfl
  | some i =>
    rw [tryRead_found hf] at h
    have := (parseHead_cases pan u (buf.take i)).1
    simp only [Prod.mk.injEq] at h
    exact absurd h.1 this

theorem take_append_of_le {a b : Bytes} {cap : Nat} (h : a.length ≤ cap) :
    (a ++ b).take cap = a ++ b.take (cap - a.length) := by
  rw [List.take_append]
  rw [List.take_of_length_le h]

/-- What the denotational reader answers when the first blank line lies inside the buffer. -/
theorem readHeadD_found {pan : Bool} {u : Bytes → Option Url} {cap : Nat} {buf stream : Bytes} {i : Nat}
    (hb : buf.length ≤ cap) (hf : findSlice delim buf = some i) :
    readHeadD pan u cap (buf ++ stream) =
      ((match parseHead pan u (buf.take i) with
        | .ok h => ReadOut.ok h | .panic => .panic | .err e => .err e),
       buf.drop (i + 4) ++ stream) := by
  have hbound := findSlice_bound hf
  have hlen : delim.length = 4 := rfl
  unfold readHeadD
  rw [take_append_of_le hb, findSlice_append _ hf]
  simp only
  have h1 : (buf ++ stream).take i = buf.take i := by
    rw [List.take_append_of_le_length (by omega)]
  have h2 : (buf ++ stream).drop (i + 4) = buf.drop (i + 4) ++ stream := by
    rw [List.drop_append_of_le_length (by omega)]
  rw [h1, h2]
  try rfl

/-- **Schedule independence of the read loop.**  Whatever the read sizes, the loop's outcome and
    the bytes it leaves (buffer ++ unread stream) are those of the denotational reader applied to
    the concatenated bytes. -/
theorem readHeadOp_eq_D (pan : Bool) (u : Bytes → Option Url) (cap : Nat) (sched : Nat → Nat) (k : Nat)
    (buf stream : Bytes) (hb : buf.length ≤ cap) :
    (readHeadOp pan u cap sched k buf stream).1 = (readHeadD pan u cap (buf ++ stream)).1 ∧
    (readHeadOp pan u cap sched k buf stream).2.1 ++ (readHeadOp pan u cap sched k buf stream).2.2 =
      (readHeadD pan u cap (buf ++ stream)).2 := by
  fun_induction readHeadOp pan u cap sched k buf stream with
  | case1 k buf stream h buf' htr =>
    cases hf : findSlice delim buf with
    | none => rw [tryRead_none hf] at htr; cases htr
    | some i =>
      rw [tryRead_found hf] at htr
      simp only [Prod.mk.injEq] at htr
      rw [readHeadD_found hb hf, htr.1, ← htr.2]
      simp
  | case2 k buf stream buf' htr =>
    cases hf : findSlice delim buf with
    | none => rw [tryRead_none hf] at htr; cases htr
    | some i =>
      rw [tryRead_found hf] at htr
      simp only [Prod.mk.injEq] at htr
      rw [readHeadD_found hb hf, htr.1, ← htr.2]
      simp
  | case3 k buf stream x htr hcap =>
    have hf := tryRead_truncated_iff htr
    have hlen : buf.length = cap := by omega
    unfold readHeadD
    rw [take_append_of_le hb, hlen, Nat.sub_self, List.take_zero, List.append_nil, hf]
    simp only [List.length_append]
    have : cap ≤ buf.length + stream.length := by omega
    simp [this]
  | case4 k buf x htr hcap =>
    have hf := tryRead_truncated_iff htr
    unfold readHeadD
    rw [List.append_nil, List.take_of_length_le (by omega), hf]
    have : ¬ cap ≤ buf.length := hcap
    simp [this]
  | case5 k buf x htr hcap s ss n ih =>
    have hn : n ≤ cap - buf.length := Nat.min_le_right _ _
    have hlen : (buf ++ List.take n (s :: ss)).length ≤ cap := by
      simp only [List.length_append, List.length_take]; omega
    have := ih hlen
    rw [List.append_assoc, List.take_append_drop] at this
    exact this
  | case6 k buf stream e buf' hne htr =>
    cases hf : findSlice delim buf with
    | none =>
      rw [tryRead_none hf] at htr
      simp only [Prod.mk.injEq, ParseOut.err.injEq] at htr
      exact absurd htr.1.symm hne
    | some i =>
      rw [tryRead_found hf] at htr
      simp only [Prod.mk.injEq] at htr
      rw [readHeadD_found hb hf, htr.1, ← htr.2]
      simp

end HeadModel
end Servlin
