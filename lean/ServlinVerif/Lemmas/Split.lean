import ServlinVerif.Basic.Bytes
/- Lemmas about `splitOn` (Rust `split(byte)`). -/
namespace Servlin

theorem splitOn_no_sep (sep : UInt8) (a : Bytes) (h : ∀ b ∈ a, b ≠ sep) : splitOn sep a = [a] := by
  induction a with
  | nil => rfl
  | cons x t ih =>
    have ht := ih (fun b hb => h b (List.mem_cons_of_mem _ hb))
    have hx : x ≠ sep := h x (by simp)
    simp [splitOn, ht, hx]

theorem splitOn_append_sep (sep : UInt8) (a rest : Bytes) (h : ∀ b ∈ a, b ≠ sep) :
    splitOn sep (a ++ sep :: rest) = a :: splitOn sep rest := by
  induction a with
  | nil =>
    simp only [List.nil_append, splitOn]
    cases hs : splitOn sep rest with
    | nil =>
      exfalso
      cases rest with
      | nil => simp [splitOn] at hs
      | cons r rs => simp only [splitOn] at hs; split at hs <;> (try split at hs) <;> simp at hs
    | cons p ps => simp
  | cons x t ih =>
    have ht := ih (fun b hb => h b (List.mem_cons_of_mem _ hb))
    have hx : x ≠ sep := h x (by simp)
    simp [splitOn, ht, hx]

theorem splitOn_ne_nil' (sep : UInt8) (l : Bytes) : splitOn sep l ≠ [] := by
  induction l with
  | nil => simp [splitOn]
  | cons b t ih =>
    unfold splitOn
    cases h : splitOn sep t with
    | nil => exact absurd h ih
    | cons p ps => simp only []; split <;> simp

/-- Joining the pieces with the separator gives the input back, and no piece contains it. -/
theorem splitOn_spec (sep : UInt8) (l : Bytes) :
    (∀ p ∈ splitOn sep l, ∀ b ∈ p, b ≠ sep) ∧
    l = ((splitOn sep l).intersperse [sep]).flatten := by
  induction l with
  | nil => simp [splitOn]
  | cons x t ih =>
    unfold splitOn
    cases hs : splitOn sep t with
    | nil => exact absurd hs (splitOn_ne_nil' sep t)
    | cons p ps =>
      rw [hs] at ih
      obtain ⟨ih1, ih2⟩ := ih
      simp only
      by_cases hx : x = sep
      · subst hx
        simp only [beq_self_eq_true, if_true]
        refine ⟨?_, ?_⟩
        · intro q hq
          simp only [List.mem_cons] at hq
          rcases hq with rfl | hq
          · simp
          · exact ih1 q (by simp only [List.mem_cons]; exact hq)
        · rw [List.intersperse_cons₂ ]; simp only [List.flatten_cons, List.nil_append, List.singleton_append]
          rw [← ih2]
      · have hx' : (x == sep) = false := by simpa using hx
        simp only [hx', Bool.false_eq_true, if_false]
        refine ⟨?_, ?_⟩
        · intro q hq
          simp only [List.mem_cons] at hq
          rcases hq with rfl | hq
          · intro b hb
            simp only [List.mem_cons] at hb
            rcases hb with rfl | hb
            · exact hx
            · exact ih1 p (by simp) b hb
          · exact ih1 q (by simp only [List.mem_cons]; exact Or.inr hq)
        · cases ps with
          | nil => simp only [List.intersperse_singleton, List.flatten_cons, List.flatten_nil, List.append_nil] at ih2 ⊢; rw [ih2]
          | cons p2 ps2 =>
            rw [List.intersperse_cons₂] at ih2 ⊢
            simp only [List.flatten_cons, List.cons_append] at ih2 ⊢
            rw [ih2]

end Servlin
