import ServlinVerif.Basic.Bytes
/-
  Model of `src/event.rs`: `Event::write_to` / `push_to` (SSE block encoding via `str::lines`).
  Event text is modelled as UTF-8 bytes; `str::lines` only looks at LF and CR bytes, which never
  occur inside multi-byte sequences.
-/
namespace Servlin
namespace EventModel

inductive Event where
  | message (data : Bytes)
  | custom (type data : Bytes)
deriving Repr, DecidableEq

/-- Rust `str::lines`: lines are terminated by LF or CRLF (the terminator is removed); a final
    unterminated piece is a line only if it is non-empty, and keeps a trailing bare CR. -/
def rustLines (s : Bytes) : List Bytes :=
  let parts := splitOn 10 s
  let terminated := parts.dropLast.map fun l => if l.getLast? = some 13 then l.dropLast else l
  match parts.getLast? with
  | some last => if last = [] then terminated else terminated ++ [last]
  | none => terminated

/-- `Event::push_to` / `write_to`: `event: <type>\n` for custom events, then one `data: <line>\n`
    per line of the data — and nothing else (no terminating blank line). -/
def encode : Event → Bytes
  | .message d => ((rustLines d).map fun l => b!"data: " ++ l ++ [10]).flatten
  | .custom t d => b!"event: " ++ t ++ [10] ++ ((rustLines d).map fun l => b!"data: " ++ l ++ [10]).flatten

/-- `Event::custom(type, data)`: refused when the type contains CR or LF. -/
def custom? (t d : Bytes) : Option Event :=
  if t.contains 13 || t.contains 10 then none else some (.custom t d)

end EventModel
end Servlin
