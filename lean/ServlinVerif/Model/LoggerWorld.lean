import ServlinVerif.Model.Logger
/-
  Model of the process-global logger state of `src/log/logger.rs` (`GLOBAL_LOGGER`: none / the sender passed to
  `set_global_logger` / the stdout default started by the first logging call) together with the per-thread tag lists
  (`THREAD_LOCAL_TAGS`), as one transition system over the operations of any number of threads.
-/
namespace Servlin
namespace LoggerWorld
open JsonModel LoggerModel

inductive G where
  | none
  | installed (id : Nat) (alive : Bool)
  | default
deriving Repr, DecidableEq

inductive Op where
  | addTag (t : Nat) (tag : Tag)
  | clear (t : Nat)
  | log (t : Nat) (level : Level) (tags : List Tag)
  | setLogger
  | dropGuard
  | dropReceiver
deriving Repr, DecidableEq

/-- Where one logging call went. -/
inductive Outcome where
  | toLogger (id : Nat) (e : Event)
  | toDefault (e : Event)
  | stopped
deriving Repr, DecidableEq

structure World where
  g : G := .none
  nextId : Nat := 0
  tags : Nat → List Tag := fun _ => []
  out : List (Nat × Outcome) := []      -- (calling thread, outcome), one entry per logging call

def step (w : World) : Op → World
  | .addTag t tag => { w with tags := fun x => if x = t then w.tags t ++ [tag] else w.tags x }
  | .clear t => { w with tags := fun x => if x = t then [] else w.tags x }
  | .setLogger =>
    match w.g with
    | .installed .. => w                                   -- `Err(GlobalLoggerAlreadySetError)`
    | _ => { w with g := .installed w.nextId true, nextId := w.nextId + 1 }
  | .dropGuard => match w.g with | .installed .. => { w with g := .none } | _ => w
  | .dropReceiver => match w.g with | .installed id _ => { w with g := .installed id false } | _ => w
  | .log t level tags =>
    let e := LoggerModel.log (w.tags t) level tags
    match w.g with
    | .installed id true => { w with out := w.out ++ [(t, .toLogger id e)] }
    | .installed _ false => { w with out := w.out ++ [(t, .stopped)] }
    | .default => { w with out := w.out ++ [(t, .toDefault e)] }
    | .none => { w with g := .default, out := w.out ++ [(t, .toDefault e)] }   -- starts the stdout default

def run (w : World) (ops : List Op) : World := ops.foldl step w

end LoggerWorld
end Servlin
