import ServlinVerif.Model.Request
/-
  Model of `src/cookie.rs`: `Cookie` and its `Display` (one Set-Cookie field value per cookie).
  `expires = none` is `SystemTime::UNIX_EPOCH` (unset); `maxAge = 0` is `Duration::ZERO` (unset).
-/
namespace Servlin
namespace CookieModel

inductive SameSite where
  | strict | lax | none
deriving Repr, DecidableEq

structure Cookie where
  name : Bytes
  value : Bytes
  domain : Bytes := []
  expires : Option Bytes := none     -- already rendered ISO-8601 text (C16), when set
  httpOnly : Bool := true
  maxAge : Nat := 30 * 24 * 60 * 60  -- `Duration::as_secs()`
  maxAgeSubsec : Bool := false       -- the duration has a non-zero sub-second part
  path : Bytes := []
  sameSite : SameSite := .strict
  secure : Bool := true
deriving Repr, DecidableEq

/-- Decimal rendering (Rust `Display` for `u64`), least significant digit last. -/
def decimal (n : Nat) : Bytes :=
  if h : n < 10 then [48 + n.toUInt8] else decimal (n / 10) ++ [48 + (n % 10).toUInt8]
termination_by n
decreasing_by omega

/-- The attribute strings, in the fixed order Domain, Expires, HttpOnly, Max-Age, Path, SameSite, Secure. -/
def attrs (c : Cookie) : List Bytes :=
  (if c.domain ≠ [] then [b!"Domain=" ++ c.domain] else []) ++
  (match c.expires with | some e => [b!"Expires=" ++ e] | none => []) ++
  (if c.httpOnly then [b!"HttpOnly"] else []) ++
  (if c.maxAge > 0 ∨ c.maxAgeSubsec then [b!"Max-Age=" ++ decimal c.maxAge] else []) ++
  (if c.path ≠ [] then [b!"Path=" ++ c.path] else []) ++
  [match c.sameSite with
   | .strict => b!"SameSite=Strict" | .lax => b!"SameSite=Lax" | .none => b!"SameSite=None"] ++
  (if c.secure then [b!"Secure"] else [])

/-- `impl Display for Cookie`: `name=value` followed by `; <attr>` for every attribute. -/
def render (c : Cookie) : Bytes :=
  c.name ++ [61] ++ c.value ++ ((attrs c).map fun a => b!"; " ++ a).flatten

end CookieModel
end Servlin
