import ServlinVerif.Model.Response
/-
  Model of `src/http_error.rs`: the error enum, `is_server_error`, `description` and
  `impl From<HttpError> for Response`.  Payload strings are variables: the theorems of C20 quantify
  over them.
-/
namespace Servlin

inductive HttpError where
  | alreadyGotBody | bodyNotAvailable | bodyNotRead | bodyNotUtf8 | bodyTooLong
  | cacheDirNotConfigured | disconnected | duplicateContentLengthHeader
  | duplicateContentTypeHeader | duplicateTransferEncodingHeader
  | errorReadingFile (kind : String) (msg : Bytes)
  | errorReadingResponseBody (kind : String) (msg : Bytes)
  | errorSavingFile (kind : String) (msg : Bytes)
  | handlerDeadlineExceeded | headTooLong | invalidContentLength | malformedCookieHeader
  | malformedHeaderLine | malformedPath | malformedRequestLine | missingRequestLine
  | responseAlreadySent | responseNotSent | timerThreadNotStarted | truncated
  | unsupportedProtocol | unsupportedTransferEncoding | unwritableResponse
deriving Repr, DecidableEq

namespace HttpError

def name : HttpError → String
  | alreadyGotBody => "AlreadyGotBody" | bodyNotAvailable => "BodyNotAvailable"
  | bodyNotRead => "BodyNotRead" | bodyNotUtf8 => "BodyNotUtf8" | bodyTooLong => "BodyTooLong"
  | cacheDirNotConfigured => "CacheDirNotConfigured" | disconnected => "Disconnected"
  | duplicateContentLengthHeader => "DuplicateContentLengthHeader"
  | duplicateContentTypeHeader => "DuplicateContentTypeHeader"
  | duplicateTransferEncodingHeader => "DuplicateTransferEncodingHeader"
  | errorReadingFile .. => "ErrorReadingFile"
  | errorReadingResponseBody .. => "ErrorReadingResponseBody"
  | errorSavingFile .. => "ErrorSavingFile"
  | handlerDeadlineExceeded => "HandlerDeadlineExceeded" | headTooLong => "HeadTooLong"
  | invalidContentLength => "InvalidContentLength"
  | malformedCookieHeader => "MalformedCookieHeader"
  | malformedHeaderLine => "MalformedHeaderLine" | malformedPath => "MalformedPath"
  | malformedRequestLine => "MalformedRequestLine" | missingRequestLine => "MissingRequestLine"
  | responseAlreadySent => "ResponseAlreadySent" | responseNotSent => "ResponseNotSent"
  | timerThreadNotStarted => "TimerThreadNotStarted" | truncated => "Truncated"
  | unsupportedProtocol => "UnsupportedProtocol"
  | unsupportedTransferEncoding => "UnsupportedTransferEncoding"
  | unwritableResponse => "UnwritableResponse"

/-- `HttpError::is_server_error`. -/
def isServerError : HttpError → Bool
  | alreadyGotBody | bodyNotAvailable | bodyNotRead | cacheDirNotConfigured
  | duplicateContentLengthHeader | duplicateContentTypeHeader | duplicateTransferEncodingHeader
  | errorReadingFile .. | errorReadingResponseBody .. | errorSavingFile ..
  | handlerDeadlineExceeded | responseAlreadySent | responseNotSent | unwritableResponse => true
  | _ => false

/-- `HttpError::description` for the payload-free variants: `"HttpError::<Variant>"`. -/
def description (e : HttpError) : Bytes :=
  match e with
  | errorReadingFile k m => str ("HttpError::ErrorReadingFile: " ++ k ++ ": ") ++ m
  | errorReadingResponseBody k m => str ("HttpError::ErrorReadingResponseBody: " ++ k ++ ": ") ++ m
  | errorSavingFile k m => str ("HttpError::ErrorSavingFile: " ++ k ++ ": ") ++ m
  | e => str ("HttpError::" ++ e.name)

/-- `impl From<HttpError> for Response`. -/
def toResponse (e : HttpError) : Response :=
  match e with
  | bodyNotUtf8 | invalidContentLength | malformedCookieHeader | malformedHeaderLine
  | malformedPath | malformedRequestLine | missingRequestLine | truncated
  | unsupportedTransferEncoding => Response.text 400 e.description
  | disconnected => Response.dropConnection
  | bodyTooLong => Response.text 413 (str "Uploaded data is too big.")
  | headTooLong => Response.text 431 e.description
  | unsupportedProtocol => Response.text 505 e.description
  | _ => Response.text 500 (str "Internal server error")

/-- `impl From<std::io::Error> for Response`: of all error kinds only `InvalidData` (unparsable request data) is the client's
    fault; the error's own text is never used. -/
def ofIoError (invalidData : Bool) (_text : Bytes) : Response :=
  if invalidData then Response.text 400 (str "Bad request") else Response.text 500 (str "Internal server error")

/-- The response `log_response(Err(e))` hands back: the one the handler attached to the error, else an empty 500.
    The error's message and tags go to the log only. -/
def ofLogError (attached : Option Response) (_msg : Option Bytes) : Response :=
  attached.getD (Response.new 500)

end HttpError
end Servlin
