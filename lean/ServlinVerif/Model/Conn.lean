import ServlinVerif.Model.Request
import ServlinVerif.Model.Serialize
/-
  Model of `src/http_conn.rs`: `HttpConn` (read/write protocol state machine over one TCP
  connection), `handle_http_conn_once` and the `handle_http_conn` loop, plus the handler wrapper of
  `HttpServerBuilder::spawn` (panic ⇒ 500).

  * `input` = the bytes the client has sent and the server has not consumed yet (buffer ++ socket),
    followed by EOF (scenarios half-close after their script; C01 proves fragmentation is irrelevant).
  * `wire` = everything written to the socket so far (the client reads all of it).
  * temp files: `live` are the upload files that currently exist in the cache directory.
  * the URL parser, the handler and file-system faults are parameters.
-/
namespace Servlin
namespace ConnModel
open RequestModel

inductive ReadState where
  | head
  | body (len : Option Nat) (expect chunked gzip : Bool)
  | shutdown
deriving Repr, DecidableEq

inductive WriteState where
  | none | response | shutdown
deriving Repr, DecidableEq

structure Conn where
  rs : ReadState := .head
  ws : WriteState := .none
  input : Bytes
  wire : Bytes := []
  live : List Nat := []        -- upload temp files present in the cache dir
  created : Nat := 0           -- number of temp files created so far (next id)
  maxLive : Nat := 0
  written : Nat := 0           -- the largest number of body bytes written to any one upload file so far
  inputErr : Bool := false     -- the client's stream ends with a socket error (reset) instead of end-of-stream
deriving Repr, DecidableEq

def cap : Nat := 8192

def isReady (c : Conn) : Bool := c.rs == .head && c.ws == .none

/-- `shutdown_write` -/
def shutdownWrite (c : Conn) : Conn := { c with ws := .shutdown }

/-- `HttpConn::write_response`: guards, `close` for 5xx, then the serialiser; a failure after some
    bytes shuts the write side down.  (The peer reads everything: no socket failure here.) -/
def writeResponse (c : Conn) (r : Response) : Conn × Except HttpError Unit :=
  match c.ws with
  | .none => (c, .error .responseAlreadySent)
  | .shutdown => (c, .error .disconnected)
  | .response =>
    let close := 500 ≤ r.code && r.code ≤ 599
    let out := Serialize.intended false r close
    let c := { c with wire := c.wire ++ out.1 }
    match out.2 with
    | .ok () =>
      let c := if r.code / 100 == 1 then c else { c with ws := .none }
      (if close then shutdownWrite c else c, .ok ())
    | .error e => (if out.1.length > 0 then shutdownWrite c else c, .error e)

/-- `HttpConn::write_http_continue` -/
def writeContinue (c : Conn) : Conn × Except HttpError Unit :=
  match c.ws with
  | .none => (c, .error .responseAlreadySent)
  | .shutdown => (c, .error .disconnected)
  | .response => writeResponse c (Response.new 100)

/-- `HttpConn::read_request` (the URL parser is a parameter). -/
def readRequest (u : Bytes → Option Url) (c : Conn) : Conn × Except HttpError ReqMeta :=
  match c.ws with
  | .response => (c, .error .responseNotSent)
  | .shutdown => (c, .error .disconnected)
  | .none =>
    match c.rs with
    | .body .. => (c, .error .bodyNotRead)
    | .shutdown => (c, .error .disconnected)
    | .head =>
      let c := { c with ws := .response }
      let (out, left) := readRequestD false false u cap c.input
      let c := { c with input := left }
      match out with
      | .ok m =>
        let rs := match m.body with
          | .pendingKnown n => ReadState.body (some n) m.expectContinue m.chunked m.gzip
          | .pendingUnknown => ReadState.body none m.expectContinue m.chunked m.gzip
          | .empty => ReadState.head
        ({ c with rs := rs }, .ok m)
      | .err e => (c, .error e)
      | .panic => (c, .error .unwritableResponse)   -- unreachable (C01_total); any marker

inductive BodyVal where
  | vec (b : Bytes)
  | file (id : Nat) (b : Bytes)
deriving Repr, DecidableEq

/-- `HttpConn::read_body_to_vec` -/
def readBodyToVec (c : Conn) : Conn × Except HttpError BodyVal :=
  match c.rs with
  | .head => (c, .error .bodyNotAvailable)
  | .shutdown => (c, .error .disconnected)
  | .body len expect chunked gzip =>
    if chunked || gzip then (c, .error .unsupportedTransferEncoding) else
    let (c, cont) := if expect then writeContinue c else (c, .ok ())
    match cont with
    | .error e => (c, .error e)
    | .ok () =>
      match len with
      | some n =>
        let c := { c with rs := .head }
        if n ≤ c.input.length then ({ c with input := c.input.drop n }, .ok (.vec (c.input.take n)))
        else ({ c with input := [] }, .error .truncated)
      | none =>
        let c := { c with rs := .shutdown }
        -- `read_to_end`: the body runs to the end of the stream; a read error is `Truncated`, not the end
        if c.inputErr then ({ c with input := [] }, .error .truncated)
        else ({ c with input := [] }, .ok (.vec c.input))

/-- File-system behaviour of one upload: creating the temp file may fail; writing may fail. -/
structure FsFault where
  createFails : Bool := false
  writeFails : Bool := false
deriving Repr, DecidableEq

def newFile (c : Conn) : Conn × Nat :=
  let id := c.created
  let live := id :: c.live
  ({ c with created := id + 1, live := live, maxLive := max c.maxLive live.length }, id)

def dropFile (c : Conn) (id : Nat) : Conn := { c with live := c.live.filter (· ≠ id) }

/-- Creating the temp file, copying `got` into it, closing it; `bad` is the verdict reached after the
    copy (`Truncated`, `BodyTooLong`), if any.  Every early return drops the `TempFile` guard, which
    deletes the file; only success moves the guard into the returned body. -/
def storeUpload (c : Conn) (fs : FsFault) (got : Bytes) (bad : Option HttpError) : Conn × Except HttpError BodyVal :=
  if fs.createFails then (c, .error (.errorSavingFile "" [])) else
  let id := c.created
  let c := (newFile c).1
  -- at most `got` is copied into the file (a failing write stops earlier)
  let c := { c with written := max c.written got.length }
  if fs.writeFails && got.length > 0 then (dropFile c id, .error (.errorSavingFile "" []))
  else match bad with
    | some e => (dropFile c id, .error e)
    | none => (c, .ok (.file id got))

/-- `HttpConn::read_body_to_file(dir, max_len)`; the repaired code uses `max_len.saturating_add(1)`. -/
def readBodyToFile (c : Conn) (maxLen : Nat) (fs : FsFault) : Conn × Except HttpError BodyVal :=
  match c.rs with
  | .head => (c, .error .bodyNotAvailable)
  | .shutdown => (c, .error .disconnected)
  | .body len expect chunked gzip =>
    if chunked || gzip then (c, .error .unsupportedTransferEncoding) else
    match len with
    | some n =>
      if n > maxLen then (c, .error .bodyTooLong) else
      let w := if expect then writeContinue c else (c, .ok ())
      match w.2 with
      | .error e => (w.1, .error e)
      | .ok () =>
        let c := w.1
        let got := c.input.take n
        storeUpload { c with rs := .head, input := c.input.drop n } fs got
          (if got.length < n then some .truncated else none)
    | none =>
      let w := if expect then writeContinue c else (c, .ok ())
      match w.2 with
      | .error e => (w.1, .error e)
      | .ok () =>
        let c := w.1
        let lim := min (maxLen + 1) (2 ^ 64 - 1)
        let got := c.input.take lim
        -- bytes beyond `max_len + 1` stay unread on the socket; the connection is closed afterwards.
        -- A read error met before the limit is `Truncated` (`CopyResult::ReaderErr`), not the end of the body.
        storeUpload { c with rs := .shutdown, input := c.input.drop lim } fs got
          (if c.inputErr && c.input.length < lim then some .truncated
           else if maxLen < got.length then some .bodyTooLong else none)

/-! ### Arbitrary call sequences (C05) -/

inductive Op where
  | readRequest
  | readBodyToVec
  | readBodyToFile (maxLen : Nat) (fs : FsFault)
  | writeContinue
  | writeResponse (r : Response)
  | shutdownWrite
deriving Repr, DecidableEq

/-- Result of a call, reduced to what the contract speaks about. -/
inductive OpRes where
  | ok
  | err (e : HttpError)
deriving Repr, DecidableEq

def resOf {α : Type} : Except HttpError α → OpRes
  | .ok _ => .ok
  | .error e => .err e

def step (u : Bytes → Option Url) (c : Conn) : Op → Conn × OpRes
  | .readRequest => let r := readRequest u c; (r.1, resOf r.2)
  | .readBodyToVec => let r := readBodyToVec c; (r.1, resOf r.2)
  | .readBodyToFile m fs => let r := readBodyToFile c m fs; (r.1, resOf r.2)
  | .writeContinue => let r := writeContinue c; (r.1, resOf r.2)
  | .writeResponse resp => let r := writeResponse c resp; (r.1, resOf r.2)
  | .shutdownWrite => (shutdownWrite c, .ok)

def run (u : Bytes → Option Url) (c : Conn) : List Op → Conn
  | [] => c
  | op :: ops => run u (step u c op).1 ops

/-! ### `handle_http_conn_once` / `handle_http_conn` -/

/-- What the application handler is shown. -/
structure ReqView where
  req : ReqMeta
  body : Option BodyVal     -- `none` = pending
deriving Repr, DecidableEq

inductive HandlerOut where
  | normal (r : Response)
  | getBody (maxLen : Nat)
  | drop
  | panic
deriving Repr, DecidableEq

/-- The wrapper in `HttpServerBuilder::spawn`: a panicking handler yields `text(500, "Server error")`. -/
def asResponse : HandlerOut → Response
  | .normal r => r
  | .getBody m => Response.getBodyAndReprocess m
  | .drop => Response.dropConnection
  | .panic => Response.text 500 (b!"Server error")

structure Cfg where
  smallBodyLen : Nat
  cacheDir : Bool
  fs : FsFault := {}
deriving Repr, DecidableEq

/-- One handler invocation, as the log of calls records it. -/
structure Call where
  view : ReqView
  out : HandlerOut
deriving Repr, DecidableEq

/-- Drops the upload file a body value owns (the `Request` is dropped). -/
def dropBody (c : Conn) : Option BodyVal → Conn
  | some (.file id _) => dropFile c id
  | _ => c

/-- The first handler call for a request whose body is still pending (`legacyTwice = true`: the
    pinned tree ignored a normal first answer and fell through to a second call). -/
def firstCall (legacyTwice : Bool) (cfg : Cfg) (handler : ReqView → HandlerOut) (c : Conn) (m : ReqMeta) :
    Conn × Except HttpError (Option BodyVal × Option Response) × List Call :=
  let view : ReqView := ⟨m, none⟩
  let out := handler view
  let call : Call := ⟨view, out⟩
  match (asResponse out).kind with
  | .normal => if legacyTwice then (c, .ok (none, none), [call]) else (c, .ok (none, some (asResponse out)), [call])
  | .dropConnection => (c, .error .disconnected, [call])
  | .getBodyAndReprocess maxLen =>
    if !cfg.cacheDir then (c, .error .cacheDirNotConfigured, [call]) else
    match readBodyToFile c maxLen cfg.fs with
    | (c, .ok b) => (c, .ok (some b, none), [call])
    | (c, .error e) => (c, .error e, [call])

/-- The body stage of `handle_http_conn_once`: small declared bodies are read into memory without
    asking; larger or undeclared-length bodies lead to a first handler call with the body pending.
    Result: the body the (next) handler call will see, or an early response. -/
def bodyStage (legacyTwice : Bool) (cfg : Cfg) (handler : ReqView → HandlerOut) (c : Conn) (m : ReqMeta) :
    Conn × Except HttpError (Option BodyVal × Option Response) × List Call :=
  match m.body with
  | .empty => (c, .ok (some (.vec []), none), [])
  | .pendingKnown n =>
    if n ≤ cfg.smallBodyLen then
      match readBodyToVec c with
      | (c, .ok b) => (c, .ok (some b, none), [])
      | (c, .error e) => (c, .error e, [])
    else firstCall legacyTwice cfg handler c m
  | .pendingUnknown => firstCall legacyTwice cfg handler c m

/-- Sending the final answer of an exchange. -/
def finish (c : Conn) (body : Option BodyVal) (resp : Response) (calls : List Call) :
    Conn × Except HttpError Unit × List Call :=
  match resp.kind with
  | .dropConnection => (dropBody c body, .error .disconnected, calls)
  | .getBodyAndReprocess _ => (dropBody c body, .error .alreadyGotBody, calls)
  | .normal =>
    let w := writeResponse c resp
    let c := dropBody w.1 body
    if resp.code / 100 == 4 || resp.code / 100 == 5 then (c, .error .disconnected, calls) else (c, w.2, calls)

/-- `handle_http_conn_once` (repaired code: a pending-body request that the handler answers
    directly is answered with that response). -/
def handleOnce (legacyTwice : Bool) (u : Bytes → Option Url) (cfg : Cfg) (handler : ReqView → HandlerOut)
    (c : Conn) : Conn × Except HttpError Unit × List Call :=
  match readRequest u c with
  | (c, .error e) => (c, .error e, [])
  | (c, .ok m) =>
    match bodyStage legacyTwice cfg handler c m with
    | (c, .error e, calls) => (c, .error e, calls)
    | (c, .ok (body, some resp), calls) => finish c body resp calls
    | (c, .ok (body, none), calls) =>
      let view : ReqView := ⟨m, body⟩
      let out := handler view
      finish c body (asResponse out) (calls ++ [⟨view, out⟩])

/-- `handle_http_conn`: loop until an error; on an error other than `Disconnected` try to send the
    error's response and shut the write side down. -/
def handleConn (legacyTwice : Bool) (u : Bytes → Option Url) (cfg : Cfg) (handler : ReqView → HandlerOut) :
    Nat → Conn → List Call → Conn × List Call
  | 0, c, calls => (c, calls)
  | fuel + 1, c, calls =>
    if !isReady c then (c, calls) else
    match handleOnce legacyTwice u cfg handler c with
    | (c, .ok (), cs) => handleConn legacyTwice u cfg handler fuel c (calls ++ cs)
    | (c, .error .disconnected, cs) => (c, calls ++ cs)
    | (c, .error e, cs) =>
      let (c, _) := writeResponse c e.toResponse
      (shutdownWrite c, calls ++ cs)

end ConnModel
end Servlin
