import ServlinVerif.Model.Json
/-
  Model of `src/log/logger.rs` + `src/log/mod.rs`: per-thread tag lists, `log()` (extend with the
  caller's thread tags, stable sort by the priority table, send to the installed logger),
  `log_response` and `log_request_and_response`.
-/
namespace Servlin
namespace LoggerModel
open JsonModel

inductive Level where
  | error | info | debug
deriving Repr, DecidableEq

def Level.text : Level → List Char
  | .error => "error".toList | .info => "info".toList | .debug => "debug".toList

structure Event where
  level : Level
  tags : List Tag
deriving Repr, DecidableEq

/-- The priority table of `log()`'s `sort_by_key`. -/
def prio (name : List Char) : Nat :=
  if name = "msg".toList then 0
  else if name = "http_method".toList then 1
  else if name = "path".toList then 2
  else if name = "request_body_len".toList then 3
  else if name = "request_body".toList then 4
  else if name = "response_body_len".toList then 5
  else 99

/-- Stable insertion: after every element whose priority is not greater. -/
def insertByPrio (t : Tag) : List Tag → List Tag
  | [] => [t]
  | x :: xs => if prio x.name ≤ prio t.name then x :: insertByPrio t xs else t :: x :: xs

/-- `sort_by_key` (stable), as an insertion sort. -/
def sortByPrio (l : List Tag) : List Tag := l.foldl (fun acc t => insertByPrio t acc) []

/-- The logger installed at the moment of the call. -/
inductive Sink where
  | installed (alive : Bool)   -- `set_global_logger(sender)`; `alive` = its receiver still exists
  | none                       -- nothing installed: the stdout default logger is started and used
deriving Repr, DecidableEq

/-- `log(time, level, tags)`: returns the event built and whether the call reports `LoggerStopped`. -/
def log (threadTags : List Tag) (level : Level) (callTags : List Tag) : Event :=
  ⟨level, sortByPrio (callTags ++ threadTags)⟩

/-- Outcome of one logging call. -/
structure Logged where
  toInstalled : List Event   -- events delivered to the installed logger's channel
  toDefault : List Event     -- events delivered to the stdout default logger
  stopped : Bool             -- the call returned `Err(LoggerStoppedError)`
deriving Repr, DecidableEq

def deliver (sink : Sink) (e : Event) : Logged :=
  match sink with
  | .installed true => ⟨[e], [], false⟩
  | .installed false => ⟨[], [], true⟩
  | .none => ⟨[], [e], false⟩

/-- What a wrapped handler returned. -/
inductive HandlerResult where
  | ok (code : Nat) (bodyLen : Option Nat)
  | err (response : Option (Nat × Option Nat)) (tags : List Tag) (msg : Option (List Char))
deriving Repr, DecidableEq

def intTag (name : String) (n : Nat) : Tag := ⟨name.toList, .int n⟩

/-- `log_response`: the response handed back, and the (level, call tags) that are logged. -/
def logResponse (r : HandlerResult) : (Nat × Option Nat) × Level × List Tag :=
  match r with
  | .ok code len =>
    ((code, len), .info, [intTag "code" code] ++ (match len with | some n => [intTag "response_body_len" n] | none => []))
  | .err resp tags msg =>
    let (code, len) := resp.getD (500, some 0)
    ((code, len), .error,
      tags ++ (match msg with | some m => [⟨"msg".toList, .str m⟩] | none => []) ++ [intTag "code" code] ++
        (match len with | some n => [intTag "response_body_len" n] | none => []))

/-- The thread tags set up by `log_request_and_response` before and after the handler runs:
    a clean set, then method, path, request id, body size (or "pending"), then the duration. -/
def requestTags (method path : List Char) (bodyLen : Option Nat) : List Tag :=
  [⟨"http_method".toList, .str method⟩, ⟨"path".toList, .str path⟩, intTag "request_id" 0] ++
  (match bodyLen with | some n => [intTag "request_body_len" n] | none => [⟨"request_body".toList, .str "pending".toList⟩]) ++
  [intTag "duration_ms" 0]

end LoggerModel
end Servlin
