import ServlinVerif.Model.Head
import ServlinVerif.Model.HttpError
/-
  Model of `read_http_request` (src/request.rs) after the head has been read: which header fields
  are consumed, how content type / expect / transfer codings / cookies / content length are
  derived from the field list, and the body-kind table.
  `legacy = true` is the pinned tree (repeated framing fields treated as absent, `+` accepted).
-/
namespace Servlin

inductive CType where
  | none
  | known (name : String)
  | other (s : Bytes)
deriving Repr, DecidableEq

inductive BodyKind where
  | empty
  | pendingKnown (n : Nat)
  | pendingUnknown
deriving Repr, DecidableEq

structure ReqMeta where
  method : Bytes
  url : Url
  headers : HeaderList
  cookies : List (Bytes × Bytes)      -- insertion order, names unique (later value overrides)
  contentType : CType
  expectContinue : Bool
  chunked : Bool
  gzip : Bool
  contentLength : Option Nat
  body : BodyKind
deriving Repr, DecidableEq

namespace RequestModel

/-- `ContentType::parse`: only the text before the first `;` is compared, case-sensitively. -/
def parseContentType (s : Bytes) : CType :=
  let first := (splitOn 59 s).head!
  let table : List (Bytes × String) := [
    (b!"text/css", "Css"), (b!"text/csv", "Csv"), (b!"text/event-stream", "EventStream"),
    (b!"application/x-www-form-urlencoded", "FormUrlEncoded"), (b!"image/gif", "Gif"),
    (b!"text/html", "Html"), (b!"text/javascript", "JavaScript"), (b!"image/jpeg", "Jpeg"),
    (b!"application/json", "Json"), (b!"text/markdown", "Markdown"),
    (b!"multipart/form-data", "MultipartForm"), (b!"application/octet-stream", "OctetStream"),
    (b!"application/pdf", "Pdf"), (b!"text/plain", "PlainText"), (b!"image/png", "Png"),
    (b!"image/svg+xml", "Svg")]
  if first = [] then .none
  else match table.find? (fun p => p.1 == first) with
    | some p => .known p.2
    | none => .other s

def isDigit (b : UInt8) : Bool := 48 ≤ b && b ≤ 57

def digitsVal (ds : Bytes) : Nat := ds.foldl (fun acc d => acc * 10 + (d.toNat - 48)) 0

/-- Rust `u64::from_str`: optional `+`, at least one digit, value below 2^64. -/
def rustParseU64 (s : Bytes) : Option Nat :=
  let ds := match s with | 43 :: r => r | _ => s
  if ds ≠ [] ∧ ds.all isDigit ∧ digitsVal ds < 2 ^ 64 then some (digitsVal ds) else none

/-- Repaired code: `1*DIGIT` only, value below 2^64. -/
def parseContentLength (s : Bytes) : Option Nat :=
  if s ≠ [] ∧ s.all isDigit ∧ digitsVal s < 2 ^ 64 then some (digitsVal s) else none

/-- Transfer-Encoding value → (gzip, chunked) or unsupported. -/
def parseCodings (v : Bytes) : Option (Bool × Bool) :=
  match ((splitOn 44 v).map trimWs).filter (· ≠ []) with
  | [] => some (false, false)
  | [a] => if a = b!"gzip" then some (true, false) else if a = b!"chunked" then some (false, true) else none
  | [a, b] => if a = b!"gzip" ∧ b = b!"chunked" then some (true, true) else none
  | _ => none

def cookieInsert (m : List (Bytes × Bytes)) (k v : Bytes) : List (Bytes × Bytes) :=
  if m.any (·.1 == k) then m.map (fun p => if p.1 == k then (k, v) else p) else m ++ [(k, v)]

/-- `splitn(2, '=')`. -/
def splitFirstEq : Bytes → Option (Bytes × Bytes)
  | [] => none
  | b :: t => if b = 61 then some ([], t) else (splitFirstEq t).map (fun p => (b :: p.1, p.2))

/-- One `Cookie` field value. -/
def parseCookieValue (m : List (Bytes × Bytes)) (v : Bytes) : Option (List (Bytes × Bytes)) :=
  (((splitOn 59 v).map trimWs).filter (· ≠ [])).foldlM
    (fun m seg => (splitFirstEq seg).map (fun p => cookieInsert m p.1 p.2)) m

def bodyKind (chunked : Bool) (cl : Option Nat) (method : Bytes) (expect gzip : Bool) : BodyKind :=
  if chunked then .pendingUnknown
  else match cl with
    | some 0 => .empty
    | some n => .pendingKnown n
    | none =>
      if method = b!"POST" ∨ method = b!"PUT" then .pendingUnknown
      else if expect ∨ gzip then .pendingUnknown
      else .empty

/-- The three `HeaderList` operations used by `read_http_request`; `classify` uses the model's
    loops (`modelOps`), the proofs switch to the multimap specification via C14. -/
structure HeaderOps where
  removeOnly : HeaderList → Bytes → Option Bytes × HeaderList
  removeAll : HeaderList → Bytes → List Bytes × HeaderList
  getAll : HeaderList → Bytes → List Bytes

def modelOps : HeaderOps := ⟨Headers.removeOnly, Headers.removeAll, Headers.getAll⟩

/-- Everything `read_http_request` does after `read_http_head`. -/
def classifyWith (Headers : HeaderOps) (legacy : Bool) (h : Head) : Except HttpError ReqMeta :=
  let (ct, hs) := Headers.removeOnly h.headers (b!"content-type")
  let contentType := match ct with | some s => parseContentType s | none => CType.none
  let (ex, hs) := Headers.removeOnly hs (b!"expect")
  let expect := ex == some (b!"100-continue")
  let (tes, hs) := Headers.removeAll hs (b!"transfer-encoding")
  let teValue : Option Bytes :=
    match tes with
    | [] => some []
    | [v] => some v
    | _ => if legacy then some [] else none
  match teValue.bind parseCodings with
  | none => .error .unsupportedTransferEncoding
  | some (gzip, chunked) =>
    match (Headers.getAll hs (b!"cookie")).foldlM parseCookieValue [] with
    | none => .error .malformedCookieHeader
    | some cookies =>
      let cls := Headers.getAll hs (b!"content-length")
      let cl : Option (Option Nat) :=
        match cls with
        | [] => some none
        | [s] => ((if legacy then rustParseU64 s else parseContentLength s)).map some
        | _ => if legacy then some none else none
      match cl with
      | none => .error .invalidContentLength
      | some contentLength =>
        .ok { method := h.method, url := h.url, headers := hs, cookies, contentType,
              expectContinue := expect, chunked, gzip, contentLength,
              body := bodyKind chunked contentLength h.method expect gzip }

def classify (legacy : Bool) (h : Head) : Except HttpError ReqMeta := classifyWith modelOps legacy h

/-- Outcome of `read_http_request` on a stream. -/
inductive ReqOut where
  | ok (m : ReqMeta)
  | err (e : HttpError)
  | panic
deriving Repr, DecidableEq

def headErr : HeadError → HttpError
  | .truncated => .truncated
  | .missingRequestLine => .missingRequestLine
  | .malformedRequestLine => .malformedRequestLine
  | .malformedPath => .malformedPath
  | .unsupportedProtocol => .unsupportedProtocol
  | .malformedHeader => .malformedHeaderLine

open HeadModel in
def ofReadOut (legacy : Bool) : ReadOut → ReqOut
  | .ok h => match classify legacy h with | .ok m => .ok m | .error e => .err e
  | .err e => .err (headErr e)
  | .headTooLong => .err .headTooLong
  | .truncated => .err .truncated
  | .disconnected => .err .disconnected
  | .panic => .panic

open HeadModel in
/-- `read_http_request` over a scripted stream (operational). -/
def readRequestOp (legacy pan : Bool) (urlParse : Bytes → Option Url) (cap : Nat) (sched : Nat → Nat)
    (buf stream : Bytes) : ReqOut × Bytes × Bytes :=
  let r := readHeadOp pan urlParse cap sched 0 buf stream
  (ofReadOut legacy r.1, r.2.1, r.2.2)

open HeadModel in
/-- Denotational: function of the concatenated bytes. Returns outcome and the bytes left for the
    next message (buffer ++ unread stream). -/
def readRequestD (legacy pan : Bool) (urlParse : Bytes → Option Url) (cap : Nat) (all : Bytes) : ReqOut × Bytes :=
  let r := readHeadD pan urlParse cap all
  (ofReadOut legacy r.1, r.2)

end RequestModel
end Servlin
