import ServlinVerif.Model.Response
/-
  Model of `copy_chunked_async` (src/util.rs): per read of 1..65528 bytes the code fills
  `buf[0..4]` with four hex nibbles, CRLF, the data, CRLF, and writes the buffer with *all leading
  '0' bytes trimmed*; after a 0-byte read it writes `0\r\n\r\n`; a reader error ends the copy
  without the terminator.
-/
namespace Servlin
namespace Chunked

/-- `hex_digit`; the last arm is `unimplemented!()`, unreachable because callers pass `& 0xF`. -/
def hexDigit (n : Nat) : UInt8 :=
  match n with
  | 0 => 48 | 1 => 49 | 2 => 50 | 3 => 51 | 4 => 52 | 5 => 53 | 6 => 54 | 7 => 55 | 8 => 56
  | 9 => 57 | 10 => 97 | 11 => 98 | 12 => 99 | 13 => 100 | 14 => 101 | 15 => 102
  | _ => 0

/-- `trim_prefix(slice, prefix)`. -/
def trimPrefix (p : UInt8) : Bytes → Bytes
  | [] => []
  | b :: bs => if b = p then trimPrefix p bs else b :: bs

def crlf : Bytes := [13, 10]

/-- The four size nibbles: `(len >> 12) & 0xF`, `(len >> 8) & 0xF`, `(len >> 4) & 0xF`, `len & 0xF`. -/
def sizeLine (len : Nat) : Bytes :=
  [hexDigit (len / 4096 % 16), hexDigit (len / 256 % 16), hexDigit (len / 16 % 16), hexDigit (len % 16)]

/-- Bytes written for one non-empty read. -/
def encodeChunk (data : Bytes) : Bytes :=
  trimPrefix 48 (sizeLine data.length ++ crlf ++ data ++ crlf)

def terminator : Bytes := [48, 13, 10, 13, 10]

inductive CopyResult where
  | ok (n : Nat)
  | readerErr
  | writerErr
deriving Repr, DecidableEq

/-- `copy_chunked_async` on a reader that delivers `src.pieces` and then EOF or an error, into a
    writer that accepts everything.  Returns (bytes written, result). -/
def copyChunked (src : Source) : Bytes × CopyResult :=
  let body := (src.pieces.map encodeChunk).flatten
  if src.endsWithError then (body, .readerErr)
  else (body ++ terminator, .ok ((src.pieces.map List.length).sum + 3))

/-- The largest piece the encoder reads at once: `buf[6..65534]`. -/
def maxPiece : Nat := 65528

end Chunked
end Servlin
