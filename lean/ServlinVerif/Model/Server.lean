/-
  Model of the connection-slot pool (`src/token_set.rs`), of the accept loop (`src/accept.rs`) with the
  spawn glue of `src/lib.rs`, and of the permit checks of a connection task (`src/http_conn.rs`,
  `handle_http_conn`).  Transition systems: `step … = none` means "this event is not enabled here".
-/
namespace Servlin
namespace Server

/-! ### TokenSet -/

/-- `TokenSet(size)`: a bounded channel pre-filled with `size` units; `live` = `Token`s handed out and not
    yet dropped. -/
structure Tokens where
  size : Nat
  units : Nat
  live : Nat
deriving Repr, DecidableEq

def Tokens.new (size : Nat) : Tokens := ⟨size, size, 0⟩

/-- `wait_token_timeout` / `async_wait_token` polled once / `wait_token` when a unit is there:
    take a unit if there is one. -/
def Tokens.take (t : Tokens) : Tokens × Bool :=
  if t.units > 0 then ({ t with units := t.units - 1, live := t.live + 1 }, true) else (t, false)

/-- `Token::drop`: `try_send(())` — the unit goes back unless the channel is full (then it is lost silently). -/
def Tokens.drop (t : Tokens) : Tokens :=
  if t.live = 0 then t
  else { t with live := t.live - 1, units := if t.units < t.size then t.units + 1 else t.units }

inductive TOp where
  | take      -- t / a / w
  | drop      -- o / y (which of the live tokens is dropped does not matter: they are indistinguishable)
  | alone     -- n: `Token::new()` made and dropped — its own channel, no effect on the set
deriving Repr, DecidableEq

/-- Output: `T` got a token, `O` timed out, `d` dropped one, `-` nothing to drop, `.` stand-alone. -/
def Tokens.step (t : Tokens) : TOp → Tokens × Char
  | .take => let r := t.take; (r.1, if r.2 then 'T' else 'O')
  | .drop => if t.live = 0 then (t, '-') else (t.drop, 'd')
  | .alone => (t, '.')

def Tokens.run (t : Tokens) : List TOp → Tokens × List Char
  | [] => (t, [])
  | op :: ops =>
    let r := t.step op
    let r' := Tokens.run r.1 ops
    (r'.1, r.2 :: r'.2)

/-! ### The accept loop and the connection tasks, as far as slots and the permit are concerned -/

/-- Where the accept loop is.  `accepting` and `sleeping` hold a token. -/
inductive Acc where
  | waitToken    -- awaiting `async_wait_token` (raced against the permit in the repaired code)
  | accepting    -- awaiting `accept()` raced against the permit
  | sleeping     -- accept failed: logging + 500 ms sleep, token still held until the end of the loop body
  | stopped      -- returned: listener dropped, stopped signal sent
deriving Repr, DecidableEq

structure Srv where
  tokens : Tokens
  acc : Acc := .waitToken
  serving : Nat := 0           -- live connection tasks; each owns one token
  revoked : Bool := false
  acceptedAfterRevoke : Nat := 0
deriving Repr, DecidableEq

def Srv.new (maxConns : Nat) : Srv := { tokens := Tokens.new maxConns }

inductive Ev where
  | grant        -- `async_wait_token` completes
  | acceptOk     -- `accept()` yields a connection: a task is spawned and takes the token
  | acceptErr    -- `accept()` fails (EMFILE or any other error)
  | wake         -- the 500 ms sleep is over: loop body ends, token dropped
  | connEnd      -- a connection task ends — normal close, error response, handler panic, dropped by the handler,
                 --   malformed request, client abort mid-request / mid-upload — or its future is dropped: token dropped
  | revoke       -- the permit is revoked
  | seeRevoked   -- the accept loop observes the revocation at an await point that is raced against the permit
deriving Repr, DecidableEq

def Acc.holds : Acc → Nat
  | .accepting | .sleeping => 1
  | _ => 0

/-- `legacy = true`: the pinned tree, where waiting for a token is not raced against the permit. -/
def step (legacy : Bool) (s : Srv) : Ev → Option Srv
  | .grant =>
    if s.acc = .waitToken ∧ s.tokens.units > 0 then
      let t := s.tokens.take.1
      -- `if permit.is_revoked() { return; }` right after the token arrives: the token is dropped
      if s.revoked then some { s with tokens := t.drop, acc := .stopped }
      else some { s with tokens := t, acc := .accepting }
    else none
  | .acceptOk =>
    if s.acc = .accepting then
      some { s with acc := .waitToken, serving := s.serving + 1,
                    acceptedAfterRevoke := if s.revoked then s.acceptedAfterRevoke + 1 else s.acceptedAfterRevoke }
    else none
  | .acceptErr => if s.acc = .accepting then some { s with acc := .sleeping } else none
  | .wake => if s.acc = .sleeping then some { s with acc := .waitToken, tokens := s.tokens.drop } else none
  | .connEnd => if s.serving > 0 then some { s with serving := s.serving - 1, tokens := s.tokens.drop } else none
  | .revoke => some { s with revoked := true }
  | .seeRevoked =>
    if s.revoked then
      if s.acc = .accepting then some { s with acc := .stopped, tokens := s.tokens.drop }
      else if s.acc = .waitToken ∧ !legacy then some { s with acc := .stopped }
      else none
    else none

def run (legacy : Bool) : Srv → List Ev → Option Srv
  | s, [] => some s
  | s, e :: es =>
    match step legacy s e with
    | none => none
    | some s' => run legacy s' es

/-- Accept `k` connections in a row. -/
def fill : Nat → List Ev
  | 0 => []
  | k + 1 => .grant :: .acceptOk :: fill k

/-- The events of the accept loop itself (as opposed to clients, connection tasks and the permit's owner). -/
def Ev.isAcceptLoop : Ev → Bool
  | .grant | .acceptOk | .acceptErr | .wake | .seeRevoked => true
  | _ => false

/-- Accept-loop events that need nothing from outside (no client connecting, no connection ending). -/
def enabledAlone (legacy : Bool) (s : Srv) : List Ev :=
  [Ev.grant, .wake, .seeRevoked].filter fun e => (step legacy s e).isSome

/-! ### A connection task and the permit -/

/-- `handle_http_conn`: `while !permit.is_revoked() { handle_http_conn_once(..) }`. -/
inductive Conn where
  | check       -- top of the loop
  | waiting     -- in `read_request`, nothing or only part of a head received
  | serving     -- request read (head, possibly uploading the body), handler running or response being written
  | closed
deriving Repr, DecidableEq

inductive CEv where
  | loopTop     -- evaluate `!permit.is_revoked()` (and `is_ready`)
  | request     -- a complete request head arrives
  | respond     -- the response has been written completely
  | clientGone  -- EOF / reset / error: the task ends
deriving Repr, DecidableEq

structure ConnSt where
  st : Conn
  responses : Nat := 0
deriving Repr, DecidableEq

/-- `revoked` is the permit's state when the event happens. -/
def cstep (revoked : Bool) (c : ConnSt) : CEv → Option ConnSt
  | .loopTop => if c.st = .check then some { c with st := if revoked then .closed else .waiting } else none
  | .request => if c.st = .waiting then some { c with st := .serving } else none
  | .respond => if c.st = .serving then some { st := .check, responses := c.responses + 1 } else none
  | .clientGone => if c.st = .closed then none else some { c with st := .closed }

def crun (revoked : Bool) : ConnSt → List CEv → Option ConnSt
  | c, [] => some c
  | c, e :: es =>
    match cstep revoked c e with
    | none => none
    | some c' => crun revoked c' es

/-- Requests a connection task serves when `k` are waiting and its permit is revoked by the handler of the `j`-th
    (0: before the task starts; none: never): the loop of `Server.cstep`, the permit read at each `loopTop`. -/
def servedUnder (k : Nat) (j : Option Nat) : Nat → ConnSt → Nat
  | 0, c => c.responses
  | f + 1, c =>
    let rev := match j with | some j => decide (c.responses ≥ j) | none => false
    match cstep rev c .loopTop with
    | some c1 =>
      if c1.st = .closed then c1.responses
      else if c1.responses < k then
        match crun rev c1 [.request, .respond] with
        | some c2 => servedUnder k j f c2
        | none => c1.responses
      else c1.responses
    | none => c.responses

end Server
end Servlin
