/-
  Model of the JSONL log writer: `LogEvent::write_jsonl` (src/log/logger.rs), `Display for TagList`
  (src/log/tag_list.rs) and `Display for TagValue` (src/log/tag_value.rs), after the repair that
  writes names and string values with a JSON string escaper and non-finite floats as `null`.
  Text is a list of Unicode scalar values.
-/
namespace Servlin
namespace JsonModel

inductive TagValue where
  | str (s : List Char)         -- `Str` / `String`
  | bool (b : Bool)
  | int (i : Int)               -- every integer variant (i8 … u128, usize)
  | float (text : List Char)    -- `Float(String)`: Rust's `{}` rendering of the f32/f64
  | null
deriving Repr, DecidableEq

structure Tag where
  name : List Char
  value : TagValue
deriving Repr, DecidableEq

def hexDigit (n : Nat) : Char := if n < 10 then Char.ofNat (48 + n) else Char.ofNat (87 + n)

/-- JSON string escaping: `"` and `\` with a backslash, U+0000..U+001F as `\u00XX`, everything else
    (including DEL and non-printable or astral scalar values) verbatim. -/
def escapeChar (c : Char) : List Char :=
  if c = '"' then ['\\', '"']
  else if c = '\\' then ['\\', '\\']
  else if c.toNat < 0x20 then ['\\', 'u', '0', '0', hexDigit (c.toNat / 16), hexDigit (c.toNat % 16)]
  else [c]

def jsonStr (s : List Char) : List Char := '"' :: (s.flatMap escapeChar ++ ['"'])

/-- Decimal digits of a natural number. -/
def natDec (n : Nat) : List Char :=
  if h : n < 10 then [Char.ofNat (48 + n)] else natDec (n / 10) ++ [Char.ofNat (48 + n % 10)]
termination_by n
decreasing_by omega

def intDec (i : Int) : List Char := if i < 0 then '-' :: natDec i.natAbs else natDec i.natAbs

/-- `Display for TagValue`. -/
def valueText : TagValue → List Char
  | .str s => jsonStr s
  | .bool true => "true".toList
  | .bool false => "false".toList
  | .int i => intDec i
  | .float t => if t = "NaN".toList ∨ t = "inf".toList ∨ t = "-inf".toList then "null".toList else t
  | .null => "null".toList

/-- `Display for TagList`: `"name":value` joined by commas. -/
def tagsText : List Tag → List Char
  | [] => []
  | [t] => jsonStr t.name ++ [':'] ++ valueText t.value
  | t :: rest => jsonStr t.name ++ [':'] ++ valueText t.value ++ [','] ++ tagsText rest

/-- `LogEvent::write_jsonl`: one line. `timeIso` is the 20-character timestamp (C16). -/
def writeJsonl (timeIso level : List Char) (tags : List Tag) (timeNs : Nat) : List Char :=
  "{\"time\":\"".toList ++ timeIso ++ "\",\"level\":\"".toList ++ level ++ "\",".toList ++
  (if tags = [] then [] else tagsText tags ++ [',']) ++ "\"time_ns\":".toList ++ natDec timeNs ++ "}\n".toList

namespace Legacy
/-- The pinned tree used Rust's `{:?}` for names and string values; for control characters other
    than `\t \r \n` that is `\u{X}` (and `\0` for NUL), which is not JSON.  Only this class is modelled
    (it is all the witness theorem needs). -/
def escapeCtl (c : Char) : List Char :=
  if c.toNat = 0 then ['\\', '0']
  else ['\\', 'u', '{'] ++ (if c.toNat < 16 then [hexDigit c.toNat] else [hexDigit (c.toNat / 16), hexDigit (c.toNat % 16)]) ++ ['}']
end Legacy

end JsonModel
end Servlin
