import ServlinVerif.Model.Event
import ServlinVerif.Model.Chunked
/-
  Model of the event-stream path: `EventSender` (send / clone / disconnect / drop) over a bounded
  channel of capacity 50, `EventReceiver::poll_read` and the chunked copy loop that drains it
  (one poll of `copy_chunked_async` processes every queued event, then either ends or waits).
  `emptyEndsStream = true` is the pinned tree (an event that encodes to zero bytes reads as EOF).
-/
namespace Servlin
namespace EventChannel
open EventModel

def capacity : Nat := 50

structure State where
  queue : List Event := []          -- oldest first
  senders : List Bool := [true]     -- per sender handle: still holds the channel (connected)?
  wire : Bytes := []                -- chunked bytes written so far
  done : Bool := false              -- the copy has ended (terminator or error)
  failed : Bool := false            -- … with a reader error (no terminator)
  accepted : List Event := []       -- events accepted by `send` while connected (history)
  delivered : List Event := []      -- events written to the wire as one chunk each (history)
deriving Repr, DecidableEq

inductive Op where
  | send (i : Nat) (e : Event)
  | clone (i : Nat)
  | disconnect (i : Nat)
  | drop (i : Nat)
  | poll
deriving Repr, DecidableEq

def connected (s : State) (i : Nat) : Bool := s.senders.getD i false

/-- `EventSender::send`: `try_send`; on a full queue the sender gives up its handle. (The receiver is
    alive as long as the response body exists.) -/
def send (s : State) (i : Nat) (e : Event) : State :=
  if connected s i then
    if s.queue.length < capacity then { s with queue := s.queue ++ [e], accepted := s.accepted ++ [e] }
    else { s with senders := s.senders.set i false }
  else s

/-- Encoding used by the repaired code: an event without data lines is written as one empty `data:`
    line, so that no event encodes to zero bytes. -/
def encodeFixed (e : Event) : Bytes :=
  let b := encode e
  match e with
  | .message d => if rustLines d = [] then b!"data: \n" else b
  | .custom t d => if rustLines d = [] then b!"event: " ++ t ++ [10] ++ b!"data: \n" else b

/-- Drains the queue as one poll of the copy loop does. Returns the new state. -/
def drain (emptyEndsStream : Bool) : Nat → State → State
  | 0, s => s
  | fuel + 1, s =>
    match s.queue with
    | [] =>
      -- nothing queued: ends iff every sender handle is gone
      if s.senders.all (· == false) then { s with wire := s.wire ++ Chunked.terminator, done := true } else s
    | e :: rest =>
      let enc := if emptyEndsStream then encode e else encodeFixed e
      let s := { s with queue := rest }
      if enc.length > Chunked.maxPiece then { s with done := true, failed := true }   -- `write_to` fails: WriteZero
      else if enc = [] then { s with wire := s.wire ++ Chunked.terminator, done := true }  -- a 0-byte read is EOF
      else drain emptyEndsStream fuel { s with wire := s.wire ++ Chunked.encodeChunk enc, delivered := s.delivered ++ [e] }

def step (emptyEndsStream : Bool) (s : State) : Op → State
  | .send i e => send s i e
  | .clone i => if connected s i then { s with senders := s.senders ++ [true] } else { s with senders := s.senders ++ [false] }
  | .disconnect i => { s with senders := s.senders.set i false }
  | .drop i => { s with senders := s.senders.set i false }
  | .poll => if s.done then s else drain emptyEndsStream (s.queue.length + 1) s

def run (emptyEndsStream : Bool) (s : State) : List Op → State
  | [] => s
  | op :: ops => run emptyEndsStream (step emptyEndsStream s op) ops

end EventChannel
end Servlin
