import ServlinVerif.Basic.Bytes
/-
  Model of `src/headers.rs` (`HeaderList`): a `Vec<Header>` with five operations.
  Each function mirrors the Rust loop it models; `Spec/Multimap.lean` is the independent
  specification and `Props/C14.lean` proves that the two agree for every operation sequence.
-/
namespace Servlin

structure Header where
  name : Bytes
  value : Bytes
deriving Repr, DecidableEq, BEq

abbrev HeaderList := List Header

/-- Every `TryFrom<..> for AsciiString`: accept iff `is_ascii()`, keep the text unchanged. -/
def asciiTryFrom (bs : Bytes) : Option Bytes := if isAscii bs then some bs else none

namespace Headers

/-- `HeaderList::add`: push at the end. -/
def add (l : HeaderList) (name value : Bytes) : HeaderList := l ++ [⟨name, value⟩]

/-- The loop of `HeaderList::get_only` with its `value` accumulator. -/
def getOnlyLoop (name : Bytes) : HeaderList → Option Bytes → Option Bytes
  | [], value => value
  | h :: rest, value =>
    if eqIgnoreCase h.name name then
      if value.isSome then none else getOnlyLoop name rest (some h.value)
    else getOnlyLoop name rest value

def getOnly (l : HeaderList) (name : Bytes) : Option Bytes := getOnlyLoop name l none

/-- `HeaderList::get_all`. -/
def getAll (l : HeaderList) (name : Bytes) : List Bytes :=
  l.foldl (fun acc h => if eqIgnoreCase h.name name then acc ++ [h.value] else acc) []

/-- The index loop of `HeaderList::remove_all`, with `Vec::remove(n)` (order preserving). -/
def removeAllLoop (name : Bytes) (l : HeaderList) (n : Nat) (values : List Bytes) :
    List Bytes × HeaderList :=
  if h : n < l.length then
    if eqIgnoreCase l[n].name name then
      removeAllLoop name (l.eraseIdx n) n (values ++ [l[n].value])
    else
      removeAllLoop name l (n + 1) values
  else (values, l)
termination_by l.length - n
decreasing_by
  · simp only [List.length_eraseIdx, h, if_true]; omega
  · omega

def removeAll (l : HeaderList) (name : Bytes) : List Bytes × HeaderList :=
  removeAllLoop name l 0 []

/-- `HeaderList::remove_only`: remove all, answer only for exactly one. -/
def removeOnly (l : HeaderList) (name : Bytes) : Option Bytes × HeaderList :=
  let (vals, l') := removeAll l name
  match vals with
  | [v] => (some v, l')
  | _ => (none, l')

/-! ### Legacy: the pinned tree used `Vec::swap_remove(n)` -/
namespace Legacy

/-- `Vec::swap_remove(n)`: the last element takes the place of the removed one. -/
def swapRemove (l : HeaderList) (n : Nat) : HeaderList :=
  match l.getLast? with
  | none => l
  | some last => if n + 1 = l.length then l.dropLast else (l.set n last).dropLast

def removeAllLoop (name : Bytes) (l : HeaderList) (n : Nat) (values : List Bytes) (fuel : Nat) :
    List Bytes × HeaderList :=
  match fuel with
  | 0 => (values, l)
  | fuel + 1 =>
    if h : n < l.length then
      if eqIgnoreCase l[n].name name then
        removeAllLoop name (swapRemove l n) n (values ++ [l[n].value]) fuel
      else
        removeAllLoop name l (n + 1) values fuel
    else (values, l)

def removeAll (l : HeaderList) (name : Bytes) : List Bytes × HeaderList :=
  removeAllLoop name l 0 [] (2 * l.length + 1)

end Legacy

/-! ### Operation sequences -/

inductive Op where
  | add (name value : Bytes)
  | getOnly (name : Bytes)
  | getAll (name : Bytes)
  | removeOnly (name : Bytes)
  | removeAll (name : Bytes)
deriving Repr

inductive Out where
  | unit
  | opt (v : Option Bytes)
  | list (vs : List Bytes)
deriving Repr, DecidableEq

def step (l : HeaderList) : Op → HeaderList × Out
  | .add n v => (add l n v, .unit)
  | .getOnly n => (l, .opt (getOnly l n))
  | .getAll n => (l, .list (getAll l n))
  | .removeOnly n => let r := removeOnly l n; (r.2, .opt r.1)
  | .removeAll n => let r := removeAll l n; (r.2, .list r.1)

def run (l : HeaderList) : List Op → HeaderList × List Out
  | [] => (l, [])
  | op :: ops =>
    let (l', o) := step l op
    let (l'', os) := run l' ops
    (l'', o :: os)

end Headers
end Servlin
