/-
  The handler pool: `HttpServerBuilder::spawn` runs every handler call as a job of safina's blocking thread pool
  (`schedule_blocking`).  What matters for the properties is the pool's bookkeeping:

  * `schedule` queues a job and replaces threads that have died; a thread that is alive also replaces dead ones (after
    each job and every 500 ms): `respawn`.  So dead threads come back as long as one thread is alive or new work arrives
    (safina 0.6 `threadpool::Inner::work` / `ThreadPool::schedule`);
  * an idle live thread takes the oldest queued job;
  * a job finishes, by returning or by panicking.  A panic that unwinds through the thread's loop kills the thread.
    With `catches = true` (the repaired adapter: the handler runs inside `catch_unwind`) a job never unwinds into the pool.

  Counters only: which job is which does not matter for "is there a thread left to run the queue".
-/
namespace Servlin
namespace Pool

structure St where
  n : Nat          -- configured number of threads
  alive : Nat      -- threads that exist
  busy : Nat       -- threads running a job
  queue : Nat      -- jobs waiting
  done : Nat := 0  -- jobs finished (either way)
deriving Repr, DecidableEq

def init (n : Nat) : St := { n, alive := n, busy := 0, queue := 0 }

inductive Ev where
  | schedule
  | take
  | finish (panics : Bool)
  | respawn
deriving Repr, DecidableEq

def step (catches : Bool) (s : St) : Ev → Option St
  | .schedule => some { s with queue := s.queue + 1, alive := max s.alive s.n }
  | .take => if 0 < s.queue ∧ s.busy < s.alive then some { s with queue := s.queue - 1, busy := s.busy + 1 } else none
  | .finish panics =>
    if 0 < s.busy then
      some { s with busy := s.busy - 1, done := s.done + 1,
                    alive := if panics && !catches then s.alive - 1 else s.alive }
    else none
  | .respawn => if 0 < s.alive then some { s with alive := max s.alive s.n } else none

def run (catches : Bool) : St → List Ev → Option St
  | s, [] => some s
  | s, e :: es => match step catches s e with
    | none => none
    | some s' => run catches s' es

/-- Job steps the pool can take without new work arriving. -/
def enabledWork (catches : Bool) (s : St) : List Ev :=
  [Ev.take, .finish false, .finish true].filter fun e => (step catches s e).isSome

/-- All steps the pool can take without new work arriving. -/
def enabledAlone (catches : Bool) (s : St) : List Ev :=
  [Ev.take, .finish false, .finish true, .respawn].filter fun e => (step catches s e).isSome

/-- The pool left alone: takes while it can, else lets a running job return, until nothing is enabled (or the fuel ends). -/
def settle (catches : Bool) : Nat → St → St
  | 0, s => s
  | f + 1, s =>
    match step catches s .take with
    | some s' => settle catches f s'
    | none =>
      match step catches s (.finish false) with
      | some s' => settle catches f s'
      | none => s

/-- Scenario of suite c04p: `n` requests whose handlers will panic occupy all `n` threads, two more requests (one of them an
    upload, which needs a second job once its body is in) are queued, the `n` handlers panic, the pool is left alone,
    the upload's second job arrives, the pool is left alone again.  Returns the number of handler calls that finished. -/
def scenario (catches : Bool) (n : Nat) : Option Nat :=
  let evs := (List.replicate n [Ev.schedule, .take]).flatten ++ [.schedule, .schedule] ++ List.replicate n (.finish true)
  match run catches (init n) evs with
  | none => none
  | some s =>
    let s1 := settle catches (2 * n + 8) s
    -- the upload's first job has run only if the queue drained
    if s1.queue = 0 ∧ s1.busy = 0 then
      match step catches s1 .schedule with
      | some s2 => some (settle catches 8 s2).done
      | none => none
    else some s1.done

end Pool
end Servlin
