/-
  Model of `src/log/prefix_file_set.rs` and of the writer loop of `src/log/log_file_writer.rs`.

  * a file = (id, mtime, len); ids are handed out in creation order; the directory is the list of
    existing files; file *contents* are lists of event numbers (whole lines).
  * `PrefixFileSet` = the files it knows plus its running total `len` (u64 in the code: `none`
    models a panic on overflow/underflow or `unwrap()` of an empty heap).
  * `legacy = true` is the pinned tree: `push` does not add to `len`, subtraction is unchecked.
  * the clock and event sizes are parameters.
-/
namespace Servlin
namespace LogFiles

structure PFile where
  id : Nat
  mtime : Nat
  len : Nat
deriving Repr, DecidableEq

structure FileSet where
  files : List PFile := []
  len : Nat := 0
deriving Repr, DecidableEq

/-- The scan of a min-heap keyed by `mtime`: the first file with the smallest `mtime`. -/
def oldestFrom (a : PFile) : List PFile → PFile
  | [] => a
  | f :: fs => oldestFrom (if f.mtime < a.mtime then f else a) fs

/-- `BinaryHeap::peek` (with `Ord` reversed on `mtime`): the file with the smallest `mtime`.
    With equal `mtime`s the heap's choice is unspecified; the model picks the first. -/
def oldest? : List PFile → Option PFile
  | [] => none
  | f :: fs => some (oldestFrom f fs)

/-- `push`: the repaired code also adds the file's length to the running total. -/
def push (legacy : Bool) (s : FileSet) (f : PFile) : FileSet :=
  { files := s.files ++ [f], len := if legacy then s.len else s.len + f.len }

/-- `delete_oldest`: `none` = panic (`peek().unwrap()` on an empty heap, or `len -= file.len`
    underflowing in the pinned tree); returns the id of the deleted file. -/
def deleteOldest (legacy : Bool) (s : FileSet) : Option (FileSet × Nat) :=
  match oldest? s.files with
  | none => none
  | some f =>
    if legacy && s.len < f.len then none
    else some ({ files := s.files.erase f, len := s.len - f.len }, f.id)

/-- `delete_oldest_while_over_max_len`; fuel = number of files. -/
def deleteWhileOver (legacy : Bool) (maxLen : Nat) : Nat → FileSet → List Nat → Option (FileSet × List Nat)
  | 0, s, del => some (s, del)
  | fuel + 1, s, del =>
    if s.len > maxLen then
      match deleteOldest legacy s with
      | none => none
      | some (s', id) => deleteWhileOver legacy maxLen fuel s' (del ++ [id])
    else some (s, del)

/-- `delete_older_than(now, duration)` -/
def deleteOlderThan (legacy : Bool) (minMtime : Nat) : Nat → FileSet → List Nat → Option (FileSet × List Nat)
  | 0, s, del => some (s, del)
  | fuel + 1, s, del =>
    match oldest? s.files with
    | none => some (s, del)
    | some f =>
      if f.mtime < minMtime then
        match deleteOldest legacy s with
        | none => none
        | some (s', id) => deleteOlderThan legacy minMtime fuel s' (del ++ [id])
      else some (s, del)

/-! ### The writer loop -/

structure Cfg where
  maxWrite : Nat
  maxKeep : Nat
  keepAge : Option Nat     -- seconds
  maxWriteAge : Nat
deriving Repr, DecidableEq

structure Writer where
  set : FileSet                 -- closed files (incl. those of earlier runs)
  curId : Nat                   -- the file being written
  curLen : Nat
  curCreated : Nat
  curLines : List Nat           -- event numbers written to the current file (whole lines)
  nextId : Nat
  closed : List (Nat × List Nat)     -- files of this run that were rotated out: (id, event numbers), creation order
  deleted : List Nat            -- ids deleted so far
  nextEvent : Nat := 0
deriving Repr, DecidableEq

/-- Every file created in this run with the lines written to it, in creation order. -/
def Writer.contents (w : Writer) : List (Nat × List Nat) := w.closed ++ [(w.curId, w.curLines)]

/-- The rotation branch of the loop: close the current file, hand it to the set, create the next. -/
def rotate (legacy : Bool) (w : Writer) (now : Nat) : Writer :=
  { w with set := push legacy w.set ⟨w.curId, now, w.curLen⟩, curId := w.nextId, curLen := 0, curCreated := now,
           curLines := [], nextId := w.nextId + 1, closed := w.closed ++ [(w.curId, w.curLines)] }

/-- The rotation decision: the event does not fit, or the file is too old. -/
def maybeRotate (legacy : Bool) (cfg : Cfg) (w : Writer) (size now : Nat) : Writer :=
  if w.curLen + size > cfg.maxWrite || now - w.curCreated > cfg.maxWriteAge then rotate legacy w now else w

/-- `if let Some(duration) = self.max_keep_age { file_set.delete_older_than(now, duration).unwrap() }` -/
def ageDelete (legacy : Bool) (cfg : Cfg) (s : FileSet) (now : Nat) : Option (FileSet × List Nat) :=
  match cfg.keepAge with
  | some d => deleteOlderThan legacy (now - d) s.files.length s []
  | none => some (s, [])

/-- The rest of the loop body: delete by age, delete by size, append the line.
    `none` = the thread panicked (and stopped). -/
def writeEvent (legacy : Bool) (cfg : Cfg) (w1 : Writer) (size now : Nat) : Option Writer :=
  match ageDelete legacy cfg w1.set now with
  | none => none
  | some (s2, del2) =>
    -- delete by size: `max_keep_bytes - file.len - event` (unchecked in the pinned tree, saturating now)
    if legacy && cfg.maxKeep < w1.curLen + size then none else
    match deleteWhileOver legacy (cfg.maxKeep - w1.curLen - size) s2.files.length s2 [] with
    | none => none
    | some (s3, del3) =>
      some { w1 with set := s3, curLen := w1.curLen + size, curLines := w1.curLines ++ [w1.nextEvent],
                     deleted := w1.deleted ++ del2 ++ del3, nextEvent := w1.nextEvent + 1 }

/-- One iteration of the writer thread's loop for an event of `size` bytes at time `now`. -/
def step (legacy : Bool) (cfg : Cfg) (w : Writer) (size now : Nat) : Option Writer :=
  writeEvent legacy cfg (maybeRotate legacy cfg w size now) size now

def runEvents (legacy : Bool) (cfg : Cfg) : Writer → List (Nat × Nat) → Option Writer
  | w, [] => some w
  | w, (size, now) :: rest =>
    match step legacy cfg w size now with
    | none => none
    | some w' => runEvents legacy cfg w' rest

/-- `start_writer_thread`: scan the directory for earlier files (`existing`, oldest first), trim to
    `max_keep_bytes`, create the first file and write the start-up line (event number 0) to it.
    The pinned tree's scan (`Path::starts_with`) never matched a file. -/
def start (legacy : Bool) (cfg : Cfg) (existing : List PFile) (startLine now : Nat) : Option Writer :=
  let found : FileSet := if legacy then {} else { files := existing, len := (existing.map (·.len)).sum }
  let nid := (existing.map (·.id)).foldl max 0 + 1
  match deleteWhileOver legacy cfg.maxKeep found.files.length found [] with
  | none => none
  | some (s, del) =>
    some { set := s, curId := nid, curLen := startLine, curCreated := now, curLines := [0], nextId := nid + 1,
           closed := [], deleted := del, nextEvent := 1 }

end LogFiles
end Servlin
