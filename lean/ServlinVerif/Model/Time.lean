import ServlinVerif.Basic.Bytes
/-
  Model of `src/time.rs`: `DateTime::new`, the `balance*` cascade, `Add<Duration>` and
  `iso8601_utc`.  Fields are `Nat`: the property quantifies over instants from the Unix epoch on, and
  all fields stay non-negative there.  `none` models a Rust panic (`assert!`, `unimplemented!()`).
-/
namespace Servlin
namespace Time

structure DT where
  year : Nat
  month : Nat
  day : Nat
  hour : Nat
  min : Nat
  sec : Nat
deriving Repr, DecidableEq

def isLeap (y : Nat) : Bool :=
  if y % 400 = 0 then true else if y % 100 = 0 then false else y % 4 = 0

def yearLen (y : Nat) : Nat := if isLeap y then 366 else 365

/-- `month_len_days`; `none` is `unimplemented!()`. -/
def monthLen? (y m : Nat) : Option Nat :=
  match m with
  | 1 => some 31
  | 2 => some (if y % 400 = 0 then 29 else if y % 100 = 0 then 28 else if y % 4 = 0 then 29 else 28)
  | 3 => some 31 | 4 => some 30 | 5 => some 31 | 6 => some 30 | 7 => some 31 | 8 => some 31
  | 9 => some 30 | 10 => some 31 | 11 => some 30 | 12 => some 31
  | _ => none

theorem monthLen?_pos {y m ml : Nat} (h : monthLen? y m = some ml) : 28 ≤ ml := by
  unfold monthLen? at h
  split at h <;> simp only [Option.some.injEq, reduceCtorEq] at h <;> (try omega)
  split at h <;> (try omega)
  split at h <;> (try omega)
  split at h <;> omega

/-- `balance_month`. -/
def balanceMonth (y m : Nat) : Option (Nat × Nat) :=
  if m > 12 then
    let dy := (m - 1) / 12
    let m' := m - 12 * dy
    if 1 ≤ m' ∧ m' ≤ 12 then some (y + dy, m') else none   -- assert!((1..=12).contains(&month))
  else some (y, m)

/-- Days subtracted when the year loop moves the date one year ahead: the year that holds the
    leap day being crossed (the repaired code); the pinned tree always used `yearLen y`. -/
def stepLen (y m : Nat) : Nat := if m > 2 then yearLen (y + 1) else yearLen y

/-- `while self.day > 366 { self.day -= ..; self.year += 1 }` -/
def yearLoop (y m d : Nat) : Nat × Nat :=
  if d > 366 then yearLoop (y + 1) m (d - stepLen y m) else (y, d)
termination_by d
decreasing_by
  simp only [stepLen, yearLen]
  split <;> split <;> omega

/-- `while self.day > month_len_days(year, month) { day -= ..; month += 1; balance_month() }` -/
def monthLoop (y m d : Nat) : Option (Nat × Nat × Nat) :=
  match h : monthLen? y m with
  | none => none
  | some ml =>
    if d > ml then
      match balanceMonth y (m + 1) with
      | none => none
      | some (y', m') => monthLoop y' m' (d - ml)
    else some (y, m, d)
termination_by d
decreasing_by
  have := monthLen?_pos h
  omega

/-- `balance_day`. -/
def balanceDay (dt : DT) : Option DT :=
  match balanceMonth dt.year dt.month with
  | none => none
  | some (y, m) =>
    let (y, d) := yearLoop y m dt.day
    match monthLoop y m d with
    | none => none
    | some (y, m, d) => some { dt with year := y, month := m, day := d }

/-- `balance_hour`. -/
def balanceHour (dt : DT) : Option DT :=
  if dt.hour > 23 then
    let dd := dt.hour / 24
    let h := dt.hour - 24 * dd
    if h < 24 then balanceDay { dt with day := dt.day + dd, hour := h } else none
  else balanceDay dt

/-- `balance_min`. -/
def balanceMin (dt : DT) : Option DT :=
  if dt.min > 59 then
    let dh := dt.min / 60
    let m := dt.min - 60 * dh
    if m < 60 then balanceHour { dt with hour := dt.hour + dh, min := m } else none
  else balanceHour dt

/-- `balance`. -/
def balance (dt : DT) : Option DT :=
  if dt.sec > 59 then
    let dm := dt.sec / 60
    let s := dt.sec - 60 * dm
    if s < 60 then balanceMin { dt with min := dt.min + dm, sec := s } else none
  else balanceMin dt

/-- `DateTime::new(epoch_seconds)`. -/
def new (s : Nat) : Option DT := balance ⟨1970, 1, 1, 0, 0, s⟩

/-- `impl Add<Duration> for DateTime` (whole seconds). -/
def add (dt : DT) (d : Nat) : Option DT := balance { dt with sec := dt.sec + d }

/-- Rust `{:02}` for a non-negative integer: at least two digits, zero padded. -/
def pad2 (n : Nat) : List Char :=
  if n < 100 then [Nat.digitChar (n / 10), Nat.digitChar (n % 10)] else Nat.toDigits 10 n

/-- Rust `{:04}`. -/
def pad4 (n : Nat) : List Char :=
  if n < 10000 then
    [Nat.digitChar (n / 1000), Nat.digitChar (n / 100 % 10), Nat.digitChar (n / 10 % 10),
     Nat.digitChar (n % 10)]
  else Nat.toDigits 10 n

/-- `iso8601_utc`: `"{:04}-{:02}-{:02}T{:02}:{:02}:{:02}Z"`. -/
def iso8601Chars (dt : DT) : List Char :=
  pad4 dt.year ++ ['-'] ++ pad2 dt.month ++ ['-'] ++ pad2 dt.day ++ ['T'] ++
    pad2 dt.hour ++ [':'] ++ pad2 dt.min ++ [':'] ++ pad2 dt.sec ++ ['Z']

def iso8601 (dt : DT) : String := String.ofList (iso8601Chars dt)

namespace Legacy
/-- The pinned tree: always subtract the length of the current year.  (Fuel-structured so that
    the kernel can evaluate the witness; `fuel = d` always suffices.) -/
def yearLoop (fuel y d : Nat) : Nat × Nat :=
  match fuel with
  | 0 => (y, d)
  | fuel + 1 => if d > 366 then yearLoop fuel (y + 1) (d - yearLen y) else (y, d)

def monthLoop (fuel y m d : Nat) : Option (Nat × Nat × Nat) :=
  match fuel with
  | 0 => some (y, m, d)
  | fuel + 1 =>
    match monthLen? y m with
    | none => none
    | some ml =>
      if d > ml then
        match balanceMonth y (m + 1) with
        | none => none
        | some (y', m') => monthLoop fuel y' m' (d - ml)
      else some (y, m, d)

def balanceDay (dt : DT) : Option DT :=
  match balanceMonth dt.year dt.month with
  | none => none
  | some (y, m) =>
    let (y, d) := yearLoop dt.day y dt.day
    match monthLoop 14 y m d with
    | none => none
    | some (y, m, d) => some { dt with year := y, month := m, day := d }
end Legacy

end Time
end Servlin
