import ServlinVerif.Model.Headers
/-
  Model of `src/head.rs` (+ `util::find_slice`): `Head::try_read` on the readable bytes of the
  buffer, and the `read_http_head` loop over a scripted stream.

  * The two `safe_regex` matchers are written out as explicit matchers (see DESIGN.md §4 C01).
  * `url::Url` is a parameter `urlParse : Bytes → Option Url` (what
    `Url::options().base_url("http://unknown/").parse(target)` returns: path and query, or error).
  * `panic` is an explicit outcome: "never panics" is a theorem, not a convention.
-/
namespace Servlin

structure Url where
  path : Bytes
  query : Option Bytes
deriving Repr, DecidableEq

inductive HeadError where
  | truncated | missingRequestLine | malformedRequestLine | malformedPath | unsupportedProtocol
  | malformedHeader
deriving Repr, DecidableEq

structure Head where
  method : Bytes
  url : Url
  headers : HeaderList
deriving Repr, DecidableEq

inductive ParseOut where
  | ok (h : Head)
  | err (e : HeadError)
  | panic
deriving Repr, DecidableEq

namespace HeadModel

/-- `util::find_slice`: first index at which `needle` occurs in `hay`. -/
def findSlice (needle : Bytes) : Bytes → Option Nat
  | [] => if needle = [] then some 0 else none
  | b :: t => if needle.isPrefixOf (b :: t) then some 0 else (findSlice needle t).map (· + 1)

def delim : Bytes := [13, 10, 13, 10]

/-- tchar: `[-!#$%&'*+.^_`|~0-9A-Za-z]`. -/
def isTchar (b : UInt8) : Bool :=
  (48 ≤ b && b ≤ 57) || (65 ≤ b && b ≤ 90) || (97 ≤ b && b ≤ 122) ||
  b == 45 || b == 33 || b == 35 || b == 36 || b == 37 || b == 38 || b == 39 || b == 42 || b == 43 ||
  b == 46 || b == 94 || b == 95 || b == 96 || b == 124 || b == 126

/-- `[^ \t\r\n]` -/
def notWs (b : UInt8) : Bool := !(b == 32 || b == 9 || b == 13 || b == 10)

/-- `trim_trailing_cr`: drops exactly one trailing CR. -/
def trimTrailingCr (l : Bytes) : Bytes :=
  match l.getLast? with
  | some 13 => l.dropLast
  | _ => l

def isHws (b : UInt8) : Bool := b == 32 || b == 9 || b == 13 || b == 10

/-- `trim_whitespace`: strips SP, HT, CR, LF from both ends. -/
def trimWhitespace (l : Bytes) : Bytes :=
  ((l.dropWhile isHws).reverse.dropWhile isHws).reverse

/-- Continuation bytes `10xxxxxx`. -/
def isCont (b : UInt8) : Bool := 128 ≤ b && b ≤ 191

/-- `core::str::from_utf8(..).is_ok()`: well-formed UTF-8 (Unicode Table 3-7). -/
def isUtf8 : Bytes → Bool
  | [] => true
  | b :: rest =>
    if b < 128 then isUtf8 rest
    else if 194 ≤ b && b ≤ 223 then
      match rest with
      | c :: r => isCont c && isUtf8 r
      | _ => false
    else if 224 ≤ b && b ≤ 239 then
      match rest with
      | c :: d :: r =>
        (if b == 224 then 160 ≤ c && c ≤ 191 else if b == 237 then 128 ≤ c && c ≤ 159 else isCont c) &&
        isCont d && isUtf8 r
      | _ => false
    else if 240 ≤ b && b ≤ 244 then
      match rest with
      | c :: d :: e :: r =>
        (if b == 240 then 144 ≤ c && c ≤ 191 else if b == 244 then 128 ≤ c && c ≤ 143 else isCont c) &&
        isCont d && isCont e && isUtf8 r
      | _ => false
    else false

def http11 : Bytes := [72, 84, 84, 80, 47, 49, 46, 49]

/-- `Head::parse_request_line`.  The regex
    `([tchar]+) ([^ \t\r\n]+) ([^ \t\r\n]+)` (full match) holds iff splitting at SP gives exactly
    three non-empty parts, the first all tchar, the others free of HT/CR/LF. -/
def parseRequestLine (urlParse : Bytes → Option Url) (line : Bytes) :
    Except HeadError (Bytes × Url) :=
  match splitOn 32 line with
  | [m, t, p] =>
    if m ≠ [] ∧ m.all isTchar ∧ t ≠ [] ∧ t.all notWs ∧ p ≠ [] ∧ p.all notWs then
      if !isUtf8 t then .error .malformedPath
      else if t.head? ≠ some 47 then .error .malformedPath
      else match urlParse t with
        | none => .error .malformedPath
        | some u => if p ≠ http11 then .error .unsupportedProtocol else .ok (m, u)
    else .error .malformedRequestLine
  | _ => .error .malformedRequestLine

inductive LineOut where
  | ok (h : Header)
  | err
  | panic
deriving Repr, DecidableEq

/-- `Head::parse_header_line`.  The regex `([tchar]+):[ \t]*(.*)[ \t]*` (full match, `.` = any
    byte) holds iff the longest tchar prefix is non-empty and followed by `:`; whatever way the
    blanks are attributed, `trim_whitespace` of group 2 is `trimWhitespace` of everything after the
    colon.  A value byte ≥ 0x80 is not ASCII: the repaired code answers `MalformedHeader`
    (`nonAsciiPanics = false`), the pinned tree panicked on `unwrap()` (`true`). -/
def parseHeaderLine (nonAsciiPanics : Bool) (line : Bytes) : LineOut :=
  let name := line.takeWhile isTchar
  match line.dropWhile isTchar with
  | 58 :: rest =>
    if name = [] then .err
    else
      let value := trimWhitespace rest
      if value.all (· < 128) then .ok ⟨name, value⟩
      else if nonAsciiPanics then .panic else .err
  | _ => .err

def parseHeaderLines (nonAsciiPanics : Bool) : List Bytes → HeaderList → Except LineOut HeaderList
  | [], acc => .ok acc
  | l :: ls, acc =>
    match parseHeaderLine nonAsciiPanics l with
    | .ok h => parseHeaderLines nonAsciiPanics ls (acc ++ [h])
    | other => .error other

/-- Parsing of the head bytes (everything before the first CRLFCRLF). -/
def parseHead (nonAsciiPanics : Bool) (urlParse : Bytes → Option Url) (head : Bytes) : ParseOut :=
  match (splitOn 10 head).map trimTrailingCr with
  | [] => .err .missingRequestLine
  | rl :: ls =>
    match parseRequestLine urlParse rl with
    | .error e => .err e
    | .ok (m, u) =>
      match parseHeaderLines nonAsciiPanics ls [] with
      | .ok hs => .ok ⟨m, u, hs⟩
      | .error .panic => .panic
      | .error _ => .err .malformedHeader

/-- `Head::try_read` on the readable bytes `buf`: result and the bytes left in the buffer.
    The head and its delimiter are consumed *before* parsing. -/
def tryRead (nonAsciiPanics : Bool) (urlParse : Bytes → Option Url) (buf : Bytes) : ParseOut × Bytes :=
  match findSlice delim buf with
  | none => (.err .truncated, buf)
  | some headLen => (parseHead nonAsciiPanics urlParse (buf.take headLen), buf.drop (headLen + 4))

/-- Outcome of `read_http_head`. -/
inductive ReadOut where
  | ok (h : Head)
  | err (e : HeadError)       -- parse errors (never `truncated` here)
  | headTooLong
  | truncated
  | disconnected
  | panic
deriving Repr, DecidableEq

/-- The `read_http_head` loop over a scripted stream.  `buf` = readable bytes (at the start of the
    buffer, as after `shift()`), `cap` = buffer size, `stream` = bytes the peer will still deliver
    before EOF/error, the `k`-th read delivers at most `sched k + 1` bytes (and never more than
    the writable space).  Returns outcome, buffer and unread stream. -/
def readHeadOp (pan : Bool) (urlParse : Bytes → Option Url) (cap : Nat) (sched : Nat → Nat)
    (k : Nat) (buf stream : Bytes) : ReadOut × Bytes × Bytes :=
  match tryRead pan urlParse buf with
  | (.ok h, buf') => (.ok h, buf', stream)
  | (.panic, buf') => (.panic, buf', stream)
  | (.err .truncated, _) =>
    if cap ≤ buf.length then (.headTooLong, buf, stream)
    else
      match stream with
      | [] => (if buf.isEmpty then .disconnected else .truncated, buf, [])
      | s :: ss =>
        let n := min (min (sched k + 1) (s :: ss).length) (cap - buf.length)
        readHeadOp pan urlParse cap sched (k + 1) (buf ++ (s :: ss).take n) ((s :: ss).drop n)
  | (.err e, buf') => (.err e, buf', stream)
termination_by stream.length
decreasing_by
  simp only [List.length_drop, List.length_cons]
  omega

/-- Denotational form: a function of the concatenated bytes only. -/
def readHeadD (pan : Bool) (urlParse : Bytes → Option Url) (cap : Nat) (all : Bytes) : ReadOut × Bytes :=
  match findSlice delim (all.take cap) with
  | some i =>
    (match parseHead pan urlParse (all.take i) with
     | .ok h => .ok h
     | .panic => .panic
     | .err e => .err e,
     all.drop (i + 4))
  | none =>
    (if cap ≤ all.length then .headTooLong else if all.isEmpty then .disconnected else .truncated, all)

end HeadModel
end Servlin
