import ServlinVerif.Model.Headers
/-
  Model of `src/response.rs` / `src/response_body.rs`: the `Response` value, the status-named
  constructors' building blocks and the reason-phrase table.  The serialiser is in
  `Model/Serialize.lean`.
-/
namespace Servlin

inductive RespKind where
  | dropConnection
  | getBodyAndReprocess (maxLen : Nat)
  | normal
deriving Repr, DecidableEq

/-- What the body's (async) reader delivers when the serialiser pulls it: opening may fail; then a
    sequence of non-empty reads; then end of file or a read error.  For in-memory bodies this is one
    run of bytes that ends with EOF.  (File systems and event channels are parameters.) -/
structure Source where
  openFails : Bool := false
  pieces : List Bytes := []
  endsWithError : Bool := false
deriving Repr, DecidableEq

/-- `ResponseBody`: `len = none` is the event stream (unknown length); `some n` is the declared
    length (`b.len()` for in-memory bodies, the stored `u64` for `File`/`TempFile`). -/
structure Body where
  len : Option Nat
  src : Source
deriving Repr, DecidableEq

def Body.ofBytes (b : Bytes) : Body :=
  { len := some b.length, src := { pieces := if b.isEmpty then [] else [b] } }

def Body.empty : Body := Body.ofBytes []

/-- `ContentType` is modelled by its rendered text; `none` is the `ContentType::None` variant. -/
structure Response where
  kind : RespKind := .normal
  code : Nat
  ctype : Option Bytes := none
  headers : HeaderList := []
  body : Body := Body.empty
deriving Repr, DecidableEq

namespace Response

def new (code : Nat) : Response := { code := code }
def dropConnection : Response := { kind := .dropConnection, code := 0 }
def getBodyAndReprocess (maxLen : Nat) : Response := { kind := .getBodyAndReprocess maxLen, code := 0 }

def plainText : Bytes := str "text/plain; charset=UTF-8"

/-- `Response::text(code, body)`. -/
def text (code : Nat) (body : Bytes) : Response :=
  { code := code, ctype := some plainText, body := Body.ofBytes body }

def is1xx (r : Response) : Bool := r.code / 100 == 1
def is4xx (r : Response) : Bool := r.code / 100 == 4
def is5xx (r : Response) : Bool := r.code / 100 == 5
def isNormal (r : Response) : Bool := r.kind == .normal

end Response

/-- `reason_phrase` (src/response.rs), including the two phrases with a trailing blank. -/
def reasonPhrase (code : Nat) : String :=
  match code with
  | 100 => "Continue" | 101 => "Switching Protocols" | 102 => "Processing" | 103 => "Early Hints"
  | 200 => "OK" | 201 => "Created" | 202 => "Accepted" | 203 => "Non-Authoritative Information"
  | 204 => "No Content" | 205 => "Reset Content" | 206 => "Partial Content" | 207 => "Multi-Status"
  | 208 => "Already Reported" | 226 => "IM Used"
  | 300 => "Multiple Choice" | 301 => "Moved Permanently" | 302 => "Found" | 303 => "See Other"
  | 304 => "Not Modified" | 307 => "Temporary Redirect" | 308 => "Permanent Redirect"
  | 400 => "Bad Request" | 401 => "Unauthorized" | 402 => "Payment Required " | 403 => "Forbidden"
  | 404 => "Not Found" | 405 => "Method Not Allowed" | 406 => "Not Acceptable"
  | 407 => "Proxy Authentication Required" | 408 => "Request Timeout" | 409 => "Conflict"
  | 410 => "Gone" | 411 => "Length Required" | 412 => "Precondition Failed"
  | 413 => "Payload Too Large" | 414 => "URI Too Long" | 415 => "Unsupported Media Type"
  | 416 => "Range Not Satisfiable" | 417 => "Expectation Failed" | 418 => "I'm a teapot"
  | 421 => "Misdirected Request" | 422 => "Unprocessable Entity" | 423 => "Locked"
  | 424 => "Failed Dependency" | 425 => "Too Early " | 426 => "Upgrade Required"
  | 428 => "Precondition Required" | 429 => "Too Many Requests"
  | 431 => "Request Header Fields Too Large" | 451 => "Unavailable For Legal Reasons"
  | 500 => "Internal Server Error" | 501 => "Not Implemented" | 502 => "Bad Gateway"
  | 503 => "Service Unavailable" | 504 => "Gateway Timeout" | 505 => "HTTP Version Not Supported"
  | 506 => "Variant Also Negotiates" | 507 => "Insufficient Storage" | 508 => "Loop Detected"
  | 510 => "Not Extended" | 511 => "Network Authentication Required"
  | _ => "Response"

end Servlin
