import ServlinVerif.Model.Headers
/-
  Model of `src/response.rs` / `src/response_body.rs`: the `Response` value, the status-named
  constructors' building blocks and the reason-phrase table.  The serialiser is in
  `Model/Serialize.lean`.
-/
namespace Servlin

inductive RespKind where
  | dropConnection
  | getBodyAndReprocess (maxLen : Nat)
  | normal
deriving Repr, DecidableEq

/-- What the body's (async) reader delivers when the serialiser pulls it: opening may fail; then a
    sequence of non-empty reads; then end of file or a read error.  For in-memory bodies this is one
    run of bytes that ends with EOF.  (File systems and event channels are parameters.) -/
structure Source where
  openFails : Bool := false
  pieces : List Bytes := []
  endsWithError : Bool := false
deriving Repr, DecidableEq

/-- `ResponseBody`: `len = none` is the event stream (unknown length); `some n` is the declared
    length (`b.len()` for in-memory bodies, the stored `u64` for `File`/`TempFile`). -/
structure Body where
  len : Option Nat
  src : Source
deriving Repr, DecidableEq

def Body.ofBytes (b : Bytes) : Body :=
  { len := some b.length, src := { pieces := if b.isEmpty then [] else [b] } }

def Body.empty : Body := Body.ofBytes []

/-- `ContentType` is modelled by its rendered text; `none` is the `ContentType::None` variant. -/
structure Response where
  kind : RespKind := .normal
  code : Nat
  ctype : Option Bytes := none
  headers : HeaderList := []
  body : Body := Body.empty
deriving Repr, DecidableEq

namespace Response

def new (code : Nat) : Response := { code := code }
def dropConnection : Response := { kind := .dropConnection, code := 0 }
def getBodyAndReprocess (maxLen : Nat) : Response := { kind := .getBodyAndReprocess maxLen, code := 0 }

def plainText : Bytes := str "text/plain; charset=UTF-8"

/-- `Response::text(code, body)`. -/
def text (code : Nat) (body : Bytes) : Response :=
  { code := code, ctype := some plainText, body := Body.ofBytes body }

def is1xx (r : Response) : Bool := r.code / 100 == 1
def is4xx (r : Response) : Bool := r.code / 100 == 4
def is5xx (r : Response) : Bool := r.code / 100 == 5
def isNormal (r : Response) : Bool := r.kind == .normal

end Response

/-- `reason_phrase` (src/response.rs), including the two phrases with a trailing blank; as byte literals so that
    the kernel can compute with them. -/
def reasonBytes (code : Nat) : Bytes :=
  match code with
  | 100 => b!"Continue" | 101 => b!"Switching Protocols" | 102 => b!"Processing" | 103 => b!"Early Hints"
  | 200 => b!"OK" | 201 => b!"Created" | 202 => b!"Accepted" | 203 => b!"Non-Authoritative Information"
  | 204 => b!"No Content" | 205 => b!"Reset Content" | 206 => b!"Partial Content" | 207 => b!"Multi-Status"
  | 208 => b!"Already Reported" | 226 => b!"IM Used"
  | 300 => b!"Multiple Choice" | 301 => b!"Moved Permanently" | 302 => b!"Found" | 303 => b!"See Other"
  | 304 => b!"Not Modified" | 307 => b!"Temporary Redirect" | 308 => b!"Permanent Redirect"
  | 400 => b!"Bad Request" | 401 => b!"Unauthorized" | 402 => b!"Payment Required " | 403 => b!"Forbidden"
  | 404 => b!"Not Found" | 405 => b!"Method Not Allowed" | 406 => b!"Not Acceptable"
  | 407 => b!"Proxy Authentication Required" | 408 => b!"Request Timeout" | 409 => b!"Conflict"
  | 410 => b!"Gone" | 411 => b!"Length Required" | 412 => b!"Precondition Failed"
  | 413 => b!"Payload Too Large" | 414 => b!"URI Too Long" | 415 => b!"Unsupported Media Type"
  | 416 => b!"Range Not Satisfiable" | 417 => b!"Expectation Failed" | 418 => b!"I'm a teapot"
  | 421 => b!"Misdirected Request" | 422 => b!"Unprocessable Entity" | 423 => b!"Locked"
  | 424 => b!"Failed Dependency" | 425 => b!"Too Early " | 426 => b!"Upgrade Required"
  | 428 => b!"Precondition Required" | 429 => b!"Too Many Requests"
  | 431 => b!"Request Header Fields Too Large" | 451 => b!"Unavailable For Legal Reasons"
  | 500 => b!"Internal Server Error" | 501 => b!"Not Implemented" | 502 => b!"Bad Gateway"
  | 503 => b!"Service Unavailable" | 504 => b!"Gateway Timeout" | 505 => b!"HTTP Version Not Supported"
  | 506 => b!"Variant Also Negotiates" | 507 => b!"Insufficient Storage" | 508 => b!"Loop Detected"
  | 510 => b!"Not Extended" | 511 => b!"Network Authentication Required"
  | _ => b!"Response"

end Servlin
