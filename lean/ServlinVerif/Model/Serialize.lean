import ServlinVerif.Model.Chunked
import ServlinVerif.Model.HttpError
/-
  Model of `write_http_response` (src/response.rs): head construction with the automatic fields
  and the duplicate guards, then the body through `copy_async` (known length, `take(len)`) or
  `copy_chunked_async` (unknown length), then `flush`; over a writer that may fail at a byte offset.
-/
namespace Servlin
namespace Serialize

def decimal (n : Nat) : Bytes := (Nat.toDigits 10 n).map (fun c => c.toNat.toUInt8)

def crlf : Bytes := [13, 10]

def statusLine (code : Nat) : Bytes :=
  b!"HTTP/1.1 " ++ decimal code ++ [32] ++ reasonBytes code ++ crlf

/-- The duplicate guard: the repaired code refuses when *any* field of that name is present
    (`legacy`: `get_only(..).is_some()`, i.e. exactly one). -/
def hasField (legacy : Bool) (hs : HeaderList) (name : Bytes) : Bool :=
  if legacy then (Headers.getOnly hs name).isSome else !(Headers.getAll hs name).isEmpty

def fieldLine (h : Header) : Bytes := h.name ++ b!": " ++ h.value ++ crlf

/-- The framing field: `content-length` for a body of known length, chunked otherwise. -/
def framingLine (b : Body) : Bytes :=
  match b.len with
  | some n => b!"content-length: " ++ decimal n ++ crlf
  | none => b!"transfer-encoding: chunked" ++ crlf

/-- The head when nothing is refused: status line, `content-type` iff a type is set,
    `connection: close` iff closing, the framing field, the user's fields in order, blank line. -/
def headOf (r : Response) (close : Bool) : Bytes :=
  statusLine r.code ++
  (match r.ctype with | some c => b!"content-type: " ++ c ++ crlf | none => []) ++
  (if close then b!"connection: close" ++ crlf else []) ++
  framingLine r.body ++ (r.headers.map fieldLine).flatten ++ crlf

/-- The head bytes, or the error raised before anything is written. -/
def headBytes (legacy : Bool) (r : Response) (close : Bool) : Except HttpError Bytes :=
  if r.kind ≠ .normal then .error .unwritableResponse
  else if r.ctype.isSome && hasField legacy r.headers (b!"content-type") then .error .duplicateContentTypeHeader
  else
    let cl := hasField legacy r.headers (b!"content-length")
    let te := hasField legacy r.headers (b!"transfer-encoding")
    match r.body.len with
    | some _ =>
      if cl then .error .duplicateContentLengthHeader
      else if !legacy && te then .error .duplicateTransferEncodingHeader   -- never both framing fields
      else .ok (headOf r close)
    | none =>
      if te then .error .duplicateTransferEncodingHeader
      else if !legacy && cl then .error .duplicateContentLengthHeader
      else .ok (headOf r close)

/-- Body bytes the serialiser intends to send and how the body phase ends (infinite writer). -/
def bodyPhase (b : Body) : Bytes × Except HttpError Unit :=
  match b.len with
  | some 0 => ([], .ok ())
  | some n =>
    if b.src.openFails then ([], .error (.errorReadingFile "" []))
    else
      let avail := b.src.pieces.flatten
      if n ≤ avail.length then (avail.take n, .ok ())
      else (avail, .error (.errorReadingResponseBody "" []))
  | none =>
    if b.src.openFails then ([], .error (.errorReadingResponseBody "" []))
    else
      let (out, res) := Chunked.copyChunked b.src
      (out, match res with | .ok _ => .ok () | _ => .error (.errorReadingResponseBody "" []))

/-- Everything `write_http_response` would write to a writer that never fails, and its result. -/
def intended (legacy : Bool) (r : Response) (close : Bool) : Bytes × Except HttpError Unit :=
  match headBytes legacy r close with
  | .error e => ([], .error e)
  | .ok head =>
    let (body, res) := bodyPhase r.body
    (head ++ body, res)

/-- `write_http_response` into a writer whose calls fail once `failAt` bytes have been accepted. -/
def write (legacy : Bool) (r : Response) (close : Bool) (failAt : Option Nat) : Bytes × Except HttpError Unit :=
  let (bytes, res) := intended legacy r close
  match failAt with
  | some k => if k < bytes.length then (bytes.take k, .error .disconnected) else (bytes, res)
  | none => (bytes, res)

end Serialize
end Servlin
