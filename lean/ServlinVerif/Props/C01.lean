import ServlinVerif.Lemmas.Head
import ServlinVerif.Spec.ReadSpec
/-
  C01 — request reading is total; the outcome is independent of fragmentation; nothing past the
  blank line is consumed.
-/
namespace Servlin
namespace C01
open HeadModel RequestModel

/-- Error outcomes documented for reading a request. -/
def Documented (e : HttpError) : Prop :=
  e = .malformedRequestLine ∨ e = .malformedPath ∨ e = .malformedHeaderLine ∨
  e = .unsupportedProtocol ∨ e = .headTooLong ∨ e = .truncated ∨ e = .disconnected ∨
  e = .invalidContentLength ∨ e = .unsupportedTransferEncoding ∨ e = .malformedCookieHeader

theorem parseHeaderLine_no_panic (l : Bytes) : parseHeaderLine false l ≠ .panic := by
  unfold parseHeaderLine
  dsimp only
  split
  · split
    · simp
    · split <;> simp
  · simp

theorem parseHeaderLines_no_panic (ls : List Bytes) (acc : HeaderList) :
    parseHeaderLines false ls acc ≠ .error .panic := by
  induction ls generalizing acc with
  | nil => simp [parseHeaderLines]
  | cons l ls ih =>
    unfold parseHeaderLines
    cases h : parseHeaderLine false l with
    | ok hd => simpa using ih _
    | err => simp
    | panic => exact absurd h (parseHeaderLine_no_panic l)

theorem parseHead_no_panic (u : Bytes → Option Url) (h : Bytes) : parseHead false u h ≠ .panic := by
  unfold parseHead
  cases (splitOn 10 h).map trimTrailingCr with
  | nil => simp
  | cons rl ls =>
    simp only
    cases parseRequestLine u rl with
    | error e => simp
    | ok mu =>
      obtain ⟨m, uu⟩ := mu
      simp only
      have := parseHeaderLines_no_panic ls []
      cases hp : parseHeaderLines false ls [] with
      | ok hs => simp
      | error lo =>
        cases lo with
        | panic => exact absurd hp this
        | ok hd => simp
        | err => simp

theorem classify_errors (legacy : Bool) (h : Head) (e : HttpError) (he : classify legacy h = .error e) :
    e = .unsupportedTransferEncoding ∨ e = .malformedCookieHeader ∨ e = .invalidContentLength := by
  unfold classify classifyWith at he
  simp only at he
  split at he
  · cases he; simp
  · split at he
    · cases he; simp
    · split at he
      · cases he; simp
      · cases he

/-- **Totality.**  For every byte sequence, every buffer size and every behaviour of the URL
    parser, reading a request (repaired code) ends with a parsed request or one of the documented
    errors; it never panics, and `MissingRequestLine` is unreachable. -/
theorem C01_total (u : Bytes → Option Url) (cap : Nat) (all : Bytes) :
    (∃ m, (readRequestD false false u cap all).1 = .ok m) ∨
    (∃ e, (readRequestD false false u cap all).1 = .err e ∧ Documented e) := by
  unfold readRequestD readHeadD
  simp only
  split
  · next i hf =>
    have hnp := parseHead_no_panic u (all.take i)
    have hc := parseHead_cases false u (all.take i)
    cases hp : parseHead false u (all.take i) with
    | panic => exact absurd hp hnp
    | ok h =>
      simp only [ofReadOut]
      cases hcl : classify false h with
      | ok m => exact Or.inl ⟨m, rfl⟩
      | error e =>
        refine Or.inr ⟨e, rfl, ?_⟩
        rcases classify_errors false h e hcl with h1 | h1 | h1 <;> simp [Documented, h1]
    | err e =>
      simp only [ofReadOut]
      refine Or.inr ⟨headErr e, rfl, ?_⟩
      cases e <;> simp [headErr, Documented]
      exact absurd hp hc.2
  · simp only
    split
    · exact Or.inr ⟨_, rfl, by simp [Documented]⟩
    · split <;> exact Or.inr ⟨_, rfl, by simp [Documented]⟩

/-- **The outcome is the same however the bytes are split across reads**: for any two read
    schedules the loop gives the same result and leaves the same bytes for the next message —
    namely those of the denotational reader on the concatenated bytes. -/
theorem C01_sched_irrelevant (legacy pan : Bool) (u : Bytes → Option Url) (cap : Nat)
    (s₁ s₂ : Nat → Nat) (buf stream : Bytes) (hb : buf.length ≤ cap) :
    let r₁ := readRequestOp legacy pan u cap s₁ buf stream
    let r₂ := readRequestOp legacy pan u cap s₂ buf stream
    r₁.1 = r₂.1 ∧ r₁.2.1 ++ r₁.2.2 = r₂.2.1 ++ r₂.2.2 ∧
    r₁.1 = (readRequestD legacy pan u cap (buf ++ stream)).1 ∧
    r₁.2.1 ++ r₁.2.2 = (readRequestD legacy pan u cap (buf ++ stream)).2 := by
  have h1 := readHeadOp_eq_D pan u cap s₁ 0 buf stream hb
  have h2 := readHeadOp_eq_D pan u cap s₂ 0 buf stream hb
  simp only [readRequestOp, readRequestD]
  refine ⟨by rw [h1.1, h2.1], by rw [h1.2, h2.2], by rw [h1.1], h1.2⟩

theorem delim_prefix_iff (b : UInt8) (t : Bytes) :
    delim.isPrefixOf (b :: t) = true ↔ (b = 13 ∧ t.take 3 = [10, 13, 10]) := by
  rw [List.isPrefixOf_iff_prefix, List.prefix_iff_eq_take]
  simp only [delim, List.length_cons, List.length_nil, List.take_succ_cons]
  constructor
  · intro h; simp only [List.cons.injEq] at h; exact ⟨h.1.symm, h.2.symm⟩
  · intro ⟨h1, h2⟩; rw [h1, h2]

theorem findSlice_eq_firstBlankLine (l : Bytes) : findSlice delim l = ReadSpec.firstBlankLine l := by
  induction l with
  | nil => simp [findSlice, delim, ReadSpec.firstBlankLine]
  | cons b t ih =>
    unfold findSlice ReadSpec.firstBlankLine
    by_cases hp : delim.isPrefixOf (b :: t) = true
    · have := (delim_prefix_iff b t).mp hp
      rw [if_pos hp, if_pos this]
    · have : ¬ (b = 13 ∧ t.take 3 = [10, 13, 10]) := fun h => hp ((delim_prefix_iff b t).mpr h)
      simp only [hp, ih, this]
      simp

/-- **Consumes exactly the head.**  If the first blank line of `all` ends within the first `cap`
    bytes, then whatever the parse result the bytes left for the next message are exactly those
    after that blank line; otherwise nothing is handed on and the outcome is `HeadTooLong`
    (buffer full), `Disconnected` (nothing received) or `Truncated`. -/
theorem C01_consumes_exactly (legacy pan : Bool) (u : Bytes → Option Url) (cap : Nat) (all : Bytes) :
    match ReadSpec.firstBlankLine (all.take cap) with
    | some i => (readRequestD legacy pan u cap all).2 = all.drop (i + 4) ∧
        (readRequestD legacy pan u cap all).1 ≠ .err .headTooLong
    | none => (readRequestD legacy pan u cap all).2 = all ∧
        (readRequestD legacy pan u cap all).1 =
          .err (if cap ≤ all.length then .headTooLong else if all.isEmpty then .disconnected else .truncated) := by
  rw [← findSlice_eq_firstBlankLine]
  unfold readRequestD readHeadD
  cases hf : findSlice delim (all.take cap) with
  | some i =>
    simp only [true_and]
    cases hp : parseHead pan u (all.take i) with
    | ok h =>
      simp only [ofReadOut]
      cases hcl : classify legacy h with
      | ok m => simp
      | error e => rcases classify_errors legacy h e hcl with h1 | h1 | h1 <;> simp [h1]
    | panic => simp [ofReadOut]
    | err e => cases e <;> simp [ofReadOut, headErr]
  | none =>
    simp only [true_and]
    split
    · simp [ofReadOut]
    · split <;> simp [ofReadOut]

/-- **End of stream at any offset of a head** yields `Disconnected` (offset 0) or `Truncated`,
    never a parsed request: a proper prefix of a head whose only blank line is its end contains
    no blank line. -/
theorem C01_eof_anywhere (legacy pan : Bool) (u : Bytes → Option Url) (cap : Nat) (head p rest : Bytes)
    (hh : findSlice delim head = some (head.length - 4)) (h4 : 4 ≤ head.length)
    (hp : head = p ++ rest) (hrest : rest ≠ []) (hcap : p.length < cap) :
    (readRequestD legacy pan u cap p).1 = .err (if p.isEmpty then .disconnected else .truncated) := by
  have hnone : findSlice delim p = none := by
    cases hf : findSlice delim p with
    | none => rfl
    | some j =>
      exfalso
      have hb := findSlice_bound hf
      have := findSlice_append rest hf
      rw [← hp, hh] at this
      have hl : head.length = p.length + rest.length := by rw [hp]; simp
      have : rest.length > 0 := List.length_pos_iff.mpr hrest
      have hd : delim.length = 4 := rfl
      simp only [Option.some.injEq] at *
      omega
  unfold readRequestD readHeadD
  rw [List.take_of_length_le (by omega), hnone]
  have : ¬ cap ≤ p.length := by omega
  simp only [this, if_false]
  split <;> simp_all [ofReadOut]

/-- The pinned tree panicked on a header value byte ≥ 0x80 (`x: a\xe9b`); the repaired code answers
    `MalformedHeader`. -/
theorem C01_legacy_panics :
    parseHeaderLine true [120, 58, 32, 97, 233, 98] = .panic ∧
    parseHeaderLine false [120, 58, 32, 97, 233, 98] = .err := by decide

/-- Non-vacuity: an accepted head followed by the start of the next message. -/
example :
    (readRequestD false false (fun _ => some ⟨[47], none⟩) 64
      [71, 69, 84, 32, 47, 32, 72, 84, 84, 80, 47, 49, 46, 49, 13, 10, 104, 58, 32, 118, 13, 10, 13, 10, 78, 69, 88, 84]).2 = [78, 69, 88, 84] := by decide

end C01
end Servlin
