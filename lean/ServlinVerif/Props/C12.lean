import ServlinVerif.Model.Server
/-
  C12 — the connection limit is never exceeded and slots are conserved.

  Model: `Model/Server.lean`.  The statements quantify over every event sequence (every schedule of the accept
  loop, connection endings of any kind, accept failures, revocation), for both the repaired and the pinned
  accept loop (`legacy` is universally quantified: the defect repaired for C13 does not affect C12).
-/
namespace Servlin
namespace Server

/-- Units in the channel + live tokens = size. -/
def Tokens.Inv (t : Tokens) : Prop := t.units + t.live = t.size

theorem Tokens.new_inv (n : Nat) : (Tokens.new n).Inv := by simp [Tokens.Inv, Tokens.new]

theorem Tokens.take_inv (t : Tokens) (h : t.Inv) : t.take.1.Inv ∧ t.take.1.size = t.size := by
  unfold Tokens.take Tokens.Inv at *
  split <;> simp <;> omega

theorem Tokens.drop_inv (t : Tokens) (h : t.Inv) : t.drop.Inv ∧ t.drop.size = t.size := by
  unfold Tokens.drop Tokens.Inv at *
  split
  · exact ⟨h, rfl⟩
  · simp only; split <;> simp <;> omega

/-- C12 (pool): a dropped token always gets its unit back — `try_send` never finds the channel full. -/
theorem C12_drop_returns (t : Tokens) (h : t.Inv) (hl : t.live > 0) :
    t.drop.units = t.units + 1 ∧ t.drop.live = t.live - 1 := by
  unfold Tokens.drop Tokens.Inv at *
  rw [if_neg (by omega)]
  simp only
  rw [if_pos (by omega)]
  simp

/-- C12 (pool): a token is available exactly when fewer than `size` are out. -/
theorem C12_take_iff (t : Tokens) (h : t.Inv) : t.take.2 = true ↔ t.live < t.size := by
  unfold Tokens.take Tokens.Inv at *
  split <;> simp <;> omega

theorem Tokens.step_inv (t : Tokens) (op : TOp) (h : t.Inv) : (t.step op).1.Inv ∧ (t.step op).1.size = t.size := by
  cases op with
  | take => exact t.take_inv h
  | drop =>
    simp only [Tokens.step]; split
    · exact ⟨h, rfl⟩
    · exact t.drop_inv h
  | alone => exact ⟨h, rfl⟩

/-- C12 (pool, every API sequence): units in the set + live tokens = size after every sequence of
    take / timed take / drop / stand-alone tokens; in particular never more than `size` tokens are out. -/
theorem C12_tokens (n : Nat) (ops : List TOp) :
    ((Tokens.new n).run ops).1.Inv ∧ ((Tokens.new n).run ops).1.size = n ∧ ((Tokens.new n).run ops).1.live ≤ n := by
  suffices h : ∀ (t : Tokens), t.Inv → (t.run ops).1.Inv ∧ (t.run ops).1.size = t.size by
    obtain ⟨h1, h2⟩ := h _ (Tokens.new_inv n)
    refine ⟨h1, h2, ?_⟩
    have : (Tokens.new n).size = n := rfl
    unfold Tokens.Inv at h1; omega
  induction ops with
  | nil => intro t h; exact ⟨h, rfl⟩
  | cons op ops ih =>
    intro t h
    obtain ⟨h1, h2⟩ := t.step_inv op h
    obtain ⟨h3, h4⟩ := ih _ h1
    simp only [Tokens.run]
    exact ⟨h3, by rw [h4, h2]⟩

/-! ### Server level -/

/-- Every live token is owned by a connection task or by the accept loop. -/
structure SInv (n : Nat) (s : Srv) : Prop where
  tok : s.tokens.Inv
  size : s.tokens.size = n
  owners : s.tokens.live = s.serving + s.acc.holds

theorem new_sinv (n : Nat) : SInv n (Srv.new n) := ⟨Tokens.new_inv n, rfl, rfl⟩

theorem step_sinv (legacy : Bool) (n : Nat) (s s' : Srv) (e : Ev) (h : SInv n s) (hs : step legacy s e = some s') :
    SInv n s' := by
  obtain ⟨htok, hsize, hown⟩ := h
  have hd := s.tokens.drop_inv htok
  have ht := s.tokens.take_inv htok
  cases e with
  | grant =>
    simp only [step] at hs
    split at hs
    · rename_i hc
      have hu : s.tokens.units > 0 := hc.2
      have hacc : s.acc = .waitToken := hc.1
      have htl : s.tokens.take.1.live = s.tokens.live + 1 := by simp [Tokens.take, hu]
      split at hs
      · cases hs
        have hd2 := s.tokens.take.1.drop_inv ht.1
        have := C12_drop_returns _ ht.1 (by omega)
        exact ⟨hd2.1, by simp only; rw [hd2.2, ht.2, hsize], by simp only [Acc.holds]; rw [this.2, htl, hown, hacc]; simp [Acc.holds]⟩
      · cases hs
        exact ⟨ht.1, by simp only; rw [ht.2, hsize], by simp only [Acc.holds]; rw [htl, hown, hacc]; simp [Acc.holds]⟩
    · cases hs
  | acceptOk =>
    simp only [step] at hs
    split at hs
    · rename_i hacc; cases hs
      exact ⟨htok, hsize, by simp only [Acc.holds]; rw [hown, hacc]; simp [Acc.holds]⟩
    · cases hs
  | acceptErr =>
    simp only [step] at hs
    split at hs
    · rename_i hacc; cases hs
      exact ⟨htok, hsize, by simp only; rw [hown, hacc]; rfl⟩
    · cases hs
  | wake =>
    simp only [step] at hs
    split at hs
    · rename_i hacc; cases hs
      have := C12_drop_returns _ htok (by rw [hown, hacc]; simp [Acc.holds])
      exact ⟨hd.1, by simp only; rw [hd.2, hsize], by simp only [Acc.holds]; rw [this.2, hown, hacc]; simp [Acc.holds]⟩
    · cases hs
  | connEnd =>
    simp only [step] at hs
    split at hs
    · rename_i hserv; cases hs
      have := C12_drop_returns _ htok (by omega)
      exact ⟨hd.1, by simp only; rw [hd.2, hsize], by simp only; rw [this.2, hown]; omega⟩
    · cases hs
  | revoke => simp only [step] at hs; cases hs; exact ⟨htok, hsize, hown⟩
  | seeRevoked =>
    simp only [step] at hs
    split at hs
    · split at hs
      · rename_i hacc; cases hs
        have := C12_drop_returns _ htok (by rw [hown, hacc]; simp [Acc.holds])
        exact ⟨hd.1, by simp only; rw [hd.2, hsize], by simp only [Acc.holds]; rw [this.2, hown, hacc]; simp [Acc.holds]⟩
      · split at hs
        · rename_i hacc; cases hs
          exact ⟨htok, hsize, by simp only; rw [hown, hacc.1]; rfl⟩
        · cases hs
    · cases hs

theorem run_sinv (legacy : Bool) (n : Nat) (evs : List Ev) (s s' : Srv) (h : SInv n s) (hr : run legacy s evs = some s') :
    SInv n s' := by
  induction evs generalizing s with
  | nil => simp [run] at hr; subst hr; exact h
  | cons e es ih =>
    simp only [run] at hr
    split at hr
    · cases hr
    · rename_i s1 hs1
      exact ih s1 (step_sinv legacy n s s1 e h hs1) hr

/-- C12 (limit): after every history, in every schedule, the number of connections being serviced — plus the
    slot the accept loop holds for the next one — does not exceed `max_conns`. -/
theorem C12_limit (legacy : Bool) (n : Nat) (evs : List Ev) (s : Srv) (hr : run legacy (Srv.new n) evs = some s) :
    s.serving + s.acc.holds ≤ n := by
  obtain ⟨htok, hsize, hown⟩ := run_sinv legacy n evs _ s (new_sinv n) hr
  unfold Tokens.Inv at htok; omega

/-- C12 (conservation): the free slots are exactly `max_conns` minus the slots in use — however the
    connections that are gone ended.  With no connection and the accept loop waiting, all `max_conns` are free. -/
theorem C12_conserved (legacy : Bool) (n : Nat) (evs : List Ev) (s : Srv) (hr : run legacy (Srv.new n) evs = some s) :
    s.tokens.units + s.serving + s.acc.holds = n := by
  obtain ⟨htok, hsize, hown⟩ := run_sinv legacy n evs _ s (new_sinv n) hr
  unfold Tokens.Inv at htok; omega

theorem Tokens.take_drop (t : Tokens) (h : t.Inv) (hu : t.units > 0) : t.take.1.drop = t := by
  obtain ⟨sz, u, l⟩ := t
  unfold Tokens.Inv at h
  simp only at h hu
  simp only [Tokens.take, Tokens.drop, hu, if_true]
  rw [if_neg (by omega)]
  simp only [Tokens.mk.injEq, true_and]
  rw [if_pos (by omega)]
  omega

/-- C12 (accept failures): a failed accept — token taken, error, sleep, loop body ends — is always possible when a
    slot is free and leaves the pool exactly as it was: failures to accept never consume a slot. -/
theorem C12_accept_failure_free (legacy : Bool) (n : Nat) (s : Srv) (h : SInv n s) (hacc : s.acc = .waitToken)
    (hu : s.tokens.units > 0) (hrev : s.revoked = false) :
    ∃ s', run legacy s [.grant, .acceptErr, .wake] = some s' ∧
      s'.tokens = s.tokens ∧ s'.serving = s.serving ∧ s'.acc = .waitToken := by
  refine ⟨{ s with tokens := s.tokens.take.1.drop, acc := .waitToken }, ?_, s.tokens.take_drop h.tok hu, rfl, rfl⟩
  simp [run, step, hacc, hu, hrev]

/-- C12 (full capacity again): from any state of a running server in which the accept loop is waiting for a
    slot, accepting as many connections as there are free slots is possible, and then `max_conns` minus the ones
    already being serviced … i.e. exactly `max_conns` connections are serviced simultaneously. -/
theorem C12_full_again (legacy : Bool) (n : Nat) (s : Srv) (h : SInv n s) (hacc : s.acc = .waitToken)
    (hrev : s.revoked = false) :
    ∃ s', run legacy s (fill s.tokens.units) = some s' ∧ s'.serving = n := by
  generalize hk : s.tokens.units = k
  induction k generalizing s with
  | zero =>
    refine ⟨s, rfl, ?_⟩
    obtain ⟨htok, hsize, hown⟩ := h
    unfold Tokens.Inv at htok
    rw [hacc] at hown; simp [Acc.holds] at hown; omega
  | succ k ih =>
    have hu : s.tokens.units > 0 := by omega
    -- one grant + acceptOk
    let s1 : Srv := { s with tokens := s.tokens.take.1, acc := .accepting }
    have h1 : step legacy s .grant = some s1 := by simp [step, hacc, hu, hrev, s1]
    let s2 : Srv := { s1 with acc := .waitToken, serving := s1.serving + 1 }
    have h2 : step legacy s1 .acceptOk = some s2 := by simp [step, s1, s2, hrev]
    have hi2 : SInv n s2 := step_sinv legacy n s1 s2 _ (step_sinv legacy n s s1 _ h h1) h2
    have hu2 : s2.tokens.units = k := by simp [s2, s1, Tokens.take, hu]; omega
    obtain ⟨s', hr, hs'⟩ := ih s2 hi2 rfl (by simp [s2, s1, hrev]) hu2
    refine ⟨s', ?_, hs'⟩
    simp only [fill, run, h1, h2, hr]

/-! ### Non-vacuity -/

/-- A history with every kind of event, on a server with two slots. -/
example : (run false (Srv.new 2) [.grant, .acceptOk, .grant, .acceptErr, .wake, .grant, .acceptOk, .connEnd,
    .grant, .acceptOk]).map (fun s => (s.tokens.units, s.serving, s.acc)) = some (0, 2, Acc.waitToken) := by
  decide

/-- A third connection cannot be accepted while two are serviced: `grant` is not enabled. -/
example : run false (Srv.new 2) [.grant, .acceptOk, .grant, .acceptOk, .grant] = none := by decide

end Server
end Servlin
