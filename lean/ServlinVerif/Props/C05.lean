import ServlinVerif.Model.Conn
import ServlinVerif.Props.C06
/-
  C05 — the connection's protocol-state contract holds for every sequence of API calls.
  (Also the connection-level clauses of C08 and C20.)
-/
namespace Servlin
namespace C05
open ConnModel Serialize

/-- **Guards of the write side**: no response is owed ⇒ `ResponseAlreadySent`; write side shut
    down ⇒ `Disconnected`; in both cases the connection (wire, states) is unchanged. -/
theorem C05_write_guards (c : Conn) (r : Response) :
    (c.ws = .none → writeResponse c r = (c, .error .responseAlreadySent) ∧ writeContinue c = (c, .error .responseAlreadySent)) ∧
    (c.ws = .shutdown → writeResponse c r = (c, .error .disconnected) ∧ writeContinue c = (c, .error .disconnected)) := by
  constructor <;> intro h <;> simp [writeResponse, writeContinue, h]

/-- **Guards of request reading**: a response is owed ⇒ `ResponseNotSent`; a body is unread ⇒
    `BodyNotRead`; either side shut down ⇒ `Disconnected`; the connection is unchanged. -/
theorem C05_read_guards (u : Bytes → Option Url) (c : Conn) :
    (c.ws = .response → readRequest u c = (c, .error .responseNotSent)) ∧
    (c.ws = .shutdown → readRequest u c = (c, .error .disconnected)) ∧
    (c.ws = .none → (∃ l e ch g, c.rs = .body l e ch g) → readRequest u c = (c, .error .bodyNotRead)) ∧
    (c.ws = .none → c.rs = .shutdown → readRequest u c = (c, .error .disconnected)) := by
  refine ⟨?_, ?_, ?_, ?_⟩
  · intro h; simp [readRequest, h]
  · intro h; simp [readRequest, h]
  · rintro h ⟨l, e, ch, g, hr⟩; simp [readRequest, h, hr]
  · intro h hr; simp [readRequest, h, hr]

/-- **Guards of body reading**: no body announced ⇒ `BodyNotAvailable`; read side finished ⇒
    `Disconnected`; chunked or gzip coding ⇒ `UnsupportedTransferEncoding`; declared length above
    the limit ⇒ `BodyTooLong` — each without consuming or sending anything. -/
theorem C05_body_guards (c : Conn) (m : Nat) (fs : FsFault) :
    (c.rs = .head → readBodyToVec c = (c, .error .bodyNotAvailable) ∧ readBodyToFile c m fs = (c, .error .bodyNotAvailable)) ∧
    (c.rs = .shutdown → readBodyToVec c = (c, .error .disconnected) ∧ readBodyToFile c m fs = (c, .error .disconnected)) ∧
    (∀ l e ch g, c.rs = .body l e ch g → (ch || g) = true →
      readBodyToVec c = (c, .error .unsupportedTransferEncoding) ∧ readBodyToFile c m fs = (c, .error .unsupportedTransferEncoding)) ∧
    (∀ n e, c.rs = .body (some n) e false false → n > m → readBodyToFile c m fs = (c, .error .bodyTooLong)) := by
  refine ⟨?_, ?_, ?_, ?_⟩
  · intro h; simp [readBodyToVec, readBodyToFile, h]
  · intro h; simp [readBodyToVec, readBodyToFile, h]
  · intro l e ch g h hc; simp [readBodyToVec, readBodyToFile, h, hc]
  · intro n e h hn; simp [readBodyToFile, h, hn]

/-- What a successful `write_response` does to the protocol state: an interim (1xx) response leaves
    the response owed; a final one discharges it; a 5xx additionally shuts the write side down. -/
theorem C05_write_effect (c : Conn) (r : Response) (c' : Conn) (h : writeResponse c r = (c', .ok ())) :
    c.ws = .response ∧
    c'.wire = c.wire ++ (intended false r (500 ≤ r.code && r.code ≤ 599)).1 ∧
    c'.ws = (if 500 ≤ r.code ∧ r.code ≤ 599 then .shutdown else if r.code / 100 = 1 then .response else .none) := by
  unfold writeResponse at h
  cases hws : c.ws <;> simp only [hws] at h
  · cases h
  · cases hi : (intended false r (500 ≤ r.code && r.code ≤ 599)).2 with
    | error e => simp [hi] at h
    | ok u =>
      simp only [hi, Prod.mk.injEq, and_true] at h
      refine ⟨rfl, ?_, ?_⟩
      · rw [← h]
        by_cases h5 : (decide (500 ≤ r.code) && decide (r.code ≤ 599)) = true <;>
          by_cases h1 : (r.code / 100 == 1) = true <;> simp [h5, h1, shutdownWrite]
      · rw [← h]
        by_cases h5 : (500 ≤ r.code ∧ r.code ≤ 599)
        · have : (decide (500 ≤ r.code) && decide (r.code ≤ 599)) = true := by simp [h5]
          by_cases h1 : (r.code / 100 == 1) = true <;> simp [this, h5, h1, shutdownWrite]
        · have : (decide (500 ≤ r.code) && decide (r.code ≤ 599)) = false := by
            simp only [Bool.and_eq_false_imp, decide_eq_true_eq, decide_eq_false_iff_not]; intro a; exact fun b => h5 ⟨a, b⟩
          by_cases h1 : r.code / 100 = 1
          · have h1' : (r.code / 100 == 1) = true := by simp [h1]
            simp [this, h5, h1, h1', hws]
          · have h1' : (r.code / 100 == 1) = false := by simp [h1]
            simp [this, h5, h1, h1']
  · cases h

/-- **A failed `write_response` never corrupts the connection** (C08, connection level): if any byte
    was sent the write side is shut down — so by `C05_write_guards` nothing else, in particular no
    second status line, is ever written; if none was sent the state is untouched and the owed
    response (e.g. the 500) can still be sent. -/
theorem C08_conn (c : Conn) (r : Response) (c' : Conn) (e : HttpError) (hw : c.ws = .response)
    (h : writeResponse c r = (c', .error e)) :
    (c'.wire = c.wire → c' = c) ∧ (c'.wire ≠ c.wire → c'.ws = .shutdown) ∧ c.wire <+: c'.wire := by
  unfold writeResponse at h
  simp only [hw] at h
  cases hi : (intended false r (500 ≤ r.code && r.code ≤ 599)).2 with
  | ok u => simp [hi] at h
  | error e' =>
    simp only [hi, Prod.mk.injEq, Except.error.injEq] at h
    obtain ⟨hc, _⟩ := h
    generalize (intended false r (500 ≤ r.code && r.code ≤ 599)).1 = bytes at hc
    by_cases hb : bytes.length > 0
    · simp only [hb, if_true] at hc
      subst hc
      refine ⟨?_, fun _ => rfl, by simp [shutdownWrite]⟩
      intro hw'
      simp only [shutdownWrite] at hw'
      have : bytes = [] := by simpa using hw'
      rw [this] at hb; simp at hb
    · have : bytes = [] := by cases bytes <;> simp_all
      subst this
      simp only [List.length_nil, Nat.lt_irrefl, if_false, List.append_nil] at hc
      subst hc
      refine ⟨fun _ => ?_, fun hne => absurd rfl hne, List.prefix_refl _⟩
      cases c; simp_all

/-- **Nothing is sent after shutdown**: once the write side is shut down, no call ever changes the
    bytes on the wire or reopens it — for every further sequence of calls. -/
theorem C05_nothing_after_shutdown (u : Bytes → Option Url) (c : Conn) (ops : List Op) (h : c.ws = .shutdown) :
    (run u c ops).wire = c.wire ∧ (run u c ops).ws = .shutdown := by
  induction ops generalizing c with
  | nil => exact ⟨rfl, h⟩
  | cons op ops ih =>
    have hstep : (step u c op).1.wire = c.wire ∧ (step u c op).1.ws = .shutdown := by
      cases op with
      | readRequest => simp [step, readRequest, h]
      | readBodyToVec =>
        simp only [step]
        unfold readBodyToVec
        cases hrs : c.rs with
        | head => simp [h]
        | shutdown => simp [h]
        | body l e ch g =>
          simp only
          by_cases hc : (ch || g) = true
          · simp [hc, h]
          · simp only [hc, Bool.false_eq_true, if_false]
            cases e <;> simp [writeContinue, h] <;> cases l <;> simp [h] <;> (try split) <;> simp [h]
      | readBodyToFile m fs =>
        simp only [step]
        have hstore : ∀ (c0 : Conn) (got : Bytes) (bad : Option HttpError),
            (storeUpload c0 fs got bad).1.wire = c0.wire ∧ (storeUpload c0 fs got bad).1.ws = c0.ws := by
          intro c0 got bad
          unfold storeUpload
          split
          · exact ⟨rfl, rfl⟩
          · simp only [newFile, dropFile]
            split
            · exact ⟨rfl, rfl⟩
            · cases bad <;> exact ⟨rfl, rfl⟩
        have hwc : (writeContinue c).1 = c ∧ (writeContinue c).2 = .error .disconnected := by
          simp [writeContinue, h]
        unfold readBodyToFile
        cases hrs : c.rs with
        | head => simp [h]
        | shutdown => simp [h]
        | body l e ch g =>
          simp only
          by_cases hc : (ch || g) = true
          · simp [hc, h]
          · simp only [hc, Bool.false_eq_true, if_false]
            cases l with
            | none =>
              cases e
              · simp only [Bool.false_eq_true, if_false]
                have := hstore { c with rs := .shutdown, input := c.input.drop (min (m + 1) (2 ^ 64 - 1)) }
                  (c.input.take (min (m + 1) (2 ^ 64 - 1)))
                  (if (c.inputErr && decide (c.input.length < min (m + 1) (2 ^ 64 - 1))) = true then some .truncated
                   else if m < (c.input.take (min (m + 1) (2 ^ 64 - 1))).length then some .bodyTooLong else none)
                exact ⟨this.1, this.2.trans h⟩
              · simp [hwc.1, hwc.2, h]
            | some n =>
              simp only
              by_cases hn : n > m
              · simp [hn, h]
              · simp only [hn, if_false]
                cases e
                · simp only [Bool.false_eq_true, if_false]
                  have := hstore { c with rs := .head, input := c.input.drop n } (c.input.take n)
                    (if (c.input.take n).length < n then some .truncated else none)
                  exact ⟨this.1, this.2.trans h⟩
                · simp [hwc.1, hwc.2, h]
      | writeContinue => simp [step, writeContinue, h]
      | writeResponse r => simp [step, writeResponse, h]
      | shutdownWrite => simp [step, shutdownWrite]
    have := ih (step u c op).1 hstep.2
    simp only [run]
    exact ⟨this.1.trans hstep.1, this.2⟩

/-- **Every 5xx response that is sent is marked `connection: close`** (C20) and closes the write
    side: the bytes put on the wire start with the head built with `close = true`. -/
theorem C20_5xx_close (c : Conn) (r : Response) (c' : Conn) (h5 : 500 ≤ r.code ∧ r.code ≤ 599)
    (h : writeResponse c r = (c', .ok ())) :
    c'.ws = .shutdown ∧ ∃ body, c'.wire = c.wire ++ (headOf r true ++ body) ∧
      headOf r true = statusLine r.code ++ (match r.ctype with | some t => b!"content-type: " ++ t ++ crlf | none => []) ++
        (b!"connection: close" ++ crlf) ++ framingLine r.body ++ (r.headers.map fieldLine).flatten ++ crlf := by
  obtain ⟨_, hwire, hws⟩ := C05_write_effect c r c' h
  have hclose : (decide (500 ≤ r.code) && decide (r.code ≤ 599)) = true := by simp [h5]
  refine ⟨by simpa [h5] using hws, ?_⟩
  rw [hclose] at hwire
  have hok : (intended false r true).2 = .ok () := by
    unfold writeResponse at h
    cases hws0 : c.ws <;> simp only [hws0] at h
    · cases h
    · rw [hclose] at h
      cases hi : (intended false r true).2 with
      | ok u => rfl
      | error e => simp [hi] at h
    · cases h
  unfold intended at hwire hok
  cases hh : headBytes false r true with
  | error e => simp [hh] at hok
  | ok head =>
    have := (C06.C06_head_shape r true head hh).1
    simp only [hh] at hwire
    refine ⟨(bodyPhase r.body).1, ?_, ?_⟩
    · rw [hwire, this]
    · cases hct : r.ctype <;> simp [headOf, hct]

end C05
end Servlin
