import ServlinVerif.Lemmas.Headers
import ServlinVerif.Model.Request
/-
  C03 — message framing comes only from the headers; ambiguous framing is rejected.
  Statements are about `classify false` (the repaired `read_http_request` after the head).
-/
namespace Servlin
namespace C03
open RequestModel Headers

/-- The values of the fields named `name`, by the ordered-multimap specification (C14). -/
abbrev vals (hs : HeaderList) (name : Bytes) : List Bytes := Multimap.getAll hs name

theorem removeAll_eq (l : HeaderList) (n : Bytes) : Headers.removeAll l n = Multimap.removeAll l n := by
  have := C14_step l (.removeAll n)
  simp only [Headers.step, Multimap.step, Prod.mk.injEq, Out.list.injEq] at this
  exact Prod.ext this.2 this.1
where
  C14_step (l : HeaderList) (op : Op) : Headers.step l op = Multimap.step l op := by
    cases op with
    | add n v => rfl
    | getOnly n => simp [Headers.step, Multimap.step, Headers.getOnly, getOnlyLoop_none]
    | getAll n => simp [Headers.step, Multimap.step, Headers.getAll, getAll_foldl, Multimap.getAll]
    | removeOnly n =>
      simp only [Headers.step, Multimap.step, Headers.removeOnly, Headers.removeAll,
        removeAllLoop_eq, Multimap.removeOnly, Multimap.getOnly, Multimap.getAll]
      simp only [List.drop_zero, List.nil_append, List.take_zero]
      generalize List.map Header.value (List.filter (Multimap.isMatch n) l) = vs
      rcases vs with _ | ⟨v, _ | ⟨w, t⟩⟩ <;> rfl
    | removeAll n =>
      simp [Headers.step, Multimap.step, Headers.removeAll, removeAllLoop_eq, Multimap.removeAll,
        Multimap.getAll]

theorem removeOnly_eq (l : HeaderList) (n : Bytes) : Headers.removeOnly l n = Multimap.removeOnly l n := by
  have := removeAll_eq.C14_step l (.removeOnly n)
  simp only [Headers.step, Multimap.step, Prod.mk.injEq, Out.opt.injEq] at this
  exact Prod.ext this.2 this.1

theorem getAll_eq (l : HeaderList) (n : Bytes) : Headers.getAll l n = Multimap.getAll l n := by
  simp [Headers.getAll, getAll_foldl, Multimap.getAll]

def specOps : HeaderOps := ⟨Multimap.removeOnly, Multimap.removeAll, Multimap.getAll⟩

/-- By C14 the model's header operations are the multimap operations. -/
theorem ops_eq : modelOps = specOps := by
  unfold modelOps specOps
  congr 1
  · funext l n; exact removeOnly_eq l n
  · funext l n; exact removeAll_eq l n
  · funext l n; exact getAll_eq l n

theorem classify_eq (legacy : Bool) (h : Head) : classify legacy h = classifyWith specOps legacy h := by
  rw [classify, ops_eq]

open Multimap (isMatch) in
theorem getAll_filter_ne (l : HeaderList) (a b : Bytes) (hab : a.map toLower ≠ b.map toLower) :
    Multimap.getAll (l.filter (fun h => !isMatch a h)) b = Multimap.getAll l b := by
  unfold Multimap.getAll
  congr 1
  rw [List.filter_filter]
  apply List.filter_congr
  intro h _
  by_cases hb : isMatch b h = true
  · have : isMatch a h = false := by
      cases ha : isMatch a h with
      | false => rfl
      | true =>
        exfalso
        simp only [isMatch, eqIgnoreCase, beq_iff_eq] at ha hb
        exact hab (ha.symm.trans hb)
    simp [hb, this]
  · simp [hb]

/-- Transfer-Encoding stage: no field → no coding; one field → its coding list; several → reject. -/
def teStage (tes : List Bytes) : Option (Bool × Bool) :=
  match tes with
  | [] => some (false, false)
  | [v] => parseCodings v
  | _ => none

def cookieStage (cks : List Bytes) : Option (List (Bytes × Bytes)) := cks.foldlM parseCookieValue []

/-- Content-Length stage: no field → no length; one field → `1*DIGIT` below 2^64; else reject. -/
def lengthStage (cls : List Bytes) : Option (Option Nat) :=
  match cls with
  | [] => some none
  | [s] => (parseContentLength s).map some
  | _ => none

def ctStage (ct : Option Bytes) : CType := match ct with | some s => parseContentType s | none => .none

/-- The header list handed to the handler: the fields sent, in order, minus the three consumed ones. -/
def remaining (hs : HeaderList) : HeaderList :=
  ((hs.filter (fun h => !Multimap.isMatch (b!"content-type") h)).filter
    (fun h => !Multimap.isMatch (b!"expect") h)).filter (fun h => !Multimap.isMatch (b!"transfer-encoding") h)

open Multimap (isMatch) in
/-- **Closed form of request classification (repaired code).**  Everything the handler is told
    about framing, content type, expectation and cookies is the following function of the *field
    list as sent*: the three stages look only at the values of the fields with the respective
    name (`vals`), in order; a stage that rejects makes the request an error — a repeated or
    invalid framing field is never treated as absent. -/
theorem C03_classify_closed_form (h : Head) :
    classify false h =
      match teStage (vals h.headers (b!"transfer-encoding")) with
      | none => .error .unsupportedTransferEncoding
      | some (gzip, chunked) =>
        match cookieStage (vals h.headers (b!"cookie")) with
        | none => .error .malformedCookieHeader
        | some cookies =>
          match lengthStage (vals h.headers (b!"content-length")) with
          | none => .error .invalidContentLength
          | some cl =>
            let expect := Multimap.getOnly h.headers (b!"expect") == some (b!"100-continue")
            .ok { method := h.method, url := h.url, headers := remaining h.headers, cookies,
                  contentType := ctStage (Multimap.getOnly h.headers (b!"content-type")),
                  expectContinue := expect, chunked, gzip, contentLength := cl,
                  body := bodyKind chunked cl h.method expect gzip } := by
  have e1 : Multimap.getOnly (h.headers.filter (fun x => !isMatch (b!"content-type") x)) (b!"expect") =
      Multimap.getOnly h.headers (b!"expect") := by
    unfold Multimap.getOnly; rw [getAll_filter_ne _ _ _ (by decide)]
  have t1 : vals ((h.headers.filter (fun x => !isMatch (b!"content-type") x)).filter
      (fun x => !isMatch (b!"expect") x)) (b!"transfer-encoding") = vals h.headers (b!"transfer-encoding") := by
    unfold vals; rw [getAll_filter_ne _ _ _ (by decide), getAll_filter_ne _ _ _ (by decide)]
  have c1 : vals (remaining h.headers) (b!"cookie") = vals h.headers (b!"cookie") := by
    unfold vals remaining
    rw [getAll_filter_ne _ _ _ (by decide), getAll_filter_ne _ _ _ (by decide), getAll_filter_ne _ _ _ (by decide)]
  have l1 : vals (remaining h.headers) (b!"content-length") = vals h.headers (b!"content-length") := by
    unfold vals remaining
    rw [getAll_filter_ne _ _ _ (by decide), getAll_filter_ne _ _ _ (by decide), getAll_filter_ne _ _ _ (by decide)]
  rw [classify_eq]
  unfold classifyWith specOps
  simp only [Multimap.removeOnly, Multimap.removeAll]
  rw [e1]
  simp only [vals] at t1 c1 l1
  rw [t1]
  have hr : ((h.headers.filter (fun x => !isMatch (b!"content-type") x)).filter
      (fun x => !isMatch (b!"expect") x)).filter (fun x => !isMatch (b!"transfer-encoding") x) = remaining h.headers := rfl
  rw [hr, c1, l1]
  unfold teStage cookieStage lengthStage ctStage vals
  rcases Multimap.getAll h.headers (b!"transfer-encoding") with _ | ⟨v, _ | ⟨w, r⟩⟩ <;>
    simp only [Option.bind, Bool.false_eq_true, if_false]
  · rfl
  · cases parseCodings v <;> rfl

/-- **Repeated Transfer-Encoding is rejected**, never treated as absent. -/
theorem C03_rejects_repeated_te (h : Head) (hte : 2 ≤ (vals h.headers (b!"transfer-encoding")).length) :
    classify false h = .error .unsupportedTransferEncoding := by
  rw [C03_classify_closed_form]
  rcases hv : vals h.headers (b!"transfer-encoding") with _ | ⟨a, _ | ⟨b, r⟩⟩ <;> rw [hv] at hte
  · simp at hte
  · simp at hte
  · simp [teStage]

/-- **Unknown or mis-ordered codings are rejected.** -/
theorem C03_rejects_unknown_coding (h : Head) (v : Bytes) (hv : vals h.headers (b!"transfer-encoding") = [v])
    (hc : parseCodings v = none) : classify false h = .error .unsupportedTransferEncoding := by
  rw [C03_classify_closed_form, hv]; simp [teStage, hc]

/-- **Invalid or repeated Content-Length is never accepted**: whenever the length stage rejects —
    two or more fields (equal or different), a sign, a blank inside, a non-digit, an empty value
    or a value ≥ 2^64 — the request is an error. -/
theorem C03_rejects_bad_length (h : Head) (hl : lengthStage (vals h.headers (b!"content-length")) = none) :
    ∃ e, classify false h = .error e := by
  rw [C03_classify_closed_form, hl]
  cases teStage (vals h.headers (b!"transfer-encoding")) with
  | none => exact ⟨_, rfl⟩
  | some gc =>
    obtain ⟨g, c⟩ := gc
    cases cookieStage (vals h.headers (b!"cookie")) with
    | none => exact ⟨_, rfl⟩
    | some ck => exact ⟨_, rfl⟩

/-- What the length stage accepts and rejects. -/
theorem C03_length_rules (cls : List Bytes) :
    (cls = [] → lengthStage cls = some none) ∧
    (∀ s, cls = [s] → (s ≠ [] ∧ s.all isDigit ∧ digitsVal s < 2 ^ 64) → lengthStage cls = some (some (digitsVal s))) ∧
    (∀ s, cls = [s] → ¬ (s ≠ [] ∧ s.all isDigit ∧ digitsVal s < 2 ^ 64) → lengthStage cls = none) ∧
    (2 ≤ cls.length → lengthStage cls = none) := by
  refine ⟨?_, ?_, ?_, ?_⟩
  · rintro rfl; rfl
  · rintro s rfl h; simp [lengthStage, parseContentLength, h]
  · rintro s rfl h; simp only [lengthStage, parseContentLength, h, if_false, Option.map_none]
  · intro h
    rcases cls with _ | ⟨a, _ | ⟨b, r⟩⟩
    · simp at h
    · simp at h
    · rfl

/-- **A single valid Content-Length N and no coding**: the body is exactly the next N bytes
    (`PendingKnown N`), or empty for 0; the handler is told `content_length = Some(N)`. -/
theorem C03_single_length (h : Head) (s : Bytes)
    (hcl : vals h.headers (b!"content-length") = [s]) (hs : s ≠ [] ∧ s.all isDigit ∧ digitsVal s < 2 ^ 64)
    (hte : vals h.headers (b!"transfer-encoding") = []) (hck : vals h.headers (b!"cookie") = []) :
    ∃ m, classify false h = .ok m ∧ m.contentLength = some (digitsVal s) ∧ m.chunked = false ∧ m.gzip = false ∧
      m.body = (if digitsVal s = 0 then .empty else .pendingKnown (digitsVal s)) := by
  rw [C03_classify_closed_form, hcl, hte, hck]
  have hp : parseContentLength s = some (digitsVal s) := by simp [parseContentLength, hs]
  simp only [teStage, cookieStage, List.foldlM_nil, lengthStage, hp, Option.map_some, pure]
  refine ⟨_, rfl, rfl, rfl, rfl, ?_⟩
  simp only [bodyKind, Bool.false_eq_true, if_false]
  cases hd : digitsVal s <;> simp

/-- **Body-kind table**: with a valid single length `n` and no transfer coding the body is exactly
    the next `n` bytes (`n = 0`: no body); with neither, bodiless methods have no body and POST/PUT
    bodies run to the end of the stream; `chunked` always means unknown length. -/
theorem C03_body_table (method : Bytes) (expect gzip : Bool) (n : Nat) :
    bodyKind false (some 0) method expect gzip = .empty ∧
    bodyKind false (some (n + 1)) method expect gzip = .pendingKnown (n + 1) ∧
    bodyKind true (some n) method expect gzip = .pendingUnknown ∧
    bodyKind false none (b!"POST") expect gzip = .pendingUnknown ∧
    bodyKind false none (b!"PUT") expect gzip = .pendingUnknown ∧
    (method ≠ b!"POST" → method ≠ b!"PUT" → bodyKind false none method false false = .empty) ∧
    (method ≠ b!"POST" → method ≠ b!"PUT" → bodyKind false none method true gzip = .pendingUnknown) := by
  refine ⟨rfl, rfl, rfl, ?_, ?_, ?_, ?_⟩ <;> simp [bodyKind] <;> intros <;> simp_all

/-- Supported codings are reported as flags. -/
theorem C03_codings :
    parseCodings (b!"chunked") = some (false, true) ∧ parseCodings (b!"gzip") = some (true, false) ∧
    parseCodings (b!"gzip, chunked") = some (true, true) ∧ parseCodings (b!"chunked, gzip") = none ∧
    parseCodings (b!"identity") = none ∧ parseCodings [] = some (false, false) := by
  decide

def legacyWitness : Head :=
  ⟨[71], ⟨[47], none⟩, [⟨b!"content-length", [53]⟩, ⟨b!"content-length", [53]⟩]⟩

/-- The pinned tree treated a repeated Content-Length as absent ("no body": the body bytes would
    be parsed as the next request) and accepted `+5`; the repaired code rejects both. -/
theorem C03_legacy_violates :
    (classify true legacyWitness).toOption.map (fun m => (m.contentLength, m.body)) = some (none, .empty) ∧
    classify false legacyWitness = .error .invalidContentLength ∧
    rustParseU64 [43, 53] = some 5 ∧ parseContentLength [43, 53] = none := by
  refine ⟨?_, ?_, by decide, by decide⟩
  · rw [classify_eq]; decide
  · rw [C03_classify_closed_form]
    have h1 : teStage (vals legacyWitness.headers (b!"transfer-encoding")) = some (false, false) := by decide
    have h2 : cookieStage (vals legacyWitness.headers (b!"cookie")) = some [] := by decide
    have h3 : lengthStage (vals legacyWitness.headers (b!"content-length")) = none := by decide
    simp only [h1, h2, h3]

end C03
end Servlin
