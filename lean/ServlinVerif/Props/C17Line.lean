import ServlinVerif.Props.C17
/-
  C17 — the whole line: `LogEvent::write_jsonl` output is one line holding one flat JSON object whose members are
  exactly `time`, `level`, the tags in order (names and values unchanged), `time_ns` — for every tag list.
-/
namespace Servlin
namespace C17
open JsonModel Json

/-! ### Decimal digits -/

theorem digit_char : ∀ d : Fin 10, isDigit (Char.ofNat (48 + d.val)) = true ∧
    (Char.ofNat (48 + d.val) = '0' ↔ d.val = 0) ∧ Char.ofNat (48 + d.val) ≠ '\n' := by decide

theorem natDec_digits (n : Nat) : (natDec n ≠ []) ∧ ∀ c ∈ natDec n, isDigit c = true ∧ c ≠ '\n' := by
  induction n using Nat.strongRecOn with
  | _ n ih =>
    rw [natDec]
    split
    · rename_i h
      have := digit_char ⟨n, h⟩
      exact ⟨by simp, fun c hc => by simp at hc; subst hc; exact ⟨this.1, this.2.2⟩⟩
    · rename_i h
      have ih' := ih (n / 10) (by omega)
      have := digit_char ⟨n % 10, Nat.mod_lt n (by omega)⟩
      refine ⟨by simp, fun c hc => ?_⟩
      rcases List.mem_append.mp hc with hc | hc
      · exact ih'.2 c hc
      · simp at hc; subst hc; exact ⟨this.1, this.2.2⟩

theorem natDec_head (n : Nat) (hn : n ≠ 0) : (natDec n).head? ≠ some '0' := by
  induction n using Nat.strongRecOn with
  | _ n ih =>
    rw [natDec]
    split
    · rename_i h
      have := (digit_char ⟨n, h⟩).2.1
      simp only [List.head?_cons, ne_eq, Option.some.injEq]
      intro hc; exact hn (this.mp hc)
    · rename_i h
      have ih' := ih (n / 10) (by omega) (by omega)
      have hne := (natDec_digits (n / 10)).1
      cases hd : natDec (n / 10) with
      | nil => exact absurd hd hne
      | cons a t => rw [hd] at ih'; simpa using ih'

theorem takeDigits_append (ds : List Char) (c : Char) (rest : List Char) (hd : ∀ x ∈ ds, isDigit x = true)
    (hc : isDigit c = false) : takeDigits (ds ++ c :: rest) = (ds, c :: rest) := by
  induction ds with
  | nil => simp [takeDigits, hc]
  | cons a t ih =>
    simp only [List.cons_append, takeDigits, hd a (by simp), if_true]
    rw [ih (fun x hx => hd x (List.mem_cons_of_mem _ hx))]

/-- What may follow a value inside the object. -/
def IsSep (c : Char) : Prop := c = ',' ∨ c = '}'

theorem sep_facts (c : Char) (h : IsSep c) : isDigit c = false ∧ c ≠ '.' ∧ c ≠ 'e' ∧ c ≠ 'E' ∧ isWs c = false := by
  rcases h with rfl | rfl <;> decide

theorem takeSign_nonminus (a : Char) (t : List Char) (h : a ≠ '-') : takeSign (a :: t) = ([], a :: t) := by
  unfold takeSign
  split
  · rename_i heq; simp at heq; exact absurd heq.1 h
  · rfl

theorem takeFrac_sep (c : Char) (rest : List Char) (h : c ≠ '.') : takeFrac (c :: rest) = ([], c :: rest) := by
  unfold takeFrac
  split
  · rename_i heq; simp at heq; exact absurd heq.1 h
  · rfl

theorem takeExp_sep (c : Char) (rest : List Char) (h1 : c ≠ 'e') (h2 : c ≠ 'E') : takeExp (c :: rest) = ([], c :: rest) := by
  simp [takeExp, h1, h2]

/-- Digits without a superfluous leading zero, followed by a separator: one number token. -/
theorem parseNum_digits (sign ds : List Char) (c : Char) (rest : List Char) (hc : IsSep c)
    (hsign : sign = [] ∨ sign = ['-']) (hne : ds ≠ []) (hd : ∀ x ∈ ds, isDigit x = true)
    (hlead : ¬ (ds.length > 1 ∧ ds.head? = some '0')) :
    parseNum (sign ++ ds ++ c :: rest) = some (sign ++ ds, c :: rest) := by
  have hs := sep_facts c hc
  obtain ⟨a, t, rfl⟩ : ∃ a t, ds = a :: t := by
    cases ds with
    | nil => exact absurd rfl hne
    | cons a t => exact ⟨a, t, rfl⟩
  have ha : isDigit a = true := hd a (by simp)
  have hminus : a ≠ '-' := by intro h; subst h; simp [isDigit] at ha
  have htd := takeDigits_append (a :: t) c rest hd hs.1
  have hsg : takeSign (sign ++ (a :: t) ++ c :: rest) = (sign, (a :: t) ++ c :: rest) := by
    rcases hsign with rfl | rfl
    · simpa using takeSign_nonminus a (t ++ c :: rest) hminus
    · simp [takeSign]
  unfold parseNum
  simp only [hsg, htd, List.cons_ne_nil, if_false, hlead, takeFrac_sep c rest hs.2.1,
    takeExp_sep c rest hs.2.2.1 hs.2.2.2.1]
  simp

theorem parseNum_int (i : Int) (c : Char) (rest : List Char) (hc : IsSep c) :
    parseNum (intDec i ++ c :: rest) = some (intDec i, c :: rest) := by
  have hd := natDec_digits i.natAbs
  have hlead : ¬ ((natDec i.natAbs).length > 1 ∧ (natDec i.natAbs).head? = some '0') := by
    intro hh
    by_cases hn : i.natAbs = 0
    · rw [hn, natDec] at hh; simp at hh
    · exact natDec_head _ hn hh.2
  unfold intDec
  split
  · have := parseNum_digits ['-'] (natDec i.natAbs) c rest hc (Or.inr rfl) hd.1 (fun x hx => (hd.2 x hx).1) hlead
    simpa using this
  · have := parseNum_digits [] (natDec i.natAbs) c rest hc (Or.inl rfl) hd.1 (fun x hx => (hd.2 x hx).1) hlead
    simpa using this

/-! ### Value tokens -/

def valOf : TagValue → Val
  | .str s => .str s
  | .bool b => .bool b
  | .int i => .num (intDec i)
  | .float t => if t = "NaN".toList ∨ t = "inf".toList ∨ t = "-inf".toList then .null else .num t
  | .null => .null

/-- A value text is a token: followed by `,` or `}` it is not preceded by white space, it is read as one value
    and reading stops exactly at the separator; and it contains no line feed. -/
def ValTok (x : List Char) (v : Val) : Prop :=
  (∀ c rest, IsSep c → skipWs (x ++ c :: rest) = x ++ c :: rest ∧ parseVal (x ++ c :: rest) = some (v, c :: rest)) ∧
  '\n' ∉ x

theorem hex_no_nl : ∀ n : Fin 32, hexDigit (n.val / 16) ≠ '\n' ∧ hexDigit (n.val % 16) ≠ '\n' := by decide

theorem escapeChar_no_nl (c x : Char) (hx : x ∈ escapeChar c) : x ≠ '\n' := by
  unfold escapeChar at hx
  split at hx
  · simp at hx; rcases hx with rfl | rfl <;> decide
  · split at hx
    · simp at hx; rcases hx with rfl | rfl <;> decide
    · split at hx
      · rename_i h
        have := hex_no_nl ⟨c.toNat, h⟩
        simp only [List.mem_cons, List.mem_nil_iff, or_false] at hx
        rcases hx with rfl | rfl | rfl | rfl | rfl | rfl
        all_goals first | decide | exact this.1 | exact this.2
      · rename_i h
        simp at hx; subst hx
        intro hc; subst hc; exact h (by decide)

theorem jsonStr_no_nl (s : List Char) : '\n' ∉ jsonStr s := by
  unfold jsonStr
  intro h
  simp only [List.mem_cons, List.mem_append, List.mem_flatMap, List.mem_nil_iff, or_false] at h
  rcases h with h | ⟨c, _, hx⟩ | h
  · exact absurd h (by decide)
  · exact escapeChar_no_nl c _ hx rfl
  · exact absurd h (by decide)

theorem skipWs_cons (a : Char) (t : List Char) (h : isWs a = false) : skipWs (a :: t) = a :: t := by
  simp [skipWs, h]

theorem valTok_str (s : List Char) : ValTok (jsonStr s) (.str s) := by
  refine ⟨fun c rest _ => ⟨?_, C17_no_breakout s (c :: rest)⟩, jsonStr_no_nl s⟩
  simp only [jsonStr, List.cons_append]
  exact skipWs_cons _ _ (by decide)

theorem valTok_lit (x : List Char) (v : Val) (hx : x = "true".toList ∧ v = .bool true ∨ x = "false".toList ∧ v = .bool false ∨
    x = "null".toList ∧ v = .null) : ValTok x v := by
  rcases hx with ⟨rfl, rfl⟩ | ⟨rfl, rfl⟩ | ⟨rfl, rfl⟩
  all_goals
    refine ⟨fun c rest _ => ⟨?_, ?_⟩, by decide⟩
    · exact skipWs_cons _ _ (by decide)
    · simp [parseVal]

/-- A text that starts with a digit or a minus sign and that `parseNum` reads as one token before any separator. -/
theorem valTok_of_parseNum (x : List Char) (a : Char) (t : List Char) (hat : x = a :: t) (ha : a = '-' ∨ isDigit a = true)
    (hp : ∀ c rest, IsSep c → parseNum (x ++ c :: rest) = some (x, c :: rest)) (hnl : '\n' ∉ x) : ValTok x (.num x) := by
  have hnot : a ≠ '"' ∧ a ≠ 't' ∧ a ≠ 'f' ∧ a ≠ 'n' ∧ isWs a = false := by
    rcases ha with rfl | ha
    · decide
    · have : ∀ d : Fin 10, (Char.ofNat (48 + d.val) ≠ '"' ∧ Char.ofNat (48 + d.val) ≠ 't' ∧ Char.ofNat (48 + d.val) ≠ 'f' ∧
          Char.ofNat (48 + d.val) ≠ 'n' ∧ isWs (Char.ofNat (48 + d.val)) = false) := by decide
      simp only [isDigit, Bool.and_eq_true, decide_eq_true_eq] at ha
      have h1 : 48 ≤ a.toNat := ha.1
      have h2 : a.toNat ≤ 57 := ha.2
      have := this ⟨a.toNat - 48, by omega⟩
      have e : Char.ofNat (48 + (a.toNat - 48)) = a := by
        have : 48 + (a.toNat - 48) = a.toNat := by omega
        rw [this, Char.ofNat_toNat]
      simpa [e] using this
  refine ⟨fun c rest hc => ⟨?_, ?_⟩, hnl⟩
  · rw [hat]; exact skipWs_cons _ _ hnot.2.2.2.2
  · have hp := hp c rest hc
    rw [hat] at hp ⊢
    simp only [List.cons_append] at hp ⊢
    unfold parseVal
    split
    · rename_i heq; simp at heq; exact absurd heq.1 hnot.1
    · rename_i heq; simp at heq; exact absurd heq.1 hnot.2.1
    · rename_i heq; simp at heq; exact absurd heq.1 hnot.2.2.1
    · rename_i heq; simp at heq; exact absurd heq.1 hnot.2.2.2.1
    · simp [hp]

theorem valTok_int (i : Int) : ValTok (intDec i) (.num (intDec i)) := by
  have hfirst : ∃ a t, intDec i = a :: t ∧ (a = '-' ∨ isDigit a = true) := by
    unfold intDec
    split
    · exact ⟨'-', _, rfl, Or.inl rfl⟩
    · have hd := natDec_digits i.natAbs
      cases h : natDec i.natAbs with
      | nil => exact absurd h hd.1
      | cons a t => exact ⟨a, t, rfl, Or.inr (hd.2 a (by rw [h]; simp)).1⟩
  obtain ⟨a, t, hat, ha⟩ := hfirst
  refine valTok_of_parseNum _ a t hat ha (fun c rest hc => parseNum_int i c rest hc) ?_
  unfold intDec
  split
  · intro h
    rcases List.mem_cons.mp h with h | h
    · exact absurd h (by decide)
    · exact (natDec_digits _).2 _ h |>.2 rfl
  · intro h; exact (natDec_digits _).2 _ h |>.2 rfl

/-- The shape of Rust's `{}` for a finite float: optional minus, digits without superfluous leading zero, optionally
    a point and at least one digit.  (That Rust prints this shape is a fact about Rust's formatter: suite c17.) -/
structure FloatShape (x : List Char) : Prop where
  parts : ∃ sign ds fd, x = sign ++ ds ++ (if fd = [] then [] else '.' :: fd) ∧ (sign = [] ∨ sign = ['-']) ∧ ds ≠ [] ∧
    (∀ c ∈ ds, isDigit c = true) ∧ ¬ (ds.length > 1 ∧ ds.head? = some '0') ∧ (∀ c ∈ fd, isDigit c = true)

theorem digit_no_nl (c : Char) (h : isDigit c = true) : c ≠ '\n' := by
  intro hc; subst hc; simp [isDigit] at h

theorem valTok_float (x : List Char) (h : FloatShape x) : ValTok x (.num x) := by
  obtain ⟨sign, ds, fd, rfl, hsign, hne, hd, hlead, hfd⟩ := h.parts
  obtain ⟨a0, t0, hds⟩ : ∃ a t, ds = a :: t := by
    cases ds with
    | nil => exact absurd rfl hne
    | cons a t => exact ⟨a, t, rfl⟩
  have hfirst : ∃ a t, sign ++ ds ++ (if fd = [] then [] else '.' :: fd) = a :: t ∧ (a = '-' ∨ isDigit a = true) := by
    rcases hsign with rfl | rfl
    · exact ⟨a0, t0 ++ (if fd = [] then [] else '.' :: fd), by rw [hds]; simp, Or.inr (hd a0 (by rw [hds]; simp))⟩
    · exact ⟨'-', ds ++ (if fd = [] then [] else '.' :: fd), by simp, Or.inl rfl⟩
  obtain ⟨a, t, hat, ha⟩ := hfirst
  refine valTok_of_parseNum _ a t hat ha ?_ ?_
  · intro c rest hc
    have hs := sep_facts c hc
    by_cases hf : fd = []
    · subst hf
      simpa using parseNum_digits sign ds c rest hc hsign hne hd hlead
    · -- with a fraction
      have hminus : a0 ≠ '-' := by
        intro e; have := hd a0 (by rw [hds]; simp); rw [e] at this; simp [isDigit] at this
      have hdot : isDigit '.' = false := by decide
      have htd := takeDigits_append ds '.' (fd ++ c :: rest) hd hdot
      have htf := takeDigits_append fd c rest hfd hs.1
      have hsg : takeSign (sign ++ ds ++ ('.' :: fd) ++ c :: rest) = (sign, ds ++ '.' :: (fd ++ c :: rest)) := by
        rcases hsign with rfl | rfl
        · rw [hds]; simpa using takeSign_nonminus a0 (t0 ++ '.' :: (fd ++ c :: rest)) hminus
        · simp [takeSign]
      simp only [hf, if_false]
      unfold parseNum
      simp only [hsg, htd, hne, if_false, hlead, takeFrac, htf, takeExp_sep c rest hs.2.2.1 hs.2.2.2.1]
      simp [hf]
  · intro hmem
    simp only [List.mem_append] at hmem
    rcases hmem with (hm | hm) | hm
    · rcases hsign with rfl | rfl
      · simp at hm
      · simp at hm
    · exact digit_no_nl _ (hd _ hm) rfl
    · by_cases hf : fd = []
      · simp [hf] at hm
      · simp only [hf, if_false, List.mem_cons] at hm
        rcases hm with hm | hm
        · exact absurd hm (by decide)
        · exact digit_no_nl _ (hfd _ hm) rfl

/-- The tags whose values the theorem covers: everything except floats whose text is not a JSON number token
    (Rust's `{}` of a finite float always is; that fact is about Rust's formatter and is checked by suite c17). -/
def TagOk (t : Tag) : Prop :=
  match t.value with
  | .float x => (x = "NaN".toList ∨ x = "inf".toList ∨ x = "-inf".toList) ∨ FloatShape x
  | _ => True

theorem valTok_value (t : Tag) (h : TagOk t) : ValTok (valueText t.value) (valOf t.value) := by
  unfold TagOk at h
  cases hv : t.value with
  | str s => exact valTok_str s
  | bool b => cases b <;> exact valTok_lit _ _ (by simp [valueText, valOf])
  | int i => exact valTok_int i
  | null => exact valTok_lit _ _ (by simp [valueText, valOf])
  | float x =>
    rw [hv] at h
    simp only [valueText, valOf]
    rcases h with h | h
    · simp only [h, if_true]; exact valTok_lit _ _ (by simp)
    · by_cases hs : x = "NaN".toList ∨ x = "inf".toList ∨ x = "-inf".toList
      · simp only [hs, if_true]; exact valTok_lit _ _ (by simp)
      · simp only [hs, if_false]; exact valTok_float x h

/-! ### Members -/

def member (t : Tag) : List Char × Val := (t.name, valOf t.value)

theorem tagsText_cons (t : Tag) (ts : List Tag) (hne : ts ≠ []) :
    tagsText (t :: ts) = jsonStr t.name ++ [':'] ++ valueText t.value ++ [','] ++ tagsText ts := by
  cases ts with
  | nil => exact absurd rfl hne
  | cons a b => rfl

/-- One member: name, colon, value token, separator. -/
theorem member_step (fuel : Nat) (t : Tag) (ht : TagOk t) (c : Char) (rest : List Char) (hc : IsSep c)
    (acc : List (List Char × Val)) :
    parseMembers (fuel + 1) (jsonStr t.name ++ [':'] ++ valueText t.value ++ c :: rest) acc =
      if c = ',' then parseMembers fuel rest (member t :: acc) else some ((member t :: acc).reverse, rest) := by
  obtain ⟨hv, -⟩ := valTok_value t ht
  obtain ⟨hsk, hpv⟩ := hv c rest hc
  have hname := C17_string_roundtrip t.name ([':'] ++ valueText t.value ++ c :: rest) []
    ((t.name.flatMap escapeChar ++ ['"'] ++ ([':'] ++ valueText t.value ++ c :: rest)).length + 1) (by
      have : t.name.length ≤ (t.name.flatMap escapeChar).length := by
        induction t.name with
        | nil => simp
        | cons c t ih =>
          simp only [List.flatMap_cons, List.length_append, List.length_cons]
          have : 1 ≤ (escapeChar c).length := by unfold escapeChar; split <;> (try split) <;> (try split) <;> simp
          omega
      simp only [List.length_append, List.length_cons]; omega)
  have hin : jsonStr t.name ++ [':'] ++ valueText t.value ++ c :: rest =
      '"' :: (t.name.flatMap escapeChar ++ '"' :: ([':'] ++ valueText t.value ++ c :: rest)) := by
    simp [jsonStr]
  rw [hin, parseMembers, skipWs_cons _ _ (by decide)]
  simp only [List.append_assoc, List.cons_append, List.nil_append, List.length_append, List.length_cons] at hname ⊢
  rw [hname]
  have hws : isWs c = false := (sep_facts c hc).2.2.2.2
  simp only [List.reverse_nil, List.nil_append, skipWs_cons ':' _ (by decide), hsk, hpv, skipWs_cons c rest hws]
  rcases hc with rfl | rfl
  · simp [member]
  · simp [member]

theorem members_parse (ts : List Tag) (hne : ts ≠ []) (hok : ∀ t ∈ ts, TagOk t) (rest : List Char)
    (acc : List (List Char × Val)) (fuel : Nat) (hf : ts.length ≤ fuel) :
    parseMembers fuel (tagsText ts ++ '}' :: rest) acc = some (acc.reverse ++ ts.map member, rest) := by
  induction ts generalizing acc fuel with
  | nil => exact absurd rfl hne
  | cons t ts ih =>
    obtain ⟨f, rfl⟩ : ∃ f, fuel = f + 1 := ⟨fuel - 1, by simp at hf; omega⟩
    by_cases hts : ts = []
    · subst hts
      have := member_step f t (hok t (by simp)) '}' rest (Or.inr rfl) acc
      simp only [tagsText, List.append_assoc, List.cons_append, List.nil_append] at this ⊢
      rw [this]; simp
    · rw [tagsText_cons t ts hts]
      have := member_step f t (hok t (by simp)) ',' (tagsText ts ++ '}' :: rest) (Or.inl rfl) acc
      simp only [List.append_assoc, List.cons_append, List.nil_append] at this ⊢
      rw [this]
      simp only [if_true]
      rw [ih hts (fun x hx => hok x (List.mem_cons_of_mem _ hx)) (member t :: acc) f (by simp at hf; omega)]
      simp

/-! ### The line -/

/-- Text written between quotes without escaping (the timestamp and the level). -/
def Plain (s : List Char) : Prop := ∀ c ∈ s, c ≠ '"' ∧ c ≠ '\\' ∧ ¬ c.toNat < 0x20

theorem plain_escape (s : List Char) (h : Plain s) : s.flatMap escapeChar = s := by
  induction s with
  | nil => rfl
  | cons c t ih =>
    have hc := h c (by simp)
    have : escapeChar c = [c] := by simp [escapeChar, hc.1, hc.2.1, hc.2.2]
    simp only [List.flatMap_cons, this, ih (fun x hx => h x (List.mem_cons_of_mem _ hx))]
    rfl

def timeTag (iso : List Char) : Tag := ⟨['t', 'i', 'm', 'e'], .str iso⟩
def levelTag (level : List Char) : Tag := ⟨['l', 'e', 'v', 'e', 'l'], .str level⟩
def nsTag (ns : Nat) : Tag := ⟨['t', 'i', 'm', 'e', '_', 'n', 's'], .int ns⟩

/-- The members of a log line, in order. -/
def lineTags (iso level : List Char) (tags : List Tag) (ns : Nat) : List Tag :=
  timeTag iso :: levelTag level :: (tags ++ [nsTag ns])

theorem tagsText_snoc (ts : List Tag) (t : Tag) :
    tagsText (ts ++ [t]) = (if ts = [] then [] else tagsText ts ++ [',']) ++ tagsText [t] := by
  induction ts with
  | nil => simp
  | cons a b ih =>
    by_cases hb : b = []
    · subst hb; simp [tagsText]
    · have h1 : b ++ [t] ≠ [] := by simp
      simp only [List.cons_append, List.cons_ne_nil, if_false]
      rw [tagsText_cons a (b ++ [t]) h1, ih, if_neg hb, tagsText_cons a b hb]
      simp [List.append_assoc]

theorem intDec_nat (n : Nat) : intDec (n : Int) = natDec n := by
  simp [intDec]

theorem lit1 : "{\"time\":\"".toList = ['{', '"', 't', 'i', 'm', 'e', '"', ':', '"'] := by decide +kernel
theorem lit2 : "\",\"level\":\"".toList = ['"', ',', '"', 'l', 'e', 'v', 'e', 'l', '"', ':', '"'] := by decide +kernel
theorem lit3 : "\",".toList = ['"', ','] := by decide +kernel
theorem lit4 : "\"time_ns\":".toList = ['"', 't', 'i', 'm', 'e', '_', 'n', 's', '"', ':'] := by decide +kernel
theorem lit5 : "}\n".toList = ['}', '\n'] := by decide +kernel
theorem litE1 : jsonStr ['t', 'i', 'm', 'e'] = ['"', 't', 'i', 'm', 'e', '"'] := by decide +kernel
theorem litE2 : jsonStr ['l', 'e', 'v', 'e', 'l'] = ['"', 'l', 'e', 'v', 'e', 'l', '"'] := by decide +kernel
theorem litE3 : jsonStr ['t', 'i', 'm', 'e', '_', 'n', 's'] = ['"', 't', 'i', 'm', 'e', '_', 'n', 's', '"'] := by decide +kernel

theorem writeJsonl_eq (iso level : List Char) (tags : List Tag) (ns : Nat) (hi : Plain iso) (hl : Plain level) :
    writeJsonl iso level tags ns = '{' :: (tagsText (lineTags iso level tags ns) ++ ['}', '\n']) := by
  have hne : tags ++ [nsTag ns] ≠ [] := by
    intro h
    have := congrArg List.length h
    simp at this
  unfold lineTags
  rw [tagsText_cons _ _ (List.cons_ne_nil _ _), tagsText_cons _ _ hne, tagsText_snoc]
  unfold writeJsonl
  rw [lit1, lit2, lit3, lit4, lit5]
  simp only [timeTag, levelTag, nsTag, valueText, tagsText, litE1, litE2, litE3, intDec_nat]
  simp only [jsonStr, plain_escape iso hi, plain_escape level hl]
  by_cases ht : tags = []
  · subst ht; simp
  · simp [ht]

theorem tagsText_no_nl (ts : List Tag) (hok : ∀ t ∈ ts, TagOk t) : '\n' ∉ tagsText ts := by
  induction ts with
  | nil => simp [tagsText]
  | cons t ts ih =>
    have h1 := jsonStr_no_nl t.name
    have h2 := (valTok_value t (hok t (by simp))).2
    have ih' := ih (fun x hx => hok x (List.mem_cons_of_mem _ hx))
    cases ts with
    | nil =>
      simp only [tagsText, List.mem_append, List.mem_singleton, not_or]
      exact ⟨⟨h1, by decide⟩, h2⟩
    | cons a b =>
      rw [tagsText_cons t (a :: b) (List.cons_ne_nil _ _)]
      simp only [List.mem_append, List.mem_singleton, not_or]
      exact ⟨⟨⟨⟨h1, by decide⟩, h2⟩, by decide⟩, ih'⟩

theorem tagsText_head (t : Tag) (ts : List Tag) : ∃ r, tagsText (t :: ts) = '"' :: r := by
  cases ts with
  | nil => exact ⟨t.name.flatMap escapeChar ++ '"' :: ':' :: valueText t.value, by simp [tagsText, jsonStr]⟩
  | cons a b =>
    exact ⟨t.name.flatMap escapeChar ++ '"' :: ':' :: (valueText t.value ++ ',' :: tagsText (a :: b)), by
      rw [tagsText_cons t (a :: b) (List.cons_ne_nil _ _)]; simp [jsonStr]⟩

theorem tagsText_length (ts : List Tag) : ts.length ≤ (tagsText ts).length := by
  induction ts with
  | nil => simp
  | cons t ts ih =>
    cases ts with
    | nil => simp [tagsText, jsonStr]
    | cons a b =>
      rw [tagsText_cons t (a :: b) (List.cons_ne_nil _ _)]
      simp only [List.length_append, List.length_cons, List.length_nil] at ih ⊢
      omega

/-- **C17 (the whole line).**  For every tag list (names and string values arbitrary Unicode, integers, booleans, null,
    non-finite floats, and floats whose text is a number token), every timestamp/level text that needs no escaping and
    every `time_ns`: the output of `write_jsonl` is exactly one line — one `\n`, at the end — and before it one flat JSON
    object whose members are, in order, `time`, `level`, the tags with their names and values unchanged, `time_ns`. -/
theorem C17_line (iso level : List Char) (tags : List Tag) (ns : Nat) (hi : Plain iso) (hl : Plain level)
    (hok : ∀ t ∈ tags, TagOk t) :
    parseLine (writeJsonl iso level tags ns) = some ((lineTags iso level tags ns).map member) := by
  have hokL : ∀ t ∈ lineTags iso level tags ns, TagOk t := by
    intro t ht
    simp only [lineTags, List.mem_cons, List.mem_append, List.mem_nil_iff, or_false] at ht
    rcases ht with rfl | rfl | ht | rfl
    · simp [TagOk, timeTag]
    · simp [TagOk, levelTag]
    · exact hok t ht
    · simp [TagOk, nsTag]
  have hnl := tagsText_no_nl _ hokL
  obtain ⟨r, hr⟩ := tagsText_head (timeTag iso) (levelTag level :: (tags ++ [nsTag ns]))
  have hlen := tagsText_length (lineTags iso level tags ns)
  rw [writeJsonl_eq iso level tags ns hi hl]
  generalize hX : tagsText (lineTags iso level tags ns) = X at hnl hlen
  have hXr : X = '"' :: r := by rw [← hX]; exact hr
  have hrev : ('{' :: (X ++ ['}', '\n'])).reverse = '\n' :: ('}' :: X.reverse ++ ['{']) := by simp
  unfold parseLine
  rw [hrev]
  have hc : ('}' :: X.reverse ++ ['{']).contains '\n' = false := by
    simp only [List.contains_eq_mem, List.cons_append, List.mem_cons, List.mem_append, List.mem_reverse, List.mem_nil_iff,
      or_false, decide_eq_false_iff_not, not_or]
    exact ⟨by decide, hnl, by decide⟩
  simp only [hc, Bool.false_eq_true, if_false]
  have hb : ('}' :: X.reverse ++ ['{']).reverse = '{' :: (X ++ ['}']) := by simp
  rw [hb]
  unfold parseObject
  rw [skipWs_cons '{' _ (by decide)]
  have hsk : skipWs (X ++ ['}']) = '"' :: (r ++ ['}']) := by
    rw [hXr]; exact skipWs_cons '"' _ (by decide)
  have hm := members_parse (lineTags iso level tags ns) (List.cons_ne_nil _ _) hokL [] [] ((X ++ ['}']).length + 1) (by
    simp only [List.length_append, List.length_cons, List.length_nil]; omega)
  rw [hX] at hm
  split
  · rename_i rest heq
    simp only [List.cons.injEq, true_and] at heq
    subst heq
    rw [hsk]
    split
    · rename_i heq2; simp at heq2
    · rw [hm]; simp [skipWs]
  · rename_i hno; exact absurd rfl (hno _)

/-- Non-vacuity: a line with a string that tries to break out, a control character, a negative integer, a boolean,
    null and a non-finite float. -/
example : parseLine (writeJsonl "2026-09-29T12:00:00Z".toList "info".toList
    [⟨"msg".toList, .str "a\",\"x\":1}\n".toList⟩, ⟨"k\u0001".toList, .int (-42)⟩, ⟨"ok".toList, .bool true⟩,
     ⟨"n".toList, .null⟩, ⟨"f".toList, .float "NaN".toList⟩] 5) =
    some [("time".toList, .str "2026-09-29T12:00:00Z".toList), ("level".toList, .str "info".toList),
      ("msg".toList, .str "a\",\"x\":1}\n".toList), ("k\u0001".toList, .num "-42".toList), ("ok".toList, .bool true),
      ("n".toList, .null), ("f".toList, .null), ("time_ns".toList, .num "5".toList)] := by
  decide +kernel

end C17
end Servlin
