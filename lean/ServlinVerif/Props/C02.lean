import ServlinVerif.Lemmas.Head
import ServlinVerif.Lemmas.Split
import ServlinVerif.Spec.Grammar7230
import ServlinVerif.Lemmas.Render
import ServlinVerif.Props.C01
/-
  C02 — the parsed head is faithful to the bytes sent (RFC 7230 grammar agreement).
-/
namespace Servlin
namespace C02
open HeadModel

/-! ### Declarative shapes of the two kinds of lines -/

/-- `method SP request-target SP HTTP-version` with a token method and blank-free other parts. -/
def RequestLineShape (l : Bytes) : Prop :=
  ∃ m t p, l = m ++ 32 :: (t ++ 32 :: p) ∧ m ≠ [] ∧ (∀ b ∈ m, isTchar b = true) ∧
    t ≠ [] ∧ (∀ b ∈ t, notWs b = true) ∧ p ≠ [] ∧ (∀ b ∈ p, notWs b = true)

/-- `field-name ":" …` with a token name immediately followed by the colon. -/
def FieldLineShape (l : Bytes) : Prop :=
  ∃ n v, l = n ++ 58 :: v ∧ n ≠ [] ∧ (∀ b ∈ n, isTchar b = true)

theorem tchar_ne_sp (b : UInt8) (h : isTchar b = true) : b ≠ 32 := by
  rintro rfl; revert h; decide
theorem tchar_ne_colon (b : UInt8) (h : isTchar b = true) : b ≠ 58 := by
  rintro rfl; revert h; decide
theorem notWs_ne_sp (b : UInt8) (h : notWs b = true) : b ≠ 32 := by
  rintro rfl; revert h; decide

/-- On a line of the documented shape the matcher finds exactly the three parts. -/
theorem split_request_line (m t p : Bytes) (hm : ∀ b ∈ m, isTchar b = true) (ht : ∀ b ∈ t, notWs b = true)
    (hp : ∀ b ∈ p, notWs b = true) : splitOn 32 (m ++ 32 :: (t ++ 32 :: p)) = [m, t, p] := by
  rw [splitOn_append_sep 32 m _ (fun b hb => tchar_ne_sp b (hm b hb)),
    splitOn_append_sep 32 t _ (fun b hb => notWs_ne_sp b (ht b hb)),
    splitOn_no_sep 32 p (fun b hb => notWs_ne_sp b (hp b hb))]

/-- **A request line that violates the grammar is rejected as such** (never repaired). -/
theorem C02_rejects_request_line (u : Bytes → Option Url) (l : Bytes) (h : ¬ RequestLineShape l) :
    parseRequestLine u l = .error .malformedRequestLine := by
  unfold parseRequestLine
  split
  · next m t p hs =>
    split
    · next hc =>
      exfalso; apply h
      obtain ⟨hm0, hm, ht0, ht, hp0, hp⟩ := hc
      have hj := (splitOn_spec 32 l).2
      rw [hs] at hj
      refine ⟨m, t, p, ?_, hm0, ?_, ht0, ?_, hp0, ?_⟩
      · rw [hj]; simp [List.intersperse]
      · simpa [List.all_eq_true] using hm
      · simpa [List.all_eq_true] using ht
      · simpa [List.all_eq_true] using hp
    · rfl
  · rfl

/-- **Request line of the documented shape**: the result is decided by the target and the version
    only — a target that is not UTF-8, does not start with "/" or is refused by the URL parser is
    `MalformedPath`; otherwise a version other than `HTTP/1.1` is `UnsupportedProtocol`; otherwise
    the method is exposed verbatim together with what the URL parser returned for the target. -/
theorem C02_request_line (u : Bytes → Option Url) (m t p : Bytes) (hm0 : m ≠ [])
    (hm : ∀ b ∈ m, isTchar b = true) (ht0 : t ≠ []) (ht : ∀ b ∈ t, notWs b = true) (hp0 : p ≠ [])
    (hp : ∀ b ∈ p, notWs b = true) :
    parseRequestLine u (m ++ 32 :: (t ++ 32 :: p)) =
      if isUtf8 t = false ∨ t.head? ≠ some 47 then .error .malformedPath
      else match u t with
        | none => .error .malformedPath
        | some url => if p ≠ http11 then .error .unsupportedProtocol else .ok (m, url) := by
  unfold parseRequestLine
  rw [split_request_line m t p hm ht hp]
  have hc : m ≠ [] ∧ m.all isTchar = true ∧ t ≠ [] ∧ t.all notWs = true ∧ p ≠ [] ∧ p.all notWs = true :=
    ⟨hm0, by simpa [List.all_eq_true] using hm, ht0, by simpa [List.all_eq_true] using ht, hp0,
      by simpa [List.all_eq_true] using hp⟩
  simp only [hc, and_self, if_true]
  by_cases h1 : isUtf8 t = true
  · by_cases h2 : t.head? = some 47
    · cases hu : u t <;> simp [h1, h2, hm0, ht0, hp0, hu]
    · simp [h1, h2, hm0, ht0, hp0]
  · simp [h1, hm0, ht0, hp0]

theorem mem_takeWhile_sat (p : UInt8 → Bool) (l : Bytes) (b : UInt8) (h : b ∈ l.takeWhile p) : p b = true := by
  induction l with
  | nil => simp at h
  | cons x t ih =>
    simp only [List.takeWhile] at h
    split at h
    · next hx =>
      simp only [List.mem_cons] at h
      rcases h with rfl | h
      · exact hx
      · exact ih h
    · simp at h

theorem dropWhile_all (p : UInt8 → Bool) (a r : Bytes) (h : ∀ b ∈ a, p b = true) :
    (a ++ r).dropWhile p = r.dropWhile p := by
  induction a with
  | nil => rfl
  | cons x t ih =>
    have hx := h x (by simp)
    simp [List.dropWhile, hx, ih (fun b hb => h b (List.mem_cons_of_mem _ hb))]

theorem dropWhile_all_nil (p : UInt8 → Bool) (a : Bytes) (h : ∀ b ∈ a, p b = true) : a.dropWhile p = [] := by
  have := dropWhile_all p a [] h
  simpa using this

/-- **A field line that violates the grammar is rejected** (no token name immediately followed by
    a colon: empty name, blank before the colon, obs-fold continuation, missing colon …). -/
theorem C02_rejects_field_line (pan : Bool) (l : Bytes) (h : ¬ FieldLineShape l) :
    parseHeaderLine pan l = .err := by
  unfold parseHeaderLine
  dsimp only
  split
  · next rest hd =>
    split
    · rfl
    · next hne =>
      exfalso; apply h
      refine ⟨l.takeWhile isTchar, rest, ?_, hne, ?_⟩
      · have := List.takeWhile_append_dropWhile (p := isTchar) (l := l)
        rw [hd] at this; exact this.symm
      · intro b hb; exact mem_takeWhile_sat isTchar l b hb
  · rfl

theorem takeWhile_token (n v : Bytes) (hn : ∀ b ∈ n, isTchar b = true) :
    (n ++ 58 :: v).takeWhile isTchar = n ∧ (n ++ 58 :: v).dropWhile isTchar = 58 :: v := by
  induction n with
  | nil =>
    have h58 : isTchar 58 = false := by decide
    simp [List.takeWhile, List.dropWhile, h58]
  | cons x t ih =>
    have hx := hn x (by simp)
    have := ih (fun b hb => hn b (List.mem_cons_of_mem _ hb))
    simp [List.takeWhile, List.dropWhile, hx, this]

/-- **Field line of the documented shape**: name verbatim; value = everything after the colon with
    surrounding SP/HT/CR/LF removed; accepted iff that value is pure ASCII (repaired code). -/
theorem C02_field_line (n v : Bytes) (hn0 : n ≠ []) (hn : ∀ b ∈ n, isTchar b = true) :
    parseHeaderLine false (n ++ 58 :: v) =
      if (trimWhitespace v).all (· < 128) then .ok ⟨n, trimWhitespace v⟩ else .err := by
  unfold parseHeaderLine
  dsimp only
  rw [(takeWhile_token n v hn).1, (takeWhile_token n v hn).2]
  simp [hn0]

/-- Stripping of optional whitespace: for a value over VCHAR/SP/HT that neither starts nor ends
    with SP/HT, surrounded by arbitrary SP/HT, exactly the value is recovered. -/
theorem trim_ows (pre v post : Bytes) (hpre : ∀ b ∈ pre, isHws b = true) (hpost : ∀ b ∈ post, isHws b = true)
    (hh : ∀ b, v.head? = some b → isHws b = false) (hl : ∀ b, v.getLast? = some b → isHws b = false) :
    trimWhitespace (pre ++ v ++ post) = v := by
  unfold trimWhitespace
  rw [List.append_assoc, dropWhile_all isHws pre _ hpre]
  cases v with
  | nil =>
    simp only [List.nil_append]
    rw [dropWhile_all_nil isHws post hpost]
    rfl
  | cons x xs =>
    have hx := hh x rfl
    have h1 : (x :: xs ++ post).dropWhile isHws = x :: xs ++ post := by
      simp [List.dropWhile, hx]
    rw [h1, List.reverse_append]
    rw [dropWhile_all isHws post.reverse _ (fun b hb => hpost b (List.mem_reverse.mp hb))]
    have hne : (x :: xs).reverse ≠ [] := by simp
    obtain ⟨y, ys, hy⟩ := List.exists_cons_of_ne_nil hne
    have hlast : (x :: xs).getLast? = some y := by
      rw [← List.head?_reverse, hy]; rfl
    have := hl y hlast
    rw [hy]
    simp only [List.dropWhile, this]
    rw [← hy, List.reverse_reverse]

/-! ### Well-formed heads are accepted and exposed faithfully -/

theorem forall_uint8 (P : UInt8 → Bool) (h : ∀ n : Fin 256, P (UInt8.ofNat n.val) = true) (b : UInt8) :
    P b = true := by
  have := h ⟨b.toNat, UInt8.toNat_lt b⟩
  simpa using this

/-- Facts about the byte classes of the grammar, checked over all 256 byte values. -/
theorem byte_classes (b : UInt8) :
    (Grammar.tchar b = isTchar b) ∧
    (Grammar.ows b = true → isHws b = true) ∧
    (Grammar.fieldByte b = true → b < 128 ∧ b ≠ 13 ∧ b ≠ 10) ∧
    (Grammar.fieldByte b = true → Grammar.ows b = false → isHws b = false) ∧
    (Grammar.vchar b = true → notWs b = true ∧ b < 128 ∧ b ≠ 13 ∧ b ≠ 10) ∧
    (isTchar b = true → b ≠ 13 ∧ b ≠ 10 ∧ b < 128) := by
  have := forall_uint8 (fun b =>
    decide ((Grammar.tchar b = isTchar b) ∧
    (Grammar.ows b = true → isHws b = true) ∧
    (Grammar.fieldByte b = true → b < 128 ∧ b ≠ 13 ∧ b ≠ 10) ∧
    (Grammar.fieldByte b = true → Grammar.ows b = false → isHws b = false) ∧
    (Grammar.vchar b = true → notWs b = true ∧ b < 128 ∧ b ≠ 13 ∧ b ≠ 10) ∧
    (isTchar b = true → b ≠ 13 ∧ b ≠ 10 ∧ b < 128))) (by decide +kernel) b
  exact of_decide_eq_true this

theorem isUtf8_ascii (l : Bytes) (h : ∀ b ∈ l, b < 128) : isUtf8 l = true := by
  induction l with
  | nil => rfl
  | cons x t ih =>
    have hx := h x (by simp)
    unfold isUtf8
    simp only [hx, if_true]
    exact ih (fun b hb => h b (List.mem_cons_of_mem _ hb))

/-- What the handler is shown for a field: name verbatim, value stripped of the OWS only. -/
def exposed (f : Grammar.Field) : Header := ⟨f.name, f.value⟩

theorem field_wf_facts (f : Grammar.Field) (h : f.wf = true) :
    f.name ≠ [] ∧ (∀ b ∈ f.name, isTchar b = true) ∧ (∀ b ∈ f.pre, isHws b = true) ∧
    (∀ b ∈ f.post, isHws b = true) ∧ (∀ b ∈ f.value, Grammar.fieldByte b = true) ∧
    (∀ b, f.value.head? = some b → isHws b = false) ∧ (∀ b, f.value.getLast? = some b → isHws b = false) := by
  simp only [Grammar.Field.wf, Grammar.isToken, Bool.and_eq_true, bne_iff_ne, ne_eq, decide_eq_true_eq,
    List.all_eq_true] at h
  obtain ⟨⟨⟨⟨⟨⟨hn0, hn⟩, hpre⟩, hpost⟩, hv⟩, hhd⟩, hlast⟩ := h
  refine ⟨by simpa using hn0, fun b hb => by rw [← (byte_classes b).1]; exact hn b hb,
    fun b hb => (byte_classes b).2.1 (hpre b hb), fun b hb => (byte_classes b).2.1 (hpost b hb), hv, ?_, ?_⟩
  · intro b hb
    rw [hb] at hhd
    have hvb : b ∈ f.value := List.mem_of_head? hb
    exact (byte_classes b).2.2.2.1 (hv b hvb) (by simpa using hhd)
  · intro b hb
    rw [hb] at hlast
    have hvb : b ∈ f.value := List.mem_of_getLast? hb
    exact (byte_classes b).2.2.2.1 (hv b hvb) (by simpa using hlast)

/-- A well-formed field line is accepted: name verbatim, value stripped only of the OWS. -/
theorem C02_field_accepted (f : Grammar.Field) (h : f.wf = true) :
    parseHeaderLine false f.render = .ok (exposed f) := by
  obtain ⟨hn0, hn, hpre, hpost, hv, hhd, hlast⟩ := field_wf_facts f h
  have : f.render = f.name ++ 58 :: (f.pre ++ f.value ++ f.post) := by
    simp [Grammar.Field.render]
  rw [this, C02_field_line f.name _ hn0 hn, trim_ows f.pre f.value f.post hpre hpost hhd hlast]
  have hascii : f.value.all (· < 128) = true := by
    simp only [List.all_eq_true, decide_eq_true_eq]
    intro b hb; exact ((byte_classes b).2.2.1 (hv b hb)).1
  simp [hascii, exposed]

theorem fields_accepted (fs : List Grammar.Field) (h : ∀ f ∈ fs, f.wf = true) (acc : HeaderList) :
    parseHeaderLines false (fs.map Grammar.Field.render) acc = .ok (acc ++ fs.map exposed) := by
  induction fs generalizing acc with
  | nil => simp [parseHeaderLines]
  | cons f fs ih =>
    simp only [List.map_cons, parseHeaderLines, C02_field_accepted f (h f (by simp))]
    rw [ih (fun g hg => h g (List.mem_cons_of_mem _ hg))]
    simp

theorem field_render_clean (f : Grammar.Field) (h : f.wf = true) : Render.CleanLine f.render := by
  obtain ⟨hn0, hn, hpre, hpost, hv, _, _⟩ := field_wf_facts f h
  have hw := h
  simp only [Grammar.Field.wf, Bool.and_eq_true, List.all_eq_true] at hw
  obtain ⟨⟨⟨⟨⟨_, hpre'⟩, hpost'⟩, _⟩, _⟩, _⟩ := hw
  refine ⟨by simp [Grammar.Field.render], ?_⟩
  intro b hb
  simp only [Grammar.Field.render, List.mem_append, List.mem_singleton] at hb
  rcases hb with (((hb | rfl) | hb) | hb) | hb
  · exact ⟨((byte_classes b).2.2.2.2.2 (hn b hb)).1, ((byte_classes b).2.2.2.2.2 (hn b hb)).2.1⟩
  · decide
  · have := hpre' b hb; simp only [Grammar.ows, Bool.or_eq_true, beq_iff_eq] at this
    rcases this with rfl | rfl <;> decide
  · exact ⟨((byte_classes b).2.2.1 (hv b hb)).2.1, ((byte_classes b).2.2.1 (hv b hb)).2.2⟩
  · have := hpost' b hb; simp only [Grammar.ows, Bool.or_eq_true, beq_iff_eq] at this
    rcases this with rfl | rfl <;> decide

theorem render_eq (h : Grammar.RawHead) :
    h.render = Render.joinCrlf (h.requestLine :: h.fields.map Grammar.Field.render) ++ 13 :: 10 :: 13 :: 10 :: [] := by
  unfold Grammar.RawHead.render Grammar.crlf
  generalize h.requestLine = rl
  induction h.fields generalizing rl with
  | nil => simp [Render.joinCrlf]
  | cons f fs ih =>
    simp only [List.map_cons, List.flatten_cons, Render.joinCrlf]
    have := ih f.render
    simp only [List.append_assoc, List.cons_append, List.nil_append] at this ⊢
    rw [this]

/-- **Well-formed heads are accepted and exposed exactly.**  For every head derivable from the
    grammar (token method, VCHAR origin-form target, HTTP/1.1, any number of name-colon-value
    fields with arbitrary optional whitespace) followed by arbitrary further bytes: exactly the
    head is consumed; if the URL parser accepts the target the handler sees the method verbatim,
    the URL parser's result for exactly that target, and every field in the order sent with its
    name verbatim and its value stripped only of the surrounding optional whitespace; if the URL
    parser refuses the target the outcome is `MalformedPath`. -/
theorem C02_accepts_wf (u : Bytes → Option Url) (h : Grammar.RawHead) (hw : h.wf = true) (rest : Bytes) :
    tryRead false u (h.render ++ rest) =
      ((match u h.target with
        | some url => .ok ⟨h.method, url, h.fields.map exposed⟩
        | none => .err .malformedPath), rest) := by
  have hw' := hw
  simp only [Grammar.RawHead.wf, Grammar.isToken, Bool.and_eq_true, bne_iff_ne, ne_eq, decide_eq_true_eq,
    List.all_eq_true, beq_iff_eq] at hw'
  obtain ⟨⟨⟨⟨hm0, hm⟩, hthead⟩, ht⟩, hfs⟩ := hw'
  have hm0' : h.method ≠ [] := by simpa using hm0
  have hmT : ∀ b ∈ h.method, isTchar b = true := fun b hb => by rw [← (byte_classes b).1]; exact hm b hb
  have ht0 : h.target ≠ [] := by intro hc; rw [hc] at hthead; simp at hthead
  have htN : ∀ b ∈ h.target, notWs b = true := fun b hb => ((byte_classes b).2.2.2.2.1 (ht b hb)).1
  have hp0 : (b!"HTTP/1.1" : Bytes) ≠ [] := by decide
  have hpN : ∀ b ∈ (b!"HTTP/1.1" : Bytes), notWs b = true := by decide
  -- the lines of the head
  let L := h.requestLine :: h.fields.map Grammar.Field.render
  have hrl : Render.CleanLine h.requestLine := by
    refine ⟨by simp [Grammar.RawHead.requestLine], ?_⟩
    intro b hb
    simp only [Grammar.RawHead.requestLine, List.mem_append, List.mem_singleton] at hb
    rcases hb with (((hb | rfl) | hb) | rfl) | hb
    · exact ⟨((byte_classes b).2.2.2.2.2 (hmT b hb)).1, ((byte_classes b).2.2.2.2.2 (hmT b hb)).2.1⟩
    · decide
    · exact ⟨((byte_classes b).2.2.2.2.1 (ht b hb)).2.2.1, ((byte_classes b).2.2.2.2.1 (ht b hb)).2.2.2⟩
    · decide
    · revert b; decide
  have hL : ∀ l ∈ L, Render.CleanLine l := by
    intro l hl
    simp only [L, List.mem_cons, List.mem_map] at hl
    rcases hl with rfl | ⟨f, hf, rfl⟩
    · exact hrl
    · exact field_render_clean f (hfs f hf)
  have hfind : findSlice delim (h.render ++ rest) = some (Render.joinCrlf L).length := by
    rw [C01.findSlice_eq_firstBlankLine, render_eq]
    simp only [List.append_assoc, List.cons_append, List.nil_append]
    exact Render.fbl_rendered L (by simp [L]) hL rest
  rw [tryRead_found hfind]
  have htake : (h.render ++ rest).take (Render.joinCrlf L).length = Render.joinCrlf L := by
    rw [render_eq]; simp only [List.append_assoc]; exact List.take_left' (by simp [L])
  have hdrop : (h.render ++ rest).drop ((Render.joinCrlf L).length + 4) = rest := by
    rw [render_eq]
    exact List.drop_left' (by simp [L])
  rw [htake, hdrop]
  congr 1
  unfold parseHead
  rw [Render.split_lines L (by simp [L]) hL]
  simp only [L]
  have hreq := C02_request_line u h.method h.target (b!"HTTP/1.1") hm0' hmT ht0 htN hp0 hpN
  have hutf : isUtf8 h.target = true := isUtf8_ascii _ (fun b hb => ((byte_classes b).2.2.2.2.1 (ht b hb)).2.1)
  have hrl_eq : h.requestLine = h.method ++ 32 :: (h.target ++ 32 :: b!"HTTP/1.1") := by
    simp [Grammar.RawHead.requestLine]
  rw [hrl_eq, hreq]
  simp only [hutf, hthead, Bool.true_eq_false, false_or, ne_eq, not_true_eq_false, if_false]
  cases hu : u h.target with
  | none => rfl
  | some url =>
    have hv : ¬ ((b!"HTTP/1.1" : Bytes) ≠ http11) := by decide
    simp only [hv, if_false]
    rw [fields_accepted h.fields hfs []]
    simp

/-- How servlin must call the URL parser: on class-A origin-form targets (segments of pchars, no
    dot-segments, optional query) the parser's path and query are the bytes sent.  This is a
    hypothesis about the `url` crate *as called by servlin*; the suite checks it on the real call
    for every generated class-A target (a target on which it fails is a C02 violation). -/
def UrlFaithfulOnClassA (u : Bytes → Option Url) : Prop :=
  ∀ t p q, Grammar.classA t = some (p, q) → u t = some ⟨p, q⟩

/-- **Path and query are exposed verbatim** for class-A targets, given a faithful URL parser. -/
theorem C02_exposes_path_query (u : Bytes → Option Url) (hu : UrlFaithfulOnClassA u) (h : Grammar.RawHead)
    (hw : h.wf = true) (p : Bytes) (q : Option Bytes) (hA : Grammar.classA h.target = some (p, q)) (rest : Bytes) :
    tryRead false u (h.render ++ rest) = (.ok ⟨h.method, ⟨p, q⟩, h.fields.map exposed⟩, rest) := by
  rw [C02_accepts_wf u h hw rest, hu h.target p q hA]

/-- The pinned tree resolved the target as a *relative reference*: the valid origin-form target
    `//a/b?q` is class A (path `//a/b`, query `q`), but relative resolution against
    `http://unknown/` gives path `/b` (host `a`) — so that call is not faithful on class A. -/
theorem C02_legacy_target : Grammar.classA (b!"//a/b?q") = some (b!"//a/b", some (b!"q")) := by decide

/-- Non-vacuity: a concrete well-formed head with OWS variants and an empty value. -/
example : (Grammar.RawHead.wf ⟨b!"GET", b!"/a/b?x=1", [⟨b!"Host", b!" ", b!"example.org", b!" \t"⟩,
    ⟨b!"x-empty", [], [], b!" "⟩, ⟨b!"A", [], b!"b  c", []⟩]⟩) = true := by decide

end C02
end Servlin
