import ServlinVerif.Gen.C20Tables
import ServlinVerif.Model.Serialize
import ServlinVerif.Spec.RespParser
/-
  C08 — "if none was sent, the connection can still carry a single well-formed 500 response":
  every response the error mapping produces — the table is regenerated from the code on every run
  (`Gen/C20Tables.lean`) — serialises without error and is accepted by the strict parser as exactly
  one message with that status, nothing left over; and the 5xx ones carry `connection: close`
  when serialised the way `write_response` does it.
-/
namespace Servlin
namespace C08F
open Serialize

def closes (code : Nat) : Bool := 500 ≤ code && code ≤ 599

/-- One row: the mapped response, written with `close` as `HttpConn::write_response` computes it. -/
def rowOk (row : HttpError × Bool × Response) : Bool :=
  let r := row.2.2
  let w := write false r (closes r.code) none
  -- (`Disconnected` maps to the instruction to drop the connection: nothing is written for it)
  r.kind != .normal ||
  (match w.2 with | .ok _ => true | .error _ => false) &&
  (match RespParser.parse w.1 with
   | .ok p => p.code == r.code && p.rest == [] && p.body == r.body.src.pieces.flatten &&
       (!(closes r.code) || p.fields.contains (b!"connection", b!"close"))
   | _ => false)

/-- Exactly one error value maps to "drop the connection" instead of a response. -/
theorem one_drop : (Gen.errorTable.filter (fun row => row.2.2.kind != .normal)).map (·.1) = [HttpError.disconnected] := by decide +kernel

/-- **The fallback response is always writable and well-formed.** -/
theorem C08_error_responses_wellformed : Gen.errorTable.all rowOk = true := by decide +kernel

end C08F
end Servlin
