import ServlinVerif.Lemmas.Time
/-
  C16 — calendar conversion and date arithmetic are correct for every instant.
-/
namespace Servlin
namespace C16
open Time Calendar

/-- Seconds denoted by an unnormalised record whose month is in range and whose day is ≥ 1. -/
def rawSecs (dt : DT) : Nat :=
  (absDay dt.year dt.month dt.day - 1) * 86400 + dt.hour * 3600 + dt.min * 60 + dt.sec

theorem toSecs_eq_rawSecs (dt : DT) (h : 1 ≤ dt.day) : toSecs dt = rawSecs dt := by
  unfold toSecs rawSecs absDay
  have : daysBeforeYear dt.year + daysBeforeMonth dt.year dt.month + dt.day - 1 =
      daysBeforeYear dt.year + daysBeforeMonth dt.year dt.month + (dt.day - 1) := by omega
  rw [this]

/-- Pre-condition under which the balancing cascade is exercised by `new` and `add`. -/
def Pre (dt : DT) : Prop := 1970 ≤ dt.year ∧ 1 ≤ dt.month ∧ dt.month ≤ 12 ∧ 1 ≤ dt.day

theorem balanceDay_spec (dt : DT) (hp : Pre dt) (hh : dt.hour < 24) (hm : dt.min < 60) (hs : dt.sec < 60) :
    ∃ dt', balanceDay dt = some dt' ∧ Valid dt' ∧ rawSecs dt' = rawSecs dt := by
  obtain ⟨hy, h1, h2, hd⟩ := hp
  unfold balanceDay
  rw [balanceMonth_le dt.year dt.month h2]
  obtain ⟨hy', hd1, _hd2, habs⟩ := yearLoop_spec dt.year dt.month dt.day hy h1 h2 hd
  obtain ⟨y2, m2, d2, he, hy2, hm1, hm2, hd21, hd22, habs2⟩ :=
    monthLoop_spec (yearLoop dt.year dt.month dt.day).1 dt.month (yearLoop dt.year dt.month dt.day).2
      (by omega) h1 h2 hd1
  simp only [he]
  refine ⟨_, rfl, ⟨by simp; omega, by simpa, by simpa, by simpa, by simpa, by simpa, by simpa, by simpa⟩, ?_⟩
  simp only [rawSecs, habs2, habs]

theorem balanceHour_spec (dt : DT) (hp : Pre dt) (hm : dt.min < 60) (hs : dt.sec < 60) :
    ∃ dt', balanceHour dt = some dt' ∧ Valid dt' ∧ rawSecs dt' = rawSecs dt := by
  unfold balanceHour
  split
  · next hgt =>
    have hlt : dt.hour - 24 * (dt.hour / 24) < 24 := by omega
    simp only [hlt, if_true]
    obtain ⟨dt', he, hv, hr⟩ := balanceDay_spec
      { dt with day := dt.day + dt.hour / 24, hour := dt.hour - 24 * (dt.hour / 24) }
      ⟨hp.1, hp.2.1, hp.2.2.1, by simp; have := hp.2.2.2; omega⟩ hlt hm hs
    refine ⟨dt', he, hv, ?_⟩
    rw [hr]
    have hd := hp.2.2.2
    simp only [rawSecs, absDay]
    omega
  · next hle => exact balanceDay_spec dt hp (by omega) hm hs

theorem balanceMin_spec (dt : DT) (hp : Pre dt) (hs : dt.sec < 60) :
    ∃ dt', balanceMin dt = some dt' ∧ Valid dt' ∧ rawSecs dt' = rawSecs dt := by
  unfold balanceMin
  split
  · next hgt =>
    have hlt : dt.min - 60 * (dt.min / 60) < 60 := by omega
    simp only [hlt, if_true]
    obtain ⟨dt', he, hv, hr⟩ := balanceHour_spec
      { dt with hour := dt.hour + dt.min / 60, min := dt.min - 60 * (dt.min / 60) } hp hlt hs
    refine ⟨dt', he, hv, ?_⟩
    rw [hr]
    simp only [rawSecs]
    omega
  · next hle => exact balanceHour_spec dt hp (by omega) hs

theorem balance_spec (dt : DT) (hp : Pre dt) :
    ∃ dt', balance dt = some dt' ∧ Valid dt' ∧ rawSecs dt' = rawSecs dt := by
  unfold balance
  split
  · next hgt =>
    have hlt : dt.sec - 60 * (dt.sec / 60) < 60 := by omega
    simp only [hlt, if_true]
    obtain ⟨dt', he, hv, hr⟩ := balanceMin_spec
      { dt with min := dt.min + dt.sec / 60, sec := dt.sec - 60 * (dt.sec / 60) } hp hlt
    refine ⟨dt', he, hv, ?_⟩
    rw [hr]
    simp only [rawSecs]
    omega
  · next hle => exact balanceMin_spec dt hp (by omega)

/-- **Conversion is correct for every instant.**  For every number of seconds since the epoch
    (no upper bound), `DateTime::new` does not panic and yields a valid civil date-time of the
    proleptic Gregorian calendar that denotes exactly that instant. -/
theorem C16_new_correct (s : Nat) : ∃ dt, Time.new s = some dt ∧ Valid dt ∧ toSecs dt = s := by
  obtain ⟨dt, he, hv, hr⟩ := balance_spec ⟨1970, 1, 1, 0, 0, s⟩
    (by refine ⟨?_, ?_, ?_, ?_⟩ <;> dsimp only <;> omega)
  refine ⟨dt, he, hv, ?_⟩
  rw [toSecs_eq_rawSecs dt hv.2.2.2.1, hr]
  have h1 : absDay 1970 1 1 = 1 := by decide
  simp only [rawSecs, h1]; omega

/-- **Date arithmetic.**  Adding any duration to any valid date-time does not panic and gives a
    valid date-time denoting the instant `toSecs dt + d`. -/
theorem C16_add (dt : DT) (d : Nat) (hv : Valid dt) :
    ∃ dt', Time.add dt d = some dt' ∧ Valid dt' ∧ toSecs dt' = toSecs dt + d := by
  obtain ⟨hy, h1, h2, hd1, _hd2, _hh, _hm, _hs⟩ := hv
  obtain ⟨dt', he, hv', hr⟩ := balance_spec { dt with sec := dt.sec + d } ⟨hy, h1, h2, hd1⟩
  refine ⟨dt', he, hv', ?_⟩
  rw [toSecs_eq_rawSecs dt' hv'.2.2.2.1, hr, toSecs_eq_rawSecs dt hd1]
  simp only [rawSecs]; omega

/-! ### Uniqueness: `toSecs` is injective on valid date-times -/

theorem daysBeforeYear_mono (y k : Nat) (hy : 1970 ≤ y) : daysBeforeYear y ≤ daysBeforeYear (y + k) := by
  induction k with
  | zero => simp
  | succ k ih =>
    have := daysBeforeYear_succ (y + k) (by omega)
    rw [show y + (k + 1) = y + k + 1 by omega, this]; omega

theorem daysBeforeMonth_step (y m k : Nat) (h1 : 1 ≤ m) (h2 : m + 1 + k ≤ 12) :
    daysBeforeMonth y m + monthLen y m ≤ daysBeforeMonth y (m + 1 + k) := by
  induction k with
  | zero => rw [Nat.add_zero, daysBeforeMonth_succ y m h1 (by omega)]; omega
  | succ k ih =>
    have := daysBeforeMonth_succ y (m + 1 + k) (by omega) (by omega)
    rw [show m + 1 + (k + 1) = m + 1 + k + 1 by omega, this]
    have := ih (by omega); omega

theorem within_year (y m d : Nat) (h1 : 1 ≤ m) (h2 : m ≤ 12) (hd : d ≤ monthLen y m) :
    daysBeforeMonth y m + d ≤ yearLen y := by
  by_cases h : m = 12
  · subst h; rw [yearLen_eq]; have : monthLen y 12 = 31 := by simp [monthLen]
    omega
  · have := daysBeforeMonth_step y m (12 - m - 1) h1 (by omega)
    rw [show m + 1 + (12 - m - 1) = 12 by omega] at this
    rw [yearLen_eq]; omega

/-- Day number (0-based) since the epoch. -/
def dayNum (dt : DT) : Nat := daysBeforeYear dt.year + daysBeforeMonth dt.year dt.month + (dt.day - 1)

theorem dayNum_lt_of_year_lt (a b : DT) (ha : Valid a) (hb : Valid b) (h : a.year < b.year) :
    dayNum a < dayNum b := by
  obtain ⟨hya, ha1, ha2, had1, had2, _⟩ := ha
  have hw := within_year a.year a.month a.day ha1 ha2 had2
  have hs := daysBeforeYear_succ a.year hya
  have hm := daysBeforeYear_mono (a.year + 1) (b.year - (a.year + 1)) (by omega)
  rw [show a.year + 1 + (b.year - (a.year + 1)) = b.year by omega] at hm
  unfold dayNum; omega

theorem dayNum_lt_of_month_lt (a b : DT) (ha : Valid a) (hb : Valid b) (hy : a.year = b.year)
    (h : a.month < b.month) : dayNum a < dayNum b := by
  obtain ⟨_, ha1, _, had1, had2, _⟩ := ha
  obtain ⟨_, _, hb2, hbd1, _, _⟩ := hb
  have := daysBeforeMonth_step a.year a.month (b.month - a.month - 1) ha1 (by omega)
  rw [show a.month + 1 + (b.month - a.month - 1) = b.month by omega] at this
  unfold dayNum; rw [← hy]; omega

/-- **The civil date is unique**: two valid date-times denoting the same instant are equal, so
    `new s` is *the* proleptic-Gregorian date and time of instant `s`. -/
theorem C16_unique (a b : DT) (ha : Valid a) (hb : Valid b) (h : toSecs a = toSecs b) : a = b := by
  have hta : toSecs a = dayNum a * 86400 + a.hour * 3600 + a.min * 60 + a.sec := rfl
  have htb : toSecs b = dayNum b * 86400 + b.hour * 3600 + b.min * 60 + b.sec := rfl
  obtain ⟨hya, ha1, ha2, had1, had2, hah, ham, has⟩ := ha
  obtain ⟨hyb, hb1, hb2, hbd1, hbd2, hbh, hbm, hbs⟩ := hb
  have hday : dayNum a = dayNum b := by omega
  have hh : a.hour = b.hour := by omega
  have hmn : a.min = b.min := by omega
  have hs : a.sec = b.sec := by omega
  have hy : a.year = b.year := by
    rcases Nat.lt_trichotomy a.year b.year with hlt | heq | hgt
    · have := dayNum_lt_of_year_lt a b ⟨hya, ha1, ha2, had1, had2, hah, ham, has⟩
        ⟨hyb, hb1, hb2, hbd1, hbd2, hbh, hbm, hbs⟩ hlt; omega
    · exact heq
    · have := dayNum_lt_of_year_lt b a ⟨hyb, hb1, hb2, hbd1, hbd2, hbh, hbm, hbs⟩
        ⟨hya, ha1, ha2, had1, had2, hah, ham, has⟩ hgt; omega
  have hm : a.month = b.month := by
    rcases Nat.lt_trichotomy a.month b.month with hlt | heq | hgt
    · have := dayNum_lt_of_month_lt a b ⟨hya, ha1, ha2, had1, had2, hah, ham, has⟩
        ⟨hyb, hb1, hb2, hbd1, hbd2, hbh, hbm, hbs⟩ hy hlt; omega
    · exact heq
    · have := dayNum_lt_of_month_lt b a ⟨hyb, hb1, hb2, hbd1, hbd2, hbh, hbm, hbs⟩
        ⟨hya, ha1, ha2, had1, had2, hah, ham, has⟩ hy.symm hgt; omega
  have hd : a.day = b.day := by
    unfold dayNum at hday; rw [hy, hm] at hday; omega
  cases a; cases b; simp_all

/-- **Date arithmetic agrees with "convert to seconds, add, convert back"** for every valid
    date-time and every duration (whole seconds). -/
theorem C16_add_eq_new (dt : DT) (d : Nat) (hv : Valid dt) : Time.add dt d = Time.new (toSecs dt + d) := by
  obtain ⟨a, hea, hva, hsa⟩ := C16_add dt d hv
  obtain ⟨b, heb, hvb, hsb⟩ := C16_new_correct (toSecs dt + d)
  rw [hea, heb, C16_unique a b hva hvb (by omega)]

/-- **Fixed width, zero padded** through year 9999: `YYYY-MM-DDThh:mm:ssZ`, 20 characters. -/
theorem C16_format (dt : DT) (hv : Valid dt) (hy : dt.year ≤ 9999) :
    iso8601Chars dt =
      [Nat.digitChar (dt.year / 1000), Nat.digitChar (dt.year / 100 % 10),
       Nat.digitChar (dt.year / 10 % 10), Nat.digitChar (dt.year % 10), '-',
       Nat.digitChar (dt.month / 10), Nat.digitChar (dt.month % 10), '-',
       Nat.digitChar (dt.day / 10), Nat.digitChar (dt.day % 10), 'T',
       Nat.digitChar (dt.hour / 10), Nat.digitChar (dt.hour % 10), ':',
       Nat.digitChar (dt.min / 10), Nat.digitChar (dt.min % 10), ':',
       Nat.digitChar (dt.sec / 10), Nat.digitChar (dt.sec % 10), 'Z'] := by
  obtain ⟨_, _, hm2, _, hd2, hh, hmin, hs⟩ := hv
  have := (monthLen_bounds dt.year dt.month).2
  have h1 : dt.year < 10000 := by omega
  have h2 : dt.month < 100 := by omega
  have h3 : dt.day < 100 := by omega
  have h4 : dt.hour < 100 := by omega
  have h5 : dt.min < 100 := by omega
  have h6 : dt.sec < 100 := by omega
  simp [iso8601Chars, pad2, pad4, h1, h2, h3, h4, h5, h6]

/-- The pinned tree's day loop is wrong from March on: 2023-03-01 plus 366 days must be
    2024-03-01 (2024 is a leap year and its 29 February lies in between), the legacy loop gives
    2024-03-02. -/
theorem C16_legacy_add_violates :
    Legacy.balanceDay ⟨2023, 3, 367, 0, 0, 0⟩ = some ⟨2024, 3, 2, 0, 0, 0⟩ ∧
    toSecs ⟨2024, 3, 2, 0, 0, 0⟩ ≠ toSecs ⟨2023, 3, 1, 0, 0, 0⟩ + 366 * 86400 ∧
    toSecs ⟨2024, 3, 1, 0, 0, 0⟩ = toSecs ⟨2023, 3, 1, 0, 0, 0⟩ + 366 * 86400 := by
  decide

/-- Non-vacuity: 2024-02-29T23:59:59Z is valid and is second 1709251199. -/
example : Valid ⟨2024, 2, 29, 23, 59, 59⟩ ∧ toSecs ⟨2024, 2, 29, 23, 59, 59⟩ = 1709251199 := by decide

end C16
end Servlin
