import ServlinVerif.Model.Conn
/-
  C04 — per-connection exchange integrity: one handler run and one response per request.
-/
namespace Servlin
namespace C04
open ConnModel

/-- The first call on a pending body: exactly one handler run is recorded, on the request with its
    body pending. -/
theorem firstCall_calls (legacy : Bool) (cfg : Cfg) (h : ReqView → HandlerOut) (c : Conn) (m : ReqMeta) :
    (firstCall legacy cfg h c m).2.2 = [⟨⟨m, none⟩, h ⟨m, none⟩⟩] := by
  unfold firstCall
  simp only
  cases (asResponse (h ⟨m, none⟩)).kind with
  | normal => cases legacy <;> rfl
  | dropConnection => rfl
  | getBodyAndReprocess mx =>
    simp only
    cases cfg.cacheDir with
    | false => rfl
    | true =>
      simp only [Bool.not_true, Bool.false_eq_true, if_false]
      cases readBodyToFile c mx cfg.fs with
      | mk c2 r => cases r <;> rfl

/-- Repaired code: after the first call either the handler's normal answer *is* the response (no
    second run), or the body was fetched because the handler asked for it. -/
theorem firstCall_outcome (cfg : Cfg) (h : ReqView → HandlerOut) (c : Conn) (m : ReqMeta)
    (body : Option BodyVal) (early : Option Response) (c' : Conn) (calls : List Call)
    (hf : firstCall false cfg h c m = (c', .ok (body, early), calls)) :
    (early = some (asResponse (h ⟨m, none⟩)) ∧ body = none ∧ (asResponse (h ⟨m, none⟩)).kind = .normal) ∨
    (early = none ∧ body.isSome = true ∧ ∃ mx, (asResponse (h ⟨m, none⟩)).kind = .getBodyAndReprocess mx) := by
  unfold firstCall at hf
  simp only at hf
  cases hk : (asResponse (h ⟨m, none⟩)).kind with
  | normal =>
    simp only [hk, Bool.false_eq_true, if_false, Prod.mk.injEq, Except.ok.injEq] at hf
    left; exact ⟨hf.2.1.2.symm, hf.2.1.1.symm, rfl⟩
  | dropConnection => simp [hk] at hf
  | getBodyAndReprocess mx =>
    simp only [hk] at hf
    cases hcd : cfg.cacheDir with
    | false => simp [hcd] at hf
    | true =>
      simp only [hcd, Bool.not_true, Bool.false_eq_true, if_false] at hf
      cases hb : readBodyToFile c mx cfg.fs with
      | mk c2 r =>
        cases r with
        | error e => simp [hb] at hf
        | ok b =>
          simp only [hb, Prod.mk.injEq, Except.ok.injEq] at hf
          right; exact ⟨hf.2.1.2.symm, by rw [← hf.2.1.1]; rfl, mx, rfl⟩

theorem bodyStage_calls (legacy : Bool) (cfg : Cfg) (h : ReqView → HandlerOut) (c : Conn) (m : ReqMeta) :
    (bodyStage legacy cfg h c m).2.2 = [] ∨ (bodyStage legacy cfg h c m).2.2 = [⟨⟨m, none⟩, h ⟨m, none⟩⟩] := by
  unfold bodyStage
  cases m.body with
  | empty => left; rfl
  | pendingUnknown => right; exact firstCall_calls legacy cfg h c m
  | pendingKnown n =>
    simp only
    by_cases hn : n ≤ cfg.smallBodyLen
    · simp only [hn, if_true]
      cases readBodyToVec c with
      | mk c2 r => cases r <;> (left; rfl)
    · simp only [hn, if_false]; right; exact firstCall_calls legacy cfg h c m

theorem finish_calls (c : Conn) (body : Option BodyVal) (resp : Response) (calls : List Call) :
    (finish c body resp calls).2.2 = calls := by
  unfold finish
  cases resp.kind <;> simp only [] <;> (try split) <;> rfl

/-- **Handler runs per request.**  In one exchange the handler runs at most twice, the first time (if
    the body was not delivered up front) on the request with its body pending; and — repaired code — it
    runs a second time only when the first answer was the instruction to fetch the body and the body
    was received: the second run then sees the same request with the body present. -/
theorem C04_runs_per_request (u : Bytes → Option Url) (cfg : Cfg) (h : ReqView → HandlerOut) (c : Conn) :
    (handleOnce false u cfg h c).2.2.length ≤ 2 ∧
    ((handleOnce false u cfg h c).2.2.length = 2 →
      ∃ m b mx, (handleOnce false u cfg h c).2.2 = [⟨⟨m, none⟩, h ⟨m, none⟩⟩, ⟨⟨m, some b⟩, h ⟨m, some b⟩⟩] ∧
        (asResponse (h ⟨m, none⟩)).kind = .getBodyAndReprocess mx) := by
  unfold handleOnce
  cases hr : readRequest u c with
  | mk c1 r =>
    cases r with
    | error e => simp
    | ok m =>
      simp only
      have hcalls := bodyStage_calls false cfg h c1 m
      cases hs : bodyStage false cfg h c1 m with
      | mk c2 rest =>
        cases rest with
        | mk res calls =>
          rw [hs] at hcalls
          simp only at hcalls
          cases res with
          | error e => simp only; rcases hcalls with hc | hc <;> simp [hc]
          | ok be =>
            obtain ⟨body, early⟩ := be
            cases early with
            | some resp =>
              simp only [finish_calls]
              rcases hcalls with hc | hc <;> simp [hc]
            | none =>
              simp only [finish_calls]
              rcases hcalls with hc | hc
              · simp [hc]
              · refine ⟨by simp [hc], fun _ => ?_⟩
                -- the stage made a first call: it was `firstCall`, and it asked for the body
                have hfc : ∃ c0, firstCall false cfg h c0 m = (c2, .ok (body, none), calls) := by
                  unfold bodyStage at hs
                  cases hb : m.body with
                  | empty => simp [hb] at hs; rw [← hs.2.2] at hc; simp at hc
                  | pendingUnknown => simp only [hb] at hs; exact ⟨c1, hs⟩
                  | pendingKnown n =>
                    simp only [hb] at hs
                    by_cases hn : n ≤ cfg.smallBodyLen
                    · simp only [hn, if_true] at hs
                      cases hv : readBodyToVec c1 with
                      | mk c3 r3 =>
                        cases r3 <;> simp [hv] at hs
                        rw [← hs.2.2] at hc; simp at hc
                    · simp only [hn, if_false] at hs; exact ⟨c1, hs⟩
                obtain ⟨c0, hfc⟩ := hfc
                rcases firstCall_outcome cfg h c0 m body none c2 calls hfc with ⟨he, _, _⟩ | ⟨_, hb, mx, hk⟩
                · cases he
                · obtain ⟨b, rfl⟩ := Option.isSome_iff_exists.mp hb
                  exact ⟨m, b, mx, by simp [hc], hk⟩

/-- The pinned tree: a normal first answer on a pending body was ignored (`early = none`, body still
    pending), so `handle_http_conn_once` went on to call the handler a second time. -/
theorem C04_legacy_twice (cfg : Cfg) (h : ReqView → HandlerOut) (c : Conn) (m : ReqMeta)
    (hk : (asResponse (h ⟨m, none⟩)).kind = .normal) :
    firstCall true cfg h c m = (c, .ok (none, none), [⟨⟨m, none⟩, h ⟨m, none⟩⟩]) ∧
    firstCall false cfg h c m = (c, .ok (none, some (asResponse (h ⟨m, none⟩))), [⟨⟨m, none⟩, h ⟨m, none⟩⟩]) := by
  unfold firstCall
  simp [hk]

/-- **A panicking handler yields a 500; a handler that asks to drop the connection yields no bytes.** -/
theorem C04_panic_and_drop (c : Conn) (body : Option BodyVal) (calls : List Call) :
    (asResponse .panic).code = 500 ∧ (asResponse .panic).kind = .normal ∧
    (finish c body (asResponse .drop) calls).1.wire = c.wire ∧
    (finish c body (asResponse .drop) calls).2.1 = .error .disconnected := by
  refine ⟨rfl, rfl, ?_, rfl⟩
  simp only [finish, asResponse, Response.dropConnection]
  cases body with
  | none => rfl
  | some b => cases b <;> simp [dropBody, dropFile]

/-- **After any error the connection is closed and nothing later is interpreted**: if an exchange ends
    with an error, the loop performs no further exchange — the log of handler runs is final. -/
theorem C04_closed_after_error (u : Bytes → Option Url) (cfg : Cfg) (h : ReqView → HandlerOut) (fuel : Nat)
    (c c' : Conn) (e : HttpError) (cs calls : List Call) (hr : isReady c = true)
    (hx : handleOnce false u cfg h c = (c', .error e, cs)) :
    (handleConn false u cfg h (fuel + 1) c calls).2 = calls ++ cs := by
  unfold handleConn
  simp only [hr, Bool.not_true, Bool.false_eq_true, if_false, hx]
  cases e <;> simp

/-- **4xx / 5xx answers close the connection**: the exchange reports `Disconnected` after writing. -/
theorem C04_error_status_closes (c : Conn) (body : Option BodyVal) (resp : Response) (calls : List Call)
    (hk : resp.kind = .normal) (hc : resp.code / 100 = 4 ∨ resp.code / 100 = 5) :
    (finish c body resp calls).2.1 = .error .disconnected := by
  unfold finish
  simp only [hk]
  rcases hc with h | h <;> simp [h]

/-- **A connection whose last request left its body unread (or owes a response) serves nothing more.** -/
theorem C04_not_ready_stops (u : Bytes → Option Url) (cfg : Cfg) (h : ReqView → HandlerOut) (fuel : Nat)
    (c : Conn) (calls : List Call) (hr : isReady c = false) :
    handleConn false u cfg h fuel c calls = (c, calls) := by
  cases fuel <;> simp [handleConn, hr]

end C04
end Servlin
