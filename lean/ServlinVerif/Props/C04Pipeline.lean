import ServlinVerif.Props.C02
import ServlinVerif.Props.C03
import ServlinVerif.Model.Conn
import ServlinVerif.Props.C06RoundTrip
/-
  C04 / C03 — end-to-end theorems over whole pipelines of requests on one persistent connection,
  composing the head parser (C02_accepts_wf), request classification (C03), the connection state
  machine and the response serialiser.

  * `C03_boundary`: for a well-formed head followed by a body framed by its Content-Length, reading
    the request and then the body hands over exactly the body bytes, and the next request starts at
    exactly the following byte — whatever follows.
  * `C04_exchange`: one request/response exchange of `handle_http_conn_once`.
  * `C04_pipeline`: for every list of such requests sent back to back (any number, any following
    bytes), the handler is called exactly once per request, in order, with exactly the bytes sent as
    body, and the wire carries exactly the handler's responses in that order.
  * `C04_pipeline_eof`: the same, to the end of the connection (client half-closes).
  By `C01_sched_irrelevant` the reader used here (`readRequestD`) equals the operational read loop
  for every fragmentation of the stream.
-/
namespace Servlin
namespace C04P
open HeadModel RequestModel ConnModel

/-- What the denotational head reader answers on a well-formed head that fits the buffer. -/
theorem readHeadD_wf (u : Bytes → Option Url) (h : Grammar.RawHead) (hw : h.wf = true)
    (hfit : h.render.length ≤ cap) (X : Bytes) :
    readHeadD false u cap (h.render ++ X) =
      ((match u h.target with
        | some url => ReadOut.ok ⟨h.method, url, h.fields.map C02.exposed⟩
        | none => ReadOut.err .malformedPath), X) := by
  have h0 := C02.C02_accepts_wf u h hw []
  rw [List.append_nil] at h0
  cases hf : findSlice delim h.render with
  | none =>
    rw [tryRead_none hf] at h0
    cases hu : u h.target <;> simp [hu] at h0
  | some i =>
    rw [tryRead_found hf] at h0
    simp only [Prod.mk.injEq] at h0
    rw [readHeadD_found hfit hf, h0.1, h0.2]
    cases hu : u h.target <;> simp

/-- One request as the client sends it and as the server is to see it. -/
structure Exch where
  head : Grammar.RawHead
  body : Bytes
  view : ReqMeta          -- what the handler is shown
  resp : Response         -- what the handler answers
  out : Bytes             -- the serialised answer
deriving Repr

def Exch.bytes (x : Exch) : Bytes := x.head.render ++ x.body
def Exch.call (x : Exch) : Call := ⟨⟨x.view, some (.vec x.body)⟩, .normal x.resp⟩

/-- A request whose exchange involves no interim response, no upload to a file and no refusal:
    well-formed head that fits the head buffer, target accepted by the URL parser, classification
    succeeds with no `Expect`, no transfer coding, and either no body or a body framed by its
    Content-Length that is small enough to be read up front; the handler answers with a normal
    response outside 1xx/4xx/5xx that the serialiser accepts. -/
structure Good (u : Bytes → Option Url) (cfg : Cfg) (handler : ReqView → HandlerOut) (x : Exch) : Prop where
  wf : x.head.wf = true
  fits : x.head.render.length ≤ cap
  classified : ∃ url, u x.head.target = some url ∧
    classify false ⟨x.head.method, url, x.head.fields.map C02.exposed⟩ = .ok x.view
  noExpect : x.view.expectContinue = false
  noCoding : x.view.chunked = false ∧ x.view.gzip = false
  framing : (x.view.body = .empty ∧ x.body = []) ∨
            (x.view.body = .pendingKnown x.body.length ∧ x.body.length ≤ cfg.smallBodyLen)
  answer : handler ⟨x.view, some (.vec x.body)⟩ = .normal x.resp
  kind : x.resp.kind = .normal
  code : x.resp.code / 100 ≠ 1 ∧ x.resp.code / 100 ≠ 4 ∧ x.resp.code / 100 ≠ 5
  ser : Serialize.intended false x.resp false = (x.out, .ok ())

/-- Reading the request consumes exactly the head. -/
theorem readRequest_good {u : Bytes → Option Url} {cfg : Cfg} {handler : ReqView → HandlerOut} {x : Exch}
    (hg : Good u cfg handler x) (c : Conn) (hrs : c.rs = .head) (hws : c.ws = .none) (rest : Bytes)
    (hin : c.input = x.bytes ++ rest) :
    readRequest u c =
      ({ c with ws := .response, input := x.body ++ rest,
                rs := match x.view.body with
                  | .pendingKnown n => .body (some n) false false false
                  | .pendingUnknown => .body none false false false
                  | .empty => .head }, .ok x.view) := by
  obtain ⟨url, hu, hcl⟩ := hg.classified
  unfold readRequest
  rw [hws, hrs]
  simp only
  have hD : readRequestD false false u cap c.input = (.ok x.view, x.body ++ rest) := by
    unfold readRequestD
    rw [hin, Exch.bytes, List.append_assoc, readHeadD_wf u x.head hg.wf hg.fits, hu]
    simp only [ofReadOut, hcl]
  rw [hD]
  simp only [hg.noExpect, hg.noCoding.1, hg.noCoding.2]
  rfl

/-- **Message boundary (C03).**  A well-formed head with a single valid Content-Length `N = |body|`
    (and no coding): `read_request` then `read_body_to_vec` returns exactly `body`, and what is left
    for the next `read_request` is exactly the bytes after the body — the following byte starts the
    next request. -/
theorem C03_boundary {u : Bytes → Option Url} {cfg : Cfg} {handler : ReqView → HandlerOut} {x : Exch}
    (hg : Good u cfg handler x) (hb : x.view.body = .pendingKnown x.body.length)
    (c : Conn) (hrs : c.rs = .head) (hws : c.ws = .none) (rest : Bytes) (hin : c.input = x.bytes ++ rest) :
    let c1 := (readRequest u c).1
    (readRequest u c).2 = .ok x.view ∧
    (readBodyToVec c1).2 = .ok (.vec x.body) ∧
    (readBodyToVec c1).1.input = rest ∧ (readBodyToVec c1).1.rs = .head ∧
    (readBodyToVec c1).1.wire = c.wire := by
  intro c1
  have hr := readRequest_good hg c hrs hws rest hin
  simp only [c1, hr, hb]
  unfold readBodyToVec
  simp only [Bool.or_self, Bool.false_eq_true, if_false, List.length_append, Nat.le_add_right, if_true]
  refine ⟨trivial, ?_, ?_, trivial, trivial⟩
  · simp
  · simp

/-- **One exchange.**  From a ready connection whose unread input starts with a good request,
    `handle_http_conn_once` calls the handler exactly once, with the request and exactly the body
    bytes sent, writes exactly the serialised answer, and leaves the connection ready with exactly
    the bytes after the request unread. -/
theorem C04_exchange {u : Bytes → Option Url} {cfg : Cfg} {handler : ReqView → HandlerOut} {x : Exch}
    (hg : Good u cfg handler x) (c : Conn) (hrs : c.rs = .head) (hws : c.ws = .none) (rest : Bytes)
    (hin : c.input = x.bytes ++ rest) :
    handleOnce false u cfg handler c =
      ({ c with input := rest, wire := c.wire ++ x.out }, .ok (), [x.call]) := by
  have hr := readRequest_good hg c hrs hws rest hin
  have hclose : (decide (500 ≤ x.resp.code) && decide (x.resp.code ≤ 599)) = false := by
    have := hg.code.2.2
    by_cases h1 : 500 ≤ x.resp.code <;> by_cases h2 : x.resp.code ≤ 599 <;> simp [h1, h2]
    omega
  have h1 : (x.resp.code / 100 == 1) = false := by simpa using hg.code.1
  have h4 : (x.resp.code / 100 == 4) = false := by simpa using hg.code.2.1
  have h5 : (x.resp.code / 100 == 5) = false := by simpa using hg.code.2.2
  unfold handleOnce
  rw [hr]
  simp only
  rcases hg.framing with ⟨hb, hbody⟩ | ⟨hb, hsmall⟩
  · -- no body
    simp only [bodyStage, hb, List.nil_append]
    have ha := hg.answer
    rw [hbody] at ha
    simp only [ha, asResponse, finish, hg.kind, writeResponse, hclose, hg.ser, h1, h4, h5, dropBody,
      Bool.false_eq_true, if_false, Bool.or_self, shutdownWrite, Exch.call, hbody, List.nil_append]
    cases c; simp_all
  · -- body read up front
    simp only [bodyStage, hb, hsmall, if_true]
    unfold readBodyToVec
    simp only [Bool.or_self, Bool.false_eq_true, if_false, List.length_append, Nat.le_add_right, if_true,
      List.take_left', List.drop_left', List.nil_append]
    have ha := hg.answer
    simp only [ha, asResponse, finish, hg.kind, writeResponse, hclose, hg.ser, h1, h4, h5, dropBody,
      Bool.false_eq_true, if_false, Bool.or_self, shutdownWrite, Exch.call]
    cases c; simp_all

def wireIn (xs : List Exch) : Bytes := (xs.map Exch.bytes).flatten
def wireOut (xs : List Exch) : Bytes := (xs.map Exch.out).flatten

/-- **Pipelines (C04).**  For every list of good requests sent back to back on a ready connection —
    any number of them, whatever follows them — the handler runs exactly once per request, sees the
    requests in the order sent with exactly the bytes sent as bodies, and the client receives exactly
    the handler's responses, one per request, in that order; afterwards the connection is ready and
    the unread input is exactly what followed the last request. -/
theorem C04_pipeline (u : Bytes → Option Url) (cfg : Cfg) (handler : ReqView → HandlerOut)
    (xs : List Exch) (hg : ∀ x ∈ xs, Good u cfg handler x) (c : Conn) (hrs : c.rs = .head) (hws : c.ws = .none)
    (tail : Bytes) (hin : c.input = wireIn xs ++ tail) (calls : List Call) (fuel : Nat) :
    handleConn false u cfg handler (xs.length + fuel) c calls =
      handleConn false u cfg handler fuel { c with input := tail, wire := c.wire ++ wireOut xs }
        (calls ++ xs.map Exch.call) := by
  induction xs generalizing c calls with
  | nil =>
    simp only [wireIn, List.map_nil, List.flatten_nil, List.nil_append] at hin
    simp only [List.length_nil, Nat.zero_add, wireOut, List.map_nil, List.flatten_nil, List.append_nil]
    congr 1
    cases c; simp_all
  | cons x xs ih =>
    have hx := hg x (by simp)
    have hready : isReady c = true := by simp [isReady, hrs, hws]
    have hin' : c.input = x.bytes ++ (wireIn xs ++ tail) := by
      rw [hin]; simp [wireIn]
    have hstep := C04_exchange hx c hrs hws (wireIn xs ++ tail) hin'
    rw [show (x :: xs).length + fuel = (xs.length + fuel) + 1 by simp; omega]
    rw [handleConn]
    simp only [hready, Bool.not_true, Bool.false_eq_true, if_false, hstep]
    have := ih (fun y hy => hg y (by simp [hy]))
      { c with input := wireIn xs ++ tail, wire := c.wire ++ x.out } hrs hws rfl (calls ++ [x.call])
    rw [this]
    simp only [wireOut, List.map_cons, List.flatten_cons, List.append_assoc, List.singleton_append]

/-- **Pipelines to the end of the connection.**  The client sends the requests and half-closes:
    the run ends with exactly one handler call per request, in order, the wire holding exactly the
    responses in order, and nothing else — the end of the stream is not a request. -/
theorem C04_pipeline_eof (u : Bytes → Option Url) (cfg : Cfg) (handler : ReqView → HandlerOut)
    (xs : List Exch) (hg : ∀ x ∈ xs, Good u cfg handler x) (extra : Nat) :
    handleConn false u cfg handler (xs.length + (extra + 1)) { input := wireIn xs } [] =
      ({ input := [], ws := .response, wire := wireOut xs }, xs.map Exch.call) := by
  rw [C04_pipeline u cfg handler xs hg _ rfl rfl [] (by simp)]
  rw [handleConn]
  simp [isReady, handleOnce, readRequest, readRequestD, readHeadD, findSlice, delim, cap, ofReadOut]

end C04P
end Servlin

/-! ### The hypothesis `Good` is met by ordinary requests

`Good` mentions `classify`; the following lemmas discharge it for requests whose fields the library
does not interpret (no content-type, expect, transfer-encoding, cookie), with or without one
`content-length` field, so that the pipeline theorem applies to explicitly described byte streams. -/

namespace Servlin
namespace C04P
open HeadModel RequestModel ConnModel

def special : List Bytes :=
  [b!"content-type", b!"expect", b!"transfer-encoding", b!"cookie", b!"content-length"]

/-- A field the library does not interpret: its name is none of the five special names
    (ASCII-case-insensitively). -/
def PlainField (f : Grammar.Field) : Prop := ∀ n ∈ special, eqIgnoreCase f.name n = false

instance : DecidablePred PlainField := fun f => by unfold PlainField; infer_instance

theorem getAll_plain (fs : List Grammar.Field) (hp : ∀ f ∈ fs, PlainField f) (n : Bytes) (hn : n ∈ special) :
    Multimap.getAll (fs.map C02.exposed) n = [] := by
  unfold Multimap.getAll
  rw [List.map_eq_nil_iff, List.filter_eq_nil_iff]
  intro h hh
  obtain ⟨f, hf, rfl⟩ := List.mem_map.mp hh
  simp [Multimap.isMatch, C02.exposed, hp f hf n hn]

theorem filter_plain (fs : List Grammar.Field) (hp : ∀ f ∈ fs, PlainField f) (n : Bytes) (hn : n ∈ special) :
    (fs.map C02.exposed).filter (fun h => !Multimap.isMatch n h) = fs.map C02.exposed := by
  rw [List.filter_eq_self]
  intro h hh
  obtain ⟨f, hf, rfl⟩ := List.mem_map.mp hh
  simp [Multimap.isMatch, C02.exposed, hp f hf n hn]

/-- Classification of a request without interpreted fields: everything is handed on unchanged, no
    body unless the method is POST or PUT. -/
theorem classify_plain (m : Bytes) (url : Url) (fs : List Grammar.Field) (hp : ∀ f ∈ fs, PlainField f) :
    classify false ⟨m, url, fs.map C02.exposed⟩ =
      .ok { method := m, url := url, headers := fs.map C02.exposed, cookies := [], contentType := .none,
            expectContinue := false, chunked := false, gzip := false, contentLength := none,
            body := bodyKind false none m false false } := by
  rw [C03.C03_classify_closed_form]
  simp only [C03.vals, getAll_plain fs hp _ (by simp [special] : b!"transfer-encoding" ∈ special),
    getAll_plain fs hp _ (by simp [special] : b!"cookie" ∈ special),
    getAll_plain fs hp _ (by simp [special] : b!"content-length" ∈ special),
    Multimap.getOnly, getAll_plain fs hp _ (by simp [special] : b!"content-type" ∈ special),
    getAll_plain fs hp _ (by simp [special] : b!"expect" ∈ special),
    C03.teStage, C03.cookieStage, C03.lengthStage, C03.ctStage, C03.remaining,
    filter_plain fs hp _ (by simp [special] : b!"content-type" ∈ special),
    filter_plain fs hp _ (by simp [special] : b!"expect" ∈ special),
    filter_plain fs hp _ (by simp [special] : b!"transfer-encoding" ∈ special)]
  rfl

/-- The `content-length` field a client sends for a body of `n` bytes (any OWS around the value). -/
def lengthField (pre post : Bytes) (n : Nat) : Grammar.Field := ⟨b!"content-length", pre, Serialize.decimal n, post⟩

theorem digitsVal_decimal (n : Nat) : digitsVal (Serialize.decimal n) = n := C06.decVal_decimal n

theorem parseContentLength_decimal (n : Nat) (hn : n < 2 ^ 64) : parseContentLength (Serialize.decimal n) = some n := by
  have hd := C06.decimal_digits n
  have hall : (Serialize.decimal n).all isDigit = true := hd.1
  simp [parseContentLength, hd.2, hall, digitsVal_decimal, hn]

/-- Classification of a request with uninterpreted fields and one Content-Length field at the end:
    the body is exactly the next `n` bytes. -/
theorem classify_plain_length (m : Bytes) (url : Url) (fs : List Grammar.Field) (hp : ∀ f ∈ fs, PlainField f)
    (pre post : Bytes) (n : Nat) (hn : n < 2 ^ 64) :
    classify false ⟨m, url, (fs ++ [lengthField pre post n]).map C02.exposed⟩ =
      .ok { method := m, url := url, headers := (fs ++ [lengthField pre post n]).map C02.exposed, cookies := [],
            contentType := .none, expectContinue := false, chunked := false, gzip := false,
            contentLength := some n, body := bodyKind false (some n) m false false } := by
  rw [C03.C03_classify_closed_form]
  have hm : ∀ name, Multimap.isMatch name (C02.exposed (lengthField pre post n)) = eqIgnoreCase (b!"content-length") name :=
    fun _ => rfl
  have hga : ∀ name ∈ special, Multimap.getAll ((fs ++ [lengthField pre post n]).map C02.exposed) name =
      if eqIgnoreCase (b!"content-length") name then [Serialize.decimal n] else [] := by
    intro name hname
    have h0 := getAll_plain fs hp name hname
    unfold Multimap.getAll at h0 ⊢
    rw [List.map_append, List.filter_append, List.map_append, h0]
    simp only [List.map_cons, List.map_nil, List.filter_cons, List.filter_nil, hm, List.nil_append]
    cases eqIgnoreCase (b!"content-length") name <;> rfl
  have hfl : ∀ name ∈ special, eqIgnoreCase (b!"content-length") name = false →
      ((fs ++ [lengthField pre post n]).map C02.exposed).filter (fun h => !Multimap.isMatch name h) =
        (fs ++ [lengthField pre post n]).map C02.exposed := by
    intro name hname hne
    rw [List.map_append, List.filter_append, filter_plain fs hp name hname]
    simp only [List.map_cons, List.map_nil, List.filter_cons, List.filter_nil, hm, hne, Bool.not_false, if_true]
  have e1 : eqIgnoreCase (b!"content-length") (b!"transfer-encoding") = false := by decide
  have e2 : eqIgnoreCase (b!"content-length") (b!"cookie") = false := by decide
  have e3 : eqIgnoreCase (b!"content-length") (b!"content-type") = false := by decide
  have e4 : eqIgnoreCase (b!"content-length") (b!"expect") = false := by decide
  have e5 : eqIgnoreCase (b!"content-length") (b!"content-length") = true := by decide
  simp only [C03.vals, hga _ (by simp [special] : b!"transfer-encoding" ∈ special),
    hga _ (by simp [special] : b!"cookie" ∈ special), hga _ (by simp [special] : b!"content-length" ∈ special),
    Multimap.getOnly, hga _ (by simp [special] : b!"content-type" ∈ special),
    hga _ (by simp [special] : b!"expect" ∈ special), e1, e2, e3, e4, e5, if_true, Bool.false_eq_true, if_false,
    C03.teStage, C03.cookieStage, C03.lengthStage, C03.ctStage, C03.remaining,
    hfl _ (by simp [special] : b!"content-type" ∈ special) e3,
    hfl _ (by simp [special] : b!"expect" ∈ special) e4,
    hfl _ (by simp [special] : b!"transfer-encoding" ∈ special) e1,
    parseContentLength_decimal n hn]
  rfl

/-- What the handler is shown for a request without interpreted fields. -/
def plainView (m : Bytes) (url : Url) (fs : List Grammar.Field) (cl : Option Nat) : ReqMeta :=
  { method := m, url := url, headers := fs.map C02.exposed, cookies := [], contentType := .none,
    expectContinue := false, chunked := false, gzip := false, contentLength := cl,
    body := bodyKind false cl m false false }

/-- A bodiless request (method other than POST/PUT, no interpreted field) answered with a
    serialisable 2xx/3xx/6xx.. response is `Good`. -/
theorem good_plain (u : Bytes → Option Url) (cfg : Cfg) (handler : ReqView → HandlerOut) (h : Grammar.RawHead)
    (hw : h.wf = true) (hfit : h.render.length ≤ cap) (url : Url) (hu : u h.target = some url)
    (hp : ∀ f ∈ h.fields, PlainField f) (hm : h.method ≠ b!"POST" ∧ h.method ≠ b!"PUT")
    (r : Response) (out : Bytes) (hans : handler ⟨plainView h.method url h.fields none, some (.vec [])⟩ = .normal r)
    (hk : r.kind = .normal) (hc : r.code / 100 ≠ 1 ∧ r.code / 100 ≠ 4 ∧ r.code / 100 ≠ 5)
    (hs : Serialize.intended false r false = (out, .ok ())) :
    Good u cfg handler ⟨h, [], plainView h.method url h.fields none, r, out⟩ where
  wf := hw
  fits := hfit
  classified := ⟨url, hu, classify_plain h.method url h.fields hp⟩
  noExpect := rfl
  noCoding := ⟨rfl, rfl⟩
  framing := Or.inl ⟨by simp [plainView, bodyKind, hm.1, hm.2], rfl⟩
  answer := hans
  kind := hk
  code := hc
  ser := hs

/-- A request with a non-empty body framed by one Content-Length field (any method), small enough to
    be read up front, answered with a serialisable response outside 1xx/4xx/5xx is `Good`. -/
theorem good_plain_length (u : Bytes → Option Url) (cfg : Cfg) (handler : ReqView → HandlerOut) (h : Grammar.RawHead)
    (fs : List Grammar.Field) (pre post body : Bytes) (hfs : h.fields = fs ++ [lengthField pre post body.length])
    (hw : h.wf = true) (hfit : h.render.length ≤ cap) (url : Url) (hu : u h.target = some url)
    (hp : ∀ f ∈ fs, PlainField f) (hb0 : body ≠ []) (hb64 : body.length < 2 ^ 64) (hsmall : body.length ≤ cfg.smallBodyLen)
    (r : Response) (out : Bytes)
    (hans : handler ⟨plainView h.method url h.fields (some body.length), some (.vec body)⟩ = .normal r)
    (hk : r.kind = .normal) (hc : r.code / 100 ≠ 1 ∧ r.code / 100 ≠ 4 ∧ r.code / 100 ≠ 5)
    (hs : Serialize.intended false r false = (out, .ok ())) :
    Good u cfg handler ⟨h, body, plainView h.method url h.fields (some body.length), r, out⟩ where
  wf := hw
  fits := hfit
  classified := ⟨url, hu, by rw [hfs]; exact classify_plain_length h.method url fs hp pre post body.length hb64⟩
  noExpect := rfl
  noCoding := ⟨rfl, rfl⟩
  framing := Or.inr ⟨by
    have : body.length ≠ 0 := fun h0 => hb0 (List.eq_nil_of_length_eq_zero h0)
    cases hl : body.length with
    | zero => exact absurd hl this
    | succ k => simp [plainView, bodyKind, hl], hsmall⟩
  answer := hans
  kind := hk
  code := hc
  ser := hs

/-! Non-vacuity: a concrete pipeline — `GET /a` with a `Host` field, then `POST /b` with a 2-byte
    body — is `Good` for a concrete URL parser and handler, and the theorem's right-hand side is the
    expected wire. -/

def exU : Bytes → Option Url := fun t => some ⟨t, none⟩
def exResp (b : Bytes) : Response := { code := 200, body := Body.ofBytes b }
def exHandler : ReqView → HandlerOut := fun v =>
  .normal (exResp (match v.body with | some (.vec b) => v.req.url.path ++ b | _ => []))
def exH1 : Grammar.RawHead := ⟨b!"GET", b!"/a", [⟨b!"Host", b!" ", b!"x", []⟩]⟩
def exH2 : Grammar.RawHead := ⟨b!"POST", b!"/b", [⟨b!"Host", b!" ", b!"x", []⟩, lengthField (b!" ") [] 2]⟩

theorem exGood1 : Good exU ⟨100, false, {}⟩ exHandler
    ⟨exH1, [], plainView (b!"GET") ⟨b!"/a", none⟩ exH1.fields none, exResp (b!"/a"),
      (Serialize.intended false (exResp (b!"/a")) false).1⟩ :=
  good_plain exU _ exHandler exH1 (by decide) (by decide) ⟨b!"/a", none⟩ rfl (by decide) (by decide) _ _
    (by decide) rfl (by decide) (Prod.ext rfl rfl)

theorem exGood2 : Good exU ⟨100, false, {}⟩ exHandler
    ⟨exH2, b!"hi", plainView (b!"POST") ⟨b!"/b", none⟩ exH2.fields (some 2), exResp (b!"/bhi"),
      (Serialize.intended false (exResp (b!"/bhi")) false).1⟩ :=
  good_plain_length exU _ exHandler exH2 [⟨b!"Host", b!" ", b!"x", []⟩] (b!" ") [] (b!"hi") rfl (by decide) (by decide)
    ⟨b!"/b", none⟩ rfl (by decide) (by decide) (by decide) (by decide) _ _ (by decide) rfl (by decide) (Prod.ext rfl rfl)

example : (handleConn false exU ⟨100, false, {}⟩ exHandler 3
      { input := b!"GET /a HTTP/1.1\r\nHost: x\r\n\r\nPOST /b HTTP/1.1\r\nHost: x\r\ncontent-length: 2\r\n\r\nhi" } []).1.wire =
    b!"HTTP/1.1 200 OK\r\ncontent-length: 2\r\n\r\n/aHTTP/1.1 200 OK\r\ncontent-length: 4\r\n\r\n/bhi" := by
  have h := C04_pipeline_eof exU ⟨100, false, {}⟩ exHandler [_, _]
    (by intro x hx; simp only [List.mem_cons, List.not_mem_nil, or_false] at hx; rcases hx with rfl | rfl
        · exact exGood1
        · exact exGood2) 0
  have hin : wireIn [(⟨exH1, [], plainView (b!"GET") ⟨b!"/a", none⟩ exH1.fields none, exResp (b!"/a"),
      (Serialize.intended false (exResp (b!"/a")) false).1⟩ : Exch),
      ⟨exH2, b!"hi", plainView (b!"POST") ⟨b!"/b", none⟩ exH2.fields (some 2), exResp (b!"/bhi"),
      (Serialize.intended false (exResp (b!"/bhi")) false).1⟩] =
      b!"GET /a HTTP/1.1\r\nHost: x\r\n\r\nPOST /b HTTP/1.1\r\nHost: x\r\ncontent-length: 2\r\n\r\nhi" := by decide
  rw [hin] at h
  simp only [List.length_cons, List.length_nil] at h
  rw [h]
  decide

/-! ### C14 (consequence): what the handler is shown is what the client sent -/

/-- The fields the library consumes while reading a request. -/
def consumed (f : Header) : Bool :=
  Multimap.isMatch (b!"content-type") f || Multimap.isMatch (b!"expect") f || Multimap.isMatch (b!"transfer-encoding") f

/-- **The header list a handler sees is the list the client sent, in order, minus the consumed fields.**
    For every well-formed head that fits the buffer and is accepted (whatever follows it on the
    stream): the request handed on carries exactly the fields sent — names verbatim, values stripped
    of the surrounding optional whitespace only, in the order sent, duplicates included — except
    those named content-type, expect or transfer-encoding (ASCII-case-insensitively). -/
theorem C14_request_headers (u : Bytes → Option Url) (h : Grammar.RawHead) (hw : h.wf = true)
    (hfit : h.render.length ≤ cap) (X : Bytes) (m : ReqMeta)
    (hok : (readRequestD false false u cap (h.render ++ X)).1 = .ok m) :
    m.headers = (h.fields.map C02.exposed).filter (fun f => !consumed f) ∧
    (readRequestD false false u cap (h.render ++ X)).2 = X := by
  unfold readRequestD at hok ⊢
  rw [readHeadD_wf u h hw hfit X] at hok ⊢
  refine ⟨?_, rfl⟩
  cases hu : u h.target with
  | none => simp [hu, ofReadOut] at hok
  | some url =>
    simp only [hu, ofReadOut] at hok
    cases hc : classify false ⟨h.method, url, h.fields.map C02.exposed⟩ with
    | error e => simp [hc] at hok
    | ok m' =>
      simp only [hc, ReqOut.ok.injEq] at hok
      subst hok
      rw [C03.C03_classify_closed_form] at hc
      have hrem : C03.remaining (h.fields.map C02.exposed) = (h.fields.map C02.exposed).filter (fun f => !consumed f) := by
        unfold C03.remaining consumed
        rw [List.filter_filter, List.filter_filter]
        apply List.filter_congr
        intro f _
        cases Multimap.isMatch (b!"content-type") f <;> cases Multimap.isMatch (b!"expect") f <;>
          cases Multimap.isMatch (b!"transfer-encoding") f <;> rfl
      rw [← hrem]
      split at hc
      · cases hc
      · split at hc
        · cases hc
        · split at hc
          · cases hc
          · simp only [Except.ok.injEq] at hc
            rw [← hc]

end C04P
end Servlin
