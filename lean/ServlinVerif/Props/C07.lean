import ServlinVerif.Lemmas.Chunked
/-
  C07 — the chunked encoder's output decodes to exactly the source, for every read pattern.
-/
namespace Servlin
namespace C07
open Chunked ChunkDecoder

/-- A read pattern the encoder can see: every read returns between 1 and 65528 bytes. -/
def PiecesOk (ps : List Bytes) : Prop := ∀ p ∈ ps, 1 ≤ p.length ∧ p.length ≤ maxPiece

theorem piecesOk_lt (ps : List Bytes) (h : PiecesOk ps) : ∀ p ∈ ps, 1 ≤ p.length ∧ p.length < 65536 := by
  intro p hp; have := h p hp; unfold maxPiece at this; omega

/-- **Round trip.** For every byte stream and every way the source delivers it in pieces, the
    independent RFC 7230 §4.1 decoder accepts the complete output and recovers exactly the source
    bytes, with nothing left over. -/
theorem C07_decode_encode (src : Source) (hp : PiecesOk src.pieces) (he : src.endsWithError = false) :
    decode (copyChunked src).1 = .complete src.pieces.flatten [] ∧
    (copyChunked src).2 = .ok ((src.pieces.map List.length).sum + 3) := by
  have hps := piecesOk_lt _ hp
  unfold copyChunked decode
  simp only [he, Bool.false_eq_true, if_false, and_true]
  have hlen := chunks_length_ge src.pieces hps
  obtain ⟨k, hk⟩ : ∃ k, ((src.pieces.map encodeChunk).flatten ++ terminator).length + 1 =
      (k + 1) + src.pieces.length := by
    refine ⟨((src.pieces.map encodeChunk).flatten ++ terminator).length - src.pieces.length, ?_⟩
    simp only [List.length_append]; omega
  rw [hk, decodeAux_chunks src.pieces hps (k + 1) terminator []]
  have := decodeAux_terminator k [] (src.pieces.reverse ++ [])
  simpa using this

/-- **Shape of one chunk.** The size line is the minimal hexadecimal spelling of the data length
    (it parses back to exactly that length and does not start with '0'), it is followed by CRLF,
    the data and CRLF; in particular a chunk never announces length zero before the end. -/
theorem C07_shape (d rest : Bytes) (h1 : 1 ≤ d.length) (h2 : d.length ≤ maxPiece) :
    parseSize (encodeChunk d ++ rest) 0 false = .ok d.length (d ++ crlf ++ rest) ∧
    (encodeChunk d ++ rest).head? ≠ some 48 := by
  rw [encodeChunk_append]
  have := parse_trimmed_sizeLine d.length h1 (by unfold maxPiece at h2; omega) (d ++ 13 :: 10 :: rest)
  simpa [crlf] using this

/-- **A source error can never be mistaken for the end.** The output then consists of whole
    chunks only, without the terminating chunk, the copy reports the reader error, and the
    decoder answers "incomplete". -/
theorem C07_error_truncates (src : Source) (hp : PiecesOk src.pieces) (he : src.endsWithError = true) :
    (copyChunked src).1 = (src.pieces.map encodeChunk).flatten ∧
    (copyChunked src).2 = .readerErr ∧
    decode (copyChunked src).1 = .incomplete := by
  have hps := piecesOk_lt _ hp
  unfold copyChunked decode
  simp only [he, if_true, true_and]
  have hlen := chunks_length_ge src.pieces hps
  obtain ⟨k, hk⟩ : ∃ k, ((src.pieces.map encodeChunk).flatten).length + 1 = (k + 1) + src.pieces.length :=
    ⟨((src.pieces.map encodeChunk).flatten).length - src.pieces.length, by omega⟩
  have := decodeAux_chunks src.pieces hps (k + 1) [] []
  rw [List.append_nil] at this
  rw [hk, this]
  simp [decodeAux, parseSize]

/-- Exactly one terminating chunk, at the very end: the complete output is the chunks followed by
    `0 CRLF CRLF`. -/
theorem C07_one_terminator (src : Source) (he : src.endsWithError = false) :
    (copyChunked src).1 = (src.pieces.map encodeChunk).flatten ++ [48, 13, 10, 13, 10] := by
  simp [copyChunked, he, terminator]

/-- Index safety of the fixed buffer: `buf[6 + len + 1]` is inside the 65536-byte array for every
    length the read slice `buf[6..65534]` can deliver. -/
theorem C07_piece_bound (len : Nat) (h : len ≤ maxPiece) : 6 + len + 1 < 65536 ∧ 6 + maxPiece = 65534 := by
  unfold maxPiece at *; omega

/-- Non-vacuity: a 1-byte and a 65528-byte piece satisfy the hypotheses; and a concrete encoding. -/
example : PiecesOk [[7], List.replicate 65528 0] := by
  intro p hp
  simp only [List.mem_cons, List.not_mem_nil, or_false] at hp
  rcases hp with rfl | rfl
  · simp [maxPiece]
  · rw [List.length_replicate]; unfold maxPiece; omega

example : encodeChunk [104, 105] = [50, 13, 10, 104, 105, 13, 10] := by decide

end C07
end Servlin
