import ServlinVerif.Gen.CodeTables
import ServlinVerif.Model.Response
import ServlinVerif.Model.Time
import ServlinVerif.Model.Request
import ServlinVerif.Model.Logger
/-
  Finite tables of the code, tied by *regeneration*: `Gen/CodeTables.lean` is rewritten on every run by
  executing /repo's code (`reason_phrase` on every status code, `month_len_days` on a whole 400-year
  cycle, `ContentType::parse` on a probe set around every variant, `log()` on a tag list that exercises
  the priority order), and the theorems below are re-checked by the kernel against what the code says now.
  They state that the hand-written model tables used by the C06, C16, C03 and C18 theorems *are* the
  code's tables.
-/
namespace Servlin
namespace CodeTables
open JsonModel LoggerModel

/-- C06: the model's reason phrases are the code's, for every status code 100..999. -/
theorem reason_matches : Gen.reasonTable.all (fun row => reasonBytes row.1 == row.2) = true := by decide +kernel

theorem reason_complete : Gen.reasonTable.map (·.1) = List.range' 100 900 := by decide +kernel

/-- C16: the model's month lengths are the code's on a whole 400-year cycle … -/
theorem monthLen_matches :
    Gen.monthLenTable.all (fun row => Time.monthLen? row.1 row.2.1 == some row.2.2) = true := by decide +kernel

/-- The table has one row per year 2000..2399 and, in each, one entry per month 1..12. -/
theorem monthLen_table_complete :
    Gen.monthLenRows.length = 400 ∧
    (Gen.monthLenRows.zipIdx.all fun p =>
      p.1.map (fun r => (r.1, r.2.1)) == (List.range' 1 12).map (fun m => (2000 + p.2, m))) = true := by
  constructor <;> decide +kernel

/-- … and the model's month length depends on the year only through `year mod 400`, so the cycle covers every year. -/
theorem monthLen_cycle (y m : Nat) : Time.monthLen? y m = Time.monthLen? (2000 + y % 400) m := by
  unfold Time.monthLen?
  have h400 : (2000 + y % 400) % 400 = y % 400 := by omega
  have h100 : (2000 + y % 400) % 100 = y % 100 := by omega
  have h4 : (2000 + y % 400) % 4 = y % 4 := by omega
  split <;> simp only [h400, h100, h4]

def ctypeName : CType → String
  | .none => "none"
  | .known n => n
  | .other _ => "other"

/-- C03: the model's `ContentType::parse` classifies every probe (each variant's own text, its bare media type,
    with parameters, with blanks, upper-cased, with a trailing byte, …) as the code does. -/
theorem contentType_matches :
    Gen.contentTypeTable.all (fun row => ctypeName (RequestModel.parseContentType row.1) == row.2) = true := by
  decide +kernel

def probeTags (l : List (String × Int)) : List Tag := l.map fun p => ⟨p.1.toList, .int p.2⟩

/-- C18: `log()` orders the probe tags (two `msg`, two `path`, every priority name, four others, given in
    scrambled order) exactly as the model's stable priority sort does. -/
theorem tagOrder_matches : sortByPrio (probeTags Gen.tagProbe) = probeTags Gen.tagOrder := by decide +kernel

end CodeTables
end Servlin
