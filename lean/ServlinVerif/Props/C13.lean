import ServlinVerif.Props.C12
/-
  C13 — graceful shutdown: prompt stop signal, in-flight requests complete.

  Model: `Model/Server.lean`.  `legacy = false` is the repaired accept loop (waiting for a slot is raced against
  the permit); `C13_legacy_*` replay the pinned tree's defect on the model.
  Time is not modelled: "within a bounded time" is stated as "within a bounded number of the accept loop's own
  steps, none of which waits for anything outside the loop" (`C13_bounded` + `C13_progress`); the only timed
  step is the 500 ms sleep after a failed accept.  The suite c13 measures the wall-clock bound.
-/
namespace Servlin
namespace Server

def Acc.rank : Acc → Nat
  | .stopped => 0
  | .waitToken => 1
  | .sleeping => 2
  | .accepting => 3

/-- After revocation every step of the accept loop brings it strictly closer to `stopped` — in particular it
    never goes back to accepting. -/
theorem C13_rank_decreases (legacy : Bool) (s s' : Srv) (e : Ev) (hrev : s.revoked = true)
    (he : e.isAcceptLoop = true) (hs : step legacy s e = some s') :
    s'.acc.rank < s.acc.rank ∧ s'.revoked = true := by
  cases e with
  | grant =>
    simp only [step, hrev, if_true] at hs
    split at hs
    · rename_i hc; cases hs; simp [Acc.rank, hc.1, hrev]
    · cases hs
  | acceptOk =>
    simp only [step] at hs
    split at hs
    · rename_i hc; cases hs; simp [Acc.rank, hc, hrev]
    · cases hs
  | acceptErr =>
    simp only [step] at hs
    split at hs
    · rename_i hc; cases hs; simp [Acc.rank, hc, hrev]
    · cases hs
  | wake =>
    simp only [step] at hs
    split at hs
    · rename_i hc; cases hs; simp [Acc.rank, hc, hrev]
    · cases hs
  | connEnd => simp [Ev.isAcceptLoop] at he
  | revoke => simp [Ev.isAcceptLoop] at he
  | seeRevoked =>
    simp only [step, hrev, if_true] at hs
    split at hs
    · rename_i hc; cases hs; simp [Acc.rank, hc, hrev]
    · split at hs
      · rename_i hc; cases hs; simp [Acc.rank, hc.1, hrev]
      · cases hs

/-- Events that are not the accept loop's leave it where it is and never un-revoke. -/
theorem other_events (legacy : Bool) (s s' : Srv) (e : Ev) (he : e.isAcceptLoop = false)
    (hs : step legacy s e = some s') : s'.acc = s.acc ∧ (s.revoked = true → s'.revoked = true) := by
  cases e with
  | connEnd =>
    simp only [step] at hs
    split at hs
    · cases hs; exact ⟨rfl, id⟩
    · cases hs
  | revoke => simp only [step] at hs; cases hs; exact ⟨rfl, fun _ => rfl⟩
  | grant => simp [Ev.isAcceptLoop] at he
  | acceptOk => simp [Ev.isAcceptLoop] at he
  | acceptErr => simp [Ev.isAcceptLoop] at he
  | wake => simp [Ev.isAcceptLoop] at he
  | seeRevoked => simp [Ev.isAcceptLoop] at he

/-- C13 (bounded): after the permit is revoked the accept loop takes at most three more of its own steps (at most
    `rank`), whatever connections and clients do in between, in every schedule. -/
theorem C13_bounded (legacy : Bool) (evs : List Ev) (s s' : Srv) (hrev : s.revoked = true)
    (hr : run legacy s evs = some s') :
    (evs.filter Ev.isAcceptLoop).length + s'.acc.rank ≤ s.acc.rank ∧ s.acc.rank ≤ 3 := by
  refine ⟨?_, by cases s.acc <;> simp [Acc.rank]⟩
  induction evs generalizing s with
  | nil => simp [run] at hr; subst hr; simp
  | cons e es ih =>
    simp only [run] at hr
    split at hr
    · cases hr
    · rename_i s1 hs1
      cases he : e.isAcceptLoop with
      | true =>
        obtain ⟨hlt, hrev1⟩ := C13_rank_decreases legacy s s1 e hrev he hs1
        have := ih s1 hrev1 hr
        simp only [List.filter, he, List.length_cons]
        omega
      | false =>
        obtain ⟨hacc, hrev1⟩ := other_events legacy s s1 e he hs1
        have := ih s1 (hrev1 hrev) hr
        simp only [List.filter, he]
        rw [hacc] at this; exact this

/-- C13 (progress, repaired loop): once revoked and not yet stopped, a step of the accept loop is enabled that
    waits for nothing outside the loop — no free slot, no client, no connection ending.  With `C13_bounded`: the
    loop stops after at most three steps, even when every slot is held by an idle connection. -/
theorem C13_progress (s : Srv) (hrev : s.revoked = true) (hns : s.acc ≠ .stopped) :
    (s.acc = .sleeping ∧ (step false s .wake).isSome) ∨
    (s.acc ≠ .sleeping ∧ ∃ s', step false s .seeRevoked = some s' ∧ s'.acc = .stopped) := by
  cases hacc : s.acc with
  | stopped => exact absurd hacc hns
  | sleeping => exact Or.inl ⟨rfl, by simp [step, hacc]⟩
  | waitToken => exact Or.inr ⟨by simp, by simp [step, hrev, hacc]⟩
  | accepting => exact Or.inr ⟨by simp, by simp [step, hrev, hacc]⟩

/-- Invariant: stopped only after revocation; at most one connection accepted after revocation. -/
structure StopInv (s : Srv) : Prop where
  not_early : s.acc = .stopped → s.revoked = true
  late_accepts : s.acceptedAfterRevoke + (if s.acc = .accepting then 1 else 0) ≤ 1
  none_before : s.revoked = false → s.acceptedAfterRevoke = 0

theorem step_stopinv (legacy : Bool) (s s' : Srv) (e : Ev) (h : StopInv s) (hs : step legacy s e = some s') :
    StopInv s' := by
  obtain ⟨h1, h2, h3⟩ := h
  cases e <;> simp only [step] at hs
  · -- grant
    split at hs
    · rename_i hc
      split at hs
      · rename_i hr; cases hs
        refine ⟨fun _ => hr, ?_, fun hf => by simp [hr] at hf⟩
        simp only [hc.1] at h2; simpa using h2
      · rename_i hr; cases hs
        have hr' : s.revoked = false := by simpa using hr
        exact ⟨by simp, by simp [h3 hr'], h3⟩
    · cases hs
  · split at hs
    · rename_i hc; cases hs
      simp only [hc, if_true] at h2
      refine ⟨by simp, ?_, ?_⟩
      · simp only; split <;> simp <;> omega
      · intro hr; simp only at hr; simp [hr, h3 hr]
    · cases hs
  · split at hs
    · rename_i hc; cases hs
      exact ⟨by simp, by simp only [hc, if_true] at h2; simp; omega, h3⟩
    · cases hs
  · split at hs
    · rename_i hc; cases hs
      exact ⟨by simp, by simp only [hc] at h2; simpa using h2, h3⟩
    · cases hs
  · split at hs
    · cases hs; exact ⟨h1, h2, h3⟩
    · cases hs
  · cases hs
    exact ⟨fun _ => rfl, h2, by simp⟩
  · split at hs
    · rename_i hr
      split at hs
      · cases hs; exact ⟨fun _ => hr, by simp; omega, fun hf => by simp [hr] at hf⟩
      · split at hs
        · rename_i hc; cases hs
          exact ⟨fun _ => hr, by simp only [hc.1] at h2; simpa using h2, fun hf => by simp [hr] at hf⟩
        · cases hs
    · cases hs

theorem run_stopinv (legacy : Bool) (evs : List Ev) (s s' : Srv) (h : StopInv s) (hr : run legacy s evs = some s') :
    StopInv s' := by
  induction evs generalizing s with
  | nil => simp [run] at hr; subst hr; exact h
  | cons e es ih =>
    simp only [run] at hr
    split at hr
    · cases hr
    · rename_i s1 hs1; exact ih s1 (step_stopinv legacy s s1 e h hs1) hr

/-- C13 (never early; at most one straggler): in every history the accept loop has stopped only if the permit
    was revoked, and at most one connection is accepted after the revocation (the `accept()` that was already
    in flight); its task sees the revoked permit at once (`C13_conn_after_revoke`). -/
theorem C13_never_early (legacy : Bool) (n : Nat) (evs : List Ev) (s : Srv) (hr : run legacy (Srv.new n) evs = some s) :
    (s.acc = .stopped → s.revoked = true) ∧ s.acceptedAfterRevoke ≤ 1 := by
  have h := run_stopinv legacy evs _ s ⟨by simp [Srv.new], by simp [Srv.new], by simp [Srv.new]⟩ hr
  exact ⟨h.not_early, by have := h.late_accepts; omega⟩

/-- C13 (stopped is final): once the loop has returned — listener dropped, signal sent — no event accepts a
    connection: the number of serviced connections can only go down. -/
theorem C13_stopped_final (legacy : Bool) (s s' : Srv) (e : Ev) (hst : s.acc = .stopped) (hs : step legacy s e = some s') :
    s'.acc = .stopped ∧ s'.serving ≤ s.serving := by
  cases e <;> simp [step, hst] at hs
  · obtain ⟨_, rfl⟩ := hs; exact ⟨rfl, by simp⟩
  · subst hs; exact ⟨rfl, Nat.le_refl _⟩

/-- Pinned tree: with no free slot the accept loop has no step of its own, revoked or not — it is parked in
    `async_wait_token` until some connection ends. -/
theorem C13_legacy_parked (s : Srv) (hacc : s.acc = .waitToken) (hu : s.tokens.units = 0) :
    enabledAlone true s = [] := by
  simp [enabledAlone, step, hacc, hu]

/-- Pinned tree, concrete history (max_conns = 1): one idle connection holds the slot, the permit is revoked:
    the loop is not stopped and cannot move; the repaired loop can stop at once. -/
theorem C13_legacy_stuck :
    (run true (Srv.new 1) [.grant, .acceptOk, .revoke]).map (fun s => (s.acc, s.revoked, enabledAlone true s, enabledAlone false s)) =
      some (Acc.waitToken, true, [], [Ev.seeRevoked]) := by
  decide

/-! ### Connections -/

def pending (c : ConnSt) : Nat := if c.st = .waiting ∨ c.st = .serving then 1 else 0

theorem cstep_revoked (c c' : ConnSt) (e : CEv) (hs : cstep true c e = some c') :
    c'.responses + pending c' ≤ c.responses + pending c := by
  cases e <;> simp only [cstep] at hs <;> split at hs <;> first | cases hs | skip
  · rename_i hc; simp [pending, hc]
  · rename_i hc; simp [pending, hc]
  · rename_i hc; simp [pending, hc]
  · simp [pending]

/-- C13 (at most one further request): from the moment the permit is revoked a connection completes at most one
    more response — the request in flight, or the next one if it was idle or mid-head — whatever the client sends. -/
theorem C13_one_more (evs : List CEv) (c c' : ConnSt) (hr : crun true c evs = some c') :
    c'.responses ≤ c.responses + 1 ∧ c'.responses + pending c' ≤ c.responses + pending c := by
  suffices h : c'.responses + pending c' ≤ c.responses + pending c by
    refine ⟨?_, h⟩
    have : pending c ≤ 1 := by unfold pending; split <;> simp
    omega
  induction evs generalizing c with
  | nil => simp [crun] at hr; subst hr; exact Nat.le_refl _
  | cons e es ih =>
    simp only [crun] at hr
    split at hr
    · cases hr
    · rename_i c1 hc1
      exact Nat.le_trans (ih c1 hr) (cstep_revoked c c1 e hc1)

/-- C13 (in-flight requests complete): a request that is being handled gets its complete response whether or not
    the permit has been revoked; afterwards the revoked connection is closed at the top of its loop. -/
theorem C13_inflight_completes (revoked : Bool) (k : Nat) :
    crun revoked ⟨.serving, k⟩ [.respond] = some ⟨.check, k + 1⟩ ∧
    crun true ⟨.check, k + 1⟩ [.loopTop] = some ⟨.closed, k + 1⟩ := by
  cases revoked <;> simp [crun, cstep]

/-- C13: a connection accepted in the instant of revocation is closed before it serves anything. -/
theorem C13_conn_after_revoke : crun true ⟨.check, 0⟩ [.loopTop] = some ⟨.closed, 0⟩ := by decide

/-- Non-vacuity: an idle keep-alive connection, revocation, then one more request is served and the second is not. -/
example : crun true ⟨.waiting, 1⟩ [.request, .respond, .loopTop] = some ⟨.closed, 2⟩ ∧
    crun true ⟨.waiting, 1⟩ [.request, .respond, .loopTop, .request] = none := by decide

/-- Non-vacuity: revocation with all three slots held; the repaired loop stops in one step of its own. -/
example : (run false (Srv.new 3) [.grant, .acceptOk, .grant, .acceptOk, .grant, .acceptOk, .revoke, .seeRevoked]).map
    (fun s => (s.acc, s.serving, s.tokens.units)) = some (Acc.stopped, 3, 0) := by decide

/-! ### Revocation while `k` connections are being served (for instance: every thread of the handler pool is inside a handler) -/

theorem run_fill (n : Nat) : ∀ (k j : Nat), j + k ≤ n →
    run false { tokens := ⟨n, n - j, j⟩, serving := j } (fill k) =
      some { tokens := ⟨n, n - (j + k), j + k⟩, serving := j + k } := by
  intro k
  induction k with
  | zero => intro j _; simp [fill, run]
  | succ k ih =>
    intro j h
    have hu : n - j > 0 := by omega
    have := ih (j + 1) (by omega)
    simp only [fill, run, step, Tokens.take, hu, and_self, if_true, Bool.false_eq_true, if_false]
    have e1 : n - j - 1 = n - (j + 1) := by omega
    have e2 : j + 1 + k = j + (k + 1) := by omega
    simp only [e1, e2] at this ⊢
    simpa using this

/-- C12 (suite c12s): with `max_conns` connections being serviced — whatever they are doing, e.g. each being sent an open
    event stream — no unit is left and the accept loop has no step: neither `grant` nor `acceptOk` is enabled, so one more
    client is not accepted until some connection ends (`connEnd` gives a unit back: `C12_conserved`). -/
theorem C12_full_no_accept (n : Nat) :
    ∃ s, run false (Srv.new n) (fill n) = some s ∧ s.serving = n ∧ s.tokens.units = 0 ∧
      step false s .grant = none ∧ step false s .acceptOk = none ∧ step false s .acceptErr = none := by
  have h := run_fill n n 0 (by omega)
  have h0 : (Srv.new n) = { tokens := ⟨n, n - 0, 0⟩, serving := 0 } := by simp [Srv.new, Tokens.new]
  refine ⟨_, by rw [h0]; exact h, by simp, by simp, ?_, ?_, ?_⟩ <;> simp [step]

/-- C13: with any number `k ≤ max_conns` of connections being served — whatever they are doing: their handlers may occupy
    every thread of the handler pool — the revocation is observed by the accept loop in one step of its own: it stops
    (listener released, signal sent) while the `k` connections go on being served; none of their slots is touched. -/
theorem C13_stops_while_serving (n k : Nat) (hk : k ≤ n) :
    run false (Srv.new n) (fill k ++ [.revoke, .seeRevoked]) =
      some { tokens := ⟨n, n - k, k⟩, acc := .stopped, serving := k, revoked := true } := by
  have h := run_fill n k 0 (by omega)
  have hrun : ∀ (evs evs' : List Ev) (a b : Srv), run false a evs = some b → run false a (evs ++ evs') = run false b evs' := by
    intro evs
    induction evs with
    | nil => intro evs' a b hab; simp only [run, Option.some.injEq] at hab; subst hab; rfl
    | cons e es ih =>
      intro evs' a b hab
      cases hs : step false a e with
      | none => simp [run, hs] at hab
      | some a' =>
        simp only [run, List.cons_append, hs] at hab ⊢
        exact ih evs' a' b hab
  have h0 : (Srv.new n) = { tokens := ⟨n, n - 0, 0⟩, serving := 0 } := by simp [Srv.new, Tokens.new]
  rw [h0, hrun _ _ _ _ h]
  simp [run, step]

/-! ### The whole loop of a connection task, `k` requests waiting, the permit revoked by the `j`-th handler -/

theorem servedUnder_some (k j : Nat) : ∀ (f r : Nat), r ≤ k → k - r + 1 ≤ f →
    servedUnder k (some j) f ⟨.check, r⟩ = if j ≤ r then r else min j k := by
  intro f
  induction f with
  | zero => intro r _ h; omega
  | succ f ih =>
    intro r hr hf
    by_cases hj : j ≤ r
    · simp [servedUnder, cstep, hj]
    · have hd : decide (r ≥ j) = false := by simpa using hj
      by_cases hk : r < k
      · have := ih (r + 1) (by omega) (by omega)
        simp only [servedUnder, cstep, crun, hd, hk, if_true, if_false, if_pos, reduceCtorEq] at this ⊢
        simp only [this]
        split <;> omega
      · simp [servedUnder, cstep, hd, hk, hj]
        omega

theorem servedUnder_none (k : Nat) : ∀ (f r : Nat), r ≤ k → k - r + 1 ≤ f →
    servedUnder k none f ⟨.check, r⟩ = k := by
  intro f
  induction f with
  | zero => intro r _ h; omega
  | succ f ih =>
    intro r hr hf
    by_cases hk : r < k
    · have := ih (r + 1) (by omega) (by omega)
      simpa [servedUnder, cstep, crun, hk] using this
    · simp [servedUnder, cstep, hk]
      omega

/-- C13 (the connection task, whole loop): with `k` requests already waiting, a task whose permit is revoked before it
    starts serves nothing; revoked by the handler of its `j`-th request it completes that request and serves no further one
    (`min j k` responses); never revoked, it serves all `k`.  (The harness runs `handle_http_conn` itself on these cases.) -/
theorem C13_task_under_permit (k j : Nat) :
    servedUnder k (some 0) (k + 2) ⟨.check, 0⟩ = 0 ∧
    servedUnder k (some j) (k + 2) ⟨.check, 0⟩ = min j k ∧
    servedUnder k none (k + 2) ⟨.check, 0⟩ = k := by
  refine ⟨?_, ?_, servedUnder_none k _ 0 (Nat.zero_le _) (by omega)⟩
  · simpa using servedUnder_some k 0 (k + 2) 0 (Nat.zero_le _) (by omega)
  · have := servedUnder_some k j (k + 2) 0 (Nat.zero_le _) (by omega)
    by_cases hj : j = 0
    · subst hj; simpa using this
    · simpa [Nat.pos_of_ne_zero hj, Nat.not_le.mpr (Nat.pos_of_ne_zero hj)] using this

end Server
end Servlin
