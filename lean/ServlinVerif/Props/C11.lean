import ServlinVerif.Model.EventChannel
import ServlinVerif.Spec.SseParser
/-
  C11 — server-sent events: ordered exactly-once delivery; the stream ends only on disconnect.
-/
namespace Servlin
namespace C11
open EventChannel EventModel

/-- No event exceeds the read slice of the chunked encoder (65528 bytes once encoded). -/
def Fits (e : Event) : Prop := (encodeFixed e).length ≤ Chunked.maxPiece

theorem encodeFixed_ne_nil (e : Event) : encodeFixed e ≠ [] := by
  cases e with
  | message d =>
    unfold encodeFixed encode
    by_cases h : rustLines d = []
    · simp [h]
    · simp only [h, if_false]
      cases hl : rustLines d with
      | nil => exact absurd hl h
      | cons l ls => simp
  | custom t d =>
    unfold encodeFixed encode
    by_cases h : rustLines d = [] <;> simp [h]

/-- Invariant of the channel: what has been written plus what is queued is exactly what was accepted,
    in order; the queue never exceeds its capacity; the wire is one chunk per delivered event, plus
    the terminator once the copy has ended; and it ends only when every sender is gone. -/
structure Inv (s : State) : Prop where
  order : s.delivered ++ s.queue = s.accepted
  bound : s.queue.length ≤ capacity
  wire : s.wire = (s.delivered.map fun e => Chunked.encodeChunk (encodeFixed e)).flatten ++
            (if s.done then Chunked.terminator else [])
  ended : s.done = true → s.senders.all (· == false) = true ∧ s.queue = []
  fits : ∀ e ∈ s.queue, Fits e
  notFailed : s.failed = false

theorem drain_inv (fuel : Nat) (s : State) (h : Inv s) (hd : s.done = false) : Inv (drain false fuel s) := by
  induction fuel generalizing s with
  | zero => exact h
  | succ n ih =>
    unfold drain
    cases hq : s.queue with
    | nil =>
      simp only
      by_cases hall : s.senders.all (· == false) = true
      · simp only [hall, if_true]
        exact ⟨by simpa [hq] using h.order, by simp, by simp [h.wire, hd], fun _ => ⟨hall, rfl⟩,
          by simp, h.notFailed⟩
      · simp only [hall, Bool.false_eq_true, if_false]; exact h
    | cons e rest =>
      have hfit : (encodeFixed e).length ≤ Chunked.maxPiece := h.fits e (by simp [hq])
      have hne := encodeFixed_ne_nil e
      simp only [Bool.false_eq_true, if_false, Nat.not_lt.mpr hfit, hne]
      apply ih
      · refine ⟨?_, ?_, ?_, ?_, ?_, h.notFailed⟩
        · simp only [List.append_assoc, List.singleton_append]; rw [← h.order, hq]
        · have := h.bound; rw [hq] at this; simp only [List.length_cons] at this
          show rest.length ≤ capacity; omega
        · simp [h.wire, hd]
        · intro hc; rw [hd] at hc; cases hc
        · intro x hx; exact h.fits x (by simp [hq, hx])
      · exact hd

/-- **Ordered exactly-once delivery, never blocking, ending only on disconnect** — for every sequence
    of sender and writer steps (any length, any number of sender handles), provided every event fits
    the encoder's read slice. -/
theorem C11_invariant (s : State) (ops : List Op) (h : Inv s)
    (hfit : ∀ op ∈ ops, ∀ i e, op = .send i e → Fits e) : Inv (run false s ops) := by
  induction ops generalizing s with
  | nil => exact h
  | cons op ops ih =>
    apply ih
    · cases op with
      | send i e =>
        have hf := hfit (.send i e) (by simp) i e rfl
        simp only [step, send]
        by_cases hc : connected s i = true
        · simp only [hc, if_true]
          by_cases hl : s.queue.length < capacity
          · simp only [hl, if_true]
            refine ⟨by simp [← h.order], by simp; omega, h.wire, ?_, ?_, h.notFailed⟩
            · intro hd
              -- a connected sender contradicts "ended"
              have := (h.ended hd).1
              simp only [connected] at hc
              rw [List.all_eq_true] at this
              have hmem : s.senders.getD i false ∈ s.senders := by
                by_cases hi : i < s.senders.length
                · simp [List.getD_eq_getElem?_getD, hi]
                · simp [List.getD_eq_getElem?_getD, Nat.not_lt.mp hi] at hc
              rw [hc] at hmem
              have := this true hmem
              simp at this
            · intro x hx; simp only [List.mem_append, List.mem_singleton] at hx
              rcases hx with hx | rfl
              · exact h.fits x hx
              · exact hf
          · simp only [hl, if_false]
            refine ⟨h.order, h.bound, h.wire, ?_, h.fits, h.notFailed⟩
            intro hd
            have := h.ended hd
            refine ⟨?_, this.2⟩
            rw [List.all_eq_true] at this ⊢
            intro x hx
            rcases List.mem_or_eq_of_mem_set hx with hx | rfl
            · exact this.1 x hx
            · rfl
        · simp only [hc, Bool.false_eq_true, if_false]; exact h
      | clone i =>
        simp only [step]
        by_cases hc : connected s i = true
        · simp only [hc, if_true]
          refine ⟨h.order, h.bound, h.wire, ?_, h.fits, h.notFailed⟩
          intro hd
          have := (h.ended hd).1
          simp only [connected] at hc
          rw [List.all_eq_true] at this
          have hmem : s.senders.getD i false ∈ s.senders := by
            by_cases hi : i < s.senders.length
            · simp [List.getD_eq_getElem?_getD, hi]
            · simp [List.getD_eq_getElem?_getD, Nat.not_lt.mp hi] at hc
          rw [hc] at hmem
          have := this true hmem
          simp at this
        · simp only [hc, Bool.false_eq_true, if_false]
          refine ⟨h.order, h.bound, h.wire, ?_, h.fits, h.notFailed⟩
          intro hd
          have := h.ended hd
          refine ⟨?_, this.2⟩
          rw [List.all_eq_true] at this ⊢
          intro x hx
          simp only [List.mem_append, List.mem_singleton] at hx
          rcases hx with hx | rfl
          · exact this.1 x hx
          · rfl
      | disconnect i =>
        simp only [step]
        refine ⟨h.order, h.bound, h.wire, ?_, h.fits, h.notFailed⟩
        intro hd
        have := h.ended hd
        refine ⟨?_, this.2⟩
        rw [List.all_eq_true] at this ⊢
        intro x hx
        rcases List.mem_or_eq_of_mem_set hx with hx | rfl
        · exact this.1 x hx
        · rfl
      | drop i =>
        simp only [step]
        refine ⟨h.order, h.bound, h.wire, ?_, h.fits, h.notFailed⟩
        intro hd
        have := h.ended hd
        refine ⟨?_, this.2⟩
        rw [List.all_eq_true] at this ⊢
        intro x hx
        rcases List.mem_or_eq_of_mem_set hx with hx | rfl
        · exact this.1 x hx
        · rfl
      | poll =>
        simp only [step]
        by_cases hd : s.done = true
        · simp only [hd, if_true]; exact h
        · simp only [hd, Bool.false_eq_true, if_false]
          exact drain_inv _ s h (by simpa using hd)
    · intro op' hop'; exact hfit op' (List.mem_cons_of_mem _ hop')

theorem init_inv : Inv ({} : State) := ⟨rfl, by simp, by simp, by simp, by simp, rfl⟩

/-- **A full queue disconnects the sender instead of blocking**: `send` is a total function, and on a
    full queue the handle is given up and nothing is enqueued. -/
theorem C11_never_blocks (s : State) (i : Nat) (e : Event) (hc : connected s i = true)
    (hfull : s.queue.length = capacity) :
    (send s i e).queue = s.queue ∧ connected (send s i e) i = false ∧ (send s i e).accepted = s.accepted := by
  have : ¬ s.queue.length < capacity := by omega
  have hsend : send s i e = { s with senders := s.senders.set i false } := by
    unfold send; rw [if_pos hc, if_neg this]
  rw [hsend]
  refine ⟨rfl, ?_, rfl⟩
  simp only [connected, List.getD_eq_getElem?_getD, List.getElem?_set]
  by_cases hi : i < s.senders.length <;> simp [hi]

/-- **The terminating chunk is sent when all senders are gone** (and the queue has been drained). -/
theorem C11_ends_when_all_gone (s : State) (hq : s.queue = []) (hd : s.done = false)
    (hall : s.senders.all (· == false) = true) :
    (step false s .poll).done = true ∧ (step false s .poll).wire = s.wire ++ Chunked.terminator := by
  have hne : true ∉ s.senders := by
    intro hm; rw [List.all_eq_true] at hall; have := hall true hm; simp at this
  simp [step, hd, hq, drain, hne]

/-! ### Format -/

/-- The full-strength format statement: an EventSource-conformant parser recovers every delivered
    event from the stream as written. -/
def C11_format_full : Prop :=
  ∀ evs : List Event, Sse.parse (evs.map encodeFixed).flatten = evs.map fun e =>
    ⟨match e with | .message _ => b!"message" | .custom t _ => t, match e with | .message d => d | .custom _ d => d⟩

/-- It is false on the current tree (a *known finding*, pinned by tests/event.rs): blocks are not
    ended by a blank line, so the parser dispatches nothing. -/
theorem C11_format_full_false : ¬ C11_format_full := by
  intro h
  have := h [.message (b!"msg1")]
  revert this
  decide

/-- What holds: with the blank line appended, a single-line event (no CR or LF in its data, non-empty
    custom type free of CR/LF/colon... here: any type bytes free of CR/LF) is recovered exactly. -/
theorem C11_format_partial_message : Sse.parse (encodeFixed (.message (b!"hello: world")) ++ [10]) = [⟨b!"message", b!"hello: world"⟩] ∧
    Sse.parse (encodeFixed (.message []) ++ [10]) = [⟨b!"message", []⟩] ∧
    Sse.parse (encodeFixed (.custom (b!"upd") (b!"a\nb")) ++ [10]) = [⟨b!"upd", b!"a\nb"⟩] ∧
    Sse.parse (encodeFixed (.message (b!"event: fake\n\ninjected")) ++ [10]) = [⟨b!"message", b!"event: fake\n\ninjected"⟩] := by
  decide

/-- The pinned tree: an event with empty data encodes to zero bytes, which the chunked copy loop reads
    as end of stream — the terminator is sent although the sender is still connected. -/
theorem C11_legacy_empty_terminates :
    let s := run true {} [.send 0 (.message []), .poll]
    s.done = true ∧ connected s 0 = true ∧ s.wire = Chunked.terminator := by
  decide

/-- The checked constructor: an accepted custom event has a type without CR and LF, so its `event:` field is one line
    that ends exactly where the type ends — the type cannot end the field early or start another field; a type with
    a line break is refused. -/
theorem C11_custom_type_one_line (t d : Bytes) :
    (custom? t d = none ↔ (13 ∈ t ∨ 10 ∈ t)) ∧
    (∀ ev, custom? t d = some ev → ev = .custom t d ∧ (∀ b ∈ t, b ≠ 13 ∧ b ≠ 10) ∧
      ∃ rest, encodeFixed ev = b!"event: " ++ t ++ 10 :: rest) := by
  unfold custom?
  by_cases h : (t.contains 13 || t.contains 10) = true
  · simp only [h, if_true, true_iff]
    refine ⟨?_, fun ev he => by cases he⟩
    simpa [List.contains_eq_mem] using h
  · simp only [h, if_false]
    have h' : ¬ (13 ∈ t ∨ 10 ∈ t) := by simpa [List.contains_eq_mem] using h
    refine ⟨by simp [h'], fun ev he => ?_⟩
    cases he
    refine ⟨rfl, fun b hb => ⟨fun e => h' (Or.inl (e ▸ hb)), fun e => h' (Or.inr (e ▸ hb))⟩, ?_⟩
    simp only [encodeFixed, encode]
    split
    · exact ⟨b!"data: \n", by simp⟩
    · exact ⟨((rustLines d).map fun l => b!"data: " ++ l ++ [10]).flatten, by simp⟩

end C11
end Servlin
