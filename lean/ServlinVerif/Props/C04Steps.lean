import ServlinVerif.Props.C04Pipeline
import ServlinVerif.Props.C10
import ServlinVerif.Props.C05Seq
/-
  C04 — pipelines of exchanges of *different kinds* on one persistent connection.

  `Step` says what one exchange does to a ready connection whose unread input starts with the
  exchange's request bytes: which handler calls happen (a function of the next upload-file id), which
  bytes go on the wire, how many upload files it creates — and that it leaves the connection ready,
  with exactly the following bytes unread and no file of its own left.  `C04_pipeline_steps` lifts any
  list of such exchanges to the whole connection, by induction, for any number of requests.

  Instances: `step_good` (requests handled without asking for the body, from `C04_exchange`) and
  `step_upload` (the handler's first answer is the instruction to fetch the body: exactly two runs, the
  second with the complete body, which was saved to a file that is gone again after the exchange).
-/
namespace Servlin
namespace C04S
open HeadModel RequestModel ConnModel C04P

structure Xch where
  bytes : Bytes
  out : Bytes
  files : Nat
  calls : Nat → List Call      -- given the id the next upload file will get

def Step (u : Bytes → Option Url) (cfg : Cfg) (handler : ReqView → HandlerOut) (x : Xch) : Prop :=
  ∀ (c : Conn) (rest : Bytes), c.rs = .head → c.ws = .none → c.input = x.bytes ++ rest → C10.Fresh c →
    ∃ c', handleOnce false u cfg handler c = (c', .ok (), x.calls c.created) ∧
      c'.rs = .head ∧ c'.ws = .none ∧ c'.input = rest ∧ c'.wire = c.wire ++ x.out ∧
      c'.live = c.live ∧ c'.created = c.created + x.files

def allBytes (xs : List Xch) : Bytes := (xs.map Xch.bytes).flatten
def allOut (xs : List Xch) : Bytes := (xs.map Xch.out).flatten
def allFiles (xs : List Xch) : Nat := (xs.map Xch.files).sum
def allCalls : Nat → List Xch → List Call
  | _, [] => []
  | k, x :: xs => x.calls k ++ allCalls (k + x.files) xs

/-- **Pipelines of arbitrary exchanges.**  Any number of exchanges, each satisfying `Step`, sent back
    to back on a ready connection, whatever follows: the handler calls are exactly those of the
    exchanges, in order; the wire carries exactly their outputs, in order; afterwards the connection is
    ready again, exactly the following bytes are unread, and no upload file is left. -/
theorem C04_pipeline_steps (u : Bytes → Option Url) (cfg : Cfg) (handler : ReqView → HandlerOut)
    (xs : List Xch) (hs : ∀ x ∈ xs, Step u cfg handler x) (c : Conn) (hrs : c.rs = .head) (hws : c.ws = .none)
    (tail : Bytes) (hin : c.input = allBytes xs ++ tail) (hf : C10.Fresh c) (calls : List Call) (fuel : Nat) :
    ∃ c', handleConn false u cfg handler (xs.length + fuel) c calls =
        handleConn false u cfg handler fuel c' (calls ++ allCalls c.created xs) ∧
      c'.rs = .head ∧ c'.ws = .none ∧ c'.input = tail ∧ c'.wire = c.wire ++ allOut xs ∧
      c'.live = c.live ∧ c'.created = c.created + allFiles xs := by
  induction xs generalizing c calls with
  | nil =>
    simp only [allBytes, List.map_nil, List.flatten_nil, List.nil_append] at hin
    exact ⟨c, by simp [allCalls], hrs, hws, hin, by simp [allOut], rfl, by simp [allFiles]⟩
  | cons x xs ih =>
    have hin' : c.input = x.bytes ++ (allBytes xs ++ tail) := by rw [hin]; simp [allBytes]
    obtain ⟨c1, hstep, h1, h2, h3, h4, h5, h6⟩ := hs x (by simp) c (allBytes xs ++ tail) hrs hws hin' hf
    have hf1 : C10.Fresh c1 := by
      intro i hi; rw [h5] at hi; have := hf i hi; omega
    obtain ⟨c2, hrun, g1, g2, g3, g4, g5, g6⟩ := ih (fun y hy => hs y (by simp [hy])) c1 h1 h2 h3 hf1 (calls ++ x.calls c.created)
    refine ⟨c2, ?_, g1, g2, g3, ?_, ?_, ?_⟩
    · have hready : isReady c = true := by simp [isReady, hrs, hws]
      rw [show (x :: xs).length + fuel = (xs.length + fuel) + 1 by simp; omega, handleConn]
      simp only [hready, Bool.not_true, Bool.false_eq_true, if_false, hstep]
      rw [hrun, h6]
      simp [allCalls]
    · rw [g4, h4]; simp [allOut]
    · rw [g5, h5]
    · rw [g6, h6]; simp [allFiles]; omega

/-- End of the stream on a ready connection: not a request; the run ends without another call or byte. -/
theorem handleConn_eof (u : Bytes → Option Url) (cfg : Cfg) (handler : ReqView → HandlerOut) (c : Conn)
    (hrs : c.rs = .head) (hws : c.ws = .none) (hin : c.input = []) (calls : List Call) (fuel : Nat) :
    handleConn false u cfg handler (fuel + 1) c calls = ({ c with ws := .response, input := [] }, calls) := by
  have hready : isReady c = true := by simp [isReady, hrs, hws]
  have hone : handleOnce false u cfg handler c = ({ c with ws := .response, input := [] }, .error .disconnected, []) := by
    simp [handleOnce, readRequest, hrs, hws, hin, readRequestD, readHeadD, findSlice, delim, cap, ofReadOut]
  rw [handleConn]
  simp only [hready, Bool.not_true, Bool.false_eq_true, if_false, hone, List.append_nil]

/-- To the end of the connection: after the last exchange the client half-closes. -/
theorem C04_pipeline_steps_eof (u : Bytes → Option Url) (cfg : Cfg) (handler : ReqView → HandlerOut)
    (xs : List Xch) (hs : ∀ x ∈ xs, Step u cfg handler x) (extra : Nat) :
    let r := handleConn false u cfg handler (xs.length + (extra + 1)) { input := allBytes xs } []
    r.2 = allCalls 0 xs ∧ r.1.wire = allOut xs ∧ r.1.live = [] ∧ r.1.input = [] := by
  intro r
  obtain ⟨c', hrun, h1, h2, h3, h4, h5, _⟩ :=
    C04_pipeline_steps u cfg handler xs hs { input := allBytes xs } rfl rfl [] (by simp) (by intro i hi; simp at hi) [] (extra + 1)
  have hlast := handleConn_eof u cfg handler c' h1 h2 h3 ([] ++ allCalls ({ input := allBytes xs } : Conn).created xs) extra
  simp only [r]
  rw [hrun, hlast]
  exact ⟨by simp, by simpa using h4, by simpa using h5, rfl⟩

/-- **After an error nothing further is interpreted.**  A pipeline of exchanges followed by a request
    whose exchange ends in an error (malformed request, refused body, 4xx/5xx answer, dropped connection,
    …): the call log is exactly that of the exchanges plus the calls of the failing exchange — whatever
    bytes follow it on the stream, they never reach the parser or the handler — and nothing but (at most)
    the error's own response is added to the wire. -/
theorem C04_pipeline_steps_then_error (u : Bytes → Option Url) (cfg : Cfg) (handler : ReqView → HandlerOut)
    (xs : List Xch) (hs : ∀ x ∈ xs, Step u cfg handler x) (tail : Bytes) (fuel : Nat)
    (hfail : ∀ c : Conn, c.rs = .head → c.ws = .none → c.input = tail → c.live = [] →
      ∃ c' e cs, handleOnce false u cfg handler c = (c', .error e, cs)) :
    let r := handleConn false u cfg handler (xs.length + (fuel + 1)) { input := allBytes xs ++ tail } []
    ∃ c' e cs, (∃ c, c.wire = allOut xs ∧ handleOnce false u cfg handler c = (c', .error e, cs)) ∧
      r.2 = allCalls 0 xs ++ cs ∧
      r.1.wire = (if e = .disconnected then c'.wire else (writeResponse c' e.toResponse).1.wire) := by
  intro r
  obtain ⟨c1, hrun, h1, h2, h3, h4, h5, _⟩ :=
    C04_pipeline_steps u cfg handler xs hs { input := allBytes xs ++ tail } rfl rfl tail rfl (by intro i hi; simp at hi) [] (fuel + 1)
  obtain ⟨c', e, cs, hone⟩ := hfail c1 h1 h2 h3 (by simpa using h5)
  refine ⟨c', e, cs, ⟨c1, by simpa using h4, hone⟩, ?_⟩
  have hready : isReady c1 = true := by simp [isReady, h1, h2]
  simp only [r]
  rw [hrun, handleConn]
  simp only [hready, Bool.not_true, Bool.false_eq_true, if_false, hone]
  by_cases hd : e = .disconnected
  · subst hd; simp
  · cases e <;> simp_all [shutdownWrite]

/-! ### Instance 1: requests handled without asking for the body -/

def ofExch (x : Exch) : Xch := ⟨x.bytes, x.out, 0, fun _ => [x.call]⟩

theorem step_good (u : Bytes → Option Url) (cfg : Cfg) (handler : ReqView → HandlerOut) (x : Exch)
    (hg : Good u cfg handler x) : Step u cfg handler (ofExch x) := by
  intro c rest hrs hws hin _
  refine ⟨{ c with input := rest, wire := c.wire ++ x.out }, ?_, hrs, hws, rfl, rfl, rfl, rfl⟩
  exact C04_exchange hg c hrs hws rest hin

/-! ### Instance 2: the handler asks for the body first -/

/-- An upload: well-formed head that fits the buffer, classified without `Expect` or coding, with a
    declared body longer than `small_body_len`; a cache directory without faults; the handler's first
    answer (body pending) is the instruction to fetch up to `limit ≥ |body|` bytes; its second answer
    (whatever id the upload file has) is a serialisable response outside 1xx/4xx/5xx. -/
structure Upload (u : Bytes → Option Url) (cfg : Cfg) (handler : ReqView → HandlerOut) where
  head : Grammar.RawHead
  body : Bytes
  view : ReqMeta
  limit : Nat
  resp : Response
  out : Bytes
  wf : head.wf = true
  fits : head.render.length ≤ cap
  classified : ∃ url, u head.target = some url ∧
    classify false ⟨head.method, url, head.fields.map C02.exposed⟩ = .ok view
  noExpect : view.expectContinue = false
  noCoding : view.chunked = false ∧ view.gzip = false
  framing : view.body = .pendingKnown body.length
  large : cfg.smallBodyLen < body.length
  cache : cfg.cacheDir = true
  noFault : cfg.fs = {}
  ask : handler ⟨view, none⟩ = .getBody limit
  within : body.length ≤ limit
  answer : ∀ id, handler ⟨view, some (.file id body)⟩ = .normal resp
  kind : resp.kind = .normal
  code : resp.code / 100 ≠ 1 ∧ resp.code / 100 ≠ 4 ∧ resp.code / 100 ≠ 5
  ser : Serialize.intended false resp false = (out, .ok ())

def ofUpload {u : Bytes → Option Url} {cfg : Cfg} {handler : ReqView → HandlerOut} (x : Upload u cfg handler) : Xch :=
  ⟨x.head.render ++ x.body, x.out, 1,
   fun k => [⟨⟨x.view, none⟩, .getBody x.limit⟩, ⟨⟨x.view, some (.file k x.body)⟩, .normal x.resp⟩]⟩

/-- **Exactly two runs for a fetched body.**  The handler runs once with the body pending and — having
    asked for it — once more with the complete body, byte for byte what the client sent; exactly its
    second answer goes on the wire; the upload's file is gone again after the exchange; the next
    request starts right after the body. -/
theorem step_upload (u : Bytes → Option Url) (cfg : Cfg) (handler : ReqView → HandlerOut)
    (x : Upload u cfg handler) : Step u cfg handler (ofUpload x) := by
  intro c rest hrs hws hin hf
  obtain ⟨url, hu, hcl⟩ := x.classified
  have hD : readRequestD false false u cap c.input = (.ok x.view, x.body ++ rest) := by
    unfold readRequestD
    rw [hin]
    simp only [ofUpload, List.append_assoc]
    rw [readHeadD_wf u x.head x.wf x.fits, hu]
    simp only [ofReadOut, hcl]
  have hclose : (decide (500 ≤ x.resp.code) && decide (x.resp.code ≤ 599)) = false := by
    have := x.code.2.2
    by_cases h1 : 500 ≤ x.resp.code <;> by_cases h2 : x.resp.code ≤ 599 <;> simp [h1, h2]
    omega
  have h1 : (x.resp.code / 100 == 1) = false := by simpa using x.code.1
  have h4 : (x.resp.code / 100 == 4) = false := by simpa using x.code.2.1
  have h5 : (x.resp.code / 100 == 5) = false := by simpa using x.code.2.2
  have hnS : ¬ x.body.length ≤ cfg.smallBodyLen := by have := x.large; omega
  have hnM : ¬ x.body.length > x.limit := by have := x.within; omega
  have hfl := C10.filter_fresh c.live c.created hf
  refine ⟨{ c with input := rest, wire := c.wire ++ x.out, created := c.created + 1,
                   maxLive := max c.maxLive (c.live.length + 1), written := max c.written x.body.length },
    ?_, hrs, hws, rfl, rfl, rfl, rfl⟩
  unfold handleOnce readRequest
  simp only [hws, hrs, hD, x.framing, x.noExpect, x.noCoding.1, x.noCoding.2]
  simp only [bodyStage, x.framing, hnS, if_false, firstCall, x.ask, asResponse, Response.getBodyAndReprocess,
    x.cache, Bool.not_true, Bool.false_eq_true, x.noFault]
  simp only [readBodyToFile, Bool.or_self, Bool.false_eq_true, if_false, hnM, List.take_left', List.drop_left',
    storeUpload, newFile, List.length_take, List.length_append, Nat.lt_irrefl]
  have ha := x.answer c.created
  simp [ha, asResponse, finish, x.kind, writeResponse, hclose, x.ser, h1, h4, h5, dropBody, dropFile,
    shutdownWrite, ofUpload, hfl, Nat.max_comm]
  intro a ha' hc
  have := hf a ha'
  omega

/-! Non-vacuity of `Upload`: a concrete request (`POST /u`, 2-byte body, `small_body_len = 1`), URL parser and handler
    meet every hypothesis, and the theorem's right-hand side is the expected wire, evaluated by the kernel. -/

def upHandler : ReqView → HandlerOut := fun v =>
  match v.body with
  | none => .getBody 10
  | some _ => .normal (exResp (b!"saved"))
def upHead : Grammar.RawHead := ⟨b!"POST", b!"/u", [lengthField (b!" ") [] 2]⟩

def exUpload : Upload exU ⟨1, true, {}⟩ upHandler where
  head := upHead
  body := b!"hi"
  view := plainView (b!"POST") ⟨b!"/u", none⟩ upHead.fields (some 2)
  limit := 10
  resp := exResp (b!"saved")
  out := (Serialize.intended false (exResp (b!"saved")) false).1
  wf := by decide
  fits := by decide
  classified := ⟨⟨b!"/u", none⟩, rfl, classify_plain_length (b!"POST") ⟨b!"/u", none⟩ [] (by intro f hf; cases hf) (b!" ") [] 2 (by decide)⟩
  noExpect := rfl
  noCoding := ⟨rfl, rfl⟩
  framing := by decide
  large := by decide
  cache := rfl
  noFault := rfl
  ask := rfl
  within := by decide
  answer := fun _ => rfl
  kind := rfl
  code := by decide
  ser := Prod.ext rfl rfl

example : (handleConn false exU ⟨1, true, {}⟩ upHandler 2
      { input := b!"POST /u HTTP/1.1\r\ncontent-length: 2\r\n\r\nhi" } []).1.wire =
    b!"HTTP/1.1 200 OK\r\ncontent-length: 5\r\n\r\nsaved" := by
  have h := C04_pipeline_steps_eof exU ⟨1, true, {}⟩ upHandler [ofUpload exUpload]
    (by intro x hx; simp only [List.mem_cons, List.not_mem_nil, or_false] at hx; subst hx; exact step_upload _ _ _ exUpload) 0
  have hin : allBytes [ofUpload exUpload] = b!"POST /u HTTP/1.1\r\ncontent-length: 2\r\n\r\nhi" := by decide
  simp only [List.length_cons, List.length_nil] at h
  rw [hin] at h
  rw [h.2.1]
  decide

/-! ### Instance 3: a small body announced with `Expect: 100-continue` -/

/-- A request with `Expect: 100-continue` and a declared body small enough to be read up front: the
    server sends the interim response, reads the body, runs the handler once and sends its answer. -/
structure Expecting (u : Bytes → Option Url) (cfg : Cfg) (handler : ReqView → HandlerOut) where
  head : Grammar.RawHead
  body : Bytes
  view : ReqMeta
  resp : Response
  out : Bytes
  wf : head.wf = true
  fits : head.render.length ≤ cap
  classified : ∃ url, u head.target = some url ∧
    classify false ⟨head.method, url, head.fields.map C02.exposed⟩ = .ok view
  expect : view.expectContinue = true
  noCoding : view.chunked = false ∧ view.gzip = false
  framing : view.body = .pendingKnown body.length
  small : body.length ≤ cfg.smallBodyLen
  answer : handler ⟨view, some (.vec body)⟩ = .normal resp
  kind : resp.kind = .normal
  code : resp.code / 100 ≠ 1 ∧ resp.code / 100 ≠ 4 ∧ resp.code / 100 ≠ 5
  ser : Serialize.intended false resp false = (out, .ok ())

def ofExpecting {u : Bytes → Option Url} {cfg : Cfg} {handler : ReqView → HandlerOut} (x : Expecting u cfg handler) : Xch :=
  ⟨x.head.render ++ x.body, C05.continueBytes ++ x.out, 0, fun _ => [⟨⟨x.view, some (.vec x.body)⟩, .normal x.resp⟩]⟩

/-- **The interim `100 Continue` goes out exactly once, before the body is read, and does not count as
    the answer**: the wire carries `100 Continue` followed by the handler's response. -/
theorem step_expecting (u : Bytes → Option Url) (cfg : Cfg) (handler : ReqView → HandlerOut)
    (x : Expecting u cfg handler) : Step u cfg handler (ofExpecting x) := by
  intro c rest hrs hws hin _
  obtain ⟨url, hu, hcl⟩ := x.classified
  have hD : readRequestD false false u cap c.input = (.ok x.view, x.body ++ rest) := by
    unfold readRequestD
    rw [hin]
    simp only [ofExpecting, List.append_assoc]
    rw [readHeadD_wf u x.head x.wf x.fits, hu]
    simp only [ofReadOut, hcl]
  have hclose : (decide (500 ≤ x.resp.code) && decide (x.resp.code ≤ 599)) = false := by
    have := x.code.2.2
    by_cases h1 : 500 ≤ x.resp.code <;> by_cases h2 : x.resp.code ≤ 599 <;> simp [h1, h2]
    omega
  have h1 : (x.resp.code / 100 == 1) = false := by simpa using x.code.1
  have h4 : (x.resp.code / 100 == 4) = false := by simpa using x.code.2.1
  have h5 : (x.resp.code / 100 == 5) = false := by simpa using x.code.2.2
  have hcont : (Serialize.intended false ({ code := 100 } : Response) false).2 = .ok () := by rfl
  refine ⟨{ c with input := rest, wire := c.wire ++ (C05.continueBytes ++ x.out) }, ?_, hrs, hws, rfl, rfl, rfl, rfl⟩
  unfold handleOnce readRequest
  simp only [hws, hrs, hD, x.framing, x.expect, x.noCoding.1, x.noCoding.2]
  simp only [bodyStage, x.framing, x.small, if_true]
  have hwc : ∀ c0 : Conn, c0.ws = .response → writeContinue c0 = ({ c0 with wire := c0.wire ++ C05.continueBytes }, .ok ()) := by
    intro c0 h0
    unfold writeContinue writeResponse
    simp [h0, C05.continueBytes, Response.new, hcont, shutdownWrite]
  have hw1 := hwc { c with rs := .body (some x.body.length) true false false, ws := .response, input := x.body ++ rest } rfl
  simp [readBodyToVec, hw1, x.answer, asResponse, finish, x.kind, writeResponse, hclose, x.ser, h1, h4, h5, dropBody, ofExpecting]

end C04S
end Servlin
