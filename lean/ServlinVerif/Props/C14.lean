import ServlinVerif.Lemmas.Headers
/-
  C14 — header collections are ordered, case-insensitive multimaps.
  Only property theorems and their non-vacuity examples live here.
-/
namespace Servlin
namespace C14
open Headers

/-- Every single operation of the model (which mirrors the Rust loops) gives the result and the
    successor state of the ordered-multimap specification. -/
theorem C14_step_refines (l : HeaderList) (op : Op) : Headers.step l op = Multimap.step l op := by
  cases op with
  | add n v => rfl
  | getOnly n => simp [Headers.step, Multimap.step, Headers.getOnly, getOnlyLoop_none]
  | getAll n => simp [Headers.step, Multimap.step, Headers.getAll, getAll_foldl, Multimap.getAll]
  | removeOnly n =>
    simp only [Headers.step, Multimap.step, Headers.removeOnly, Headers.removeAll,
      removeAllLoop_eq, Multimap.removeOnly, Multimap.getOnly, Multimap.getAll]
    simp only [List.drop_zero, List.nil_append, List.take_zero]
    generalize List.map Header.value (List.filter (Multimap.isMatch n) l) = vs
    rcases vs with _ | ⟨v, _ | ⟨w, t⟩⟩ <;> rfl
  | removeAll n =>
    simp [Headers.step, Multimap.step, Headers.removeAll, removeAllLoop_eq, Multimap.removeAll,
      Multimap.getAll]

/-- For every initial collection and every sequence of operations (any depth), results and final
    state coincide with the ordered, case-insensitive multimap. -/
theorem C14_refines_multimap (l : HeaderList) (ops : List Op) :
    Headers.run l ops = Multimap.run l ops := by
  induction ops generalizing l with
  | nil => rfl
  | cons op ops ih => simp only [Headers.run, Multimap.run, C14_step_refines, ih]

/-- Removal keeps the remaining fields in their original relative order. -/
theorem C14_remove_keeps_order (l : HeaderList) (name : Bytes) :
    (Headers.removeAll l name).2.Sublist l := by
  have := C14_step_refines l (.removeAll name)
  simp only [Headers.step, Multimap.step, Prod.mk.injEq] at this
  rw [this.1]
  exact List.filter_sublist

/-- Lookups return all and only the matching values, in order of insertion. -/
theorem C14_get_all_add (l : HeaderList) (n v name : Bytes) :
    Headers.getAll (Headers.add l n v) name =
      Headers.getAll l name ++ (if eqIgnoreCase n name then [v] else []) := by
  simp only [Headers.getAll, getAll_foldl, Headers.add, List.nil_append, List.filter_append,
    List.map_append]
  by_cases h : eqIgnoreCase n name = true <;> simp [Multimap.isMatch, h]

/-- The pinned tree's `swap_remove` loop is *not* an ordered multimap: witness a,b,a,c,a. -/
theorem C14_legacy_violates :
    let l : HeaderList := [⟨[97], [49]⟩, ⟨[98], [50]⟩, ⟨[97], [51]⟩, ⟨[99], [52]⟩, ⟨[97], [53]⟩]
    Headers.Legacy.removeAll l [97] ≠ Multimap.removeAll l [97] := by
  decide

/-- `AsciiString::try_from` accepts exactly the all-ASCII inputs, unchanged. -/
theorem C14_ascii_accepts (bs : Bytes) (h : ∀ b ∈ bs, b < 128) : asciiTryFrom bs = some bs := by
  have : bs.all (· < 128) = true := by simpa [List.all_eq_true] using h
  simp [asciiTryFrom, isAscii, this]

theorem C14_ascii_rejects (bs : Bytes) (h : ∃ b ∈ bs, 128 ≤ b) : asciiTryFrom bs = none := by
  obtain ⟨b, hb, hge⟩ := h
  have : bs.all (· < 128) = false := by
    simp only [List.all_eq_false, decide_eq_true_eq]
    exact ⟨b, hb, by simpa using hge⟩
  simp [asciiTryFrom, isAscii, this]

/-- Non-vacuity: a concrete sequence exercising every operation with a 3-fold match. -/
example :
    (Headers.run [⟨[97], [49]⟩, ⟨[98], [50]⟩, ⟨[65], [51]⟩, ⟨[99], [52]⟩, ⟨[97], [53]⟩]
      [.getOnly [97], .getAll [65], .removeAll [97], .add [98] [54], .removeOnly [99],
       .getOnly [66]]).1 = [⟨[98], [50]⟩, ⟨[98], [54]⟩] := by rw [C14_refines_multimap]; decide

end C14
end Servlin
