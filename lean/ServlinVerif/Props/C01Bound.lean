import ServlinVerif.Props.C01
/-
  C01 — "never loops", with an explicit bound: the read loop of `read_http_head` performs at most
  `cap − |buf| + 1` reads, for every stream, schedule and buffer content (termination itself is what
  Lean's well-founded-recursion check of `readHeadOp` establishes; this gives the number).
-/
namespace Servlin
namespace C01
open HeadModel

/-- `readHeadOp` instrumented with the number of `read` calls it makes (same control flow). -/
def readHeadReads (pan : Bool) (urlParse : Bytes → Option Url) (cap : Nat) (sched : Nat → Nat)
    (k : Nat) (buf stream : Bytes) : Nat :=
  match tryRead pan urlParse buf with
  | (.err .truncated, _) =>
    if cap ≤ buf.length then 0
    else
      match stream with
      | [] => 1        -- the read that reports end of stream
      | s :: ss =>
        let n := min (min (sched k + 1) (s :: ss).length) (cap - buf.length)
        1 + readHeadReads pan urlParse cap sched (k + 1) (buf ++ (s :: ss).take n) ((s :: ss).drop n)
  | _ => 0
termination_by stream.length
decreasing_by
  simp only [List.length_drop, List.length_cons]
  omega

/-- **Bounded number of reads.**  Every read either ends the loop or adds at least one byte to a
    buffer of `cap` bytes. -/
theorem C01_reads_bounded (pan : Bool) (u : Bytes → Option Url) (cap : Nat) (sched : Nat → Nat) (k : Nat)
    (buf stream : Bytes) : readHeadReads pan u cap sched k buf stream ≤ cap - buf.length + 1 := by
  fun_induction readHeadReads pan u cap sched k buf stream with
  | case1 k buf stream x htr hcap => omega
  | case2 k buf x htr hcap => omega
  | case3 k buf x htr hcap s ss n ih =>
    have hn1 : 1 ≤ n := by
      simp only [n, List.length_cons]
      omega
    have hn2 : n ≤ cap - buf.length := Nat.min_le_right _ _
    have hlen : (buf ++ List.take n (s :: ss)).length = buf.length + n := by
      simp only [List.length_append, List.length_take, List.length_cons]
      have : n ≤ ss.length + 1 := by
        simp only [n, List.length_cons]
        omega
      omega
    rw [hlen] at ih
    omega
  | case4 k buf stream r => omega

end C01
end Servlin
