import ServlinVerif.Props.C11
import ServlinVerif.Lemmas.Split
/-
  C11 — wire format, the part that holds for every event (`C11_format_partial`).

  The full statement (`C11.C11_format_full`) is refuted on the current tree because blocks are not
  ended by a blank line (known finding `sse-no-blank-line`, pinned by tests/event.rs), and data with a
  lone CR or a trailing line break does not survive `str::lines` (known finding `sse-line-breaks`).
  What holds, for **every** list of events outside those two classes: if each block is followed by
  the blank line, an EventSource-conformant parser recovers exactly the events, in order — type and
  data byte for byte, multi-line data as several `data` fields — and no event's content alters
  another field or event (the data may contain `event:`, `data:`, colons, leading blanks, empty
  lines, …).
-/
namespace Servlin
namespace C11F
open EventModel EventChannel

/-- Data that survives `str::lines`: no CR, and no line break at the very end. -/
def CleanData (d : Bytes) : Prop := (∀ b ∈ d, b ≠ 13) ∧ d.getLast? ≠ some 10

/-- Events in scope: clean data; custom types as the checked constructor accepts them (no CR/LF)
    and non-empty (an empty type is outside the SSE grammar: it means "message"). -/
def CleanEvent : Event → Prop
  | .message d => CleanData d
  | .custom t d => CleanData d ∧ t ≠ [] ∧ ∀ b ∈ t, b ≠ 13 ∧ b ≠ 10

/-- What the client is to see. -/
def evOf : Event → Sse.Ev
  | .message d => ⟨b!"message", d⟩
  | .custom t d => ⟨t, d⟩

/-! ### `str::lines` on clean data -/

theorem splitOn_last (sep : UInt8) (d : Bytes) (hne : d ≠ []) (hl : d.getLast? ≠ some sep) :
    ∃ last, (splitOn sep d).getLast? = some last ∧ last ≠ [] := by
  induction d with
  | nil => exact absurd rfl hne
  | cons b t ih =>
    unfold splitOn
    cases ht : t with
    | nil =>
      subst ht
      have hb : b ≠ sep := by intro h; apply hl; simp [h]
      have hb' : (b == sep) = false := by simpa using hb
      simp [splitOn, hb']
    | cons c t' =>
      have hl' : t.getLast? ≠ some sep := by
        rw [ht]; rw [ht] at hl; simpa [List.getLast?_cons_cons] using hl
      obtain ⟨last, h1, h2⟩ := ih (by rw [ht]; simp) hl'
      rw [← ht]
      cases hs : splitOn sep t with
      | nil => exact absurd hs (splitOn_ne_nil' sep t)
      | cons p ps =>
        rw [hs] at h1
        simp only
        by_cases hb : (b == sep) = true
        · simp only [hb, if_true]
          exact ⟨last, by rw [List.getLast?_cons_cons]; exact h1, h2⟩
        · simp only [hb, Bool.false_eq_true, if_false]
          cases ps with
          | nil =>
            simp only [List.getLast?_singleton, Option.some.injEq] at h1
            exact ⟨b :: p, by simp, by simp⟩
          | cons q qs =>
            rw [List.getLast?_cons_cons] at h1
            exact ⟨last, by rw [List.getLast?_cons_cons]; exact h1, h2⟩

theorem splitOn_sub (sep : UInt8) (d : Bytes) : ∀ p ∈ splitOn sep d, ∀ b ∈ p, b ∈ d := by
  induction d with
  | nil => intro p hp b hb; simp [splitOn] at hp; subst hp; simp at hb
  | cons x t ih =>
    intro p hp b hb
    unfold splitOn at hp
    cases hs : splitOn sep t with
    | nil => exact absurd hs (splitOn_ne_nil' sep t)
    | cons q qs =>
      rw [hs] at hp ih
      simp only at hp
      by_cases hx : (x == sep) = true
      · simp only [hx, if_true, List.mem_cons] at hp
        rcases hp with rfl | hp
        · simp at hb
        · exact List.mem_cons_of_mem _ (ih p (by simpa using hp) b hb)
      · simp only [hx, Bool.false_eq_true, if_false, List.mem_cons] at hp
        rcases hp with rfl | hp
        · rcases List.mem_cons.mp hb with rfl | hb
          · simp
          · exact List.mem_cons_of_mem _ (ih q (by simp) b hb)
        · exact List.mem_cons_of_mem _ (ih p (by simp [hp]) b hb)

theorem dropLast_append_getLast {α : Type} (l : List α) (x : α) (h : l.getLast? = some x) : l.dropLast ++ [x] = l := by
  induction l with
  | nil => simp at h
  | cons a t ih =>
    cases t with
    | nil => simp at h; simp [h]
    | cons b t' =>
      rw [List.getLast?_cons_cons] at h
      simp only [List.dropLast_cons₂, List.cons_append]
      rw [ih h]

/-- On clean non-empty data `str::lines` is plain splitting at LF. -/
theorem rustLines_clean (d : Bytes) (hc : CleanData d) (hne : d ≠ []) : rustLines d = splitOn 10 d := by
  obtain ⟨last, h1, h2⟩ := splitOn_last 10 d hne hc.2
  have hparts : ∀ p ∈ splitOn 10 d, p.getLast? ≠ some 13 := by
    intro p hp hcr
    have hmem : (13 : UInt8) ∈ p := List.mem_of_getLast? hcr
    exact hc.1 13 (splitOn_sub 10 d p hp 13 hmem) rfl
  unfold rustLines
  simp only [h1, h2, if_false]
  have hmap : (splitOn 10 d).dropLast.map (fun l => if l.getLast? = some 13 then l.dropLast else l) = (splitOn 10 d).dropLast := by
    rw [List.map_congr_left (g := id)]
    · simp
    · intro l hl
      have := hparts l (List.dropLast_subset _ hl)
      simp [this]
  rw [hmap]
  exact dropLast_append_getLast _ _ h1

/-- The `data` lines of an event as sent by the repaired code. -/
def dataLines (d : Bytes) : List Bytes := if d = [] then [[]] else splitOn 10 d

def dataBlock (d : Bytes) : Bytes := ((dataLines d).map fun l => b!"data: " ++ l ++ [10]).flatten

theorem encodeFixed_message (d : Bytes) (hc : CleanData d) : encodeFixed (.message d) = dataBlock d := by
  unfold encodeFixed dataBlock dataLines encode
  by_cases hd : d = []
  · subst hd; simp [rustLines, splitOn]
  · have hr := rustLines_clean d hc hd
    have hne : splitOn 10 d ≠ [] := splitOn_ne_nil' 10 d
    simp only [hr, hne, hd, if_false]

theorem encodeFixed_custom (t d : Bytes) (hc : CleanData d) :
    encodeFixed (.custom t d) = b!"event: " ++ t ++ [10] ++ dataBlock d := by
  unfold encodeFixed dataBlock dataLines encode
  by_cases hd : d = []
  · subst hd; simp [rustLines, splitOn]
  · have hr := rustLines_clean d hc hd
    have hne : splitOn 10 d ≠ [] := splitOn_ne_nil' 10 d
    simp only [hr, hne, hd, if_false]

/-- Joining the data lines with LF gives the data back. -/
theorem join_dataLines (d : Bytes) : ((dataLines d).map (· ++ [10])).flatten = d ++ [10] := by
  unfold dataLines
  by_cases hd : d = []
  · subst hd; simp
  · simp only [hd, if_false]
    have key : ∀ l : Bytes, ((splitOn 10 l).map (· ++ [10])).flatten = l ++ [10] := by
      intro l
      induction l with
      | nil => simp [splitOn]
      | cons x t ih =>
        unfold splitOn
        cases hs : splitOn 10 t with
        | nil => exact absurd hs (splitOn_ne_nil' 10 t)
        | cons p ps =>
          rw [hs] at ih
          simp only
          by_cases hx : (x == 10) = true
          · simp only [hx, if_true, List.map_cons, List.flatten_cons, List.nil_append]
            simp only [List.map_cons, List.flatten_cons] at ih
            rw [ih]
            have : x = 10 := by simpa using hx
            simp [this]
          · simp only [hx, Bool.false_eq_true, if_false, List.map_cons, List.flatten_cons, List.cons_append]
            simp only [List.map_cons, List.flatten_cons] at ih
            rw [ih]
    exact key d

theorem dataLines_clean (d : Bytes) (hc : CleanData d) : ∀ l ∈ dataLines d, ∀ b ∈ l, b ≠ 13 ∧ b ≠ 10 := by
  intro l hl b hb
  unfold dataLines at hl
  by_cases hd : d = []
  · simp [hd] at hl; subst hl; simp at hb
  · simp only [hd, if_false] at hl
    refine ⟨?_, (splitOn_spec 10 d).1 l hl b hb⟩
    exact hc.1 b (splitOn_sub 10 d l hl b hb)

/-! ### The parser's line splitter on LF-terminated clean lines -/

theorem lines_step (b : UInt8) (rest cur : Bytes) (h13 : b ≠ 13) (h10 : b ≠ 10) :
    Sse.lines (b :: rest) cur = Sse.lines rest (b :: cur) := by
  rw [Sse.lines]
  · intro r hr _; exact h13 hr
  · intro hr; exact h13 hr
  · intro hr; exact h10 hr

theorem lines_lf (rest cur : Bytes) : Sse.lines (10 :: rest) cur = cur.reverse :: Sse.lines rest [] := by
  rw [Sse.lines]

theorem lines_line (l rest cur : Bytes) (hl : ∀ b ∈ l, b ≠ 13 ∧ b ≠ 10) :
    Sse.lines (l ++ 10 :: rest) cur = (cur.reverse ++ l) :: Sse.lines rest [] := by
  induction l generalizing cur with
  | nil => simp [lines_lf]
  | cons b t ih =>
    have hb := hl b (by simp)
    rw [List.cons_append, lines_step b _ _ hb.1 hb.2, ih _ (fun x hx => hl x (List.mem_cons_of_mem _ hx))]
    simp

theorem lines_block (ls : List Bytes) (pre : Bytes) (hls : ∀ l ∈ ls, ∀ b ∈ l, b ≠ 13 ∧ b ≠ 10)
    (hpre : ∀ b ∈ pre, b ≠ 13 ∧ b ≠ 10) (rest : Bytes) :
    Sse.lines ((ls.map fun l => pre ++ l ++ [10]).flatten ++ rest) [] = ls.map (pre ++ ·) ++ Sse.lines rest [] := by
  induction ls with
  | nil => simp
  | cons l t ih =>
    simp only [List.map_cons, List.flatten_cons, List.append_assoc, List.singleton_append, List.cons_append, List.nil_append]
    have : pre ++ (l ++ 10 :: ((t.map fun l => pre ++ (l ++ [10])).flatten ++ rest)) =
        (pre ++ l) ++ 10 :: ((t.map fun l => pre ++ (l ++ [10])).flatten ++ rest) := by simp
    rw [this, lines_line (pre ++ l) _ [] (by
      intro b hb
      rcases List.mem_append.mp hb with h | h
      · exact hpre b h
      · exact hls l (by simp) b h)]
    have ih' := ih (fun x hx => hls x (List.mem_cons_of_mem _ hx))
    simp only [List.append_assoc, List.singleton_append] at ih'
    rw [ih']
    simp

/-! ### Field processing -/

theorem process_data (s : Sse.St) (l : Bytes) :
    Sse.processLine s (b!"data: " ++ l) = { s with dataBuf := s.dataBuf ++ l ++ [10] } := by
  simp [Sse.processLine, List.takeWhile, List.dropWhile]

theorem process_event (s : Sse.St) (t : Bytes) :
    Sse.processLine s (b!"event: " ++ t) = { s with typeBuf := t } := by
  simp [Sse.processLine, List.takeWhile, List.dropWhile]

theorem process_data_lines (s : Sse.St) (ls : List Bytes) :
    (ls.map (b!"data: " ++ ·)).foldl Sse.processLine s =
      { s with dataBuf := s.dataBuf ++ (ls.map (· ++ [10])).flatten } := by
  induction ls generalizing s with
  | nil => simp
  | cons l t ih =>
    simp only [List.map_cons, List.foldl_cons, process_data, ih, List.flatten_cons, List.append_assoc]

/-- Dispatch at the blank line. -/
theorem process_blank (ty d : Bytes) (out : List Sse.Ev) :
    Sse.processLine ⟨ty, d ++ [10], out⟩ [] = ⟨[], [], out ++ [⟨if ty = [] then b!"message" else ty, d⟩]⟩ := by
  simp [Sse.processLine]

/-! ### One block, then all blocks -/

/-- The lines of one block as the parser sees them (without the final blank line). -/
def blockLines : Event → List Bytes
  | .message d => (dataLines d).map (b!"data: " ++ ·)
  | .custom t d => (b!"event: " ++ t) :: (dataLines d).map (b!"data: " ++ ·)

theorem lines_event (e : Event) (he : CleanEvent e) (rest : Bytes) :
    Sse.lines (encodeFixed e ++ [10] ++ rest) [] =
      blockLines e ++ [[]] ++ Sse.lines rest [] := by
  have hpre : ∀ b ∈ (b!"data: " : Bytes), b ≠ 13 ∧ b ≠ 10 := by decide
  cases e with
  | message d =>
    have hc : CleanData d := he
    rw [encodeFixed_message d hc, dataBlock, List.append_assoc,
      lines_block _ _ (dataLines_clean d hc) hpre, List.singleton_append, lines_lf]
    simp [blockLines]
  | custom t d =>
    obtain ⟨hc, _, ht⟩ := he
    rw [encodeFixed_custom t d hc, dataBlock]
    have hpe : ∀ b ∈ (b!"event: " ++ t : Bytes), b ≠ 13 ∧ b ≠ 10 := by
      intro b hb
      rcases List.mem_append.mp hb with h | h
      · clear hb; revert b; decide
      · exact ht b h
    have : b!"event: " ++ t ++ [10] ++ ((dataLines d).map fun l => b!"data: " ++ l ++ [10]).flatten ++ [10] ++ rest =
        (b!"event: " ++ t) ++ 10 :: (((dataLines d).map fun l => b!"data: " ++ l ++ [10]).flatten ++ ([10] ++ rest)) := by
      simp
    rw [this, lines_line _ _ [] hpe, lines_block _ _ (dataLines_clean d hc) hpre, List.singleton_append, lines_lf]
    simp [blockLines]

theorem process_block (e : Event) (he : CleanEvent e) (out : List Sse.Ev) :
    (blockLines e ++ [[]]).foldl Sse.processLine ⟨[], [], out⟩ = ⟨[], [], out ++ [evOf e]⟩ := by
  cases e with
  | message d =>
    simp only [blockLines, List.foldl_append, process_data_lines, List.nil_append, join_dataLines, List.foldl_cons, List.foldl_nil,
      process_blank, evOf, if_true]
  | custom t d =>
    obtain ⟨_, ht0, _⟩ := he
    simp only [blockLines, List.foldl_append, List.foldl_cons, process_event, process_data_lines, List.nil_append, join_dataLines,
      List.foldl_nil, process_blank, evOf, ht0, if_false]

/-- **Format (partial).**  For every list of clean events, each block followed by the blank line:
    the conformant parser dispatches exactly these events, in order, with exactly their types and
    data.  In particular no event's content alters another field or event. -/
theorem C11_format_partial (evs : List Event) (he : ∀ e ∈ evs, CleanEvent e) :
    Sse.parse (evs.map fun e => encodeFixed e ++ [10]).flatten = evs.map evOf := by
  have key : ∀ (evs : List Event), (∀ e ∈ evs, CleanEvent e) → ∀ out : List Sse.Ev,
      ((Sse.lines (evs.map fun e => encodeFixed e ++ [10]).flatten []).foldl Sse.processLine ⟨[], [], out⟩) =
        ⟨[], [], out ++ evs.map evOf⟩ := by
    intro evs
    induction evs with
    | nil => intro _ out; simp [Sse.lines]
    | cons e t ih =>
      intro he out
      have h1 := lines_event e (he e (by simp)) (t.map fun e => encodeFixed e ++ [10]).flatten
      simp only [List.map_cons, List.flatten_cons]
      rw [h1, List.foldl_append, process_block e (he e (by simp)) out, ih (fun x hx => he x (List.mem_cons_of_mem _ hx))]
      simp
  have := key evs he []
  unfold Sse.parse
  rw [show ({} : Sse.St) = ⟨[], [], []⟩ from rfl, this]
  simp

/-- Non-vacuity: data that looks like SSE fields, has empty lines, leading blanks and colons is clean. -/
example : CleanEvent (.message (b!"event: fake\n\n data: x\n:y")) ∧ CleanEvent (.custom (b!"a:b") []) ∧
    CleanEvent (.message []) := by
  refine ⟨⟨by decide, by decide⟩, ⟨⟨by decide, by decide⟩, by decide, by decide⟩, ⟨by decide, by decide⟩⟩

end C11F
end Servlin
