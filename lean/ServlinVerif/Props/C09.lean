import ServlinVerif.Props.C10
import ServlinVerif.Props.C04
/-
  C09 — body size limits are exact at every boundary and bodies arrive intact.
  L = body length, S = `small_body_len`, M = limit given by the handler.
-/
namespace Servlin
namespace C09
open ConnModel

/-- **L ≤ S (declared): handed to the handler in memory without asking.**  No handler run happens in
    the body stage, and the body is exactly the next L bytes of the stream (at most S bytes are held). -/
theorem C09_small_direct (legacy : Bool) (cfg : Cfg) (h : ReqView → HandlerOut) (c : Conn) (m : ReqMeta) (n : Nat)
    (hb : m.body = .pendingKnown n) (hn : n ≤ cfg.smallBodyLen)
    (hrs : c.rs = .body (some n) false false false) (hin : n ≤ c.input.length) :
    (bodyStage legacy cfg h c m).2.2 = [] ∧
    (bodyStage legacy cfg h c m).2.1 = .ok (some (.vec (c.input.take n)), none) ∧
    (c.input.take n).length ≤ cfg.smallBodyLen := by
  unfold bodyStage
  simp only [hb, hn, if_true]
  have : readBodyToVec c = ({ c with rs := .head, input := c.input.drop n }, .ok (.vec (c.input.take n))) := by
    simp [readBodyToVec, hrs, hin]
  rw [this]
  simp only [List.length_take, true_and]
  omega

/-- **L > S or undeclared: the handler is asked first** (one run with the body pending). -/
theorem C09_large_asks_first (legacy : Bool) (cfg : Cfg) (h : ReqView → HandlerOut) (c : Conn) (m : ReqMeta)
    (hb : m.body = .pendingUnknown ∨ ∃ n, m.body = .pendingKnown n ∧ cfg.smallBodyLen < n) :
    (bodyStage legacy cfg h c m).2.2 = [⟨⟨m, none⟩, h ⟨m, none⟩⟩] := by
  unfold bodyStage
  rcases hb with hb | ⟨n, hb, hn⟩
  · simp only [hb]; exact C04.firstCall_calls legacy cfg h c m
  · have : ¬ n ≤ cfg.smallBodyLen := by omega
    simp only [hb, this, if_false]; exact C04.firstCall_calls legacy cfg h c m

/-- **Declared length, limit M**: refused with `BodyTooLong` (→ 413) iff L > M, before anything is read
    or written; accepted iff L ≤ M, and then — client delivering L bytes, no disk fault — the body is
    byte for byte the next L bytes and the stream continues right after them. -/
theorem C09_declared_limit (c : Conn) (n M : Nat) (hrs : c.rs = .body (some n) false false false) :
    (M < n → readBodyToFile c M {} = (c, .error .bodyTooLong)) ∧
    (n ≤ M → n ≤ c.input.length →
      (readBodyToFile c M {}).2 = .ok (.file c.created (c.input.take n)) ∧
      (readBodyToFile c M {}).1.input = c.input.drop n ∧ (readBodyToFile c M {}).1.rs = .head) := by
  constructor
  · intro h; simp [readBodyToFile, hrs, h]
  · intro h hin
    have hn : ¬ n > M := by omega
    have hlen : ¬ min n c.input.length < n := by omega
    simp [readBodyToFile, hrs, hn, storeUpload, newFile, hlen]

/-- **Undeclared length, limit M** (below 2^64 − 1): the stream is read to its end but never more than
    M + 1 bytes are written to disk; accepted iff L ≤ M, and then the body is the whole stream; refused
    with `BodyTooLong` iff L > M. -/
theorem C09_undeclared_limit (c : Conn) (M : Nat) (hM : M + 1 ≤ 2 ^ 64 - 1) (hrs : c.rs = .body none false false false)
    (hne : c.inputErr = false) :
    (c.input.length ≤ M → (readBodyToFile c M {}).2 = .ok (.file c.created c.input)) ∧
    (M < c.input.length → (readBodyToFile c M {}).2 = .error .bodyTooLong) ∧
    (c.input.take (min (M + 1) (2 ^ 64 - 1))).length ≤ M + 1 := by
  have hmin : min (M + 1) (2 ^ 64 - 1) = M + 1 := Nat.min_eq_left hM
  refine ⟨?_, ?_, ?_⟩
  · intro h
    have ht : c.input.take (M + 1) = c.input := List.take_of_length_le (by omega)
    have : ¬ M < c.input.length := by omega
    simp [readBodyToFile, hrs, storeUpload, newFile, hmin, ht, this, hne]
  · intro h
    have : M < min (M + 1) c.input.length := by omega
    simp [readBodyToFile, hrs, storeUpload, newFile, dropFile, hmin, this, hne]
  · rw [hmin, List.length_take]; omega

/-- **The largest limit, M = 2^64 − 1** (repaired code, `saturating_add`): every undeclared-length body
    shorter than 2^64 − 1 bytes is accepted whole. -/
theorem C09_max_limit (c : Conn) (hrs : c.rs = .body none false false false) (hlen : c.input.length < 2 ^ 64 - 1)
    (hne : c.inputErr = false) :
    (readBodyToFile c (2 ^ 64 - 1) {}).2 = .ok (.file c.created c.input) := by
  have hmin : min (2 ^ 64 - 1 + 1) (2 ^ 64 - 1) = 2 ^ 64 - 1 := by omega
  have ht : c.input.take (2 ^ 64 - 1) = c.input := List.take_of_length_le (by omega)
  have : ¬ 2 ^ 64 - 1 < c.input.length := by omega
  simp [readBodyToFile, hrs, storeUpload, newFile, hmin, ht, this, hne]

/-- **A reset is not the end of a body.**  When the client's stream ends with a socket error before the limit is reached,
    an upload of undeclared length is refused with `Truncated` — the fragment received so far is never handed over as
    the body (and by `C10.readBodyToFile_files` its file is gone). -/
theorem C09_reset_is_not_eof (c : Conn) (M : Nat) (fs : FsFault) (hrs : c.rs = .body none false false false)
    (he : c.inputErr = true) (hshort : c.input.length < min (M + 1) (2 ^ 64 - 1)) :
    (∃ e, (readBodyToFile c M fs).2 = .error e) ∧ (readBodyToVec c).2 = .error .truncated := by
  refine ⟨?_, ?_⟩
  · unfold readBodyToFile
    simp only [hrs, Bool.or_self, Bool.false_eq_true, if_false, he, hshort, decide_true, Bool.and_self, if_true]
    unfold storeUpload
    split
    · exact ⟨_, rfl⟩
    · simp only []
      split <;> exact ⟨_, rfl⟩
  · simp [readBodyToVec, hrs, he]

/-- The pinned tree computed `max_len + 1` in `u64`: for M = 2^64 − 1 that overflows (a panic with
    overflow checks, 0 — an empty `take` — without), while `saturating_add` keeps the limit. -/
theorem C09_legacy_overflow :
    (2 ^ 64 - 1 + 1) % 2 ^ 64 = 0 ∧ 2 ^ 64 - 1 + 1 > 2 ^ 64 - 1 ∧ min (2 ^ 64 - 1 + 1) (2 ^ 64 - 1) = 2 ^ 64 - 1 := by
  omega

/-! ### Resource bounds, for every state, input, fault and handler behaviour -/

theorem bad_none (b1 b2 : Prop) [Decidable b1] [Decidable b2] (x y : HttpError)
    (h : (if b1 then some x else if b2 then some y else none) = none) : ¬ b2 := by
  by_cases h1 : b1 <;> by_cases h2 : b2 <;> simp [h1, h2] at h ⊢

theorem writeResponse_written (c : Conn) (r : Response) : (writeResponse c r).1.written = c.written := by
  unfold writeResponse
  cases c.ws <;> simp only []
  split <;> (try split) <;> (try split) <;> simp [shutdownWrite]

theorem writeContinue_written (c : Conn) : (writeContinue c).1.written = c.written := by
  unfold writeContinue
  cases c.ws <;> simp only []
  exact writeResponse_written c _

theorem storeUpload_written (c : Conn) (fs : FsFault) (got : Bytes) (bad : Option HttpError) :
    (storeUpload c fs got bad).1.written ≤ max c.written got.length := by
  unfold storeUpload
  split
  · exact Nat.le_max_left _ _
  · simp only [newFile, dropFile]
    split
    · exact Nat.le_refl _
    · cases bad <;> exact Nat.le_refl _

/-- **Disk bound.**  Whatever the connection state, the client's bytes, the declared length, the
    `Expect` flag and the file-system faults: one `read_body_to_file(max_len = M)` never copies more
    than `M + 1` body bytes into its file (`written` = the largest number of body bytes copied into
    any one upload file so far). -/
theorem C09_disk_bound (c : Conn) (M : Nat) (fs : FsFault) :
    (readBodyToFile c M fs).1.written ≤ max c.written (M + 1) := by
  unfold readBodyToFile
  cases hrs : c.rs with
  | head => exact Nat.le_max_left _ _
  | shutdown => exact Nat.le_max_left _ _
  | body l e ch g =>
    simp only
    by_cases hc : (ch || g) = true
    · simp only [hc, if_true]; exact Nat.le_max_left _ _
    · simp only [hc, Bool.false_eq_true, if_false]
      have hw1 : (if e = true then writeContinue c else (c, Except.ok ())).1.written = c.written := by
        cases e <;> simp [writeContinue_written]
      cases l with
      | some n =>
        simp only
        by_cases hn : n > M
        · simp only [hn, if_true]; exact Nat.le_max_left _ _
        · simp only [hn, if_false]
          cases hr : (if e = true then writeContinue c else (c, Except.ok ())).2 with
          | error e' => simp only [hw1]; exact Nat.le_max_left _ _
          | ok v =>
            simp only
            refine Nat.le_trans (storeUpload_written _ _ _ _) ?_
            simp only [hw1, List.length_take]
            omega
      | none =>
        simp only
        cases hr : (if e = true then writeContinue c else (c, Except.ok ())).2 with
        | error e' => simp only [hw1]; exact Nat.le_max_left _ _
        | ok v =>
          simp only
          refine Nat.le_trans (storeUpload_written _ _ _ _) ?_
          simp only [hw1, List.length_take]
          omega

/-- An accepted upload holds at most `M` bytes — exactly the declared number when a length was declared. -/
theorem C09_accepted_within_limit (c : Conn) (M : Nat) (fs : FsFault) (id : Nat) (b : Bytes)
    (h : (readBodyToFile c M fs).2 = .ok (.file id b)) :
    b.length ≤ M ∧ (∀ n e, c.rs = .body (some n) e false false → b.length = n) := by
  unfold readBodyToFile at h
  cases hrs : c.rs with
  | head => simp [hrs] at h
  | shutdown => simp [hrs] at h
  | body l e ch g =>
    simp only [hrs] at h
    by_cases hc : (ch || g) = true
    · simp [hc] at h
    · simp only [hc, Bool.false_eq_true, if_false] at h
      have hstore : ∀ (c0 : Conn) (got : Bytes) (bad : Option HttpError),
          (storeUpload c0 fs got bad).2 = .ok (.file id b) → b = got ∧ bad = none := by
        intro c0 got bad hs
        unfold storeUpload at hs
        split at hs
        · cases hs
        · simp only at hs
          split at hs
          · cases hs
          · cases bad with
            | some x => cases hs
            | none => simp only [Except.ok.injEq, BodyVal.file.injEq] at hs; exact ⟨hs.2.symm, rfl⟩
      cases l with
      | some n =>
        simp only at h
        by_cases hn : n > M
        · simp [hn] at h
        · simp only [hn, if_false] at h
          cases hr : (if e = true then writeContinue c else (c, Except.ok ())).2 with
          | error e' => simp [hr] at h
          | ok v =>
            simp only [hr] at h
            obtain ⟨hb, hbad⟩ := hstore _ _ _ h
            have hlen : ¬ (List.take n (if e = true then writeContinue c else (c, Except.ok ())).1.input).length < n := by
              intro hlt; rw [if_pos hlt] at hbad; cases hbad
            have : b.length = n := by
              rw [hb]; simp only [List.length_take] at hlen ⊢; omega
            refine ⟨by omega, ?_⟩
            intro n' e' hrs'
            cases hrs'
            exact this
      | none =>
        simp only at h
        cases hr : (if e = true then writeContinue c else (c, Except.ok ())).2 with
        | error e' => simp [hr] at h
        | ok v =>
          simp only [hr] at h
          obtain ⟨hb, hbad⟩ := hstore _ _ _ h
          refine ⟨?_, fun n' e' hrs' => by cases hrs'⟩
          rw [hb]
          have hnl := bad_none _ _ _ _ hbad
          omega

/-- **Memory bound.**  In the body stage of an exchange whose connection state matches the request
    (as `read_request` leaves it), a body handed to the handler in memory has at most S =
    `small_body_len` bytes; larger and undeclared-length bodies never reach memory. -/
theorem C09_mem_bound (legacy : Bool) (cfg : Cfg) (h : ReqView → HandlerOut) (c : Conn) (m : ReqMeta)
    (hrs : ∀ n, m.body = .pendingKnown n → ∃ e ch g, c.rs = .body (some n) e ch g)
    (c' : Conn) (b : Bytes) (early : Option Response) (calls : List Call)
    (hs : bodyStage legacy cfg h c m = (c', .ok (some (.vec b), early), calls)) :
    b.length ≤ cfg.smallBodyLen := by
  have hfile : ∀ (c0 : Conn) (M : Nat) (bv : BodyVal), (readBodyToFile c0 M cfg.fs).2 = .ok bv → ∃ id bs, bv = .file id bs := by
    intro c0 M bv hb
    unfold readBodyToFile at hb
    have hstore : ∀ (c1 : Conn) (got : Bytes) (bad : Option HttpError),
        (storeUpload c1 cfg.fs got bad).2 = .ok bv → ∃ id bs, bv = .file id bs := by
      intro c1 got bad hs'
      unfold storeUpload at hs'
      split at hs'
      · cases hs'
      · simp only at hs'
        split at hs'
        · cases hs'
        · cases bad with
          | some x => cases hs'
          | none => simp only [Except.ok.injEq] at hs'; exact ⟨_, _, hs'.symm⟩
    cases hrs0 : c0.rs with
    | head => simp [hrs0] at hb
    | shutdown => simp [hrs0] at hb
    | body l e ch g =>
      simp only [hrs0] at hb
      by_cases hc : (ch || g) = true
      · simp [hc] at hb
      · simp only [hc, Bool.false_eq_true, if_false] at hb
        cases l with
        | some n =>
          simp only at hb
          by_cases hn : n > M
          · simp [hn] at hb
          · simp only [hn, if_false] at hb
            cases hr : (if e = true then writeContinue c0 else (c0, Except.ok ())).2 with
            | error e' => simp [hr] at hb
            | ok v => simp only [hr] at hb; exact hstore _ _ _ hb
        | none =>
          simp only at hb
          cases hr : (if e = true then writeContinue c0 else (c0, Except.ok ())).2 with
          | error e' => simp [hr] at hb
          | ok v => simp only [hr] at hb; exact hstore _ _ _ hb
  have hfirst : ∀ (c1 : Conn) (r : Except HttpError (Option BodyVal × Option Response)) (cs : List Call),
      firstCall legacy cfg h c m = (c1, r, cs) → r ≠ .ok (some (.vec b), early) := by
    intro c1 r cs hf hr
    subst hr
    unfold firstCall at hf
    simp only at hf
    cases hk : (asResponse (h ⟨m, none⟩)).kind with
    | normal => cases legacy <;> simp [hk] at hf
    | dropConnection => simp [hk] at hf
    | getBodyAndReprocess mx =>
      simp only [hk] at hf
      cases hcd : cfg.cacheDir with
      | false => simp [hcd] at hf
      | true =>
        simp only [hcd, Bool.not_true, Bool.false_eq_true, if_false] at hf
        cases hb : readBodyToFile c mx cfg.fs with
        | mk c2 r2 =>
          cases r2 with
          | error e => simp [hb] at hf
          | ok bv =>
            simp only [hb, Prod.mk.injEq, Except.ok.injEq] at hf
            obtain ⟨id, bs, hbv⟩ := hfile c mx bv (by rw [hb])
            rw [hbv] at hf
            cases hf.2.1.1
  unfold bodyStage at hs
  cases hbk : m.body with
  | empty => simp only [hbk, Prod.mk.injEq, Except.ok.injEq, Option.some.injEq, BodyVal.vec.injEq] at hs; rw [← hs.2.1.1]; simp
  | pendingUnknown => simp only [hbk] at hs; exact absurd rfl (hfirst _ _ _ hs)
  | pendingKnown n =>
    simp only [hbk] at hs
    by_cases hn : n ≤ cfg.smallBodyLen
    · simp only [hn, if_true] at hs
      obtain ⟨e, ch, g, hr⟩ := hrs n hbk
      unfold readBodyToVec at hs
      simp only [hr] at hs
      by_cases hc : (ch || g) = true
      · simp [hc] at hs
      · simp only [hc, Bool.false_eq_true, if_false] at hs
        cases hw : (if e = true then writeContinue c else (c, Except.ok ())) with
        | mk cw rw' =>
          simp only [hw] at hs
          cases rw' with
          | error e' => simp at hs
          | ok v =>
            simp only at hs
            by_cases hin : n ≤ cw.input.length
            · simp only [hin, if_true, Prod.mk.injEq, Except.ok.injEq, Option.some.injEq, BodyVal.vec.injEq] at hs
              rw [← hs.2.1.1, List.length_take]; omega
            · simp [hin] at hs
    · simp only [hn, if_false] at hs; exact absurd rfl (hfirst _ _ _ hs)

end C09
end Servlin
