import ServlinVerif.Props.C10
import ServlinVerif.Props.C04
/-
  C09 — body size limits are exact at every boundary and bodies arrive intact.
  L = body length, S = `small_body_len`, M = limit given by the handler.
-/
namespace Servlin
namespace C09
open ConnModel

/-- **L ≤ S (declared): handed to the handler in memory without asking.**  No handler run happens in
    the body stage, and the body is exactly the next L bytes of the stream (at most S bytes are held). -/
theorem C09_small_direct (legacy : Bool) (cfg : Cfg) (h : ReqView → HandlerOut) (c : Conn) (m : ReqMeta) (n : Nat)
    (hb : m.body = .pendingKnown n) (hn : n ≤ cfg.smallBodyLen)
    (hrs : c.rs = .body (some n) false false false) (hin : n ≤ c.input.length) :
    (bodyStage legacy cfg h c m).2.2 = [] ∧
    (bodyStage legacy cfg h c m).2.1 = .ok (some (.vec (c.input.take n)), none) ∧
    (c.input.take n).length ≤ cfg.smallBodyLen := by
  unfold bodyStage
  simp only [hb, hn, if_true]
  have : readBodyToVec c = ({ c with rs := .head, input := c.input.drop n }, .ok (.vec (c.input.take n))) := by
    simp [readBodyToVec, hrs, hin]
  rw [this]
  simp only [List.length_take, true_and]
  omega

/-- **L > S or undeclared: the handler is asked first** (one run with the body pending). -/
theorem C09_large_asks_first (legacy : Bool) (cfg : Cfg) (h : ReqView → HandlerOut) (c : Conn) (m : ReqMeta)
    (hb : m.body = .pendingUnknown ∨ ∃ n, m.body = .pendingKnown n ∧ cfg.smallBodyLen < n) :
    (bodyStage legacy cfg h c m).2.2 = [⟨⟨m, none⟩, h ⟨m, none⟩⟩] := by
  unfold bodyStage
  rcases hb with hb | ⟨n, hb, hn⟩
  · simp only [hb]; exact C04.firstCall_calls legacy cfg h c m
  · have : ¬ n ≤ cfg.smallBodyLen := by omega
    simp only [hb, this, if_false]; exact C04.firstCall_calls legacy cfg h c m

/-- **Declared length, limit M**: refused with `BodyTooLong` (→ 413) iff L > M, before anything is read
    or written; accepted iff L ≤ M, and then — client delivering L bytes, no disk fault — the body is
    byte for byte the next L bytes and the stream continues right after them. -/
theorem C09_declared_limit (c : Conn) (n M : Nat) (hrs : c.rs = .body (some n) false false false) :
    (M < n → readBodyToFile c M {} = (c, .error .bodyTooLong)) ∧
    (n ≤ M → n ≤ c.input.length →
      (readBodyToFile c M {}).2 = .ok (.file c.created (c.input.take n)) ∧
      (readBodyToFile c M {}).1.input = c.input.drop n ∧ (readBodyToFile c M {}).1.rs = .head) := by
  constructor
  · intro h; simp [readBodyToFile, hrs, h]
  · intro h hin
    have hn : ¬ n > M := by omega
    have hlen : ¬ min n c.input.length < n := by omega
    simp [readBodyToFile, hrs, hn, storeUpload, newFile, hlen]

/-- **Undeclared length, limit M** (below 2^64 − 1): the stream is read to its end but never more than
    M + 1 bytes are written to disk; accepted iff L ≤ M, and then the body is the whole stream; refused
    with `BodyTooLong` iff L > M. -/
theorem C09_undeclared_limit (c : Conn) (M : Nat) (hM : M + 1 ≤ 2 ^ 64 - 1) (hrs : c.rs = .body none false false false) :
    (c.input.length ≤ M → (readBodyToFile c M {}).2 = .ok (.file c.created c.input)) ∧
    (M < c.input.length → (readBodyToFile c M {}).2 = .error .bodyTooLong) ∧
    (c.input.take (min (M + 1) (2 ^ 64 - 1))).length ≤ M + 1 := by
  have hmin : min (M + 1) (2 ^ 64 - 1) = M + 1 := Nat.min_eq_left hM
  refine ⟨?_, ?_, ?_⟩
  · intro h
    have ht : c.input.take (M + 1) = c.input := List.take_of_length_le (by omega)
    have : ¬ M < c.input.length := by omega
    simp [readBodyToFile, hrs, storeUpload, newFile, hmin, ht, this]
  · intro h
    have : M < min (M + 1) c.input.length := by omega
    simp [readBodyToFile, hrs, storeUpload, newFile, dropFile, hmin, this]
  · rw [hmin, List.length_take]; omega

/-- **The largest limit, M = 2^64 − 1** (repaired code, `saturating_add`): every undeclared-length body
    shorter than 2^64 − 1 bytes is accepted whole. -/
theorem C09_max_limit (c : Conn) (hrs : c.rs = .body none false false false) (hlen : c.input.length < 2 ^ 64 - 1) :
    (readBodyToFile c (2 ^ 64 - 1) {}).2 = .ok (.file c.created c.input) := by
  have hmin : min (2 ^ 64 - 1 + 1) (2 ^ 64 - 1) = 2 ^ 64 - 1 := by omega
  have ht : c.input.take (2 ^ 64 - 1) = c.input := List.take_of_length_le (by omega)
  have : ¬ 2 ^ 64 - 1 < c.input.length := by omega
  simp [readBodyToFile, hrs, storeUpload, newFile, hmin, ht, this]

/-- The pinned tree computed `max_len + 1` in `u64`: for M = 2^64 − 1 that overflows (a panic with
    overflow checks, 0 — an empty `take` — without), while `saturating_add` keeps the limit. -/
theorem C09_legacy_overflow :
    (2 ^ 64 - 1 + 1) % 2 ^ 64 = 0 ∧ 2 ^ 64 - 1 + 1 > 2 ^ 64 - 1 ∧ min (2 ^ 64 - 1 + 1) (2 ^ 64 - 1) = 2 ^ 64 - 1 := by
  omega

end C09
end Servlin
