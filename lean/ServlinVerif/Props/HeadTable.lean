import ServlinVerif.Gen.HeadTable
import ServlinVerif.Model.Head
/-
  The byte-level matchers of the head model, tied to src/head.rs by *regeneration*: `Gen/HeadTable.lean` is rewritten on
  every run by executing `Head::try_read`, and the kernel re-checks the model against it.
-/
namespace Servlin
namespace HeadTable

def toBytes (l : List Nat) : Bytes := l.map Nat.toUInt8

def errCode : HeadError → Nat
  | .truncated => 1 | .missingRequestLine => 2 | .malformedRequestLine => 3
  | .malformedPath => 4 | .unsupportedProtocol => 5 | .malformedHeader => 6

/-- What the model's `Head::try_read` answers on the bytes in the buffer, in the shape of a table row (the `url` crate accepts
    every origin-form target these probes contain; its result is not part of the row). -/
def modelRow (buf : Bytes) : Nat × Bytes × List (Bytes × Bytes) × Nat :=
  match HeadModel.tryRead false (fun _ => some ⟨[], none⟩) buf with
  | (.ok h, rest) => (0, h.method, h.headers.map (fun f => (f.name, f.value)), rest.length)
  | (.err e, rest) => (errCode e, [], [], rest.length)
  | (.panic, rest) => (7, [], [], rest.length)

def tableOk (t : (List Nat × List Nat) × List (Nat × Nat × List Nat × List (List Nat × List Nat) × Nat)) : Bool :=
  let pre := toBytes t.1.1
  let post := toBytes t.1.2
  t.2.map (·.1) == List.range 256 &&
  t.2.all fun row =>
    modelRow (pre ++ [row.1.toUInt8] ++ post) ==
      (row.2.1, toBytes row.2.2.1, row.2.2.2.1.map (fun f => (toBytes f.1, toBytes f.2)), row.2.2.2.2)

/-- C01/C02: the hand-written matchers of the head model (`safe_regex` patterns of src/head.rs written out as byte classes,
    line splitting, trimming) agree with the code on **every byte value** at 16 position classes of a head — first and inner
    byte of the method, inside and in place of the target, version, first / inner / only byte of a field name, in place of the
    colon, inside and at both edges of a value, an empty value, and around each kind of line end — in outcome, method, fields
    and number of bytes left in the buffer; each table has one row per byte value 0..255.  The tables are regenerated from
    `Head::try_read` on every run. -/
theorem headBytes_match : Gen.headByteTables.all tableOk = true := by
  decide +kernel

theorem headBytes_classes : Gen.headByteTables.length = 16 ∧
    Gen.headErrCodes = ["", "Truncated", "MissingRequestLine", "MalformedRequestLine", "MalformedPath", "UnsupportedProtocol", "MalformedHeader", "PANIC"] := by
  decide +kernel

end HeadTable
end Servlin
