import ServlinVerif.Props.C18
import ServlinVerif.Model.LoggerWorld
/-
  C18 over whole histories: the process-global logger state and the per-thread tag lists as one
  transition system, for every interleaving of the operations of any number of threads.

  * `set_global_logger` installs a logger only when none is installed (the stdout default does not
    count: it is replaced); its guard's drop uninstalls it; the receiver can disappear at any time.
  * a logging call by thread `t` builds its event from the call's tags and `t`'s own tag list and
    hands it to the sink that is current at that moment (`LoggerModel.log`, `deliver`).

  Theorems: `C18_exactly_once` (every logging call produces exactly one outcome: one event delivered
  to exactly one sink, or the stopped-logger error — never both, never none), `C18_current_sink`
  (the sink is the one current at the moment of the call) and `C18_thread_isolation` (what thread
  `t`'s calls log is unaffected by removing every tag operation of every other thread from the
  history: no tag attached by another thread can appear).
-/
namespace Servlin
namespace C18W
open JsonModel LoggerModel LoggerWorld

def isLog : Op → Bool
  | .log .. => true
  | _ => false

theorem step_out_length (w : World) (op : Op) :
    (step w op).out.length = w.out.length + (if isLog op then 1 else 0) := by
  cases op with
  | addTag t tag => rfl
  | clear t => rfl
  | setLogger => simp only [step]; split <;> rfl
  | dropGuard => simp only [step]; split <;> rfl
  | dropReceiver => simp only [step]; split <;> rfl
  | log t level tags =>
    simp only [step, isLog]
    split <;> simp

/-- **Exactly one outcome per logging call**, over every history: the log of outcomes grows by one
    entry for each logging call and by nothing else. -/
theorem C18_exactly_once (w : World) (ops : List Op) :
    (run w ops).out.length = w.out.length + (ops.filter isLog).length := by
  induction ops generalizing w with
  | nil => simp [run]
  | cons op ops ih =>
    have := ih (step w op)
    simp only [run, List.foldl_cons] at this ⊢
    rw [this, step_out_length]
    cases h : isLog op <;> simp [h] <;> omega

/-- **Delivered to the logger installed at that moment** (or to the stdout default when none is;
    a stopped logger is reported as an error and nothing is delivered). -/
theorem C18_current_sink (w : World) (t : Nat) (level : Level) (tags : List Tag) :
    (step w (.log t level tags)).out = w.out ++ [(t,
      match w.g with
      | .installed id true => Outcome.toLogger id (LoggerModel.log (w.tags t) level tags)
      | .installed _ false => .stopped
      | _ => .toDefault (LoggerModel.log (w.tags t) level tags))] := by
  simp only [step]
  cases w.g with
  | none => rfl
  | default => rfl
  | installed id alive => cases alive <;> rfl

/-- The tag operations of threads other than `t`. -/
def foreignTagOp (t : Nat) : Op → Bool
  | .addTag x _ => x != t
  | .clear x => x != t
  | _ => false

/-- Two worlds agree as far as thread `t` can tell. -/
def Agree (t : Nat) (a b : World) : Prop :=
  a.g = b.g ∧ a.nextId = b.nextId ∧ a.tags t = b.tags t ∧
  a.out.filter (fun p => p.1 == t) = b.out.filter (fun p => p.1 == t)

theorem agree_step_foreign (t : Nat) (a b : World) (op : Op) (h : Agree t a b) (hf : foreignTagOp t op = true) :
    Agree t (step a op) b := by
  obtain ⟨h1, h2, h3, h4⟩ := h
  cases op with
  | addTag x tag =>
    have hx : x ≠ t := by simpa [foreignTagOp] using hf
    refine ⟨h1, h2, ?_, h4⟩
    simp only [step]
    rw [if_neg (fun e => hx e.symm)]; exact h3
  | clear x =>
    have hx : x ≠ t := by simpa [foreignTagOp] using hf
    refine ⟨h1, h2, ?_, h4⟩
    simp only [step]
    rw [if_neg (fun e => hx e.symm)]; exact h3
  | log x level tags => simp [foreignTagOp] at hf
  | setLogger => simp [foreignTagOp] at hf
  | dropGuard => simp [foreignTagOp] at hf
  | dropReceiver => simp [foreignTagOp] at hf

theorem agree_step_same (t : Nat) (a b : World) (op : Op) (h : Agree t a b) (hf : foreignTagOp t op = false) :
    Agree t (step a op) (step b op) := by
  obtain ⟨h1, h2, h3, h4⟩ := h
  cases op with
  | addTag x tag =>
    have hx : x = t := by simpa [foreignTagOp] using hf
    subst hx
    exact ⟨h1, h2, by simp [step, h3], h4⟩
  | clear x =>
    have hx : x = t := by simpa [foreignTagOp] using hf
    subst hx
    exact ⟨h1, h2, by simp [step], h4⟩
  | setLogger =>
    simp only [step, h1]
    cases hb : b.g with
    | installed id alive => exact ⟨by rw [h1, hb], h2, h3, h4⟩
    | none => exact ⟨by simp [h2], by simp [h2], h3, h4⟩
    | default => exact ⟨by simp [h2], by simp [h2], h3, h4⟩
  | dropGuard =>
    simp only [step, h1]
    cases hb : b.g with
    | installed id alive => exact ⟨rfl, h2, h3, h4⟩
    | none => exact ⟨by rw [h1, hb], h2, h3, h4⟩
    | default => exact ⟨by rw [h1, hb], h2, h3, h4⟩
  | dropReceiver =>
    simp only [step, h1]
    cases hb : b.g with
    | installed id alive => exact ⟨rfl, h2, h3, h4⟩
    | none => exact ⟨by rw [h1, hb], h2, h3, h4⟩
    | default => exact ⟨by rw [h1, hb], h2, h3, h4⟩
  | log x level tags =>
    simp only [step, h1]
    by_cases hx : x = t
    · subst hx
      cases hb : b.g with
      | none => exact ⟨rfl, h2, h3, by simp [List.filter_append, h4, h3]⟩
      | default => exact ⟨rfl, h2, h3, by simp [List.filter_append, h4, h3]⟩
      | installed id alive =>
        cases alive
        · exact ⟨rfl, h2, h3, by simp [List.filter_append, h4]⟩
        · exact ⟨rfl, h2, h3, by simp [List.filter_append, h4, h3]⟩
    · have hne : (x == t) = false := by simpa using hx
      cases hb : b.g with
      | none => exact ⟨rfl, h2, h3, by simp [List.filter_append, h4, hne]⟩
      | default => exact ⟨rfl, h2, h3, by simp [List.filter_append, h4, hne]⟩
      | installed id alive =>
        cases alive
        · exact ⟨rfl, h2, h3, by simp [List.filter_append, h4, hne]⟩
        · exact ⟨rfl, h2, h3, by simp [List.filter_append, h4, hne]⟩

theorem agree_run (t : Nat) (ops : List Op) (a b : World) (h : Agree t a b) :
    Agree t (run a ops) (run b (ops.filter (fun op => !foreignTagOp t op))) := by
  induction ops generalizing a b with
  | nil => exact h
  | cons op ops ih =>
    simp only [run, List.foldl_cons]
    by_cases hf : foreignTagOp t op = true
    · simp only [List.filter_cons, hf, Bool.not_true, Bool.false_eq_true, if_false]
      exact ih _ _ (agree_step_foreign t a b op h hf)
    · have hf' : foreignTagOp t op = false := by simpa using hf
      simp only [List.filter_cons, hf', Bool.not_false, if_true, List.foldl_cons]
      exact ih _ _ (agree_step_same t a b op h hf')

/-- **Thread isolation.**  For every history and every thread `t`: the outcomes of `t`'s logging calls
    — which sink each went to and every tag of every event — are exactly those of the history with all
    tag operations (`add`, `clear`) of all other threads removed.  No tag attached by another thread
    can appear in, or disappear from, an event logged by `t`. -/
theorem C18_thread_isolation (t : Nat) (ops : List Op) :
    (run {} ops).out.filter (fun p => p.1 == t) =
      (run {} (ops.filter (fun op => !foreignTagOp t op))).out.filter (fun p => p.1 == t) :=
  (agree_run t ops {} {} ⟨rfl, rfl, rfl, rfl⟩).2.2.2

/-! ### Nothing arrives at a logger once it has been removed -/

/-- Every installed logger of `w` has a number ≥ `N`, and so will every logger installed later. -/
def Fresh (N : Nat) (w : World) : Prop :=
  (match w.g with | .installed id _ => N ≤ id | _ => True) ∧ N ≤ w.nextId

theorem step_fresh (N : Nat) (w : World) (op : Op) (h : Fresh N w) :
    Fresh N (step w op) ∧ ∃ new, (step w op).out = w.out ++ new ∧
      ∀ p ∈ new, ∀ id e, p.2 = Outcome.toLogger id e → N ≤ id := by
  obtain ⟨hg, hn⟩ := h
  cases op with
  | addTag t tag => exact ⟨⟨hg, hn⟩, [], by simp [step], by simp⟩
  | clear t => exact ⟨⟨hg, hn⟩, [], by simp [step], by simp⟩
  | setLogger =>
    simp only [step]
    cases hgw : w.g with
    | installed id alive => rw [hgw] at hg; exact ⟨⟨by simpa [hgw] using hg, hn⟩, [], by simp, by simp⟩
    | none => exact ⟨⟨by simpa using hn, by simp; omega⟩, [], by simp, by simp⟩
    | default => exact ⟨⟨by simpa using hn, by simp; omega⟩, [], by simp, by simp⟩
  | dropGuard =>
    simp only [step]
    cases hgw : w.g with
    | installed id alive => exact ⟨⟨by simp, hn⟩, [], by simp, by simp⟩
    | none => exact ⟨⟨by simp [hgw], hn⟩, [], by simp, by simp⟩
    | default => exact ⟨⟨by simp [hgw], hn⟩, [], by simp, by simp⟩
  | dropReceiver =>
    simp only [step]
    cases hgw : w.g with
    | installed id alive => rw [hgw] at hg; exact ⟨⟨by simpa using hg, hn⟩, [], by simp, by simp⟩
    | none => exact ⟨⟨by simp [hgw], hn⟩, [], by simp, by simp⟩
    | default => exact ⟨⟨by simp [hgw], hn⟩, [], by simp, by simp⟩
  | log t level tags =>
    simp only [step]
    cases hgw : w.g with
    | none => exact ⟨⟨by simp, hn⟩, _, rfl, by simp⟩
    | default => exact ⟨⟨by simp [hgw], hn⟩, _, rfl, by simp⟩
    | installed id alive =>
      rw [hgw] at hg
      cases alive
      · exact ⟨⟨by simpa [hgw] using hg, hn⟩, _, rfl, by simp⟩
      · refine ⟨⟨by simpa [hgw] using hg, hn⟩, _, rfl, ?_⟩
        intro p hp id' e he
        simp only [List.mem_singleton] at hp
        subst hp
        simp only [Outcome.toLogger.injEq] at he
        have : id = id' := he.1
        subst this
        simpa using hg

theorem run_fresh (N : Nat) (ops : List Op) (w : World) (h : Fresh N w) :
    ∃ new, (run w ops).out = w.out ++ new ∧ ∀ p ∈ new, ∀ id e, p.2 = Outcome.toLogger id e → N ≤ id := by
  induction ops generalizing w with
  | nil => exact ⟨[], by simp [run], by simp⟩
  | cons op ops ih =>
    obtain ⟨hf, new1, ho1, hn1⟩ := step_fresh N w op h
    obtain ⟨new2, ho2, hn2⟩ := ih (step w op) hf
    refine ⟨new1 ++ new2, ?_, ?_⟩
    · simp only [run, List.foldl_cons] at ho2 ⊢
      rw [ho2, ho1, List.append_assoc]
    · intro p hp id e he
      rcases List.mem_append.mp hp with h1 | h2
      · exact hn1 p h1 id e he
      · exact hn2 p h2 id e he

/-- **A removed logger gets nothing more.**  In every history, once the guard of a logger has been dropped, every
    later logging call — by any thread, however the calls interleave with further installs and removals — is delivered
    to the stdout default or to a logger installed *afterwards* (its number is at least the number of loggers installed
    so far), never to the removed one (whose number is smaller: numbers are handed out in order). -/
theorem C18_removed_logger_silent (w : World) (ops : List Op) :
    ∃ new, (run (step w .dropGuard) ops).out = (step w .dropGuard).out ++ new ∧
      ∀ p ∈ new, ∀ id e, p.2 = Outcome.toLogger id e → w.nextId ≤ id := by
  apply run_fresh
  simp only [step]
  cases hgw : w.g with
  | installed id alive => exact ⟨by simp, Nat.le_refl _⟩
  | none => exact ⟨by simp [hgw], Nat.le_refl _⟩
  | default => exact ⟨by simp [hgw], Nat.le_refl _⟩

/-- Non-vacuity: two threads interleaved; thread 0's event carries its own tag only. -/
example : (run {} [.addTag 1 ⟨['x'], .int 1⟩, .addTag 0 ⟨['y'], .int 2⟩, .setLogger, .log 0 .info [], .log 1 .info []]).out =
    [(0, .toLogger 0 ⟨.info, [⟨['y'], .int 2⟩]⟩), (1, .toLogger 0 ⟨.info, [⟨['x'], .int 1⟩]⟩)] := by decide

end C18W
end Servlin
