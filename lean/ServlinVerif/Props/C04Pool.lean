import ServlinVerif.Model.Pool
/-
  C04 / C10 / C12 across connections: a handler's panic on one connection must not strand the requests of other
  connections that are queued behind it in the handler pool.

  * `pool_inv`: with the repaired adapter (`catches = true`) every thread stays alive in every history.
  * `C04_pool_progress`: whenever a job is queued or running, a job step is enabled without new work arriving.
  * `C04_pool_drains`: left alone, the pool finishes every queued and running job in exactly `2·queue + busy` steps of
    its own, whatever the jobs do.
  * `C04_pool_legacy_stuck`: the pinned tree (the panic unwinds into the pool's thread): one thread, one panicking
    handler, one request queued behind it — the queued request has no thread to run it until some later request arrives.
-/
namespace Servlin
namespace Pool

def Inv (s : St) : Prop := s.alive = s.n ∧ s.busy ≤ s.alive

theorem step_inv (s s' : St) (e : Ev) (h : Inv s) (hs : step true s e = some s') : Inv s' ∧ s'.n = s.n := by
  obtain ⟨h1, h2⟩ := h
  cases e with
  | schedule =>
    simp only [step, Option.some.injEq] at hs; subst hs
    exact ⟨⟨by simp [h1], by simp [h1]; omega⟩, rfl⟩
  | take =>
    simp only [step] at hs
    split at hs
    · rename_i hc
      simp only [Option.some.injEq] at hs; subst hs
      exact ⟨⟨h1, by simp; omega⟩, rfl⟩
    · cases hs
  | finish p =>
    simp only [step] at hs
    split at hs
    · simp only [Option.some.injEq] at hs; subst hs
      exact ⟨⟨by simp [h1], by simp; omega⟩, rfl⟩
    · cases hs
  | respawn =>
    simp only [step] at hs
    split at hs
    · simp only [Option.some.injEq] at hs; subst hs
      exact ⟨⟨by simp [h1], by simp [h1]; omega⟩, rfl⟩
    · cases hs

/-- With the repaired adapter no history loses a thread. -/
theorem pool_inv (n : Nat) (evs : List Ev) (s : St) (hr : run true (init n) evs = some s) : Inv s ∧ s.n = n := by
  suffices h : ∀ (evs : List Ev) (a s : St), Inv a → run true a evs = some s → Inv s ∧ s.n = a.n from
    h evs (init n) s ⟨rfl, Nat.zero_le _⟩ hr
  intro evs
  induction evs with
  | nil => intro a s ha hr; simp only [run, Option.some.injEq] at hr; subst hr; exact ⟨ha, rfl⟩
  | cons e es ih =>
    intro a s ha hr
    simp only [run] at hr
    split at hr
    · cases hr
    · rename_i a' ha'
      obtain ⟨hi, hn⟩ := step_inv a a' e ha ha'
      obtain ⟨hi', hn'⟩ := ih a' s hi hr
      exact ⟨hi', hn'.trans hn⟩

/-- **Progress**: in every reachable state of the repaired pool with at least one thread, a queued or running job means
    the pool has a job step (take / finish) of its own. -/
theorem C04_pool_progress (n : Nat) (hn : 0 < n) (evs : List Ev) (s : St) (hr : run true (init n) evs = some s)
    (hw : 0 < s.queue + s.busy) : enabledWork true s ≠ [] := by
  obtain ⟨⟨h1, h2⟩, h3⟩ := pool_inv n evs s hr
  by_cases hb : 0 < s.busy
  · simp [enabledWork, step, hb]
  · have hq : 0 < s.queue := by omega
    have : s.busy < s.alive := by omega
    simp [enabledWork, step, hq, this]

def isOwn : Ev → Bool
  | .take => true
  | .finish _ => true
  | _ => false

/-- Every job step lowers `2·queue + busy` by exactly one and never touches the threads. -/
theorem own_step_rank (s s' : St) (e : Ev) (ho : isOwn e = true) (hs : step true s e = some s') :
    2 * s'.queue + s'.busy + 1 = 2 * s.queue + s.busy ∧ s'.done + s'.queue + s'.busy = s.done + s.queue + s.busy := by
  cases e with
  | schedule => cases ho
  | respawn => cases ho
  | take =>
    simp only [step] at hs
    split at hs
    · simp only [Option.some.injEq] at hs; subst hs; simp; omega
    · cases hs
  | finish p =>
    simp only [step] at hs
    split at hs
    · simp only [Option.some.injEq] at hs; subst hs; simp; omega
    · cases hs

/-- **The queue drains**: any run of the pool's job steps from `s` has at most `2·queue + busy` steps, loses no job, and
    if it cannot be extended (no step of its own is enabled) in a reachable state, every job has finished. -/
theorem C04_pool_drains (s s' : St) (evs : List Ev) (ho : evs.all isOwn = true) (hr : run true s evs = some s') :
    evs.length + (2 * s'.queue + s'.busy) = 2 * s.queue + s.busy ∧
    s'.done + s'.queue + s'.busy = s.done + s.queue + s.busy := by
  induction evs generalizing s with
  | nil => simp only [run, Option.some.injEq] at hr; subst hr; simp
  | cons e es ih =>
    simp only [List.all_cons, Bool.and_eq_true] at ho
    simp only [run] at hr
    split at hr
    · cases hr
    · rename_i s1 hs1
      obtain ⟨r1, d1⟩ := own_step_rank s s1 e ho.1 hs1
      obtain ⟨r2, d2⟩ := ih s1 ho.2 hr
      simp only [List.length_cons]
      omega

theorem C04_pool_quiescent (n : Nat) (hn : 0 < n) (evs : List Ev) (s : St) (hr : run true (init n) evs = some s)
    (hq : enabledWork true s = []) : s.queue = 0 ∧ s.busy = 0 := by
  by_cases hw : 0 < s.queue + s.busy
  · exact absurd hq (C04_pool_progress n hn evs s hr hw)
  · omega

/-- Pinned tree, one handler thread: a request arrives, its handler starts, a second request is queued behind it, the
    first handler panics.  The thread is gone, the second request is still queued, and the pool has no step of its own:
    it stays that way until some later request arrives (`schedule` is the only step that brings threads back).
    The repaired adapter finishes both jobs. -/
theorem C04_pool_legacy_stuck :
    (run false (init 1) [.schedule, .take, .schedule, .finish true]).map (fun s => (s.alive, s.queue, enabledAlone false s))
      = some (0, 1, []) ∧
    (run true (init 1) [.schedule, .take, .schedule, .finish true, .take, .finish false]).map (fun s => (s.alive, s.queue, s.busy, s.done))
      = some (1, 0, 0, 2) := by decide

/-- The scenario the harness runs on the real server (suite c04p), on the model: the repaired adapter completes all
    `n + 3` handler calls for pools of 1, 2 and 3 threads; the pinned tree completes only the `n` panicking ones. -/
theorem C04_pool_scenario :
    [1, 2, 3].map (scenario true) = [some 4, some 5, some 6] ∧ [1, 2, 3].map (scenario false) = [some 1, some 2, some 3] := by
  decide

end Pool
end Servlin
