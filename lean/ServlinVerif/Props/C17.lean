import ServlinVerif.Model.Json
import ServlinVerif.Spec.JsonParser
/-
  C17 — every log line is one valid JSON object that preserves the tag values.
-/
namespace Servlin
namespace C17
open JsonModel Json

theorem hex_ctl : ∀ n, n < 32 →
    hex4 '0' '0' (hexDigit (n / 16)) (hexDigit (n % 16)) = some n ∧ ¬ (0xD800 ≤ n ∧ n ≤ 0xDBFF) ∧ ¬ (0xDC00 ≤ n ∧ n ≤ 0xDFFF) := by
  decide

/-- One escaped character is read back as exactly that character. -/
theorem parseStr_escapeChar (fuel : Nat) (c : Char) (rest acc : List Char) :
    parseStr (fuel + 1) (escapeChar c ++ rest) acc = parseStr fuel rest (c :: acc) := by
  unfold escapeChar
  by_cases h1 : c = '"'
  · subst h1; simp [parseStr]
  · by_cases h2 : c = '\\'
    · subst h2; simp [parseStr]
    · by_cases h3 : c.toNat < 0x20
      · simp only [h1, h2, h3, if_false, if_true, List.cons_append, List.nil_append]
        have hx := hex_ctl c.toNat h3
        rw [parseStr]
        simp only [hx.1, hx.2.1, hx.2.2, if_false]
        rw [Char.ofNat_toNat]
      · simp only [h1, h2, h3, if_false, List.cons_append, List.nil_append]
        rw [parseStr]
        · simp [h3]
        · intro h; exact h1 h
        · intro e rest' h _; exact h2 h

/-- **A string value can never break out of its string.**  For every list of Unicode scalar values
    `s` (quotes, backslashes, control characters, non-printable or astral scalar values included) and
    whatever follows, the RFC 8259 string parser applied to the escaped text reads back exactly `s` and
    stops exactly at the closing quote written by the serialiser. -/
theorem C17_string_roundtrip (s rest acc : List Char) (fuel : Nat) (hf : s.length < fuel) :
    parseStr fuel (s.flatMap escapeChar ++ '"' :: rest) acc = some (acc.reverse ++ s, rest) := by
  induction s generalizing acc fuel with
  | nil =>
    obtain ⟨f, rfl⟩ : ∃ f, fuel = f + 1 := ⟨fuel - 1, by simp at hf; omega⟩
    simp [parseStr]
  | cons c t ih =>
    obtain ⟨f, rfl⟩ : ∃ f, fuel = f + 1 := ⟨fuel - 1, by simp at hf; omega⟩
    simp only [List.flatMap_cons, List.append_assoc]
    rw [parseStr_escapeChar, ih (c :: acc) f (by simp at hf; omega)]
    simp

/-- Corollary in the form used for members: a JSON value position holding `jsonStr s` parses to the
    string `s` and leaves exactly what followed — so no content can add members or end the object. -/
theorem C17_no_breakout (s rest : List Char) :
    parseVal (jsonStr s ++ rest) = some (.str s, rest) := by
  unfold jsonStr parseVal
  simp only [List.cons_append, List.append_assoc, List.nil_append]
  have := C17_string_roundtrip s rest [] ((s.flatMap escapeChar ++ ('"' :: rest)).length + 1) (by
    have : s.length ≤ (s.flatMap escapeChar).length := by
      induction s with
      | nil => simp
      | cons c t ih =>
        simp only [List.flatMap_cons, List.length_append, List.length_cons]
        have : 1 ≤ (escapeChar c).length := by unfold escapeChar; split <;> (try split) <;> (try split) <;> simp
        omega
    simp only [List.length_append, List.length_cons]; omega)
  rw [this]; simp

/-- The pinned tree wrote control characters with Rust's `{:?}` (`\u{1}`, `\0`): not JSON. -/
theorem C17_legacy_invalid :
    parseStr 20 (Legacy.escapeCtl (Char.ofNat 1) ++ ['"']) [] = none ∧
    parseStr 20 (Legacy.escapeCtl (Char.ofNat 0) ++ ['"']) [] = none ∧
    parseStr 20 (escapeChar (Char.ofNat 1) ++ ['"']) [] = some ([Char.ofNat 1], []) := by decide

end C17
end Servlin
