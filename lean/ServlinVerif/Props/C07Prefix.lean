import ServlinVerif.Props.C07
/-
  C07 — a truncated stream can never be mistaken for a complete one (`C07_no_false_complete`).

  Two facts about the independent decoder (they do not mention the encoder):
    * `decode_extend`: if the decoder accepts an input as complete, it accepts every extension of that input
      with the same data, the extra bytes being left over;
  and one about the encoder's output (`C07_decode_encode`): the complete output decodes with *nothing*
  left over.  Hence no proper prefix of a complete output — a stream cut at any byte, for whatever
  reason — is accepted as complete, for every source and read pattern.
-/
namespace Servlin
namespace C07
open Chunked ChunkDecoder

theorem parseSize_extend (inp : Bytes) (acc : Nat) (seen : Bool) (n : Nat) (rest S : Bytes)
    (h : parseSize inp acc seen = .ok n rest) : parseSize (inp ++ S) acc seen = .ok n (rest ++ S) := by
  induction inp generalizing acc seen with
  | nil => simp [parseSize] at h
  | cons b bs ih =>
    rw [List.cons_append]
    simp only [parseSize] at h ⊢
    cases hv : hexVal b with
    | some v => rw [hv] at h; simp only at h ⊢; exact ih _ _ h
    | none =>
      rw [hv] at h
      simp only at h ⊢
      by_cases hc : b = 13 ∧ seen = true
      · simp only [hc, and_self, if_true] at h ⊢
        cases bs with
        | nil => simp at h
        | cons c r =>
          simp only [List.cons_append] at h ⊢
          by_cases h10 : c = 10
          · simp only [h10, if_true, SizeRes.ok.injEq] at h ⊢
            exact ⟨h.1, by rw [← h.2]⟩
          · simp [h10] at h
      · simp only [hc, if_false] at h
        cases h

theorem take_append_of_ge (l S : Bytes) (k : Nat) (h : k ≤ l.length) : (l ++ S).take k = l.take k := by
  rw [List.take_append_of_le_length h]

theorem drop_append_of_ge (l S : Bytes) (k : Nat) (h : k ≤ l.length) : (l ++ S).drop k = l.drop k ++ S := by
  rw [List.drop_append_of_le_length h]

/-- Accepting an input as complete is stable under extension of the input (and more fuel). -/
theorem decodeAux_extend (fuel : Nat) (inp : Bytes) (acc : List Bytes) (d r S : Bytes) (extra : Nat)
    (h : decodeAux fuel inp acc = .complete d r) :
    decodeAux (fuel + extra) (inp ++ S) acc = .complete d (r ++ S) := by
  induction fuel generalizing inp acc with
  | zero => simp [decodeAux] at h
  | succ f ih =>
    rw [show f + 1 + extra = (f + extra) + 1 by omega, decodeAux]
    rw [decodeAux] at h
    cases hp : parseSize inp 0 false with
    | incomplete => rw [hp] at h; cases h
    | invalid => rw [hp] at h; cases h
    | ok n rest =>
      rw [hp] at h
      rw [parseSize_extend inp 0 false n rest S hp]
      cases n with
      | zero =>
        simp only at h ⊢
        match rest, h with
        | [], h => cases h
        | [c], h => by_cases hc : c = 13 <;> simp [hc] at h
        | c :: e :: r', h =>
          simp only [List.cons_append]
          by_cases hc : c = 13 ∧ e = 10
          · simp only [hc, and_self, if_true, Dec.complete.injEq] at h ⊢
            exact ⟨h.1, by rw [← h.2]⟩
          · simp [hc] at h
      | succ k =>
        simp only at h ⊢
        by_cases hl : (rest.take (k + 1)).length < k + 1
        · rw [if_pos hl] at h; cases h
        · rw [if_neg hl] at h
          have hge : k + 1 ≤ rest.length := by
            simp only [List.length_take] at hl; omega
          have hl' : ¬ ((rest ++ S).take (k + 1)).length < k + 1 := by
            rw [take_append_of_ge rest S _ hge]; exact hl
          rw [if_neg hl']
          rw [drop_append_of_ge rest S _ hge, take_append_of_ge rest S _ hge]
          cases hd : rest.drop (k + 1) with
          | nil => rw [hd] at h; cases h
          | cons c t =>
            cases t with
            | nil => rw [hd] at h; by_cases hc : c = 13 <;> simp [hc] at h
            | cons e r' =>
              rw [hd] at h
              simp only [List.cons_append]
              by_cases hc : c = 13 ∧ e = 10
              · simp only [hc, and_self, if_true] at h ⊢
                exact ih _ _ h
              · simp [hc] at h

theorem decode_extend (P S d r : Bytes) (h : decode P = .complete d r) : decode (P ++ S) = .complete d (r ++ S) := by
  unfold decode at h ⊢
  have := decodeAux_extend (P.length + 1) P [] d r S S.length h
  rw [show (P ++ S).length + 1 = P.length + 1 + S.length by simp; omega]
  exact this

/-- **No false completion.**  For every source that ends properly and every read pattern: no proper
    prefix of the encoder's complete output is accepted by the decoder as a complete chunked body.
    A response cut at any byte offset — by a source error, a socket failure, anything — can therefore
    never be mistaken for a complete one. -/
theorem C07_no_false_complete (src : Source) (hp : PiecesOk src.pieces) (he : src.endsWithError = false)
    (P S : Bytes) (hS : S ≠ []) (hcut : P ++ S = (copyChunked src).1) (d r : Bytes) :
    decode P ≠ .complete d r := by
  intro hP
  have h1 := decode_extend P S d r hP
  rw [hcut, (C07_decode_encode src hp he).1] at h1
  simp only [Dec.complete.injEq] at h1
  have : r ++ S = [] := h1.2.symm
  exact hS (List.append_eq_nil_iff.mp this).2

/-- The same for the output after a source error (which is such a proper prefix when the source is
    cut before its end): whole chunks without terminator are never complete, whatever follows is needed. -/
theorem C07_error_output_is_prefix (src : Source) (he : src.endsWithError = true) :
    (copyChunked src).1 ++ terminator = (copyChunked { src with endsWithError := false }).1 := by
  simp [copyChunked, he]

/-- Non-vacuity: a complete two-chunk output cut one byte before its end is not accepted; the whole is. -/
example : decode ((copyChunked { pieces := [[104, 105], [33]] }).1.take 14) = .incomplete ∧
    decode (copyChunked { pieces := [[104, 105], [33]] }).1 = .complete [104, 105, 33] [] := by decide

end C07
end Servlin
