import ServlinVerif.Model.Logger
/-
  C18 — log events carry the right tags and reach the installed logger exactly once.
-/
namespace Servlin
namespace C18
open JsonModel LoggerModel

def pr (t : Tag) : Nat := prio t.name

/-- Sorted by priority. -/
def Sorted : List Tag → Prop
  | [] => True
  | [_] => True
  | a :: b :: rest => pr a ≤ pr b ∧ Sorted (b :: rest)

theorem sorted_tail {a : Tag} {l : List Tag} (h : Sorted (a :: l)) : Sorted l := by
  cases l with
  | nil => trivial
  | cons b r => exact h.2

theorem sorted_head_le {a : Tag} {l : List Tag} (h : Sorted (a :: l)) : ∀ x ∈ l, pr a ≤ pr x := by
  induction l generalizing a with
  | nil => intro x hx; cases hx
  | cons b r ih =>
    intro x hx
    simp only [List.mem_cons] at hx
    rcases hx with rfl | hx
    · exact h.1
    · exact Nat.le_trans h.1 (ih h.2 x hx)

theorem insert_perm (t : Tag) (xs : List Tag) : (insertByPrio t xs).Perm (t :: xs) := by
  induction xs with
  | nil => exact List.Perm.refl _
  | cons x r ih =>
    unfold insertByPrio
    split
    · exact (List.Perm.cons x ih).trans (List.Perm.swap t x r)
    · exact List.Perm.refl _

theorem insert_sorted (t : Tag) (xs : List Tag) (h : Sorted xs) : Sorted (insertByPrio t xs) := by
  induction xs with
  | nil => trivial
  | cons x r ih =>
    unfold insertByPrio
    split
    · next hle =>
      have hr := ih (sorted_tail h)
      cases hri : insertByPrio t r with
      | nil => trivial
      | cons y ys =>
        rw [hri] at hr
        refine ⟨?_, hr⟩
        -- y is either t or the head of r
        have hmem : y ∈ t :: r := (insert_perm t r).subset (by rw [hri]; simp)
        simp only [List.mem_cons] at hmem
        rcases hmem with rfl | hm
        · exact hle
        · exact sorted_head_le h y hm
    · next hgt =>
      exact ⟨by simp only [pr]; omega, h⟩

/-- Inserting `t` appends it to the group of its own priority and leaves every other group alone. -/
theorem insert_filter (t : Tag) (xs : List Tag) (h : Sorted xs) (p : Nat) :
    (insertByPrio t xs).filter (fun x => pr x == p) =
      xs.filter (fun x => pr x == p) ++ (if pr t = p then [t] else []) := by
  induction xs with
  | nil => unfold insertByPrio; by_cases hp : pr t = p <;> simp [hp]
  | cons x r ih =>
    unfold insertByPrio
    split
    · next hle =>
      simp only [List.filter_cons, ih (sorted_tail h)]
      split <;> simp
    · next hgt =>
      -- everything in x :: r has priority > pr t
      have hall : ∀ y ∈ x :: r, pr t < pr y := by
        intro y hy
        simp only [List.mem_cons] at hy
        rcases hy with rfl | hy
        · simp only [pr]; omega
        · have := sorted_head_le h y hy; simp only [pr] at *; omega
      by_cases hp : pr t = p
      · have hnone : (x :: r).filter (fun y => pr y == p) = [] := by
          rw [List.filter_eq_nil_iff]; intro y hy; have := hall y hy; simp; omega
        simp [List.filter_cons, hp, hnone]
      · have : (pr t == p) = false := by simpa using hp
        simp [List.filter_cons, this, hp]

theorem foldl_inv (l acc : List Tag) (h : Sorted acc) :
    Sorted (l.foldl (fun a t => insertByPrio t a) acc) ∧
    (l.foldl (fun a t => insertByPrio t a) acc).Perm (acc ++ l) ∧
    ∀ p, (l.foldl (fun a t => insertByPrio t a) acc).filter (fun x => pr x == p) =
      acc.filter (fun x => pr x == p) ++ l.filter (fun x => pr x == p) := by
  induction l generalizing acc with
  | nil => simp [h]
  | cons t r ih =>
    simp only [List.foldl_cons]
    have hs := insert_sorted t acc h
    obtain ⟨h1, h2, h3⟩ := ih (insertByPrio t acc) hs
    refine ⟨h1, ?_, ?_⟩
    · refine h2.trans ?_
      have := insert_perm t acc
      refine (List.Perm.append_right r this).trans ?_
      simp only [List.cons_append]
      exact (List.perm_middle (a := t) (l₁ := acc) (l₂ := r)).symm
    · intro p
      rw [h3 p, insert_filter t acc h p]
      by_cases hp : pr t = p
      · have : (pr t == p) = true := by simpa using hp
        simp [hp, List.filter_cons, this]
      · have : (pr t == p) = false := by simpa using hp
        simp [hp, List.filter_cons, this]

/-- **Tags of every logged event**: for every list of call tags and every thread-tag list of the
    calling thread, the event carries exactly those tags — nothing else, in particular nothing from
    another thread — sorted by the priority table (message, method, path, body-size tags first, in
    that fixed order), and within one priority class, e.g. all other tags, in the order given (call
    tags before the thread's own tags). -/
theorem C18_tags (threadTags callTags : List Tag) (level : Level) :
    let e := LoggerModel.log threadTags level callTags
    e.level = level ∧ e.tags.Perm (callTags ++ threadTags) ∧ Sorted e.tags ∧
    ∀ p, e.tags.filter (fun x => pr x == p) = (callTags ++ threadTags).filter (fun x => pr x == p) := by
  have := foldl_inv (callTags ++ threadTags) [] trivial
  simp only [List.nil_append, List.filter_nil] at this
  exact ⟨rfl, this.2.1, this.1, this.2.2⟩

/-- **Exactly one event, to the logger installed at that moment** — or to the stdout default when
    none is installed; a stopped logger (receiver gone) is reported as an error, never a panic, and
    nothing is delivered anywhere. -/
theorem C18_one_event (e : Event) :
    deliver (.installed true) e = ⟨[e], [], false⟩ ∧
    deliver .none e = ⟨[], [e], false⟩ ∧
    deliver (.installed false) e = ⟨[], [], true⟩ := ⟨rfl, rfl, rfl⟩

/-- **Wrapping a handler**: the handler's own response is returned (or the error's response, or a
    bare 500 when the error has none); its status code is logged at info level for `Ok` and at error
    level for `Err`; the per-thread tag set used is built from scratch (method, path, request id,
    body size, duration) and contains nothing left over from earlier requests. -/
theorem C18_wrap (code : Nat) (len : Option Nat) (tags : List Tag) (msg : Option (List Char)) (resp : Option (Nat × Option Nat)) :
    (logResponse (.ok code len)).1 = (code, len) ∧ (logResponse (.ok code len)).2.1 = .info ∧
    intTag "code" code ∈ (logResponse (.ok code len)).2.2 ∧
    (logResponse (.err resp tags msg)).1 = resp.getD (500, some 0) ∧ (logResponse (.err resp tags msg)).2.1 = .error ∧
    intTag "code" (resp.getD (500, some 0)).1 ∈ (logResponse (.err resp tags msg)).2.2 ∧
    (∀ t ∈ tags, t ∈ (logResponse (.err resp tags msg)).2.2) := by
  refine ⟨rfl, rfl, by simp [logResponse], rfl, rfl, ?_, ?_⟩
  · simp [logResponse]
  · intro t ht; simp [logResponse, ht]

/-- Non-vacuity: a concrete call with tags of several priorities, equal names and thread tags. -/
example : (LoggerModel.log [⟨"path".toList, .str ['/']⟩, ⟨"k".toList, .int 2⟩] .info
    [⟨"k".toList, .int 1⟩, ⟨"msg".toList, .str ['m']⟩, ⟨"k".toList, .int 0⟩]).tags.map (·.value) =
    [.str ['m'], .str ['/'], .int 1, .int 0, .int 2] := by decide

end C18
end Servlin
