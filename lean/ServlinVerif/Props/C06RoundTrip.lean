import ServlinVerif.Props.C06
import ServlinVerif.Props.C02
import ServlinVerif.Spec.RespParser
/-
  C06 — "… that parses back": the bytes `write_http_response` produces for a response with a body of known
  length are accepted by the independent strict parser (`Spec/RespParser.lean`) and yield exactly the status code,
  the fields (automatic ones first, then the user's in the order added, values unchanged) and the body — for every
  status code 100..999, every list of grammatical user fields, every body and every way the source delivers it.
-/
namespace Servlin
namespace C06
open Serialize Render

/-! ### Lines and CRLF -/

theorem flatten_crlf (L : List Bytes) (hne : L ≠ []) :
    (L.map (· ++ crlf)).flatten = joinCrlf L ++ crlf := by
  induction L with
  | nil => exact absurd rfl hne
  | cons l ls ih =>
    cases ls with
    | nil => simp [joinCrlf]
    | cons l2 ls2 =>
      have := ih (by simp)
      simp only [List.map_cons, List.flatten_cons] at this ⊢
      rw [this]
      simp [joinCrlf, crlf]

theorem splitCrlf_clean (l : Bytes) (h : ∀ b ∈ l, b ≠ 13 ∧ b ≠ 10) : Grammar.splitCrlf l = [l] := by
  induction l using Grammar.splitCrlf.induct with
  | case1 => rfl
  | case2 b => rfl
  | case3 b c rest hbc ih => exact absurd hbc.1 (h b (by simp)).1
  | case4 b c rest hbc hsp ih =>
    have := ih (fun x hx => h x (List.mem_cons_of_mem _ hx))
    rw [this] at hsp; cases hsp
  | case5 b c rest hbc l ls hsp ih =>
    have := ih (fun x hx => h x (List.mem_cons_of_mem _ hx))
    rw [Grammar.splitCrlf, if_neg hbc, this]

theorem splitCrlf_line (l rest : Bytes) (h : ∀ b ∈ l, b ≠ 13 ∧ b ≠ 10) :
    Grammar.splitCrlf (l ++ 13 :: 10 :: rest) = l :: Grammar.splitCrlf rest := by
  induction l with
  | nil => simp [Grammar.splitCrlf]
  | cons b t ih =>
    have hb := h b (by simp)
    have ih' := ih (fun x hx => h x (List.mem_cons_of_mem _ hx))
    cases t with
    | nil =>
      simp only [List.cons_append, List.nil_append] at ih' ⊢
      rw [Grammar.splitCrlf, if_neg (by intro hc; exact hb.1 hc.1), ih']
    | cons c t2 =>
      simp only [List.cons_append] at ih' ⊢
      rw [Grammar.splitCrlf, if_neg (by intro hc; exact hb.1 hc.1), ih']

theorem splitCrlf_joinCrlf (L : List Bytes) (hne : L ≠ []) (hL : ∀ l ∈ L, CleanLine l) :
    Grammar.splitCrlf (joinCrlf L) = L := by
  induction L with
  | nil => exact absurd rfl hne
  | cons l ls ih =>
    have hl := (hL l (by simp)).2
    cases ls with
    | nil => simpa [joinCrlf] using splitCrlf_clean l hl
    | cons l2 ls2 =>
      simp only [joinCrlf]
      rw [splitCrlf_line l _ hl, ih (by simp) (fun x hx => hL x (List.mem_cons_of_mem _ hx))]

theorem clean_contains (l : Bytes) (h : CleanLine l) : (l.contains 13 || l.contains 10) = false := by
  simp only [Bool.or_eq_false_iff, List.contains_eq_mem, decide_eq_false_iff_not]
  exact ⟨fun hc => (h.2 13 hc).1 rfl, fun hc => (h.2 10 hc).2 rfl⟩

/-! ### Decimal numbers -/

theorem digit_byte (c : Char) (h : c.isDigit = true) :
    RespParser.isDigit c.toNat.toUInt8 = true ∧ (c.toNat.toUInt8).toNat - 48 = c.toNat - '0'.toNat := by
  simp only [Char.isDigit, Bool.and_eq_true, decide_eq_true_eq] at h
  have h1 : 48 ≤ c.toNat := UInt32.le_iff_toNat_le.mp h.1
  have h2 : c.toNat ≤ 57 := UInt32.le_iff_toNat_le.mp h.2
  have hm : c.toNat % 256 = c.toNat := Nat.mod_eq_of_lt (by omega)
  refine ⟨?_, ?_⟩
  · simp only [RespParser.isDigit, Bool.and_eq_true, decide_eq_true_eq, UInt8.le_iff_toNat_le]
    simp [hm]; omega
  · simp [hm]

theorem decVal_chars (cs : List Char) (h : ∀ c ∈ cs, c.isDigit = true) (init : Nat) :
    (cs.map (fun c => c.toNat.toUInt8)).foldl (fun a d => a * 10 + (d.toNat - 48)) init =
      Nat.ofDigitChars 10 cs init := by
  induction cs generalizing init with
  | nil => simp [Nat.ofDigitChars]
  | cons c t ih =>
    have hc := digit_byte c (h c (by simp))
    simp only [List.map_cons, List.foldl_cons, Nat.ofDigitChars_cons]
    rw [ih (fun x hx => h x (List.mem_cons_of_mem _ hx)), hc.2, Nat.mul_comm]

theorem decimal_digits (n : Nat) : (decimal n).all RespParser.isDigit = true ∧ decimal n ≠ [] := by
  refine ⟨?_, ?_⟩
  · simp only [decimal, List.all_map, List.all_eq_true]
    intro c hc
    exact (digit_byte c (Nat.isDigit_of_mem_toDigits (by decide) (by decide) hc)).1
  · simp [decimal, Nat.toDigits_ne_nil]

theorem decVal_decimal (n : Nat) : RespParser.decVal (decimal n) = n := by
  unfold RespParser.decVal decimal
  rw [decVal_chars _ (fun c hc => Nat.isDigit_of_mem_toDigits (by decide) (by decide) hc)]
  exact Nat.ofDigitChars_ten_toDigits

theorem digit_field (b : UInt8) (h : RespParser.isDigit b = true) : Grammar.fieldByte b = true ∧ b ≠ 13 ∧ b ≠ 10 := by
  have := C02.forall_uint8 (fun b => decide (RespParser.isDigit b = true → Grammar.fieldByte b = true ∧ b ≠ 13 ∧ b ≠ 10))
    (by decide +kernel) b
  exact of_decide_eq_true this h

/-- The three digits of a status code. -/
theorem decimal_three : ∀ c : Fin 900,
    decimal (c.val + 100) = [(48 + (c.val + 100) / 100).toUInt8, (48 + (c.val + 100) / 10 % 10).toUInt8, (48 + (c.val + 100) % 10).toUInt8] := by
  decide +kernel

theorem status_digits : ∀ c : Fin 900,
    RespParser.isDigit (48 + (c.val + 100) / 100).toUInt8 = true ∧
    RespParser.isDigit (48 + (c.val + 100) / 10 % 10).toUInt8 = true ∧
    RespParser.isDigit (48 + (c.val + 100) % 10).toUInt8 = true ∧
    ((48 + (c.val + 100) / 100).toUInt8.toNat - 48) * 100 + ((48 + (c.val + 100) / 10 % 10).toUInt8.toNat - 48) * 10 +
      ((48 + (c.val + 100) % 10).toUInt8.toNat - 48) = c.val + 100 := by
  decide +kernel

theorem parse_status_line (code : Nat) (h1 : 100 ≤ code) (h2 : code ≤ 999) (reason : Bytes)
    (hr : reason.all Grammar.fieldByte = true) :
    RespParser.parseStatusLine (b!"HTTP/1.1 " ++ decimal code ++ [32] ++ reason) = some code := by
  obtain ⟨c, rfl⟩ : ∃ c : Fin 900, code = c.val + 100 := ⟨⟨code - 100, by omega⟩, by simp; omega⟩
  obtain ⟨d1, d2, d3, hv⟩ := status_digits c
  rw [decimal_three c]
  simp only [List.cons_append, List.nil_append, RespParser.parseStatusLine, d1, d2, d3, hr, Bool.and_self, if_true, hv]

/-! ### Field lines -/

/-- A value the grammar allows on one line and that survives OWS stripping unchanged. -/
def ValueOk (v : Bytes) : Prop :=
  v.all Grammar.fieldByte = true ∧ (∀ b t, v = b :: t → Grammar.ows b = false) ∧
  (∀ b t, v.reverse = b :: t → Grammar.ows b = false)

theorem token_facts (n : Bytes) (h : Grammar.isToken n = true) :
    n ≠ [] ∧ ∀ b ∈ n, b ≠ 58 ∧ b ≠ 13 ∧ b ≠ 10 := by
  simp only [Grammar.isToken, Bool.and_eq_true, decide_eq_true_eq, List.all_eq_true] at h
  refine ⟨h.1, fun b hb => ?_⟩
  have := C02.forall_uint8 (fun b => decide (Grammar.tchar b = true → b ≠ 58 ∧ b ≠ 13 ∧ b ≠ 10)) (by decide +kernel) b
  exact of_decide_eq_true this (h.2 b hb)

theorem cutAt_token (n rest : Bytes) (h : ∀ b ∈ n, b ≠ 58) :
    Grammar.cutAt 58 (n ++ 58 :: rest) = some (n, rest) := by
  induction n with
  | nil => simp [Grammar.cutAt]
  | cons b t ih =>
    have hb := h b (by simp)
    simp only [List.cons_append, Grammar.cutAt, if_neg hb, ih (fun x hx => h x (List.mem_cons_of_mem _ hx)), Option.map_some]

theorem strip_value (v : Bytes) (hv : ValueOk v) :
    ((((32 :: v).dropWhile Grammar.ows).reverse.dropWhile Grammar.ows).reverse) = v := by
  have h1 : (32 :: v).dropWhile Grammar.ows = v := by
    have : Grammar.ows 32 = true := by decide
    simp only [List.dropWhile, this]
    cases v with
    | nil => rfl
    | cons b t => simp [List.dropWhile, hv.2.1 b t rfl]
  rw [h1]
  cases hr : v.reverse with
  | nil => simp [List.reverse_eq_nil_iff.mp hr]
  | cons b t =>
    simp only [List.dropWhile, hv.2.2 b t hr]
    rw [← hr, List.reverse_reverse]

theorem parse_field_line (n v : Bytes) (hn : Grammar.isToken n = true) (hv : ValueOk v) :
    Grammar.fieldLineParts (n ++ b!": " ++ v) = some (n, v) := by
  have hf := token_facts n hn
  have : n ++ b!": " ++ v = n ++ 58 :: (32 :: v) := by simp
  rw [this]
  simp only [Grammar.fieldLineParts, cutAt_token n _ (fun b hb => (hf.2 b hb).1), Option.bind_eq_bind, Option.bind_some, hn, if_true]
  rw [strip_value v hv]

theorem field_line_clean (n v : Bytes) (hn : Grammar.isToken n = true) (hv : ValueOk v) :
    CleanLine (n ++ b!": " ++ v) := by
  have hf := token_facts n hn
  refine ⟨by simp, fun b hb => ?_⟩
  simp only [List.mem_append, List.mem_cons, List.mem_nil_iff, or_false] at hb
  rcases hb with (hb | hb | hb) | hb
  · exact (hf.2 b hb).2
  · subst hb; decide
  · subst hb; decide
  · have := (C02.byte_classes b).2.2.1 (List.all_eq_true.mp hv.1 b hb)
    exact ⟨this.2.1, this.2.2⟩


/-! ### The parser on a rendered head -/

def lineOf (f : Bytes × Bytes) : Bytes := f.1 ++ b!": " ++ f.2

def statusL (code : Nat) (reason : Bytes) : Bytes := b!"HTTP/1.1 " ++ decimal code ++ [32] ++ reason

theorem statusL_clean (code : Nat) (reason : Bytes) (hr : reason.all Grammar.fieldByte = true) :
    CleanLine (statusL code reason) := by
  refine ⟨by simp [statusL], fun b hb => ?_⟩
  simp only [statusL, List.mem_append, List.mem_cons, List.mem_nil_iff, or_false] at hb
  rcases hb with ((hb | hb) | hb) | hb
  · have : ∀ x ∈ (b!"HTTP/1.1 " : Bytes), x ≠ 13 ∧ x ≠ 10 := by decide
    exact this b (by simpa using hb)
  · exact (digit_field b (List.all_eq_true.mp (decimal_digits code).1 b hb)).2
  · subst hb; decide
  · have := (C02.byte_classes b).2.2.1 (List.all_eq_true.mp hr b hb)
    exact ⟨this.2.1, this.2.2⟩

theorem take_left' (a b : Bytes) : (a ++ b).take a.length = a := by simp
theorem drop_left' (a b : Bytes) (k : Nat) : (a ++ b).drop (a.length + k) = b.drop k := by
  rw [← List.drop_drop]; simp

/-- The strict parser on status line + field lines + blank line + body. -/
theorem parse_rendered (code : Nat) (reason : Bytes) (fields : List (Bytes × Bytes)) (n : Nat) (body rest : Bytes)
    (h1 : 100 ≤ code) (h2 : code ≤ 999) (hr : reason.all Grammar.fieldByte = true)
    (hf : ∀ f ∈ fields, Grammar.isToken f.1 = true ∧ ValueOk f.2)
    (hcl : ∃ nm, fields.filter (fun f => RespParser.lowerEq f.1 (b!"content-length")) = [(nm, decimal n)])
    (hte : fields.filter (fun f => RespParser.lowerEq f.1 (b!"transfer-encoding")) = [])
    (hb : body.length = n) :
    RespParser.parse (joinCrlf (statusL code reason :: fields.map lineOf) ++ 13 :: 10 :: 13 :: 10 :: (body ++ rest)) =
      .ok ⟨code, fields, body, rest⟩ := by
  have hL : ∀ l ∈ statusL code reason :: fields.map lineOf, CleanLine l := by
    intro l hl
    rcases List.mem_cons.mp hl with rfl | hl
    · exact statusL_clean code reason hr
    · obtain ⟨f, hfm, rfl⟩ := List.mem_map.mp hl
      exact field_line_clean f.1 f.2 (hf f hfm).1 (hf f hfm).2
  have hne : statusL code reason :: fields.map lineOf ≠ [] := by simp
  have hany : (statusL code reason :: fields.map lineOf).any (fun l => l.contains 13 || l.contains 10) = false := by
    rw [List.any_eq_false]
    intro l hl
    have := clean_contains l (hL l hl)
    simp only [this, Bool.false_eq_true, not_false_eq_true]
  have hparts : (fields.map lineOf).map Grammar.fieldLineParts = fields.map some := by
    rw [List.map_map]
    apply List.map_congr_left
    intro f hfm
    exact parse_field_line f.1 f.2 (hf f hfm).1 (hf f hfm).2
  have hvals : fields.all (fun f => f.2.all Grammar.fieldByte) = true := by
    rw [List.all_eq_true]; intro f hfm; exact (hf f hfm).2.1
  obtain ⟨nm, hcl⟩ := hcl
  unfold RespParser.parse
  simp only [fbl_rendered _ hne hL, take_left', drop_left', List.drop_succ_cons, List.drop_zero,
    splitCrlf_joinCrlf _ hne hL, hany, Bool.false_eq_true, if_false]
  simp only [statusL, parse_status_line code h1 h2 reason hr, hparts]
  have hnone : (fields.map some).any Option.isNone = false := by
    rw [List.any_eq_false]; intro x hx; obtain ⟨f, _, rfl⟩ := List.mem_map.mp hx; simp
  have hfm : (fields.map some).filterMap id = fields := by
    induction fields with
    | nil => rfl
    | cons a t ih => simp
  simp only [hnone, Bool.false_eq_true, if_false, hfm, hvals, Bool.not_true, hcl, hte]
  have hd := decimal_digits n
  have hne' : (decimal n ≠ []) := hd.2
  simp only [ne_eq, hne', not_false_eq_true, decide_true, hd.1, Bool.and_self, if_true, decVal_decimal, List.length_append, hb]
  rw [if_neg (by omega)]
  simp [← hb]

/-! ### The serialiser's output parses back -/

/-- The fields the serialiser adds itself, in the order it writes them. -/
def autoFields (r : Response) (close : Bool) (n : Nat) : List (Bytes × Bytes) :=
  (match r.ctype with | some c => [(b!"content-type", c)] | none => []) ++
  (if close then [(b!"connection", b!"close")] else []) ++ [(b!"content-length", decimal n)]

def userFields (r : Response) : List (Bytes × Bytes) := r.headers.map fun h => (h.name, h.value)

theorem headOf_eq (r : Response) (close : Bool) (n : Nat) (hl : r.body.len = some n) :
    headOf r close =
      joinCrlf (statusL r.code (reasonBytes r.code) :: (autoFields r close n ++ userFields r).map lineOf) ++
        [13, 10, 13, 10] := by
  have hfl := flatten_crlf (statusL r.code (reasonBytes r.code) :: (autoFields r close n ++ userFields r).map lineOf) (by simp)
  have : joinCrlf (statusL r.code (reasonBytes r.code) :: (autoFields r close n ++ userFields r).map lineOf) ++ [13, 10, 13, 10] =
      (joinCrlf (statusL r.code (reasonBytes r.code) :: (autoFields r close n ++ userFields r).map lineOf) ++ crlf) ++ crlf := by
    simp [crlf]
  rw [this, ← hfl]
  have hu : ((userFields r).map lineOf).map (· ++ crlf) = r.headers.map fieldLine := by
    simp only [userFields, List.map_map]
    apply List.map_congr_left
    intro h _
    simp [lineOf, fieldLine]
  simp only [headOf, statusLine, framingLine, hl, autoFields, List.map_append, List.map_cons, List.flatten_cons,
    List.flatten_append, hu, statusL]
  cases r.ctype <;> cases close <;> simp [lineOf, crlf]

theorem lower_cl (a : Bytes) : RespParser.lowerEq a (b!"content-length") = eqIgnoreCase a (b!"content-length") := by
  have : (b!"content-length" : Bytes).map toLower = b!"content-length" := by decide
  simp only [RespParser.lowerEq, eqIgnoreCase, this]

theorem lower_te (a : Bytes) : RespParser.lowerEq a (b!"transfer-encoding") = eqIgnoreCase a (b!"transfer-encoding") := by
  have : (b!"transfer-encoding" : Bytes).map toLower = b!"transfer-encoding" := by decide
  simp only [RespParser.lowerEq, eqIgnoreCase, this]

theorem filter_none (r : Response) (name : Bytes) (p : Bytes → Bool) (hp : ∀ a, p a = eqIgnoreCase a name)
    (hn : ¬ HasName r.headers name) : (userFields r).filter (fun f => p f.1) = [] := by
  rw [List.filter_eq_nil_iff]
  intro f hf
  obtain ⟨h, hh, rfl⟩ := List.mem_map.mp hf
  simp only [hp]
  intro hc
  exact hn ⟨h, hh, hc⟩

/-- Every reason phrase of the table consists of field bytes (no CR, LF or other control character). -/
theorem reason_ok (code : Nat) : (reasonBytes code).all Grammar.fieldByte = true := by
  unfold reasonBytes
  split <;> decide

theorem tok_ct : Grammar.isToken (b!"content-type") = true := by decide
theorem tok_conn : Grammar.isToken (b!"connection") = true := by decide
theorem tok_cl : Grammar.isToken (b!"content-length") = true := by decide

theorem auto_filter_cl (r : Response) (close : Bool) (n : Nat) :
    (autoFields r close n).filter (fun f => RespParser.lowerEq f.1 (b!"content-length")) = [(b!"content-length", decimal n)] := by
  have e1 : RespParser.lowerEq (b!"content-type") (b!"content-length") = false := by decide
  have e2 : RespParser.lowerEq (b!"connection") (b!"content-length") = false := by decide
  have e3 : RespParser.lowerEq (b!"content-length") (b!"content-length") = true := by decide
  unfold autoFields
  cases r.ctype <;> cases close <;> simp [List.filter, e1, e2, e3]

theorem auto_filter_te (r : Response) (close : Bool) (n : Nat) :
    (autoFields r close n).filter (fun f => RespParser.lowerEq f.1 (b!"transfer-encoding")) = [] := by
  have e1 : RespParser.lowerEq (b!"content-type") (b!"transfer-encoding") = false := by decide
  have e2 : RespParser.lowerEq (b!"connection") (b!"transfer-encoding") = false := by decide
  have e3 : RespParser.lowerEq (b!"content-length") (b!"transfer-encoding") = false := by decide
  unfold autoFields
  cases r.ctype <;> cases close <;> simp [List.filter, e1, e2, e3]

theorem digit_not_ows (b : UInt8) (h : RespParser.isDigit b = true) : Grammar.ows b = false := by
  have := C02.forall_uint8 (fun b => decide (RespParser.isDigit b = true → Grammar.ows b = false)) (by decide +kernel) b
  exact of_decide_eq_true this h

theorem decimal_valueOk (n : Nat) : ValueOk (decimal n) := by
  have hd := decimal_digits n
  refine ⟨?_, ?_, ?_⟩
  · rw [List.all_eq_true]; intro b hb
    exact (digit_field b (List.all_eq_true.mp hd.1 b hb)).1
  · intro b t hv
    exact digit_not_ows b (List.all_eq_true.mp hd.1 b (by rw [hv]; simp))
  · intro b t hv
    have hm : b ∈ decimal n := by
      have : b ∈ (decimal n).reverse := by rw [hv]; simp
      simpa using this
    exact digit_not_ows b (List.all_eq_true.mp hd.1 b hm)

theorem close_valueOk : ValueOk (b!"close") := by
  refine ⟨by decide, ?_, ?_⟩
  · intro b t h; cases h; decide
  · intro b t h
    have : (b!"close" : Bytes).reverse = [101, 115, 111, 108, 99] := by decide
    rw [this] at h; cases h; decide

/-- **C06 (parses back).**  A response that is not refused, whose status code has three digits, whose content type and user
    fields are grammatical (token names; values of VCHAR / SP / HTAB without surrounding
    whitespace), and whose body has a known length `n` that the source delivers (in whatever pieces): the bytes
    written are accepted by the strict RFC 7230 parser and give back the status code, the automatic fields followed by
    the user's fields in the order added with their values unchanged, exactly one `content-length`, no
    `transfer-encoding`, and exactly the first `n` body bytes — with nothing left over. -/
theorem C06_parses_back (r : Response) (close : Bool) (head : Bytes) (n : Nat)
    (hhead : headBytes false r close = .ok head)
    (h1 : 100 ≤ r.code) (h2 : r.code ≤ 999)
    (hct : ∀ c, r.ctype = some c → ValueOk c)
    (hh : ∀ h ∈ r.headers, Grammar.isToken h.name = true ∧ ValueOk h.value)
    (hl : r.body.len = some n) (ho : r.body.src.openFails = false) (ha : n ≤ r.body.src.pieces.flatten.length) :
    RespParser.parse (write false r close none).1 =
      .ok ⟨r.code, autoFields r close n ++ userFields r, r.body.src.pieces.flatten.take n, []⟩ ∧
    (write false r close none).2 = .ok () := by
  obtain ⟨hhd, ncl, nte, -⟩ := C06_head_shape r close head hhead
  obtain ⟨hbody, hblen⟩ := C06_sized_body r.body n hl ho ha
  have hw : write false r close none = (headOf r close ++ r.body.src.pieces.flatten.take n, .ok ()) := by
    simp only [write, intended, hhead, hhd, hbody]
  rw [hw]
  refine ⟨?_, rfl⟩
  simp only
  rw [headOf_eq r close n hl]
  have happ : ∀ (a : Bytes) (b : Bytes), a ++ [13, 10, 13, 10] ++ b = a ++ 13 :: 10 :: 13 :: 10 :: (b ++ []) := by
    intro a b; simp
  rw [happ]
  apply parse_rendered r.code _ _ n _ [] h1 h2 (reason_ok r.code)
  · -- every field is grammatical
    intro f hf
    rcases List.mem_append.mp hf with hf | hf
    · simp only [autoFields, List.mem_append, List.mem_singleton] at hf
      rcases hf with (hf | hf) | hf
      · cases hc : r.ctype with
        | none => simp [hc] at hf
        | some c =>
          simp only [hc, List.mem_singleton] at hf; subst hf
          exact ⟨tok_ct, hct c hc⟩
      · cases close with
        | false => simp at hf
        | true =>
          simp only [if_true, List.mem_singleton] at hf; subst hf
          exact ⟨tok_conn, close_valueOk⟩
      · subst hf
        exact ⟨tok_cl, decimal_valueOk n⟩
    · obtain ⟨h, hm, rfl⟩ := List.mem_map.mp hf
      exact hh h hm
  · -- exactly one content-length
    refine ⟨b!"content-length", ?_⟩
    rw [List.filter_append, filter_none r _ _ lower_cl ncl, List.append_nil, auto_filter_cl]
  · -- no transfer-encoding
    rw [List.filter_append, filter_none r _ _ lower_te nte, List.append_nil, auto_filter_te]
  · rw [hbody] at hblen; exact hblen

/-- Non-vacuity: a 404 with a type, closing, two user fields and a five-byte body in two pieces. -/
example : RespParser.parse (write false
      { code := 404, ctype := some (b!"text/plain"), headers := [⟨b!"x-a", b!"1"⟩, ⟨b!"Set-Cookie", b!"k=v; Path=/"⟩],
        body := ⟨some 5, { pieces := [b!"he", b!"llo"] }⟩ } true none).1 =
    .ok ⟨404, [(b!"content-type", b!"text/plain"), (b!"connection", b!"close"), (b!"content-length", b!"5"),
               (b!"x-a", b!"1"), (b!"Set-Cookie", b!"k=v; Path=/")], b!"hello", []⟩ := by
  decide +kernel

end C06
end Servlin
