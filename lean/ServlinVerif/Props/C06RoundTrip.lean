import ServlinVerif.Props.C06
import ServlinVerif.Props.C02
import ServlinVerif.Spec.RespParser
/-
  C06 — "… that parses back": the bytes `write_http_response` produces for a response with a body of known
  length are accepted by the independent strict parser (`Spec/RespParser.lean`) and yield exactly the status code,
  the fields (automatic ones first, then the user's in the order added, values unchanged) and the body — for every
  status code 100..999, every list of grammatical user fields, every body and every way the source delivers it.
-/
namespace Servlin
namespace C06
open Serialize Render

/-! ### Lines and CRLF -/

theorem flatten_crlf (L : List Bytes) (hne : L ≠ []) :
    (L.map (· ++ crlf)).flatten = joinCrlf L ++ crlf := by
  induction L with
  | nil => exact absurd rfl hne
  | cons l ls ih =>
    cases ls with
    | nil => simp [joinCrlf]
    | cons l2 ls2 =>
      have := ih (by simp)
      simp only [List.map_cons, List.flatten_cons] at this ⊢
      rw [this]
      simp [joinCrlf, crlf]

theorem splitCrlf_clean (l : Bytes) (h : ∀ b ∈ l, b ≠ 13 ∧ b ≠ 10) : Grammar.splitCrlf l = [l] := by
  induction l using Grammar.splitCrlf.induct with
  | case1 => rfl
  | case2 b => rfl
  | case3 b c rest hbc ih => exact absurd hbc.1 (h b (by simp)).1
  | case4 b c rest hbc hsp ih =>
    have := ih (fun x hx => h x (List.mem_cons_of_mem _ hx))
    rw [this] at hsp; cases hsp
  | case5 b c rest hbc l ls hsp ih =>
    have := ih (fun x hx => h x (List.mem_cons_of_mem _ hx))
    rw [Grammar.splitCrlf, if_neg hbc, this]

theorem splitCrlf_line (l rest : Bytes) (h : ∀ b ∈ l, b ≠ 13 ∧ b ≠ 10) :
    Grammar.splitCrlf (l ++ 13 :: 10 :: rest) = l :: Grammar.splitCrlf rest := by
  induction l with
  | nil => simp [Grammar.splitCrlf]
  | cons b t ih =>
    have hb := h b (by simp)
    have ih' := ih (fun x hx => h x (List.mem_cons_of_mem _ hx))
    cases t with
    | nil =>
      simp only [List.cons_append, List.nil_append] at ih' ⊢
      rw [Grammar.splitCrlf, if_neg (by intro hc; exact hb.1 hc.1), ih']
    | cons c t2 =>
      simp only [List.cons_append] at ih' ⊢
      rw [Grammar.splitCrlf, if_neg (by intro hc; exact hb.1 hc.1), ih']

theorem splitCrlf_joinCrlf (L : List Bytes) (hne : L ≠ []) (hL : ∀ l ∈ L, CleanLine l) :
    Grammar.splitCrlf (joinCrlf L) = L := by
  induction L with
  | nil => exact absurd rfl hne
  | cons l ls ih =>
    have hl := (hL l (by simp)).2
    cases ls with
    | nil => simpa [joinCrlf] using splitCrlf_clean l hl
    | cons l2 ls2 =>
      simp only [joinCrlf]
      rw [splitCrlf_line l _ hl, ih (by simp) (fun x hx => hL x (List.mem_cons_of_mem _ hx))]

theorem clean_contains (l : Bytes) (h : CleanLine l) : (l.contains 13 || l.contains 10) = false := by
  simp only [Bool.or_eq_false_iff, List.contains_eq_mem, decide_eq_false_iff_not]
  exact ⟨fun hc => (h.2 13 hc).1 rfl, fun hc => (h.2 10 hc).2 rfl⟩

/-! ### Decimal numbers -/

theorem digit_byte (c : Char) (h : c.isDigit = true) :
    RespParser.isDigit c.toNat.toUInt8 = true ∧ (c.toNat.toUInt8).toNat - 48 = c.toNat - '0'.toNat := by
  simp only [Char.isDigit, Bool.and_eq_true, decide_eq_true_eq] at h
  have h1 : 48 ≤ c.toNat := UInt32.le_iff_toNat_le.mp h.1
  have h2 : c.toNat ≤ 57 := UInt32.le_iff_toNat_le.mp h.2
  have hm : c.toNat % 256 = c.toNat := Nat.mod_eq_of_lt (by omega)
  refine ⟨?_, ?_⟩
  · simp only [RespParser.isDigit, Bool.and_eq_true, decide_eq_true_eq, UInt8.le_iff_toNat_le]
    simp [hm]; omega
  · simp [hm]

theorem decVal_chars (cs : List Char) (h : ∀ c ∈ cs, c.isDigit = true) (init : Nat) :
    (cs.map (fun c => c.toNat.toUInt8)).foldl (fun a d => a * 10 + (d.toNat - 48)) init =
      Nat.ofDigitChars 10 cs init := by
  induction cs generalizing init with
  | nil => simp [Nat.ofDigitChars]
  | cons c t ih =>
    have hc := digit_byte c (h c (by simp))
    simp only [List.map_cons, List.foldl_cons, Nat.ofDigitChars_cons]
    rw [ih (fun x hx => h x (List.mem_cons_of_mem _ hx)), hc.2, Nat.mul_comm]

theorem decimal_digits (n : Nat) : (decimal n).all RespParser.isDigit = true ∧ decimal n ≠ [] := by
  refine ⟨?_, ?_⟩
  · simp only [decimal, List.all_map, List.all_eq_true]
    intro c hc
    exact (digit_byte c (Nat.isDigit_of_mem_toDigits (by decide) (by decide) hc)).1
  · simp [decimal, Nat.toDigits_ne_nil]

theorem decVal_decimal (n : Nat) : RespParser.decVal (decimal n) = n := by
  unfold RespParser.decVal decimal
  rw [decVal_chars _ (fun c hc => Nat.isDigit_of_mem_toDigits (by decide) (by decide) hc)]
  exact Nat.ofDigitChars_ten_toDigits

theorem digit_field (b : UInt8) (h : RespParser.isDigit b = true) : Grammar.fieldByte b = true ∧ b ≠ 13 ∧ b ≠ 10 := by
  have := C02.forall_uint8 (fun b => decide (RespParser.isDigit b = true → Grammar.fieldByte b = true ∧ b ≠ 13 ∧ b ≠ 10))
    (by decide +kernel) b
  exact of_decide_eq_true this h

/-- The three digits of a status code. -/
theorem decimal_three : ∀ c : Fin 900,
    decimal (c.val + 100) = [(48 + (c.val + 100) / 100).toUInt8, (48 + (c.val + 100) / 10 % 10).toUInt8, (48 + (c.val + 100) % 10).toUInt8] := by
  decide +kernel

theorem status_digits : ∀ c : Fin 900,
    RespParser.isDigit (48 + (c.val + 100) / 100).toUInt8 = true ∧
    RespParser.isDigit (48 + (c.val + 100) / 10 % 10).toUInt8 = true ∧
    RespParser.isDigit (48 + (c.val + 100) % 10).toUInt8 = true ∧
    ((48 + (c.val + 100) / 100).toUInt8.toNat - 48) * 100 + ((48 + (c.val + 100) / 10 % 10).toUInt8.toNat - 48) * 10 +
      ((48 + (c.val + 100) % 10).toUInt8.toNat - 48) = c.val + 100 := by
  decide +kernel

theorem parse_status_line (code : Nat) (h1 : 100 ≤ code) (h2 : code ≤ 999) (reason : Bytes)
    (hr : reason.all Grammar.fieldByte = true) :
    RespParser.parseStatusLine (b!"HTTP/1.1 " ++ decimal code ++ [32] ++ reason) = some code := by
  obtain ⟨c, rfl⟩ : ∃ c : Fin 900, code = c.val + 100 := ⟨⟨code - 100, by omega⟩, by simp; omega⟩
  obtain ⟨d1, d2, d3, hv⟩ := status_digits c
  rw [decimal_three c]
  simp only [List.cons_append, List.nil_append, RespParser.parseStatusLine, d1, d2, d3, hr, Bool.and_self, if_true, hv]

/-! ### Field lines -/

/-- A value the grammar allows on one line and that survives OWS stripping unchanged. -/
def ValueOk (v : Bytes) : Prop :=
  v.all Grammar.fieldByte = true ∧ (∀ b t, v = b :: t → Grammar.ows b = false) ∧
  (∀ b t, v.reverse = b :: t → Grammar.ows b = false)

theorem token_facts (n : Bytes) (h : Grammar.isToken n = true) :
    n ≠ [] ∧ ∀ b ∈ n, b ≠ 58 ∧ b ≠ 13 ∧ b ≠ 10 := by
  simp only [Grammar.isToken, Bool.and_eq_true, decide_eq_true_eq, List.all_eq_true] at h
  refine ⟨h.1, fun b hb => ?_⟩
  have := C02.forall_uint8 (fun b => decide (Grammar.tchar b = true → b ≠ 58 ∧ b ≠ 13 ∧ b ≠ 10)) (by decide +kernel) b
  exact of_decide_eq_true this (h.2 b hb)

theorem cutAt_token (n rest : Bytes) (h : ∀ b ∈ n, b ≠ 58) :
    Grammar.cutAt 58 (n ++ 58 :: rest) = some (n, rest) := by
  induction n with
  | nil => simp [Grammar.cutAt]
  | cons b t ih =>
    have hb := h b (by simp)
    simp only [List.cons_append, Grammar.cutAt, if_neg hb, ih (fun x hx => h x (List.mem_cons_of_mem _ hx)), Option.map_some]

theorem strip_value (v : Bytes) (hv : ValueOk v) :
    ((((32 :: v).dropWhile Grammar.ows).reverse.dropWhile Grammar.ows).reverse) = v := by
  have h1 : (32 :: v).dropWhile Grammar.ows = v := by
    have : Grammar.ows 32 = true := by decide
    simp only [List.dropWhile, this]
    cases v with
    | nil => rfl
    | cons b t => simp [List.dropWhile, hv.2.1 b t rfl]
  rw [h1]
  cases hr : v.reverse with
  | nil => simp [List.reverse_eq_nil_iff.mp hr]
  | cons b t =>
    simp only [List.dropWhile, hv.2.2 b t hr]
    rw [← hr, List.reverse_reverse]

theorem parse_field_line (n v : Bytes) (hn : Grammar.isToken n = true) (hv : ValueOk v) :
    Grammar.fieldLineParts (n ++ b!": " ++ v) = some (n, v) := by
  have hf := token_facts n hn
  have : n ++ b!": " ++ v = n ++ 58 :: (32 :: v) := by simp
  rw [this]
  simp only [Grammar.fieldLineParts, cutAt_token n _ (fun b hb => (hf.2 b hb).1), Option.bind_eq_bind, Option.bind_some, hn, if_true]
  rw [strip_value v hv]

theorem field_line_clean (n v : Bytes) (hn : Grammar.isToken n = true) (hv : ValueOk v) :
    CleanLine (n ++ b!": " ++ v) := by
  have hf := token_facts n hn
  refine ⟨by simp, fun b hb => ?_⟩
  simp only [List.mem_append, List.mem_cons, List.mem_nil_iff, or_false] at hb
  rcases hb with (hb | hb | hb) | hb
  · exact (hf.2 b hb).2
  · subst hb; decide
  · subst hb; decide
  · have := (C02.byte_classes b).2.2.1 (List.all_eq_true.mp hv.1 b hb)
    exact ⟨this.2.1, this.2.2⟩

end C06
end Servlin
