import ServlinVerif.Props.C06RoundTrip
import ServlinVerif.Props.C07
/-
  C06 — responses with a body of unknown length (event streams) parse back: the serialised message
  is accepted by the strict RFC 7230 parser, which finds exactly one `transfer-encoding: chunked`
  field, no `content-length`, the user's fields in order, and — through the independent chunk
  decoder — exactly the bytes the body source delivered, for every way the source delivers them.
  Composes `C06_head_shape`, the head part of `C06_parses_back`, and `C07_decode_encode`.
-/
namespace Servlin
namespace C06
open Serialize Render

/-- The fields the serialiser adds itself for a body of unknown length. -/
def autoFieldsChunked (r : Response) (close : Bool) : List (Bytes × Bytes) :=
  (match r.ctype with | some c => [(b!"content-type", c)] | none => []) ++
  (if close then [(b!"connection", b!"close")] else []) ++ [(b!"transfer-encoding", b!"chunked")]

theorem headOf_eq_chunked (r : Response) (close : Bool) (hl : r.body.len = none) :
    headOf r close =
      joinCrlf (statusL r.code (reasonBytes r.code) :: (autoFieldsChunked r close ++ userFields r).map lineOf) ++
        [13, 10, 13, 10] := by
  have hfl := flatten_crlf (statusL r.code (reasonBytes r.code) :: (autoFieldsChunked r close ++ userFields r).map lineOf) (by simp)
  have : joinCrlf (statusL r.code (reasonBytes r.code) :: (autoFieldsChunked r close ++ userFields r).map lineOf) ++ [13, 10, 13, 10] =
      (joinCrlf (statusL r.code (reasonBytes r.code) :: (autoFieldsChunked r close ++ userFields r).map lineOf) ++ crlf) ++ crlf := by
    simp [crlf]
  rw [this, ← hfl]
  have hu : ((userFields r).map lineOf).map (· ++ crlf) = r.headers.map fieldLine := by
    simp only [userFields, List.map_map]
    apply List.map_congr_left
    intro h _
    simp [lineOf, fieldLine]
  simp only [headOf, statusLine, framingLine, hl, autoFieldsChunked, List.map_append, List.map_cons, List.flatten_cons,
    List.flatten_append, hu, statusL]
  cases r.ctype <;> cases close <;> simp [lineOf, crlf]

theorem autoc_filter_cl (r : Response) (close : Bool) :
    (autoFieldsChunked r close).filter (fun f => RespParser.lowerEq f.1 (b!"content-length")) = [] := by
  have e1 : RespParser.lowerEq (b!"content-type") (b!"content-length") = false := by decide
  have e2 : RespParser.lowerEq (b!"connection") (b!"content-length") = false := by decide
  have e3 : RespParser.lowerEq (b!"transfer-encoding") (b!"content-length") = false := by decide
  unfold autoFieldsChunked
  cases r.ctype <;> cases close <;> simp [List.filter, e1, e2, e3]

theorem autoc_filter_te (r : Response) (close : Bool) :
    (autoFieldsChunked r close).filter (fun f => RespParser.lowerEq f.1 (b!"transfer-encoding")) =
      [(b!"transfer-encoding", b!"chunked")] := by
  have e1 : RespParser.lowerEq (b!"content-type") (b!"transfer-encoding") = false := by decide
  have e2 : RespParser.lowerEq (b!"connection") (b!"transfer-encoding") = false := by decide
  have e3 : RespParser.lowerEq (b!"transfer-encoding") (b!"transfer-encoding") = true := by decide
  unfold autoFieldsChunked
  cases r.ctype <;> cases close <;> simp [List.filter, e1, e2, e3]

theorem tok_te : Grammar.isToken (b!"transfer-encoding") = true := by decide

theorem chunked_valueOk : ValueOk (b!"chunked") := by
  refine ⟨by decide, ?_, ?_⟩
  · intro b t h; cases h; decide
  · intro b t h
    have : (b!"chunked" : Bytes).reverse = [100, 101, 107, 110, 117, 104, 99] := by decide
    rw [this] at h; cases h; decide

/-- The strict parser on status line + field lines + blank line + a chunked body. -/
theorem parse_rendered_chunked (code : Nat) (reason : Bytes) (fields : List (Bytes × Bytes)) (after data rest : Bytes)
    (h1 : 100 ≤ code) (h2 : code ≤ 999) (hr : reason.all Grammar.fieldByte = true)
    (hf : ∀ f ∈ fields, Grammar.isToken f.1 = true ∧ ValueOk f.2)
    (hcl : fields.filter (fun f => RespParser.lowerEq f.1 (b!"content-length")) = [])
    (hte : ∃ nm, fields.filter (fun f => RespParser.lowerEq f.1 (b!"transfer-encoding")) = [(nm, b!"chunked")])
    (hdec : ChunkDecoder.decode after = .complete data rest) :
    RespParser.parse (joinCrlf (statusL code reason :: fields.map lineOf) ++ 13 :: 10 :: 13 :: 10 :: after) =
      .ok ⟨code, fields, data, rest⟩ := by
  have hL : ∀ l ∈ statusL code reason :: fields.map lineOf, CleanLine l := by
    intro l hl
    rcases List.mem_cons.mp hl with rfl | hl
    · exact statusL_clean code reason hr
    · obtain ⟨f, hfm, rfl⟩ := List.mem_map.mp hl
      exact field_line_clean f.1 f.2 (hf f hfm).1 (hf f hfm).2
  have hne : statusL code reason :: fields.map lineOf ≠ [] := by simp
  have hany : (statusL code reason :: fields.map lineOf).any (fun l => l.contains 13 || l.contains 10) = false := by
    rw [List.any_eq_false]
    intro l hl
    have := clean_contains l (hL l hl)
    simp only [this, Bool.false_eq_true, not_false_eq_true]
  have hparts : (fields.map lineOf).map Grammar.fieldLineParts = fields.map some := by
    rw [List.map_map]
    apply List.map_congr_left
    intro f hfm
    exact parse_field_line f.1 f.2 (hf f hfm).1 (hf f hfm).2
  have hvals : fields.all (fun f => f.2.all Grammar.fieldByte) = true := by
    rw [List.all_eq_true]; intro f hfm; exact (hf f hfm).2.1
  obtain ⟨nm, hte⟩ := hte
  unfold RespParser.parse
  simp only [fbl_rendered _ hne hL, take_left', drop_left', List.drop_succ_cons, List.drop_zero,
    splitCrlf_joinCrlf _ hne hL, hany, Bool.false_eq_true, if_false]
  simp only [statusL, parse_status_line code h1 h2 reason hr, hparts]
  have hnone : (fields.map some).any Option.isNone = false := by
    rw [List.any_eq_false]; intro x hx; obtain ⟨f, _, rfl⟩ := List.mem_map.mp hx; simp
  have hfm : (fields.map some).filterMap id = fields := by
    induction fields with
    | nil => rfl
    | cons a t ih => simp
  simp only [hnone, Bool.false_eq_true, if_false, hfm, hvals, Bool.not_true, hcl, hte, beq_self_eq_true, if_true, hdec]

/-- **C06 (parses back, bodies of unknown length).**  A response that is not refused, with a
    three-digit status, grammatical content type and user fields, and a body of unknown length whose
    source opens, delivers its data in pieces of 1..65528 bytes (whatever the pieces) and ends
    properly: the bytes written are accepted by the strict parser and give back the status code, the
    automatic fields — with exactly one `transfer-encoding: chunked` and no `content-length` —
    followed by the user's fields in the order added with unchanged values, and exactly the bytes
    the source delivered, with nothing left over. -/
theorem C06_parses_back_chunked (r : Response) (close : Bool) (head : Bytes)
    (hhead : headBytes false r close = .ok head)
    (h1 : 100 ≤ r.code) (h2 : r.code ≤ 999)
    (hct : ∀ c, r.ctype = some c → ValueOk c)
    (hh : ∀ h ∈ r.headers, Grammar.isToken h.name = true ∧ ValueOk h.value)
    (hl : r.body.len = none) (ho : r.body.src.openFails = false)
    (hp : C07.PiecesOk r.body.src.pieces) (he : r.body.src.endsWithError = false) :
    RespParser.parse (write false r close none).1 =
      .ok ⟨r.code, autoFieldsChunked r close ++ userFields r, r.body.src.pieces.flatten, []⟩ ∧
    (write false r close none).2 = .ok () := by
  obtain ⟨hhd, ncl, nte, -⟩ := C06_head_shape r close head hhead
  obtain ⟨hdec, hres⟩ := C07.C07_decode_encode r.body.src hp he
  have hw : write false r close none = (headOf r close ++ (Chunked.copyChunked r.body.src).1, .ok ()) := by
    simp only [write, intended, hhead, hhd, bodyPhase, hl, ho, Bool.false_eq_true, if_false, hres]
  rw [hw]
  refine ⟨?_, rfl⟩
  simp only
  rw [headOf_eq_chunked r close hl]
  have happ : ∀ (a : Bytes) (b : Bytes), a ++ [13, 10, 13, 10] ++ b = a ++ 13 :: 10 :: 13 :: 10 :: b := by
    intro a b; simp
  rw [happ]
  apply parse_rendered_chunked r.code _ _ _ _ [] h1 h2 (reason_ok r.code)
  · intro f hf
    rcases List.mem_append.mp hf with hf | hf
    · simp only [autoFieldsChunked, List.mem_append, List.mem_singleton] at hf
      rcases hf with (hf | hf) | hf
      · cases hc : r.ctype with
        | none => simp [hc] at hf
        | some c =>
          simp only [hc, List.mem_singleton] at hf; subst hf
          exact ⟨tok_ct, hct c hc⟩
      · cases close with
        | false => simp at hf
        | true =>
          simp only [if_true, List.mem_singleton] at hf; subst hf
          exact ⟨tok_conn, close_valueOk⟩
      · subst hf
        exact ⟨tok_te, chunked_valueOk⟩
    · obtain ⟨h, hm, rfl⟩ := List.mem_map.mp hf
      exact hh h hm
  · rw [List.filter_append, filter_none r _ _ lower_cl ncl, List.append_nil, autoc_filter_cl]
  · refine ⟨b!"transfer-encoding", ?_⟩
    rw [List.filter_append, filter_none r _ _ lower_te nte, List.append_nil, autoc_filter_te]
  · exact hdec

/-- The strict parser on a head followed by a chunked body that the decoder finds incomplete. -/
theorem parse_rendered_chunked_incomplete (code : Nat) (reason : Bytes) (fields : List (Bytes × Bytes)) (after : Bytes)
    (h1 : 100 ≤ code) (h2 : code ≤ 999) (hr : reason.all Grammar.fieldByte = true)
    (hf : ∀ f ∈ fields, Grammar.isToken f.1 = true ∧ ValueOk f.2)
    (hcl : fields.filter (fun f => RespParser.lowerEq f.1 (b!"content-length")) = [])
    (hte : ∃ nm, fields.filter (fun f => RespParser.lowerEq f.1 (b!"transfer-encoding")) = [(nm, b!"chunked")])
    (hdec : ChunkDecoder.decode after = .incomplete) :
    RespParser.parse (joinCrlf (statusL code reason :: fields.map lineOf) ++ 13 :: 10 :: 13 :: 10 :: after) =
      .incomplete "chunked body" := by
  have hL : ∀ l ∈ statusL code reason :: fields.map lineOf, CleanLine l := by
    intro l hl
    rcases List.mem_cons.mp hl with rfl | hl
    · exact statusL_clean code reason hr
    · obtain ⟨f, hfm, rfl⟩ := List.mem_map.mp hl
      exact field_line_clean f.1 f.2 (hf f hfm).1 (hf f hfm).2
  have hne : statusL code reason :: fields.map lineOf ≠ [] := by simp
  have hany : (statusL code reason :: fields.map lineOf).any (fun l => l.contains 13 || l.contains 10) = false := by
    rw [List.any_eq_false]
    intro l hl
    have := clean_contains l (hL l hl)
    simp only [this, Bool.false_eq_true, not_false_eq_true]
  have hparts : (fields.map lineOf).map Grammar.fieldLineParts = fields.map some := by
    rw [List.map_map]
    apply List.map_congr_left
    intro f hfm
    exact parse_field_line f.1 f.2 (hf f hfm).1 (hf f hfm).2
  have hvals : fields.all (fun f => f.2.all Grammar.fieldByte) = true := by
    rw [List.all_eq_true]; intro f hfm; exact (hf f hfm).2.1
  obtain ⟨nm, hte⟩ := hte
  unfold RespParser.parse
  simp only [fbl_rendered _ hne hL, take_left', drop_left', List.drop_succ_cons, List.drop_zero,
    splitCrlf_joinCrlf _ hne hL, hany, Bool.false_eq_true, if_false]
  simp only [statusL, parse_status_line code h1 h2 reason hr, hparts]
  have hnone : (fields.map some).any Option.isNone = false := by
    rw [List.any_eq_false]; intro x hx; obtain ⟨f, _, rfl⟩ := List.mem_map.mp hx; simp
  have hfm : (fields.map some).filterMap id = fields := by
    induction fields with
    | nil => rfl
    | cons a t ih => simp
  simp only [hnone, Bool.false_eq_true, if_false, hfm, hvals, Bool.not_true, hcl, hte, beq_self_eq_true, if_true, hdec]

/-- **C08 / C07 at the message level: a body stream that fails can never be mistaken for a complete
    response.**  Same response as in `C06_parses_back_chunked`, but the body source ends with an error
    (after any number of pieces): the write reports the error, what was written is the head plus whole
    chunks without the terminating chunk, and the strict parser answers *incomplete* — not a response. -/
theorem C08_failed_stream_incomplete (r : Response) (close : Bool) (head : Bytes)
    (hhead : headBytes false r close = .ok head)
    (h1 : 100 ≤ r.code) (h2 : r.code ≤ 999)
    (hct : ∀ c, r.ctype = some c → ValueOk c)
    (hh : ∀ h ∈ r.headers, Grammar.isToken h.name = true ∧ ValueOk h.value)
    (hl : r.body.len = none) (ho : r.body.src.openFails = false)
    (hp : C07.PiecesOk r.body.src.pieces) (he : r.body.src.endsWithError = true) :
    RespParser.parse (write false r close none).1 = .incomplete "chunked body" ∧
    (∃ e, (write false r close none).2 = .error e) ∧
    (write false r close none).1 = headOf r close ++ (r.body.src.pieces.map Chunked.encodeChunk).flatten := by
  obtain ⟨hhd, ncl, nte, -⟩ := C06_head_shape r close head hhead
  obtain ⟨hout, hres, hdec⟩ := C07.C07_error_truncates r.body.src hp he
  have hw : write false r close none =
      (headOf r close ++ (r.body.src.pieces.map Chunked.encodeChunk).flatten, .error (.errorReadingResponseBody "" [])) := by
    simp only [write, intended, hhead, hhd, bodyPhase, hl, ho, Bool.false_eq_true, if_false, hres, hout]
  rw [hw]
  refine ⟨?_, ⟨_, rfl⟩, rfl⟩
  simp only
  rw [headOf_eq_chunked r close hl]
  have happ : ∀ (a : Bytes) (b : Bytes), a ++ [13, 10, 13, 10] ++ b = a ++ 13 :: 10 :: 13 :: 10 :: b := by
    intro a b; simp
  rw [happ]
  apply parse_rendered_chunked_incomplete r.code _ _ _ h1 h2 (reason_ok r.code)
  · intro f hf
    rcases List.mem_append.mp hf with hf | hf
    · simp only [autoFieldsChunked, List.mem_append, List.mem_singleton] at hf
      rcases hf with (hf | hf) | hf
      · cases hc : r.ctype with
        | none => simp [hc] at hf
        | some c =>
          simp only [hc, List.mem_singleton] at hf; subst hf
          exact ⟨tok_ct, hct c hc⟩
      · cases close with
        | false => simp at hf
        | true =>
          simp only [if_true, List.mem_singleton] at hf; subst hf
          exact ⟨tok_conn, close_valueOk⟩
      · subst hf
        exact ⟨tok_te, chunked_valueOk⟩
    · obtain ⟨h, hm, rfl⟩ := List.mem_map.mp hf
      exact hh h hm
  · rw [List.filter_append, filter_none r _ _ lower_cl ncl, List.append_nil, autoc_filter_cl]
  · refine ⟨b!"transfer-encoding", ?_⟩
    rw [List.filter_append, filter_none r _ _ lower_te nte, List.append_nil, autoc_filter_te]
  · rw [← hout]; exact hdec

/-- Non-vacuity: an event-stream response (two pieces) parses back. -/
example : RespParser.parse (write false
      { code := 200, ctype := some (b!"text/event-stream"), headers := [⟨b!"x-a", b!"1"⟩],
        body := ⟨none, { pieces := [b!"data: a\n", b!"data: b\n"] }⟩ } false none).1 =
    .ok ⟨200, [(b!"content-type", b!"text/event-stream"), (b!"transfer-encoding", b!"chunked"), (b!"x-a", b!"1")],
         b!"data: a\ndata: b\n", []⟩ := by
  decide +kernel

end C06
end Servlin
