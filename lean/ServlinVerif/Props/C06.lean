import ServlinVerif.Model.Serialize
import ServlinVerif.Lemmas.Headers
/-
  C06 — responses serialise to well-formed HTTP/1.1; framing and automatic fields follow fixed
  rules; a response that would duplicate an automatic field is refused before any byte is written.
  C08 (serialiser level) — a failed write leaves a prefix of the one correct serialisation.
-/
namespace Servlin
namespace C06
open Serialize

/-- Some user field carries this name (ASCII case-insensitively). -/
def HasName (hs : HeaderList) (name : Bytes) : Prop := ∃ h ∈ hs, eqIgnoreCase h.name name = true

theorem hasField_iff (hs : HeaderList) (name : Bytes) : hasField false hs name = true ↔ HasName hs name := by
  unfold hasField HasName
  simp only [Bool.false_eq_true, if_false, Headers.getAll, Headers.getAll_foldl, List.nil_append]
  rw [Bool.not_eq_true', List.isEmpty_eq_false_iff]
  constructor
  · intro h
    obtain ⟨v, hv⟩ := List.exists_mem_of_ne_nil _ h
    simp only [List.mem_map, List.mem_filter, Multimap.isMatch] at hv
    obtain ⟨hd, ⟨hm, hmatch⟩, _⟩ := hv
    exact ⟨hd, hm, hmatch⟩
  · intro ⟨hd, hm, hmatch⟩
    apply List.ne_nil_of_mem (a := hd.value)
    simp only [List.mem_map, List.mem_filter, Multimap.isMatch]
    exact ⟨hd, ⟨hm, hmatch⟩, rfl⟩

/-- **Refused before any byte is written.**  If a user field collides (in any letter case, once or
    several times) with the automatic content-type, or if the user supplies a framing field
    (content-length / transfer-encoding) of either kind, the serialiser writes nothing at all —
    whatever the writer does — and reports the duplicate. -/
theorem C06_dup_refused (r : Response) (close : Bool) (failAt : Option Nat) (hn : r.kind = .normal)
    (h : (r.ctype.isSome ∧ HasName r.headers (b!"content-type")) ∨ HasName r.headers (b!"content-length") ∨
         HasName r.headers (b!"transfer-encoding")) :
    (write false r close failAt).1 = [] ∧
    ((write false r close failAt).2 = .error .duplicateContentTypeHeader ∨
     (write false r close failAt).2 = .error .duplicateContentLengthHeader ∨
     (write false r close failAt).2 = .error .duplicateTransferEncodingHeader) := by
  have key : ∃ e, headBytes false r close = .error e ∧ (e = .duplicateContentTypeHeader ∨
      e = .duplicateContentLengthHeader ∨ e = .duplicateTransferEncodingHeader) := by
    unfold headBytes
    simp only [hn, ne_eq, not_true_eq_false, if_false]
    by_cases hct : (r.ctype.isSome && hasField false r.headers (b!"content-type")) = true
    · simp [hct]
    · simp only [hct, Bool.false_eq_true, if_false]
      have hh : HasName r.headers (b!"content-length") ∨ HasName r.headers (b!"transfer-encoding") := by
        rcases h with ⟨hs, hc⟩ | h | h
        · exfalso; apply hct; simp [hs, (hasField_iff _ _).mpr hc]
        · exact Or.inl h
        · exact Or.inr h
      by_cases hcl : hasField false r.headers (b!"content-length") = true
      · by_cases hte : hasField false r.headers (b!"transfer-encoding") = true
        · cases r.body.len <;> simp [hcl, hte]
        · cases r.body.len <;> simp [hcl, hte]
      · by_cases hte : hasField false r.headers (b!"transfer-encoding") = true
        · cases r.body.len <;> simp [hcl, hte]
        · exfalso
          rcases hh with hh | hh
          · exact hcl ((hasField_iff _ _).mpr hh)
          · exact hte ((hasField_iff _ _).mpr hh)
  obtain ⟨e, he, hcase⟩ := key
  have hi : intended false r close = ([], .error e) := by simp [intended, he]
  unfold write
  rw [hi]
  cases failAt with
  | none => simpa using hcase
  | some k => simpa using hcase

/-- **Shape of the head and framing rules.**  When nothing is refused, the head is `headOf`: status
    line, `content-type` iff a type is set, `connection: close` iff closing, exactly one framing
    field — `content-length: <body length>` for bodies of known length, `transfer-encoding: chunked`
    for bodies of unknown length — then the user's fields in the order added, then the blank line;
    and no user field is a second framing field or a second content-type: never both. -/
theorem C06_head_shape (r : Response) (close : Bool) (head : Bytes) (h : headBytes false r close = .ok head) :
    head = headOf r close ∧
    ¬ HasName r.headers (b!"content-length") ∧ ¬ HasName r.headers (b!"transfer-encoding") ∧
    (r.ctype.isSome → ¬ HasName r.headers (b!"content-type")) := by
  unfold headBytes at h
  split at h
  · cases h
  · split at h
    · cases h
    · next hct =>
      by_cases hcl : hasField false r.headers (b!"content-length") = true
      · cases hl : r.body.len <;> simp [hl, hcl] at h
        split at h <;> cases h
      · by_cases hte : hasField false r.headers (b!"transfer-encoding") = true
        · cases hl : r.body.len <;> simp [hl, hcl, hte] at h
        · have n1 : ¬ HasName r.headers (b!"content-length") := fun c => hcl ((hasField_iff _ _).mpr c)
          have n2 : ¬ HasName r.headers (b!"transfer-encoding") := fun c => hte ((hasField_iff _ _).mpr c)
          have n3 : r.ctype.isSome → ¬ HasName r.headers (b!"content-type") := by
            intro hs c; apply hct; simp [hs, (hasField_iff _ _).mpr c]
          have hhd : Except.ok (ε := HttpError) (headOf r close) = .ok head := by
            cases hl : r.body.len <;> simpa [hl, hcl, hte] using h
          exact ⟨by injection hhd with e; exact e.symm, n1, n2, n3⟩

/-- **Content-Length equals the number of body bytes sent** for a body of known length whose source
    delivers at least the declared length (any piece sizes): exactly `n` body bytes follow the head. -/
theorem C06_sized_body (b : Body) (n : Nat) (hl : b.len = some n) (ho : b.src.openFails = false)
    (ha : n ≤ b.src.pieces.flatten.length) :
    bodyPhase b = (b.src.pieces.flatten.take n, .ok ()) ∧ (bodyPhase b).1.length = n := by
  unfold bodyPhase
  cases n with
  | zero => simp [hl]
  | succ m =>
    simp only [hl, ho, Bool.false_eq_true, if_false, if_pos ha, List.length_take, true_and]
    exact Nat.min_eq_left ha

/-- The pinned tree's guard (`get_only(..).is_some()`) was bypassed by adding the field twice. -/
theorem C06_legacy_bypass :
    let hs : HeaderList := [⟨b!"content-length", [57]⟩, ⟨b!"Content-Length", [57]⟩]
    hasField true hs (b!"content-length") = false ∧ hasField false hs (b!"content-length") = true := by
  decide

/-! ### C08 at the serialiser level -/

/-- **A failed write leaves a prefix.**  Whatever offset the writer fails at, the bytes that
    reached it are a prefix of what the serialiser intended to send, and the result is an error
    exactly when something was cut. -/
theorem C08_prefix (r : Response) (close : Bool) (k : Nat) :
    (write false r close (some k)).1 <+: (intended false r close).1 ∧
    (k < (intended false r close).1.length → (write false r close (some k)).2 = .error .disconnected ∧
        (write false r close (some k)).1.length = k) ∧
    ((intended false r close).1.length ≤ k → write false r close (some k) = intended false r close) := by
  refine ⟨?_, ?_, ?_⟩
  · unfold write
    dsimp only
    split
    · exact List.take_prefix _ _
    · exact List.prefix_refl _
  · intro h
    unfold write
    dsimp only
    rw [if_pos h]
    exact ⟨rfl, by rw [List.length_take]; omega⟩
  · intro h
    unfold write
    dsimp only
    rw [if_neg (by omega)]

/-- **A body source that is shorter than declared, unreadable or missing yields a prefix of the one
    correct serialisation** (the one with the intact source), and the write is reported as failed. -/
theorem C08_source_fault (r : Response) (close : Bool) (n : Nat) (faulty full : Source) (hn0 : 0 < n)
    (hfull : full.openFails = false ∧ n ≤ full.pieces.flatten.length)
    (hpre : faulty.pieces.flatten <+: full.pieces.flatten) (hshort : faulty.pieces.flatten.length < n) :
    let rf := { r with body := ⟨some n, faulty⟩ }
    let rg := { r with body := ⟨some n, full⟩ }
    (intended false rf close).1 <+: (intended false rg close).1 ∧
    (∀ head, headBytes false rf close = .ok head → ∃ e, (intended false rf close).2 = .error e) := by
  intro rf rg
  have hh : headBytes false rf close = headBytes false rg close := by
    simp [rf, rg, headBytes, headOf, framingLine]
  unfold intended
  rw [hh]
  cases hhd : headBytes false rg close with
  | error e => simp
  | ok head =>
    simp only
    obtain ⟨m, rfl⟩ : ∃ m, n = m + 1 := ⟨n - 1, by omega⟩
    have hbf : bodyPhase rf.body = (if faulty.openFails then [] else faulty.pieces.flatten,
        .error (if faulty.openFails then .errorReadingFile "" [] else .errorReadingResponseBody "" [])) := by
      simp only [rf, bodyPhase]
      by_cases ho : faulty.openFails = true
      · simp [ho]
      · have : ¬ (m + 1 ≤ faulty.pieces.flatten.length) := by omega
        simp only [ho, Bool.false_eq_true, if_false, this]
    have hbg : bodyPhase rg.body = (full.pieces.flatten.take (m + 1), .ok ()) := by
      simp only [rg, bodyPhase, hfull.1, Bool.false_eq_true, if_false, if_pos hfull.2]
    rw [hbf, hbg]
    refine ⟨?_, fun _ _ => ⟨_, rfl⟩⟩
    apply List.prefix_append_right_inj head |>.mpr
    by_cases ho : faulty.openFails = true
    · simp [ho]
    · simp only [ho, Bool.false_eq_true, if_false]
      obtain ⟨t, ht⟩ := hpre
      rw [← ht, List.take_append, List.take_of_length_le (by omega)]
      exact List.prefix_append _ _

end C06
end Servlin
