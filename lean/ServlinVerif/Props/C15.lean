import ServlinVerif.Model.Cookie
import ServlinVerif.Spec.Rfc6265
import ServlinVerif.Lemmas.Split
/-
  C15 — cookies: request parsing and Set-Cookie formatting agree with RFC 6265.
-/
namespace Servlin
namespace C15
open RequestModel CookieModel

/-! ### Request side -/

/-- The handler's view of the cookie map built by the model: the value stored under `name`. -/
def mapLookup (m : List (Bytes × Bytes)) (name : Bytes) : Option Bytes := (m.find? (·.1 == name)).map (·.2)

/-- No vertical tab / form feed / CR / LF (where Rust's `trim` and RFC blanks differ). -/
def Plain (v : Bytes) : Prop := ∀ b ∈ v, b ≠ 10 ∧ b ≠ 11 ∧ b ≠ 12 ∧ b ≠ 13

theorem trimStartWs_eq (s : Bytes) : trimStartWs s = s.dropWhile isAsciiWs := by
  induction s with
  | nil => rfl
  | cons b t ih => simp only [trimStartWs, List.dropWhile, ih]; split <;> simp_all

theorem dropWhile_congr (p q : UInt8 → Bool) (s : Bytes) (h : ∀ b ∈ s, p b = q b) :
    s.dropWhile p = s.dropWhile q := by
  induction s with
  | nil => rfl
  | cons b t ih =>
    have hb := h b (by simp)
    simp only [List.dropWhile, hb]
    split
    · exact ih (fun x hx => h x (List.mem_cons_of_mem _ hx))
    · rfl

theorem ws_eq_wsp (b : UInt8) (h : b ≠ 10 ∧ b ≠ 11 ∧ b ≠ 12 ∧ b ≠ 13) : isAsciiWs b = Rfc6265.wsp b := by
  obtain ⟨h1, h2, h3, h4⟩ := h
  unfold isAsciiWs Rfc6265.wsp
  by_cases e32 : b = 32
  · simp [e32]
  · by_cases e9 : b = 9
    · subst e9; decide
    · have : (9 ≤ b && b ≤ 13) = false := by
        cases hle : decide (9 ≤ b) <;> cases hle2 : decide (b ≤ 13) <;> simp_all
        have := UInt8.le_iff_toNat_le.mp hle
        have := UInt8.le_iff_toNat_le.mp hle2
        have n9 : b.toNat ≠ 9 := fun c => e9 (UInt8.toNat_inj.mp (by simpa using c))
        have n10 : b.toNat ≠ 10 := fun c => h1 (UInt8.toNat_inj.mp (by simpa using c))
        have n11 : b.toNat ≠ 11 := fun c => h2 (UInt8.toNat_inj.mp (by simpa using c))
        have n12 : b.toNat ≠ 12 := fun c => h3 (UInt8.toNat_inj.mp (by simpa using c))
        have n13 : b.toNat ≠ 13 := fun c => h4 (UInt8.toNat_inj.mp (by simpa using c))
        simp at *
        omega
      simp [e32, e9, this]

theorem trimWs_eq_trim (s : Bytes) (h : Plain s) : trimWs s = Rfc6265.trim s := by
  unfold trimWs Rfc6265.trim
  rw [trimStartWs_eq, trimStartWs_eq]
  have h1 : s.dropWhile isAsciiWs = s.dropWhile Rfc6265.wsp := dropWhile_congr _ _ s (fun b hb => ws_eq_wsp b (h b hb))
  rw [h1]
  have hsub : ∀ b ∈ (s.dropWhile Rfc6265.wsp).reverse, b ∈ s := by
    intro b hb
    exact (List.dropWhile_sublist _).subset (List.mem_reverse.mp hb)
  rw [dropWhile_congr _ _ _ (fun b hb => ws_eq_wsp b (h b (hsub b hb)))]

theorem splitFirstEq_eq_cutEq (s : Bytes) : splitFirstEq s = Rfc6265.cutEq s := by
  induction s with
  | nil => rfl
  | cons b t ih => simp [splitFirstEq, Rfc6265.cutEq, ih]

theorem mem_of_mem_splitOn (sep : UInt8) (l p : Bytes) (hp : p ∈ splitOn sep l) : ∀ b ∈ p, b ∈ l := by
  intro b hb
  have := (splitOn_spec sep l).2
  rw [this]
  simp only [List.mem_flatten]
  exact ⟨p, List.mem_intersperse_of_mem hp, hb⟩
where
  List.mem_intersperse_of_mem {α : Type} {a sepv : α} : ∀ {l : List α}, a ∈ l → a ∈ l.intersperse sepv
    | [x], h => by simpa using h
    | x :: y :: t, h => by
      rw [List.intersperse_cons₂]
      simp only [List.mem_cons] at h ⊢
      rcases h with rfl | h
      · exact Or.inl rfl
      · exact Or.inr (Or.inr (List.mem_intersperse_of_mem (by simpa using h)))

def segsM (v : Bytes) : List Bytes := ((splitOn 59 v).map trimWs).filter (· ≠ [])
def segsS (v : Bytes) : List Bytes := ((splitOn 59 v).map Rfc6265.trim).filter (· ≠ [])

theorem segs_eq (v : Bytes) (h : Plain v) : segsM v = segsS v := by
  unfold segsM segsS
  congr 1
  apply List.map_congr_left
  intro p hp
  exact trimWs_eq_trim p (fun b hb => h b (mem_of_mem_splitOn 59 v p hp b hb))

def step (m : List (Bytes × Bytes)) (seg : Bytes) : Option (List (Bytes × Bytes)) :=
  (Rfc6265.cutEq seg).map fun p => cookieInsert m p.1 p.2

theorem parseCookieValue_eq (m : List (Bytes × Bytes)) (v : Bytes) :
    parseCookieValue m v = (segsM v).foldlM step m := by
  unfold parseCookieValue segsM step
  congr 1
  funext m seg
  rw [splitFirstEq_eq_cutEq]

theorem foldlM_step (segs : List Bytes) (m : List (Bytes × Bytes)) :
    segs.foldlM step m = (segs.mapM Rfc6265.cutEq).map (fun ps => ps.foldl (fun m p => cookieInsert m p.1 p.2) m) := by
  induction segs generalizing m with
  | nil => simp
  | cons s t ih =>
    simp only [List.foldlM_cons, List.mapM_cons, step]
    cases hc : Rfc6265.cutEq s with
    | none => simp
    | some p =>
      simp only [Option.map_some, Option.bind_eq_bind, Option.bind_some]
      rw [ih]
      cases List.mapM Rfc6265.cutEq t <;> simp

theorem foldlM_values (values : List Bytes) (m : List (Bytes × Bytes)) :
    values.foldlM parseCookieValue m = (values.flatMap segsM).foldlM step m := by
  induction values generalizing m with
  | nil => simp
  | cons v vs ih =>
    simp only [List.foldlM_cons, List.flatMap_cons, List.foldlM_append, parseCookieValue_eq]
    cases h : List.foldlM step m (segsM v) with
    | none => simp
    | some m' => simp [ih]

theorem lookup_insert (m : List (Bytes × Bytes)) (k v n : Bytes) :
    mapLookup (cookieInsert m k v) n = if n == k then some v else mapLookup m n := by
  unfold cookieInsert mapLookup
  by_cases hany : m.any (·.1 == k) = true
  · simp only [hany, if_true]
    induction m with
    | nil => simp at hany
    | cons x t ih =>
      simp only [List.map_cons, List.find?_cons]
      by_cases hx : (x.1 == k) = true
      · have hxk : x.1 = k := by simpa using hx
        simp only [hx, if_true]
        by_cases hn : (n == k) = true
        · have : n = k := by simpa using hn
          subst this; simp
        · have hkn : (k == n) = false := by
            cases hkn : k == n with
            | false => rfl
            | true => exfalso; apply hn; have : k = n := by simpa using hkn
                      simp [this]
          have hxn : (x.1 == n) = false := by rw [hxk]; exact hkn
          simp only [hkn, hn, Bool.false_eq_true, if_false, hxn]
          by_cases hany' : t.any (·.1 == k) = true
          · have := ih hany'
            simp only [hn, Bool.false_eq_true, if_false] at this
            exact this
          · have hmap : t.map (fun p => if (p.1 == k) = true then (k, v) else p) = t := by
              have hc : t.map (fun p => if (p.1 == k) = true then (k, v) else p) = t.map id := by
                apply List.map_congr_left
                intro p hp
                have : (p.1 == k) = false := by
                  cases hpk : p.1 == k with
                  | false => rfl
                  | true => exfalso; apply hany'; simp only [List.any_eq_true]; exact ⟨p, hp, hpk⟩
                simp [this]
              rw [hc, List.map_id]
            rw [hmap]
      · have hx' : (x.1 == k) = false := by simpa using hx
        simp only [hx', Bool.false_eq_true, if_false]
        have hany' : t.any (·.1 == k) = true := by simpa [hx'] using hany
        by_cases hxn : (x.1 == n) = true
        · have : n ≠ k := by
            intro c; subst c; rw [hxn] at hx'; cases hx'
          have hn : (n == k) = false := by simpa using this
          simp [hxn, hn]
        · simp only [hxn, Bool.false_eq_true, if_false]
          exact ih hany'
  · simp only [hany, Bool.false_eq_true, if_false, List.find?_append]
    by_cases hn : (n == k) = true
    · have : n = k := by simpa using hn
      subst this
      have : m.find? (·.1 == n) = none := by
        rw [List.find?_eq_none]
        intro p hp hc
        apply hany; simp only [List.any_eq_true]; exact ⟨p, hp, hc⟩
      simp [this]
    · have hkn : (k == n) = false := by
        cases hkn : k == n with
        | false => rfl
        | true => exfalso; apply hn; have : k = n := by simpa using hkn
                  simp [this]
      simp only [hn, Bool.false_eq_true, if_false]
      cases m.find? (·.1 == n) <;> simp [hkn]

theorem lookup_foldl (ps m : List (Bytes × Bytes)) (n : Bytes) :
    mapLookup (ps.foldl (fun m p => cookieInsert m p.1 p.2) m) n =
      match Rfc6265.lookup ps n with
      | some v => some v
      | none => mapLookup m n := by
  induction ps generalizing m with
  | nil => simp [Rfc6265.lookup]
  | cons p rest ih =>
    simp only [List.foldl_cons]
    rw [ih]
    unfold Rfc6265.lookup
    simp only [List.reverse_cons, List.find?_append]
    cases hf : rest.reverse.find? (·.1 == n) with
    | some q => simp
    | none =>
      simp only [Option.none_or, Option.map_none, List.find?_cons, List.find?_nil]
      rw [lookup_insert]
      by_cases hp : (p.1 == n) = true
      · have : p.1 = n := by simpa using hp
        simp [hp, this]
      · have hnp : (n == p.1) = false := by
          cases h : n == p.1 with
          | false => rfl
          | true => exfalso; apply hp; have : n = p.1 := by simpa using h
                    simp [this]
        simp [hp, hnp]

theorem flatMap_segs (values : List Bytes) (hp : ∀ v ∈ values, Plain v) :
    values.flatMap segsM = values.flatMap segsS := by
  induction values with
  | nil => rfl
  | cons v vs ih =>
    simp only [List.flatMap_cons]
    rw [segs_eq v (hp v (by simp)), ih (fun w hw => hp w (List.mem_cons_of_mem _ hw))]

/-- **Request cookies agree with RFC 6265.**  For every list of `Cookie` field values (in the order
    received): if some non-empty `;`-segment has no `=`, reading the request fails (→ 400
    `MalformedCookieHeader`, see C03's closed form); otherwise the map handed to the handler answers
    every name with the value of the *last* pair of that name, names and values split at the first
    `=`, surrounding blanks ignored. -/
theorem C15_request_cookies (values : List Bytes) (hp : ∀ v ∈ values, Plain v) :
    match Rfc6265.pairs values with
    | none => values.foldlM parseCookieValue [] = none
    | some ps => ∃ m, values.foldlM parseCookieValue [] = some m ∧ ∀ name, mapLookup m name = Rfc6265.lookup ps name := by
  have hsegs : values.flatMap segsM = values.flatMap segsS := flatMap_segs values hp
  rw [foldlM_values, foldlM_step, hsegs]
  have : Rfc6265.pairs values = (values.flatMap segsS).mapM Rfc6265.cutEq := rfl
  rw [this]
  cases (values.flatMap segsS).mapM Rfc6265.cutEq with
  | none => simp
  | some ps =>
    refine ⟨_, rfl, fun name => ?_⟩
    rw [lookup_foldl]
    cases Rfc6265.lookup ps name <;> simp [mapLookup]

/-! ### Response side: Set-Cookie read back by the RFC 6265 §5.2 algorithm -/

open Rfc6265 in
/-- RFC-valid components (explicit, decidable): no `;` anywhere, no `=` in the name, nothing that
    the client-side algorithm would strip or rewrite (surrounding blanks, a leading dot or upper
    case in the domain), path starting with `/`. -/
structure WfCookie (c : Cookie) : Prop where
  name_ne : c.name ≠ []
  name_semi : ∀ b ∈ c.name, b ≠ 59
  name_eq : ∀ b ∈ c.name, b ≠ 61
  name_trim : trim c.name = c.name
  value_semi : ∀ b ∈ c.value, b ≠ 59
  value_trim : trim c.value = c.value
  domain_ok : c.domain = [] ∨ ((∀ b ∈ c.domain, b ≠ 59) ∧ trim c.domain = c.domain ∧
    c.domain.head? ≠ some 46 ∧ lower c.domain = c.domain)
  path_ok : c.path = [] ∨ ((∀ b ∈ c.path, b ≠ 59) ∧ trim c.path = c.path ∧ c.path.head? = some 47)
  expires_ok : ∀ e, c.expires = some e → ∀ b ∈ e, b ≠ 59

theorem split_render (p : Bytes) (as : List Bytes) (hp : ∀ b ∈ p, b ≠ 59) (ha : ∀ a ∈ as, ∀ b ∈ a, b ≠ 59) :
    splitOn 59 (p ++ (as.map fun a => b!"; " ++ a).flatten) = p :: as.map (32 :: ·) := by
  induction as generalizing p with
  | nil => simp [splitOn_no_sep 59 p hp]
  | cons a t ih =>
    simp only [List.map_cons, List.flatten_cons, List.cons_append, List.nil_append]
    rw [splitOn_append_sep 59 p _ hp]
    have := ih (32 :: a) (by
      intro b hb
      simp only [List.mem_cons] at hb
      rcases hb with rfl | hb
      · decide
      · exact ha a (by simp) b hb) (fun x hx => ha x (List.mem_cons_of_mem _ hx))
    simp only [List.cons_append, List.nil_append] at this ⊢
    rw [this]

theorem cutEq_pair (n v : Bytes) (hn : ∀ b ∈ n, b ≠ 61) : Rfc6265.cutEq (n ++ 61 :: v) = some (n, v) := by
  induction n with
  | nil => simp [Rfc6265.cutEq]
  | cons x t ih =>
    have hx := hn x (by simp)
    simp [Rfc6265.cutEq, hx, ih (fun b hb => hn b (List.mem_cons_of_mem _ hb))]

theorem digit_byte : ∀ k, k < 10 → (48 + k.toUInt8 : UInt8).toNat = 48 + k ∧ Rfc6265.isDigit (48 + k.toUInt8) = true ∧
    Rfc6265.wsp (48 + k.toUInt8) = false ∧ (48 + k.toUInt8 : UInt8) ≠ 59 ∧ (48 + k.toUInt8 : UInt8) ≠ 45 := by decide

theorem decVal_append (a : Bytes) (d : UInt8) : Rfc6265.decVal (a ++ [d]) = Rfc6265.decVal a * 10 + (d.toNat - 48) := by
  simp [Rfc6265.decVal, List.foldl_append]

/-- Decimal rendering reads back: digits only, non-empty, value preserved. -/
theorem decimal_spec (n : Nat) :
    Rfc6265.decVal (decimal n) = n ∧ (decimal n) ≠ [] ∧ (∀ b ∈ decimal n, Rfc6265.isDigit b = true ∧ Rfc6265.wsp b = false ∧ b ≠ 59 ∧ b ≠ 45) := by
  fun_induction decimal n with
  | case1 n h =>
    have := digit_byte n h
    refine ⟨?_, by simp, ?_⟩
    · simp [Rfc6265.decVal, this.1]
    · intro b hb; simp only [List.mem_singleton] at hb; subst hb; exact ⟨this.2.1, this.2.2.1, this.2.2.2.1, this.2.2.2.2⟩
  | case2 n h ih =>
    have hd := digit_byte (n % 10) (by omega)
    obtain ⟨ih1, ih2, ih3⟩ := ih
    refine ⟨?_, by simp, ?_⟩
    · rw [decVal_append, ih1, hd.1]; omega
    · intro b hb
      simp only [List.mem_append, List.mem_singleton] at hb
      rcases hb with hb | rfl
      · exact ih3 b hb
      · exact ⟨hd.2.1, hd.2.2.1, hd.2.2.2.1, hd.2.2.2.2⟩

theorem trim_no_wsp (s : Bytes) (h : ∀ b ∈ s, Rfc6265.wsp b = false) : Rfc6265.trim s = s := by
  unfold Rfc6265.trim
  have h1 : s.dropWhile Rfc6265.wsp = s := by
    cases s with
    | nil => rfl
    | cons x t => simp [List.dropWhile, h x (by simp)]
  rw [h1]
  have h2 : s.reverse.dropWhile Rfc6265.wsp = s.reverse := by
    cases hr : s.reverse with
    | nil => rfl
    | cons x t =>
      have : x ∈ s := by rw [← List.mem_reverse, hr]; simp
      simp [List.dropWhile, h x this]
  rw [h2, List.reverse_reverse]

open Rfc6265 in
theorem attr_domain (s : SetCookie) (d : Bytes) (hne : d ≠ []) (ht : trim d = d) (hdot : d.head? ≠ some 46)
    (hl : lower d = d) : applyAttr s (32 :: (b!"Domain=" ++ d)) = { s with domain := some d } := by
  have hc : cutEq (32 :: (b!"Domain=" ++ d)) = some (b!" Domain", d) := by simp [cutEq]
  have h1 : lower (trim (b!" Domain")) = b!"domain" := by decide
  unfold applyAttr
  simp only [hc, h1, ht]
  simp [hne, hdot, hl]

open Rfc6265 in
theorem attr_path (s : SetCookie) (p : Bytes) (ht : trim p = p) (hh : p.head? = some 47) :
    applyAttr s (32 :: (b!"Path=" ++ p)) = { s with path := some p } := by
  have hc : cutEq (32 :: (b!"Path=" ++ p)) = some (b!" Path", p) := by simp [cutEq]
  have h1 : lower (trim (b!" Path")) = b!"path" := by decide
  unfold applyAttr
  simp only [hc, h1, ht]
  have : ¬ ((b!"path" : Bytes) == b!"domain") = true := by decide
  simp [this, hh]

open Rfc6265 in
theorem attr_expires (s : SetCookie) (e : Bytes) : applyAttr s (32 :: (b!"Expires=" ++ e)) = s := by
  have hc : cutEq (32 :: (b!"Expires=" ++ e)) = some (b!" Expires", e) := by simp [cutEq]
  have h1 : lower (trim (b!" Expires")) = b!"expires" := by decide
  unfold applyAttr
  simp only [hc, h1]
  have hx : ∀ t : Bytes, t ∈ [b!"domain", b!"path", b!"max-age", b!"secure", b!"httponly", b!"samesite"] →
      ((b!"expires" : Bytes) == t) = false := by decide
  simp [hx]

open Rfc6265 in
theorem attr_maxage (s : SetCookie) (n : Nat) :
    applyAttr s (32 :: (b!"Max-Age=" ++ decimal n)) = { s with maxAge := some (n : Int) } := by
  have hc : cutEq (32 :: (b!"Max-Age=" ++ decimal n)) = some (b!" Max-Age", decimal n) := by simp [cutEq]
  have h1 : lower (trim (b!" Max-Age")) = b!"max-age" := by decide
  obtain ⟨hv, hne, hall⟩ := decimal_spec n
  have ht : trim (decimal n) = decimal n := trim_no_wsp _ (fun b hb => (hall b hb).2.1)
  unfold applyAttr
  simp only [hc, h1, ht]
  have hx : ((b!"max-age" : Bytes) == b!"domain") = false ∧ ((b!"max-age" : Bytes) == b!"path") = false := by decide
  simp only [hx.1, hx.2, Bool.false_eq_true, if_false, beq_self_eq_true, if_true]
  cases hd : decimal n with
  | nil => exact absurd hd hne
  | cons f r =>
    have hf := hall f (by rw [hd]; simp)
    have hr : r.all Rfc6265.isDigit = true := by
      simp only [List.all_eq_true]; intro b hb; exact (hall b (by rw [hd]; simp [hb])).1
    have hf45 : (f == 45) = false := by simpa using hf.2.2.2
    simp only [hf.1, hr, Bool.true_or, Bool.and_self, if_true, hf45, Bool.false_eq_true, if_false]
    rw [← hd, hv]

open Rfc6265 in
theorem attr_flags (s : SetCookie) :
    applyAttr s (b!" HttpOnly") = { s with httpOnly := true } ∧
    applyAttr s (b!" Secure") = { s with secure := true } ∧
    applyAttr s (b!" SameSite=Strict") = { s with sameSite := some (b!"strict") } ∧
    applyAttr s (b!" SameSite=Lax") = { s with sameSite := some (b!"lax") } ∧
    applyAttr s (b!" SameSite=None") = { s with sameSite := some (b!"none") } := by
  refine ⟨?_, ?_, ?_, ?_, ?_⟩ <;> rfl

/-- What a client must read back. -/
def expected (c : Cookie) : Rfc6265.SetCookie :=
  { name := c.name, value := c.value,
    domain := if c.domain = [] then none else some c.domain,
    path := if c.path = [] then none else some c.path,
    maxAge := if c.maxAge > 0 ∨ c.maxAgeSubsec = true then some (c.maxAge : Int) else none,
    secure := c.secure, httpOnly := c.httpOnly,
    sameSite := some (match c.sameSite with | .strict => b!"strict" | .lax => b!"lax" | .none => b!"none") }

theorem foldl_opt {σ : Type} (f : σ → Bytes → σ) (s : σ) (cond : Prop) [Decidable cond] (x : Bytes) :
    ((if cond then [x] else []).map (32 :: ·)).foldl f s = if cond then f s (32 :: x) else s := by
  split <;> simp

theorem attrs_no_semi (c : Cookie) (h : WfCookie c) : ∀ a ∈ attrs c, ∀ b ∈ a, b ≠ 59 := by
  intro a ha b hb
  unfold attrs at ha
  simp only [List.mem_append, List.mem_singleton] at ha
  have lit : ∀ (l : Bytes), l ∈ [b!"Domain=", b!"Expires=", b!"HttpOnly", b!"Max-Age=", b!"Path=",
      b!"SameSite=Strict", b!"SameSite=Lax", b!"SameSite=None", b!"Secure"] → ∀ x ∈ l, x ≠ 59 := by decide
  rcases ha with ((((((ha | ha) | ha) | ha) | ha) | ha) | ha)
  · split at ha
    · simp only [List.mem_singleton] at ha; subst ha
      simp only [List.mem_append] at hb
      rcases hb with hb | hb
      · exact lit _ (by simp) b hb
      · rcases h.domain_ok with hd | hd
        · rw [hd] at hb; simp at hb
        · exact hd.1 b hb
    · simp at ha
  · split at ha
    · next e he =>
      simp only [List.mem_singleton] at ha; subst ha
      simp only [List.mem_append] at hb
      rcases hb with hb | hb
      · exact lit _ (by simp) b hb
      · exact h.expires_ok e he b hb
    · simp at ha
  · split at ha
    · simp only [List.mem_singleton] at ha; subst ha; exact lit _ (by simp) b hb
    · simp at ha
  · split at ha
    · simp only [List.mem_singleton] at ha; subst ha
      simp only [List.mem_append] at hb
      rcases hb with hb | hb
      · exact lit _ (by simp) b hb
      · exact ((decimal_spec c.maxAge).2.2 b hb).2.2.1
    · simp at ha
  · split at ha
    · simp only [List.mem_singleton] at ha; subst ha
      simp only [List.mem_append] at hb
      rcases hb with hb | hb
      · exact lit _ (by simp) b hb
      · rcases h.path_ok with hd | hd
        · rw [hd] at hb; simp at hb
        · exact hd.1 b hb
    · simp at ha
  · subst ha
    generalize c.sameSite = ss at hb
    cases ss <;> exact lit _ (by simp) b hb
  · split at ha
    · simp only [List.mem_singleton] at ha; subst ha; exact lit _ (by simp) b hb
    · simp at ha

/-- **Set-Cookie round trip.**  For every cookie built from RFC-valid components, the RFC 6265 §5.2
    client algorithm applied to the emitted field value reads back the same name, value, Domain,
    Path, Max-Age (whole seconds; absent when the duration is zero), Secure, HttpOnly and SameSite;
    an `Expires` attribute, when present, does not disturb any of them. -/
theorem C15_set_cookie_roundtrip (c : Cookie) (h : WfCookie c) :
    Rfc6265.parseSetCookie (render c) = some (expected c) := by
  unfold Rfc6265.parseSetCookie render
  have hp : ∀ b ∈ c.name ++ [61] ++ c.value, b ≠ 59 := by
    intro b hb
    simp only [List.mem_append, List.mem_singleton] at hb
    rcases hb with (hb | rfl) | hb
    · exact h.name_semi b hb
    · decide
    · exact h.value_semi b hb
  rw [split_render _ _ hp (attrs_no_semi c h)]
  have hcut : Rfc6265.cutEq (c.name ++ [61] ++ c.value) = some (c.name, c.value) := by
    have := cutEq_pair c.name c.value h.name_eq
    simpa using this
  simp only [hcut, h.name_trim, h.value_trim, h.name_ne, if_false]
  congr 1
  -- the attribute list, case by case
  have hdom : c.domain = [] ∨ (c.domain ≠ [] ∧ Rfc6265.trim c.domain = c.domain ∧ c.domain.head? ≠ some 46 ∧
      Rfc6265.lower c.domain = c.domain) := by
    by_cases hd : c.domain = []
    · exact Or.inl hd
    · rcases h.domain_ok with hd' | ⟨_, h2, h3, h4⟩
      · exact absurd hd' hd
      · exact Or.inr ⟨hd, h2, h3, h4⟩
  have hpath : c.path = [] ∨ (c.path ≠ [] ∧ Rfc6265.trim c.path = c.path ∧ c.path.head? = some 47) := by
    by_cases hd : c.path = []
    · exact Or.inl hd
    · rcases h.path_ok with hd' | ⟨_, h2, h3⟩
      · exact absurd hd' hd
      · exact Or.inr ⟨hd, h2, h3⟩
  unfold attrs expected
  rcases hdom with hd | ⟨hd, hd2, hd3, hd4⟩ <;> rcases hpath with hp' | ⟨hp', hp2, hp3⟩
  ·
    cases hce : c.expires <;> cases hss : c.sameSite <;> cases hh : c.httpOnly <;> cases hsec : c.secure <;>
      by_cases hm : (c.maxAge > 0 ∨ c.maxAgeSubsec = true) <;>
      simp only [hd, hp', hm, ne_eq, not_true_eq_false, not_false_eq_true, if_true, if_false, List.append_nil,
        List.nil_append, List.map_append, List.map_cons, List.map_nil, List.foldl_append, List.foldl_cons,
        List.foldl_nil, Bool.false_eq_true] <;>
      simp only [attr_expires, attr_maxage,
        (attr_flags _).1, (attr_flags _).2.1, (attr_flags _).2.2.1, (attr_flags _).2.2.2.1, (attr_flags _).2.2.2.2]
  ·
    cases hce : c.expires <;> cases hss : c.sameSite <;> cases hh : c.httpOnly <;> cases hsec : c.secure <;>
      by_cases hm : (c.maxAge > 0 ∨ c.maxAgeSubsec = true) <;>
      simp only [hd, hp', hm, ne_eq, not_true_eq_false, not_false_eq_true, if_true, if_false, List.append_nil,
        List.nil_append, List.map_append, List.map_cons, List.map_nil, List.foldl_append, List.foldl_cons,
        List.foldl_nil, Bool.false_eq_true] <;>
      simp only [attr_path _ _ hp2 hp3, attr_expires, attr_maxage,
        (attr_flags _).1, (attr_flags _).2.1, (attr_flags _).2.2.1, (attr_flags _).2.2.2.1, (attr_flags _).2.2.2.2]
  ·
    cases hce : c.expires <;> cases hss : c.sameSite <;> cases hh : c.httpOnly <;> cases hsec : c.secure <;>
      by_cases hm : (c.maxAge > 0 ∨ c.maxAgeSubsec = true) <;>
      simp only [hd, hp', hm, ne_eq, not_true_eq_false, not_false_eq_true, if_true, if_false, List.append_nil,
        List.nil_append, List.map_append, List.map_cons, List.map_nil, List.foldl_append, List.foldl_cons,
        List.foldl_nil, Bool.false_eq_true] <;>
      simp only [attr_domain _ _ hd hd2 hd3 hd4, attr_expires, attr_maxage,
        (attr_flags _).1, (attr_flags _).2.1, (attr_flags _).2.2.1, (attr_flags _).2.2.2.1, (attr_flags _).2.2.2.2]
  ·
    cases hce : c.expires <;> cases hss : c.sameSite <;> cases hh : c.httpOnly <;> cases hsec : c.secure <;>
      by_cases hm : (c.maxAge > 0 ∨ c.maxAgeSubsec = true) <;>
      simp only [hd, hp', hm, ne_eq, not_true_eq_false, not_false_eq_true, if_true, if_false, List.append_nil,
        List.nil_append, List.map_append, List.map_cons, List.map_nil, List.foldl_append, List.foldl_cons,
        List.foldl_nil, Bool.false_eq_true] <;>
      simp only [attr_domain _ _ hd hd2 hd3 hd4, attr_path _ _ hp2 hp3, attr_expires, attr_maxage,
        (attr_flags _).1, (attr_flags _).2.1, (attr_flags _).2.2.1, (attr_flags _).2.2.2.1, (attr_flags _).2.2.2.2]

/-- `with_set_cookie` adds exactly one `set-cookie` field per cookie, after the existing fields. -/
theorem C15_one_field_per_cookie (hs : HeaderList) (c : Cookie) :
    Headers.add hs (b!"set-cookie") (render c) = hs ++ [⟨b!"set-cookie", render c⟩] := rfl

/-- Non-vacuity: a cookie with every attribute set satisfies the well-formedness predicate. -/
def sampleCookie : Cookie :=
  { name := b!"SID", value := b!"a=b==", domain := b!"a.example.org", path := b!"/x?y=1",
    maxAge := 3600, sameSite := .lax, expires := some (b!"2023-11-14T22:13:20Z") }

example : WfCookie sampleCookie := by
  constructor <;> first | decide | (right; decide) | (intro e he; cases he; decide)

end C15
end Servlin
