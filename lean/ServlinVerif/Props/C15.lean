import ServlinVerif.Model.Cookie
import ServlinVerif.Spec.Rfc6265
import ServlinVerif.Lemmas.Split
/-
  C15 — cookies: request parsing and Set-Cookie formatting agree with RFC 6265.
-/
namespace Servlin
namespace C15
open RequestModel CookieModel

/-! ### Request side -/

/-- The handler's view of the cookie map built by the model: the value stored under `name`. -/
def mapLookup (m : List (Bytes × Bytes)) (name : Bytes) : Option Bytes := (m.find? (·.1 == name)).map (·.2)

/-- No vertical tab / form feed / CR / LF (where Rust's `trim` and RFC blanks differ). -/
def Plain (v : Bytes) : Prop := ∀ b ∈ v, b ≠ 10 ∧ b ≠ 11 ∧ b ≠ 12 ∧ b ≠ 13

theorem trimStartWs_eq (s : Bytes) : trimStartWs s = s.dropWhile isAsciiWs := by
  induction s with
  | nil => rfl
  | cons b t ih => simp only [trimStartWs, List.dropWhile, ih]; split <;> simp_all

theorem dropWhile_congr (p q : UInt8 → Bool) (s : Bytes) (h : ∀ b ∈ s, p b = q b) :
    s.dropWhile p = s.dropWhile q := by
  induction s with
  | nil => rfl
  | cons b t ih =>
    have hb := h b (by simp)
    simp only [List.dropWhile, hb]
    split
    · exact ih (fun x hx => h x (List.mem_cons_of_mem _ hx))
    · rfl

theorem ws_eq_wsp (b : UInt8) (h : b ≠ 10 ∧ b ≠ 11 ∧ b ≠ 12 ∧ b ≠ 13) : isAsciiWs b = Rfc6265.wsp b := by
  obtain ⟨h1, h2, h3, h4⟩ := h
  unfold isAsciiWs Rfc6265.wsp
  by_cases e32 : b = 32
  · simp [e32]
  · by_cases e9 : b = 9
    · subst e9; decide
    · have : (9 ≤ b && b ≤ 13) = false := by
        cases hle : decide (9 ≤ b) <;> cases hle2 : decide (b ≤ 13) <;> simp_all
        have := UInt8.le_iff_toNat_le.mp hle
        have := UInt8.le_iff_toNat_le.mp hle2
        have n9 : b.toNat ≠ 9 := fun c => e9 (UInt8.toNat_inj.mp (by simpa using c))
        have n10 : b.toNat ≠ 10 := fun c => h1 (UInt8.toNat_inj.mp (by simpa using c))
        have n11 : b.toNat ≠ 11 := fun c => h2 (UInt8.toNat_inj.mp (by simpa using c))
        have n12 : b.toNat ≠ 12 := fun c => h3 (UInt8.toNat_inj.mp (by simpa using c))
        have n13 : b.toNat ≠ 13 := fun c => h4 (UInt8.toNat_inj.mp (by simpa using c))
        simp at *
        omega
      simp [e32, e9, this]

theorem trimWs_eq_trim (s : Bytes) (h : Plain s) : trimWs s = Rfc6265.trim s := by
  unfold trimWs Rfc6265.trim
  rw [trimStartWs_eq, trimStartWs_eq]
  have h1 : s.dropWhile isAsciiWs = s.dropWhile Rfc6265.wsp := dropWhile_congr _ _ s (fun b hb => ws_eq_wsp b (h b hb))
  rw [h1]
  have hsub : ∀ b ∈ (s.dropWhile Rfc6265.wsp).reverse, b ∈ s := by
    intro b hb
    exact (List.dropWhile_sublist _).subset (List.mem_reverse.mp hb)
  rw [dropWhile_congr _ _ _ (fun b hb => ws_eq_wsp b (h b (hsub b hb)))]

theorem splitFirstEq_eq_cutEq (s : Bytes) : splitFirstEq s = Rfc6265.cutEq s := by
  induction s with
  | nil => rfl
  | cons b t ih => simp [splitFirstEq, Rfc6265.cutEq, ih]

theorem mem_of_mem_splitOn (sep : UInt8) (l p : Bytes) (hp : p ∈ splitOn sep l) : ∀ b ∈ p, b ∈ l := by
  intro b hb
  have := (splitOn_spec sep l).2
  rw [this]
  simp only [List.mem_flatten]
  exact ⟨p, List.mem_intersperse_of_mem hp, hb⟩
where
  List.mem_intersperse_of_mem {α : Type} {a sepv : α} : ∀ {l : List α}, a ∈ l → a ∈ l.intersperse sepv
    | [x], h => by simpa using h
    | x :: y :: t, h => by
      rw [List.intersperse_cons₂]
      simp only [List.mem_cons] at h ⊢
      rcases h with rfl | h
      · exact Or.inl rfl
      · exact Or.inr (Or.inr (List.mem_intersperse_of_mem (by simpa using h)))

def segsM (v : Bytes) : List Bytes := ((splitOn 59 v).map trimWs).filter (· ≠ [])
def segsS (v : Bytes) : List Bytes := ((splitOn 59 v).map Rfc6265.trim).filter (· ≠ [])

theorem segs_eq (v : Bytes) (h : Plain v) : segsM v = segsS v := by
  unfold segsM segsS
  congr 1
  apply List.map_congr_left
  intro p hp
  exact trimWs_eq_trim p (fun b hb => h b (mem_of_mem_splitOn 59 v p hp b hb))

def step (m : List (Bytes × Bytes)) (seg : Bytes) : Option (List (Bytes × Bytes)) :=
  (Rfc6265.cutEq seg).map fun p => cookieInsert m p.1 p.2

theorem parseCookieValue_eq (m : List (Bytes × Bytes)) (v : Bytes) :
    parseCookieValue m v = (segsM v).foldlM step m := by
  unfold parseCookieValue segsM step
  congr 1
  funext m seg
  rw [splitFirstEq_eq_cutEq]

theorem foldlM_step (segs : List Bytes) (m : List (Bytes × Bytes)) :
    segs.foldlM step m = (segs.mapM Rfc6265.cutEq).map (fun ps => ps.foldl (fun m p => cookieInsert m p.1 p.2) m) := by
  induction segs generalizing m with
  | nil => simp
  | cons s t ih =>
    simp only [List.foldlM_cons, List.mapM_cons, step]
    cases hc : Rfc6265.cutEq s with
    | none => simp
    | some p =>
      simp only [Option.map_some, Option.bind_eq_bind, Option.bind_some]
      rw [ih]
      cases List.mapM Rfc6265.cutEq t <;> simp

theorem foldlM_values (values : List Bytes) (m : List (Bytes × Bytes)) :
    values.foldlM parseCookieValue m = (values.flatMap segsM).foldlM step m := by
  induction values generalizing m with
  | nil => simp
  | cons v vs ih =>
    simp only [List.foldlM_cons, List.flatMap_cons, List.foldlM_append, parseCookieValue_eq]
    cases h : List.foldlM step m (segsM v) with
    | none => simp
    | some m' => simp [ih]

theorem lookup_insert (m : List (Bytes × Bytes)) (k v n : Bytes) :
    mapLookup (cookieInsert m k v) n = if n == k then some v else mapLookup m n := by
  unfold cookieInsert mapLookup
  by_cases hany : m.any (·.1 == k) = true
  · simp only [hany, if_true]
    induction m with
    | nil => simp at hany
    | cons x t ih =>
      simp only [List.map_cons, List.find?_cons]
      by_cases hx : (x.1 == k) = true
      · have hxk : x.1 = k := by simpa using hx
        simp only [hx, if_true]
        by_cases hn : (n == k) = true
        · have : n = k := by simpa using hn
          subst this; simp
        · have hkn : (k == n) = false := by
            cases hkn : k == n with
            | false => rfl
            | true => exfalso; apply hn; have : k = n := by simpa using hkn
                      simp [this]
          have hxn : (x.1 == n) = false := by rw [hxk]; exact hkn
          simp only [hkn, hn, Bool.false_eq_true, if_false, hxn]
          by_cases hany' : t.any (·.1 == k) = true
          · have := ih hany'
            simp only [hn, Bool.false_eq_true, if_false] at this
            exact this
          · have hmap : t.map (fun p => if (p.1 == k) = true then (k, v) else p) = t := by
              have hc : t.map (fun p => if (p.1 == k) = true then (k, v) else p) = t.map id := by
                apply List.map_congr_left
                intro p hp
                have : (p.1 == k) = false := by
                  cases hpk : p.1 == k with
                  | false => rfl
                  | true => exfalso; apply hany'; simp only [List.any_eq_true]; exact ⟨p, hp, hpk⟩
                simp [this]
              rw [hc, List.map_id]
            rw [hmap]
      · have hx' : (x.1 == k) = false := by simpa using hx
        simp only [hx', Bool.false_eq_true, if_false]
        have hany' : t.any (·.1 == k) = true := by simpa [hx'] using hany
        by_cases hxn : (x.1 == n) = true
        · have : n ≠ k := by
            intro c; subst c; rw [hxn] at hx'; cases hx'
          have hn : (n == k) = false := by simpa using this
          simp [hxn, hn]
        · simp only [hxn, Bool.false_eq_true, if_false]
          exact ih hany'
  · simp only [hany, Bool.false_eq_true, if_false, List.find?_append]
    by_cases hn : (n == k) = true
    · have : n = k := by simpa using hn
      subst this
      have : m.find? (·.1 == n) = none := by
        rw [List.find?_eq_none]
        intro p hp hc
        apply hany; simp only [List.any_eq_true]; exact ⟨p, hp, hc⟩
      simp [this]
    · have hkn : (k == n) = false := by
        cases hkn : k == n with
        | false => rfl
        | true => exfalso; apply hn; have : k = n := by simpa using hkn
                  simp [this]
      simp only [hn, Bool.false_eq_true, if_false]
      cases m.find? (·.1 == n) <;> simp [hkn]

theorem lookup_foldl (ps m : List (Bytes × Bytes)) (n : Bytes) :
    mapLookup (ps.foldl (fun m p => cookieInsert m p.1 p.2) m) n =
      match Rfc6265.lookup ps n with
      | some v => some v
      | none => mapLookup m n := by
  induction ps generalizing m with
  | nil => simp [Rfc6265.lookup]
  | cons p rest ih =>
    simp only [List.foldl_cons]
    rw [ih]
    unfold Rfc6265.lookup
    simp only [List.reverse_cons, List.find?_append]
    cases hf : rest.reverse.find? (·.1 == n) with
    | some q => simp
    | none =>
      simp only [Option.none_or, Option.map_none, List.find?_cons, List.find?_nil]
      rw [lookup_insert]
      by_cases hp : (p.1 == n) = true
      · have : p.1 = n := by simpa using hp
        simp [hp, this]
      · have hnp : (n == p.1) = false := by
          cases h : n == p.1 with
          | false => rfl
          | true => exfalso; apply hp; have : n = p.1 := by simpa using h
                    simp [this]
        simp [hp, hnp]

theorem flatMap_segs (values : List Bytes) (hp : ∀ v ∈ values, Plain v) :
    values.flatMap segsM = values.flatMap segsS := by
  induction values with
  | nil => rfl
  | cons v vs ih =>
    simp only [List.flatMap_cons]
    rw [segs_eq v (hp v (by simp)), ih (fun w hw => hp w (List.mem_cons_of_mem _ hw))]

/-- **Request cookies agree with RFC 6265.**  For every list of `Cookie` field values (in the order
    received): if some non-empty `;`-segment has no `=`, reading the request fails (→ 400
    `MalformedCookieHeader`, see C03's closed form); otherwise the map handed to the handler answers
    every name with the value of the *last* pair of that name, names and values split at the first
    `=`, surrounding blanks ignored. -/
theorem C15_request_cookies (values : List Bytes) (hp : ∀ v ∈ values, Plain v) :
    match Rfc6265.pairs values with
    | none => values.foldlM parseCookieValue [] = none
    | some ps => ∃ m, values.foldlM parseCookieValue [] = some m ∧ ∀ name, mapLookup m name = Rfc6265.lookup ps name := by
  have hsegs : values.flatMap segsM = values.flatMap segsS := flatMap_segs values hp
  rw [foldlM_values, foldlM_step, hsegs]
  have : Rfc6265.pairs values = (values.flatMap segsS).mapM Rfc6265.cutEq := rfl
  rw [this]
  cases (values.flatMap segsS).mapM Rfc6265.cutEq with
  | none => simp
  | some ps =>
    refine ⟨_, rfl, fun name => ?_⟩
    rw [lookup_foldl]
    cases Rfc6265.lookup ps name <;> simp [mapLookup]

end C15
end Servlin
