import ServlinVerif.Model.Conn
/-
  C10 — upload temp files never outlive their request.   C09 — body size limits are exact.
-/
namespace Servlin
namespace C10
open ConnModel

/-- File ids are handed out in increasing order: every live file was created earlier. -/
def Fresh (c : Conn) : Prop := ∀ i ∈ c.live, i < c.created

/-- "Same files": an operation neither leaks nor forgets upload files. -/
def SameFiles (c c' : Conn) : Prop := c'.live = c.live ∧ c.created ≤ c'.created

theorem writeResponse_files (c : Conn) (r : Response) : (writeResponse c r).1.live = c.live ∧ (writeResponse c r).1.created = c.created := by
  unfold writeResponse
  cases c.ws
  · simp
  · cases (Serialize.intended false r (500 ≤ r.code && r.code ≤ 599)).2 <;> simp only [] <;>
      (repeat' split) <;> simp [shutdownWrite]
  · simp

theorem writeContinue_files (c : Conn) : (writeContinue c).1.live = c.live ∧ (writeContinue c).1.created = c.created := by
  unfold writeContinue
  cases c.ws
  · simp
  · exact writeResponse_files c _
  · simp

theorem readRequest_files (u : Bytes → Option Url) (c : Conn) :
    (readRequest u c).1.live = c.live ∧ (readRequest u c).1.created = c.created := by
  unfold readRequest
  cases c.ws
  · cases c.rs
    · simp only []; split <;> simp
    · simp
    · simp
  · simp
  · simp

theorem readBodyToVec_files (c : Conn) : (readBodyToVec c).1.live = c.live ∧ (readBodyToVec c).1.created = c.created := by
  unfold readBodyToVec
  cases c.rs with
  | head => simp
  | shutdown => simp
  | body len e ch g =>
    simp only
    split
    · simp
    · have hw := writeContinue_files c
      cases e
      · simp only [Bool.false_eq_true, if_false]
        cases len <;> simp only [] <;> (try split) <;> simp
      · simp only [if_true]
        cases hwc : (writeContinue c).2 with
        | error e => simp [hw]
        | ok u => cases len <;> simp only [] <;> (try split) <;> simp [hw]

theorem readBodyToVec_vec (c : Conn) (b : BodyVal) (h : (readBodyToVec c).2 = .ok b) : ∃ bs, b = .vec bs := by
  unfold readBodyToVec at h
  cases hrs : c.rs with
  | head => simp [hrs] at h
  | shutdown => simp [hrs] at h
  | body len e ch g =>
    simp only [hrs] at h
    by_cases hc : (ch || g) = true
    · simp [hc] at h
    · simp only [hc, Bool.false_eq_true, if_false] at h
      cases e
      · simp only [Bool.false_eq_true, if_false] at h
        cases len with
        | none =>
          simp only at h
          split at h
          · cases h
          · simp only [Except.ok.injEq] at h; exact ⟨_, h.symm⟩
        | some n =>
          simp only at h
          split at h
          · simp only [Except.ok.injEq] at h; exact ⟨_, h.symm⟩
          · cases h
      · simp only [if_true] at h
        cases hw : (writeContinue c).2 with
        | error e => simp [hw] at h
        | ok u =>
          simp only [hw] at h
          cases len with
          | none =>
            simp only at h
            split at h
            · cases h
            · simp only [Except.ok.injEq] at h; exact ⟨_, h.symm⟩
          | some n =>
            simp only at h
            split at h
            · simp only [Except.ok.injEq] at h; exact ⟨_, h.symm⟩
            · cases h

theorem filter_fresh (live : List Nat) (id : Nat) (h : ∀ i ∈ live, i < id) : (id :: live).filter (· ≠ id) = live := by
  simp only [List.filter_cons, ne_eq, not_true_eq_false, decide_false, Bool.false_eq_true, if_false]
  apply List.filter_eq_self.mpr
  intro i hi
  have := h i hi
  simp; omega

/-- Outcome shape of an operation that may create an upload file. -/
def UploadOutcome (c : Conn) (r : Conn × Except HttpError BodyVal) : Prop :=
  (∃ b, r.2 = .ok (.file c.created b) ∧ r.1.live = c.created :: c.live ∧ r.1.created = c.created + 1) ∨
  ((∃ e, r.2 = .error e) ∧ r.1.live = c.live ∧ c.created ≤ r.1.created)

theorem storeUpload_files (c : Conn) (fs : FsFault) (got : Bytes) (bad : Option HttpError) (hf : Fresh c) :
    UploadOutcome c (storeUpload c fs got bad) := by
  have hfl := filter_fresh c.live c.created hf
  unfold storeUpload UploadOutcome
  by_cases hcf : fs.createFails = true
  · simp [hcf]
  · simp only [hcf, Bool.false_eq_true, if_false, newFile, dropFile]
    by_cases hwf : (fs.writeFails && decide (got.length > 0)) = true
    · simp only [hwf, if_true]; right; exact ⟨⟨_, rfl⟩, hfl, by simp⟩
    · simp only [hwf, Bool.false_eq_true, if_false]
      cases bad with
      | some e => right; exact ⟨⟨_, rfl⟩, hfl, by simp⟩
      | none => left; exact ⟨got, rfl, rfl, rfl⟩

/-- **An upload either hands over exactly one new file (owned by the returned body) or leaves no
    trace in the cache directory** — for every client input (complete, truncated at any offset, over
    the limit), every limit and every file-system fault. -/
theorem readBodyToFile_files (c : Conn) (m : Nat) (fs : FsFault) (hf : Fresh c) :
    UploadOutcome c (readBodyToFile c m fs) := by
  unfold readBodyToFile
  cases hrs : c.rs with
  | head => right; exact ⟨⟨_, rfl⟩, rfl, Nat.le_refl _⟩
  | shutdown => right; exact ⟨⟨_, rfl⟩, rfl, Nat.le_refl _⟩
  | body len e ch g =>
    simp only
    by_cases hc : (ch || g) = true
    · simp only [hc, if_true]; right; exact ⟨⟨_, rfl⟩, rfl, Nat.le_refl _⟩
    · simp only [hc, Bool.false_eq_true, if_false]
      have hw := writeContinue_files c
      -- the connection after the optional interim response has the same files
      have key : ∀ (w1 : Conn) (w2 : Except HttpError Unit), w1.live = c.live → w1.created = c.created →
          ∀ (rs : ReadState) (inp got : Bytes) (bad : Option HttpError),
          UploadOutcome c (match w2 with
            | .error e => (w1, .error e)
            | .ok () => storeUpload { w1 with rs := rs, input := inp } fs got bad) := by
        intro w1 w2 hl hcr rs inp got bad
        cases w2 with
        | error e => right; exact ⟨⟨_, rfl⟩, hl, by simp only; omega⟩
        | ok u =>
          simp only
          have hf' : Fresh { w1 with rs := rs, input := inp } := by
            intro i hi; simp only at hi; rw [hl] at hi; simp only; rw [hcr]; exact hf i hi
          have := storeUpload_files { w1 with rs := rs, input := inp } fs got bad hf'
          unfold UploadOutcome at this ⊢
          simp only [hl, hcr] at this ⊢
          exact this
      cases len with
      | some n =>
        simp only
        by_cases hn : n > m
        · simp only [hn, if_true]; right; exact ⟨⟨_, rfl⟩, rfl, Nat.le_refl _⟩
        · simp only [hn, if_false]
          cases e
          · exact key c (.ok ()) rfl rfl _ _ _ _
          · exact key (writeContinue c).1 (writeContinue c).2 hw.1 hw.2 _ _ _ _
      | none =>
        simp only
        cases e
        · exact key c (.ok ()) rfl rfl _ _ _ _
        · exact key (writeContinue c).1 (writeContinue c).2 hw.1 hw.2 _ _ _ _

/-- The body value owns exactly the files that are live beyond those of `c0`. -/
def Owned (c0 c : Conn) (body : Option BodyVal) : Prop :=
  match body with
  | some (.file id _) => c.live = id :: c0.live ∧ id = c0.created ∧ c.created = c0.created + 1
  | _ => c.live = c0.live ∧ c0.created ≤ c.created

theorem firstCall_owned (legacy : Bool) (cfg : Cfg) (h : ReqView → HandlerOut) (c : Conn) (m : ReqMeta) (hf : Fresh c) :
    match (firstCall legacy cfg h c m).2.1 with
    | .error _ => (firstCall legacy cfg h c m).1.live = c.live ∧ c.created ≤ (firstCall legacy cfg h c m).1.created
    | .ok (body, _) => Owned c (firstCall legacy cfg h c m).1 body := by
  unfold firstCall
  simp only
  cases (asResponse (h ⟨m, none⟩)).kind with
  | normal => cases legacy <;> simp [Owned]
  | dropConnection => simp
  | getBodyAndReprocess mx =>
    simp only
    cases cfg.cacheDir with
    | false => simp
    | true =>
      simp only [Bool.not_true, Bool.false_eq_true, if_false]
      have := readBodyToFile_files c mx cfg.fs hf
      cases hb : readBodyToFile c mx cfg.fs with
      | mk c2 r =>
        rw [hb] at this
        unfold UploadOutcome at this
        simp only at this
        cases r with
        | error e =>
          rcases this with ⟨b, hr, _⟩ | ⟨_, hl, hc⟩
          · cases hr
          · simpa using ⟨hl, hc⟩
        | ok b =>
          rcases this with ⟨b', hr, hl, hc⟩ | ⟨⟨e, he⟩, _⟩
          · simp only [Except.ok.injEq] at hr; subst hr; simp [Owned, hl, hc]
          · cases he

theorem bodyStage_owned (legacy : Bool) (cfg : Cfg) (h : ReqView → HandlerOut) (c : Conn) (m : ReqMeta) (hf : Fresh c) :
    match (bodyStage legacy cfg h c m).2.1 with
    | .error _ => (bodyStage legacy cfg h c m).1.live = c.live ∧ c.created ≤ (bodyStage legacy cfg h c m).1.created
    | .ok (body, _) => Owned c (bodyStage legacy cfg h c m).1 body := by
  unfold bodyStage
  cases m.body with
  | empty => simp [Owned]
  | pendingUnknown => exact firstCall_owned legacy cfg h c m hf
  | pendingKnown n =>
    simp only
    by_cases hn : n ≤ cfg.smallBodyLen
    · simp only [hn, if_true]
      have hv := readBodyToVec_files c
      cases hb : readBodyToVec c with
      | mk c2 r =>
        rw [hb] at hv
        simp only at hv
        cases r with
        | error e => simpa using ⟨hv.1, Nat.le_of_eq hv.2.symm⟩
        | ok b =>
          obtain ⟨bs, rfl⟩ := readBodyToVec_vec c b (by rw [hb])
          simp only [Owned]
          exact ⟨hv.1, Nat.le_of_eq hv.2.symm⟩
    · simp only [hn, if_false]; exact firstCall_owned legacy cfg h c m hf

theorem finish_files (c0 c : Conn) (body : Option BodyVal) (resp : Response) (calls : List Call)
    (ho : Owned c0 c body) (hf : Fresh c0) :
    (finish c body resp calls).1.live = c0.live ∧ c0.created ≤ (finish c body resp calls).1.created := by
  have hdrop : ∀ c1 : Conn, c1.live = c.live → c1.created = c.created →
      (dropBody c1 body).live = c0.live ∧ c0.created ≤ (dropBody c1 body).created := by
    intro c1 hl hc
    unfold Owned at ho
    cases body with
    | none => simp only [dropBody]; rw [hl, hc]; exact ho
    | some b =>
      cases b with
      | vec bs => simp only [dropBody]; rw [hl, hc]; exact ho
      | file id bs =>
        simp only at ho
        simp only [dropBody, dropFile, hl, hc, ho.1, ho.2.1, ho.2.2]
        exact ⟨filter_fresh c0.live c0.created hf, by omega⟩
  unfold finish
  cases resp.kind with
  | dropConnection => exact hdrop c rfl rfl
  | getBodyAndReprocess mx => exact hdrop c rfl rfl
  | normal =>
    simp only
    have hw := writeResponse_files c resp
    split <;> exact hdrop _ hw.1 hw.2

/-- **No temp file outlives its exchange.**  For every connection state, client input (complete,
    truncated anywhere, over the limit), handler (normal, 5xx, drop, panic, fetch-again),
    configuration and file-system fault: after `handle_http_conn_once` the cache directory holds
    exactly the files it held before. -/
theorem C10_exchange_no_leak (legacy : Bool) (u : Bytes → Option Url) (cfg : Cfg) (h : ReqView → HandlerOut) (c : Conn)
    (hf : Fresh c) :
    (handleOnce legacy u cfg h c).1.live = c.live ∧ c.created ≤ (handleOnce legacy u cfg h c).1.created := by
  unfold handleOnce
  have hr := readRequest_files u c
  cases hrr : readRequest u c with
  | mk c1 r =>
    rw [hrr] at hr
    simp only at hr
    cases r with
    | error e => exact ⟨hr.1, Nat.le_of_eq hr.2.symm⟩
    | ok m =>
      simp only
      have hf1 : Fresh c1 := by intro i hi; rw [hr.1] at hi; rw [hr.2]; exact hf i hi
      have hs := bodyStage_owned legacy cfg h c1 m hf1
      cases hst : bodyStage legacy cfg h c1 m with
      | mk c2 rest =>
        cases rest with
        | mk res calls =>
          rw [hst] at hs
          simp only at hs
          cases res with
          | error e => simp only; rw [hs.1, hr.1]; exact ⟨rfl, by omega⟩
          | ok be =>
            obtain ⟨body, early⟩ := be
            simp only at hs
            cases early with
            | some resp =>
              have := finish_files c1 c2 body resp calls hs hf1
              simp only; rw [this.1, hr.1]; exact ⟨rfl, by omega⟩
            | none =>
              have := finish_files c1 c2 body (asResponse (h ⟨m, body⟩)) (calls ++ [⟨⟨m, body⟩, h ⟨m, body⟩⟩]) hs hf1
              simp only; rw [this.1, hr.1]; exact ⟨rfl, by omega⟩

theorem fresh_of_same (c c' : Conn) (hf : Fresh c) (hl : c'.live = c.live) (hc : c.created ≤ c'.created) : Fresh c' := by
  intro i hi; rw [hl] at hi; have := hf i hi; omega

/-- **After the connection's task ends, no upload file is left**: whatever the client sent, however
    the exchanges ended, the files live at the end of `handle_http_conn` are those that were live at
    its start (none, for a fresh connection). -/
theorem C10_no_leak (legacy : Bool) (u : Bytes → Option Url) (cfg : Cfg) (h : ReqView → HandlerOut) (fuel : Nat)
    (c : Conn) (calls : List Call) (hf : Fresh c) :
    (handleConn legacy u cfg h fuel c calls).1.live = c.live := by
  induction fuel generalizing c calls with
  | zero => rfl
  | succ n ih =>
    unfold handleConn
    by_cases hr : isReady c = true
    · simp only [hr, Bool.not_true, Bool.false_eq_true, if_false]
      have hx := C10_exchange_no_leak legacy u cfg h c hf
      cases hh : handleOnce legacy u cfg h c with
      | mk c1 rest =>
        cases rest with
        | mk res cs =>
          rw [hh] at hx
          simp only at hx
          cases res with
          | ok u1 =>
            simp only
            rw [ih c1 _ (fresh_of_same c c1 hf hx.1 hx.2), hx.1]
          | error e =>
            cases e <;> simp only [] <;>
              first
              | exact hx.1
              | exact (writeResponse_files c1 _).1.trans hx.1
    · simp [hr]

/-- Non-vacuity: a fresh connection satisfies the hypothesis. -/
example (inp : Bytes) : Fresh { input := inp } := by intro i hi; simp at hi

end C10
end Servlin
