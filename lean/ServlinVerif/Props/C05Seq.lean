import ServlinVerif.Props.C05
import ServlinVerif.Props.C01
/-
  C05 — statements over whole call sequences.

  * `C05_misuse_silent`: a call that is answered with one of the four protocol-misuse errors
    (`ResponseNotSent`, `BodyNotRead`, `ResponseAlreadySent`, `BodyNotAvailable`) leaves the whole
    connection — wire, read state, write state, unread input, files — exactly as it was; for every
    call, every state, every client input.
  * `C05_single_final`: over every sequence of calls on a fresh connection, the number of final
    (non-1xx) responses written never exceeds the number of requests taken on — a final response
    cannot be sent twice, and interim responses do not discharge the owed one.
  * `C05_auto_continue`: reading a body announced with `Expect: 100-continue` sends exactly one
    interim `100 Continue` first (and only while a response is owed); without `Expect` it sends nothing.
-/
namespace Servlin
namespace C05
open ConnModel Serialize RequestModel

/-- The documented protocol-misuse errors. -/
def Misuse (e : HttpError) : Prop :=
  e = .responseNotSent ∨ e = .bodyNotRead ∨ e = .responseAlreadySent ∨ e = .bodyNotAvailable

theorem headBytes_err_not_misuse (r : Response) (close : Bool) (e : HttpError)
    (h : headBytes false r close = .error e) : ¬ Misuse e := by
  intro hm
  unfold headBytes at h
  by_cases k : r.kind ≠ .normal
  · rw [if_pos k] at h; rcases hm with rfl | rfl | rfl | rfl <;> cases h
  · rw [if_neg k] at h
    by_cases c1 : (r.ctype.isSome && hasField false r.headers (b!"content-type")) = true
    · rw [if_pos c1] at h; rcases hm with rfl | rfl | rfl | rfl <;> cases h
    · rw [if_neg c1] at h
      by_cases c2 : hasField false r.headers (b!"content-length") = true <;>
        by_cases c3 : hasField false r.headers (b!"transfer-encoding") = true <;>
        cases hl : r.body.len <;> simp [hl, c2, c3] at h <;>
        (rcases hm with rfl | rfl | rfl | rfl <;> simp at h)

theorem bodyPhase_err_not_misuse (b : Body) (e : HttpError) (h : (bodyPhase b).2 = .error e) : ¬ Misuse e := by
  intro hm
  unfold bodyPhase at h
  cases hl : b.len with
  | none =>
    simp only [hl] at h
    by_cases ho : b.src.openFails = true
    · simp only [ho, if_true] at h; rcases hm with rfl | rfl | rfl | rfl <;> cases h
    · simp only [ho, Bool.false_eq_true, if_false] at h
      cases hc : (Chunked.copyChunked b.src).2 <;> simp only [hc] at h <;>
        (rcases hm with rfl | rfl | rfl | rfl <;> cases h)
  | some n =>
    cases n with
    | zero => simp [hl] at h
    | succ k =>
      simp only [hl] at h
      by_cases ho : b.src.openFails = true
      · simp only [ho, if_true] at h; rcases hm with rfl | rfl | rfl | rfl <;> cases h
      · simp only [ho, Bool.false_eq_true, if_false] at h
        by_cases ha : k + 1 ≤ b.src.pieces.flatten.length
        · rw [if_pos ha] at h; cases h
        · rw [if_neg ha] at h; rcases hm with rfl | rfl | rfl | rfl <;> cases h

theorem intended_err_not_misuse (r : Response) (close : Bool) (e : HttpError)
    (h : (intended false r close).2 = .error e) : ¬ Misuse e := by
  unfold intended at h
  cases hh : headBytes false r close with
  | error e' =>
    simp only [hh] at h
    cases h
    exact headBytes_err_not_misuse r close e hh
  | ok head =>
    simp only [hh] at h
    exact bodyPhase_err_not_misuse r.body e h

theorem writeResponse_misuse (c : Conn) (r : Response) (e : HttpError) (h : (writeResponse c r).2 = .error e)
    (hm : Misuse e) : (writeResponse c r).1 = c := by
  unfold writeResponse at h ⊢
  cases hws : c.ws with
  | none => rfl
  | shutdown => rfl
  | response =>
    simp only [hws] at h ⊢
    cases hi : (intended false r (decide (500 ≤ r.code) && decide (r.code ≤ 599))).2 with
    | ok u => simp [hi] at h
    | error e' =>
      simp only [hi] at h
      cases h
      exact absurd hm (intended_err_not_misuse r _ e hi)

theorem writeContinue_misuse (c : Conn) (e : HttpError) (h : (writeContinue c).2 = .error e) (hm : Misuse e) :
    (writeContinue c).1 = c := by
  unfold writeContinue at h ⊢
  cases hws : c.ws with
  | none => rfl
  | shutdown => rfl
  | response => simp only [hws] at h ⊢; exact writeResponse_misuse c _ e h hm

theorem storeUpload_not_misuse (c : Conn) (fs : FsFault) (got : Bytes) (bad : Option HttpError) (e : HttpError)
    (hb : ∀ b, bad = some b → ¬ Misuse b) (h : (storeUpload c fs got bad).2 = .error e) : ¬ Misuse e := by
  unfold storeUpload at h
  split at h
  · cases h; simp [Misuse]
  · split at h
    · cases h; simp [Misuse]
    · cases bad with
      | none => cases h
      | some b => simp only [Except.error.injEq] at h; subst h; exact hb b rfl

theorem store_res_not_misuse (c : Conn) (fs : FsFault) (got : Bytes) (bad : Option HttpError) (e : HttpError)
    (hb : ∀ b, bad = some b → ¬ Misuse b) (h : resOf (storeUpload c fs got bad).2 = .err e) : ¬ Misuse e := by
  cases hs : (storeUpload c fs got bad).2 with
  | ok b => simp [resOf, hs] at h
  | error e' =>
    simp only [resOf, hs, OpRes.err.injEq] at h; subst h
    exact storeUpload_not_misuse c fs got bad e' hb hs

theorem readRequestD_not_misuse (u : Bytes → Option Url) (all : Bytes) (e : HttpError)
    (h : (readRequestD false false u cap all).1 = .err e) : ¬ Misuse e := by
  rcases C01.C01_total u cap all with ⟨m, hm⟩ | ⟨e', he', hd⟩
  · rw [hm] at h; cases h
  · rw [he'] at h; cases h
    intro hmis
    rcases hmis with rfl | rfl | rfl | rfl <;> simp [C01.Documented] at hd

/-- **Misuse is silent.**  Whatever the call and the state: if the call is answered with one of the
    four protocol-misuse errors, the connection is exactly as before — nothing was written, read,
    consumed, created or changed. -/
theorem C05_misuse_silent (u : Bytes → Option Url) (c : Conn) (op : Op) (e : HttpError)
    (h : (step u c op).2 = .err e) (hm : Misuse e) : (step u c op).1 = c := by
  cases op with
  | shutdownWrite => simp [step] at h
  | writeResponse r =>
    simp only [step] at h ⊢
    cases hr : (writeResponse c r).2 with
    | ok v => simp [resOf, hr] at h
    | error e' => simp only [resOf, hr, OpRes.err.injEq] at h; subst h; exact writeResponse_misuse c r e' hr hm
  | writeContinue =>
    simp only [step] at h ⊢
    cases hr : (writeContinue c).2 with
    | ok v => simp [resOf, hr] at h
    | error e' => simp only [resOf, hr, OpRes.err.injEq] at h; subst h; exact writeContinue_misuse c e' hr hm
  | readRequest =>
    simp only [step] at h ⊢
    unfold readRequest at h ⊢
    cases hws : c.ws with
    | response => rfl
    | shutdown => rfl
    | none =>
      cases hrs : c.rs with
      | body l ex ch g => rfl
      | shutdown => rfl
      | head =>
        exfalso
        simp only [hws, hrs] at h
        cases hD : readRequestD false false u cap c.input with
        | mk out left =>
          simp only [hD] at h
          cases out with
          | ok m => simp [resOf] at h
          | panic =>
            simp only [resOf, OpRes.err.injEq] at h; subst h
            rcases hm with h | h | h | h <;> cases h
          | err e' =>
            simp only [resOf, OpRes.err.injEq] at h; subst h
            exact readRequestD_not_misuse u c.input e' (by rw [hD]) hm
  | readBodyToVec =>
    simp only [step] at h ⊢
    unfold readBodyToVec at h ⊢
    cases hrs : c.rs with
    | head => rfl
    | shutdown => rfl
    | body l ex ch g =>
      simp only [hrs] at h ⊢
      by_cases hc : (ch || g) = true
      · simp [hc]
      · simp only [hc, Bool.false_eq_true, if_false] at h ⊢
        cases ex with
        | false =>
          exfalso
          simp only [Bool.false_eq_true, if_false] at h
          cases l with
          | none =>
            simp only at h
            split at h
            · simp only [resOf, OpRes.err.injEq] at h; subst h
              rcases hm with h | h | h | h <;> cases h
            · simp [resOf] at h
          | some n =>
            simp only at h
            split at h
            · simp [resOf] at h
            · simp only [resOf, OpRes.err.injEq] at h; subst h
              rcases hm with h | h | h | h <;> cases h
        | true =>
          simp only [if_true] at h ⊢
          cases hw : (writeContinue c).2 with
          | error e' =>
            have : writeContinue c = ((writeContinue c).1, .error e') := by rw [← hw]
            rw [this] at h ⊢
            simp only [resOf, OpRes.err.injEq] at h; subst h
            simp only
            exact writeContinue_misuse c e' hw hm
          | ok v =>
            exfalso
            have : writeContinue c = ((writeContinue c).1, .ok v) := by rw [← hw]
            rw [this] at h
            cases l with
            | none =>
              simp only at h
              split at h
              · simp only [resOf, OpRes.err.injEq] at h; subst h
                rcases hm with h | h | h | h <;> cases h
              · simp [resOf] at h
            | some n =>
              simp only at h
              split at h
              · simp [resOf] at h
              · simp only [resOf, OpRes.err.injEq] at h; subst h
                rcases hm with h | h | h | h <;> cases h
  | readBodyToFile m fs =>
    simp only [step] at h ⊢
    unfold readBodyToFile at h ⊢
    cases hrs : c.rs with
    | head => rfl
    | shutdown => rfl
    | body l ex ch g =>
      simp only [hrs] at h ⊢
      by_cases hc : (ch || g) = true
      · simp [hc]
      · simp only [hc, Bool.false_eq_true, if_false] at h ⊢
        have hbadT : ∀ (k n : Nat) b, (if k < n then some HttpError.truncated else none) = some b → ¬ Misuse b := by
          intro k n b hb
          split at hb
          · cases hb; simp [Misuse]
          · cases hb
        have hbadL : ∀ (p : Prop) [Decidable p] (k n : Nat) b,
            (if p then some HttpError.truncated else if k < n then some HttpError.bodyTooLong else none) = some b → ¬ Misuse b := by
          intro p _ k n b hb
          by_cases hp : p
          · rw [if_pos hp] at hb; cases hb; simp [Misuse]
          · rw [if_neg hp] at hb
            split at hb
            · cases hb; simp [Misuse]
            · cases hb
        cases l with
        | some n =>
          simp only at h ⊢
          by_cases hn : n > m
          · simp only [hn, if_true, resOf, OpRes.err.injEq] at h; subst h
            rcases hm with h | h | h | h <;> cases h
          · simp only [hn, if_false] at h ⊢
            cases hw : (if ex = true then writeContinue c else (c, Except.ok ())).2 with
            | error e' =>
              simp only [hw, resOf, OpRes.err.injEq] at h ⊢; subst h
              cases ex with
              | false => simp at hw
              | true => simp only [if_true] at hw ⊢; exact writeContinue_misuse c e' hw hm
            | ok v =>
              exfalso
              simp only [hw] at h
              exact store_res_not_misuse _ _ _ _ e (hbadT _ _) h hm
        | none =>
          simp only at h ⊢
          cases hw : (if ex = true then writeContinue c else (c, Except.ok ())).2 with
          | error e' =>
            simp only [hw, resOf, OpRes.err.injEq] at h ⊢; subst h
            cases ex with
            | false => simp at hw
            | true => simp only [if_true] at hw ⊢; exact writeContinue_misuse c e' hw hm
          | ok v =>
            exfalso
            simp only [hw] at h
            exact store_res_not_misuse _ _ _ _ e (hbadL _ _ _) h hm

/-! ### At most one final response per request, over every call sequence -/

/-- A successful call that put a final (non-1xx) response on the wire. -/
def isFinal (op : Op) (res : OpRes) : Bool :=
  match op, res with
  | .writeResponse r, .ok => r.code / 100 != 1
  | _, _ => false

/-- A `read_request` that gets past the guards takes on the debt of one response (also when the
    request then turns out to be malformed: the error response is that response). -/
def takesOn (c : Conn) (op : Op) : Bool :=
  match op with
  | .readRequest => c.ws == .none && c.rs == .head
  | _ => false

/-- (final responses written, requests taken on) along a call sequence. -/
def tally (u : Bytes → Option Url) : Conn → List Op → Nat × Nat
  | _, [] => (0, 0)
  | c, op :: ops =>
    let r := step u c op
    let t := tally u r.1 ops
    ((if isFinal op r.2 then 1 else 0) + t.1, (if takesOn c op then 1 else 0) + t.2)

theorem storeUpload_ws (c : Conn) (fs : FsFault) (got : Bytes) (bad : Option HttpError) :
    (storeUpload c fs got bad).1.ws = c.ws := by
  unfold storeUpload
  split
  · rfl
  · simp only [newFile, dropFile]
    split
    · rfl
    · cases bad <;> rfl

theorem writeResponse_ws_of_not_owed (c : Conn) (r : Response) (h : c.ws ≠ .response) : (writeResponse c r).1 = c := by
  unfold writeResponse
  cases hws : c.ws with
  | none => rfl
  | shutdown => rfl
  | response => exact absurd hws h

theorem writeContinue_of_not_owed (c : Conn) (h : c.ws ≠ .response) : (writeContinue c).1 = c := by
  unfold writeContinue
  cases hws : c.ws with
  | none => rfl
  | shutdown => rfl
  | response => exact absurd hws h

/-- Only a `read_request` that gets past the guards makes a response owed. -/
theorem owed_only_by_read (u : Bytes → Option Url) (c : Conn) (op : Op) (h : c.ws ≠ .response)
    (ht : takesOn c op = false) : (step u c op).1.ws ≠ .response := by
  cases op with
  | shutdownWrite => simp [step, shutdownWrite]
  | writeResponse r => simp only [step]; rw [writeResponse_ws_of_not_owed c r h]; exact h
  | writeContinue => simp only [step]; rw [writeContinue_of_not_owed c h]; exact h
  | readRequest =>
    simp only [step]
    unfold readRequest
    cases hws : c.ws with
    | response => exact absurd hws h
    | shutdown => simp [hws]
    | none =>
      cases hrs : c.rs with
      | body l e ch g => simp [hws]
      | shutdown => simp [hws]
      | head => simp [takesOn, hws, hrs] at ht
  | readBodyToVec =>
    simp only [step]
    unfold readBodyToVec
    cases hrs : c.rs with
    | head => exact h
    | shutdown => exact h
    | body l e ch g =>
      simp only
      by_cases hc : (ch || g) = true
      · simp only [hc, if_true]; exact h
      · simp only [hc, Bool.false_eq_true, if_false]
        have hw := writeContinue_of_not_owed c h
        cases e with
        | false =>
          simp only [Bool.false_eq_true, if_false]
          cases l with
          | none => simp only; split <;> exact h
          | some n => simp only; split <;> exact h
        | true =>
          simp only [if_true]
          cases hr : (writeContinue c).2 with
          | error e' =>
            have : writeContinue c = (c, .error e') := Prod.ext hw hr
            rw [this]; exact h
          | ok v =>
            have : writeContinue c = (c, .ok v) := Prod.ext hw hr
            rw [this]
            cases l with
            | none => simp only; split <;> exact h
            | some n => simp only; split <;> exact h
  | readBodyToFile m fs =>
    simp only [step]
    unfold readBodyToFile
    cases hrs : c.rs with
    | head => exact h
    | shutdown => exact h
    | body l e ch g =>
      simp only
      by_cases hc : (ch || g) = true
      · simp only [hc, if_true]; exact h
      · simp only [hc, Bool.false_eq_true, if_false]
        have hw := writeContinue_of_not_owed c h
        have hw1 : (if e = true then writeContinue c else (c, Except.ok ())).1 = c := by
          cases e <;> simp [hw]
        cases l with
        | some n =>
          simp only
          by_cases hn : n > m
          · simp only [hn, if_true]; exact h
          · simp only [hn, if_false]
            cases hr : (if e = true then writeContinue c else (c, Except.ok ())).2 with
            | error e' => simp only [hw1]; exact h
            | ok v => simp only [storeUpload_ws, hw1]; exact h
        | none =>
          simp only
          cases hr : (if e = true then writeContinue c else (c, Except.ok ())).2 with
          | error e' => simp only [hw1]; exact h
          | ok v => simp only [storeUpload_ws, hw1]; exact h

/-- A successful final write needs an owed response and discharges it. -/
theorem final_discharges (u : Bytes → Option Url) (c : Conn) (op : Op) (h : isFinal op (step u c op).2 = true) :
    c.ws = .response ∧ (step u c op).1.ws ≠ .response := by
  cases op with
  | writeResponse r =>
    simp only [step, isFinal] at h ⊢
    cases hr : (writeResponse c r).2 with
    | error e => simp [resOf, hr] at h
    | ok v =>
      simp only [resOf, hr, bne_iff_ne, ne_eq] at h
      have hw : writeResponse c r = ((writeResponse c r).1, .ok ()) := by rw [← hr]
      obtain ⟨h1, _, h3⟩ := C05_write_effect c r _ hw
      refine ⟨h1, ?_⟩
      rw [h3]
      by_cases h5 : 500 ≤ r.code ∧ r.code ≤ 599
      · simp [h5]
      · simp [h5, h]
  | readRequest => simp [isFinal] at h
  | readBodyToVec => simp [isFinal] at h
  | readBodyToFile m fs => simp [isFinal] at h
  | writeContinue => simp [isFinal] at h
  | shutdownWrite => simp [isFinal] at h

theorem tally_le (u : Bytes → Option Url) (c : Conn) (ops : List Op) :
    (tally u c ops).1 ≤ (tally u c ops).2 + (if c.ws = .response then 1 else 0) := by
  induction ops generalizing c with
  | nil => simp [tally]
  | cons op ops ih =>
    have ih' := ih (step u c op).1
    simp only [tally]
    by_cases hf : isFinal op (step u c op).2 = true
    · obtain ⟨h1, h2⟩ := final_discharges u c op hf
      simp only [hf, if_true, h1, h2, if_false] at ih' ⊢
      omega
    · simp only [hf, Bool.false_eq_true, if_false] at ih' ⊢
      by_cases hw : c.ws = .response
      · simp only [hw, if_true]
        split at ih' <;> split <;> omega
      · by_cases ht : takesOn c op = true
        · simp only [ht, if_true, hw, if_false]
          split at ih' <;> omega
        · have := owed_only_by_read u c op hw (by simpa using ht)
          simp only [this, if_false] at ih'
          simp only [hw, if_false]
          split <;> omega

/-- **At most one final response per request.**  For every sequence of calls on a connection on which
    no response is owed at the start, and every client input: the number of final (non-1xx) responses
    successfully written never exceeds the number of requests taken on.  In particular a final
    response cannot be sent twice, and interim (1xx) responses — which are not counted — do not
    discharge the owed one (`C05_write_effect`). -/
theorem C05_single_final (u : Bytes → Option Url) (c : Conn) (ops : List Op) (h : c.ws ≠ .response) :
    (tally u c ops).1 ≤ (tally u c ops).2 := by
  have := tally_le u c ops
  simpa [h] using this

/-- Non-vacuity: one request, then two attempts to answer it: one final response is counted, the second attempt is
    refused. -/
example : tally (fun t => some ⟨t, none⟩) { input := b!"GET / HTTP/1.1\r\n\r\n" }
    [.readRequest, .writeResponse (Response.new 200), .writeResponse (Response.new 200)] = (1, 1) := by decide +kernel

/-! ### The automatic `100 Continue` -/

/-- The interim response as it appears on the wire. -/
def continueBytes : Bytes := (intended false (Response.new 100) false).1

/-- **Automatic 100-continue.**  Reading a body to memory: with `Expect: 100-continue` announced and
    a response owed, exactly the interim response is written, before anything is read; without the
    announcement nothing is written; and when no response is owed the read fails with
    `ResponseAlreadySent` and nothing is written either. -/
theorem C05_auto_continue (c : Conn) (l : Option Nat) (e : Bool) (hrs : c.rs = .body l e false false) :
    (e = false → (readBodyToVec c).1.wire = c.wire) ∧
    (e = true → c.ws = .response → (readBodyToVec c).1.wire = c.wire ++ continueBytes) ∧
    (e = true → c.ws = .none → readBodyToVec c = (c, .error .responseAlreadySent)) := by
  have hcont : (intended false ({ code := 100 } : Response) false).2 = .ok () := by rfl
  refine ⟨?_, ?_, ?_⟩
  · intro he
    subst he
    unfold readBodyToVec
    simp only [hrs, Bool.or_self, Bool.false_eq_true, if_false]
    cases l with
    | none => simp only; split <;> rfl
    | some n => simp only; split <;> rfl
  · intro he hws
    subst he
    have hwc : writeContinue c = ({ c with wire := c.wire ++ continueBytes }, .ok ()) := by
      unfold writeContinue writeResponse
      simp only [hws, Response.new]
      have h5 : (decide (500 ≤ 100) && decide (100 ≤ 599)) = false := by decide
      simp [continueBytes, Response.new, hcont, shutdownWrite]
    unfold readBodyToVec
    simp only [hrs, Bool.or_self, Bool.false_eq_true, if_false, if_true, hwc]
    cases l with
    | none => simp only; split <;> rfl
    | some n => simp only; split <;> rfl
  · intro he hws
    subst he
    unfold readBodyToVec
    simp only [hrs, Bool.or_self, Bool.false_eq_true, if_false, if_true, writeContinue, hws]

end C05
end Servlin
