import ServlinVerif.Model.Conn
/-
  C20 (server-caused errors map to a 500) for the one fault the connection model injects below the handler: the disk.
-/
namespace Servlin
namespace C20
open ConnModel HttpError

/-- A failure to create the upload's file, or to write to it, is reported as `ErrorSavingFile` whatever else is true of
    the upload — in particular a verdict about the client's bytes (`Truncated`, `BodyTooLong`) never replaces it — and
    `ErrorSavingFile` is a server error whose response is the constant 500. -/
theorem C20_disk_fault (c : Conn) (fs : FsFault) (got : Bytes) (bad : Option HttpError)
    (hw : fs.createFails = true ∨ (fs.writeFails = true ∧ got ≠ [])) :
    (storeUpload c fs got bad).2 = .error (.errorSavingFile "" []) ∧
    toResponse (.errorSavingFile "" []) = Response.text 500 (str "Internal server error") ∧
    isServerError (.errorSavingFile "" []) = true := by
  refine ⟨?_, rfl, rfl⟩
  rcases hw with hc | ⟨hw, hg⟩
  · simp [storeUpload, hc]
  · have hl : 0 < got.length := List.length_pos_iff.mpr hg
    by_cases hc : fs.createFails = true
    · simp [storeUpload, hc]
    · simp [storeUpload, hc, hw, hl]

/-- Non-vacuity: a 400 000-byte upload on a failing disk, with and without a verdict about the client's bytes. -/
example : (storeUpload { input := [] } { writeFails := true } (List.replicate 400000 102) (some .truncated)).2 = .error (.errorSavingFile "" []) :=
  (C20_disk_fault { input := [] } { writeFails := true } _ _ (Or.inr ⟨rfl, by rw [List.replicate_succ]; exact List.cons_ne_nil _ _⟩)).1

end C20
end Servlin
