import ServlinVerif.Model.LogFiles
/-
  C19 — file log writer: no loss or reordering across rotation; disk use bounded.

  Model: `Model/LogFiles.lean` (PrefixFileSet + the writer loop; files are (id, mtime, len), lines are
  event numbers).  Everything below is about the repaired code (`legacy = false`) except the
  `C19_legacy_*` witnesses, which replay the three defects of the pinned tree on the model.

  Hypothesis on the clock: the times at which events are handled never go backwards and are not earlier
  than the mtimes of the files found at start-up (`Sorted` / `t ≤ now`).  With equal mtimes a binary heap
  may pop either file; the statements below hold for the model's choice (the first).
-/
namespace Servlin
namespace LogFiles

def total (fs : List PFile) : Nat := (fs.map (·.len)).sum

def Sorted (fs : List PFile) : Prop := fs.Pairwise (fun a b => a.mtime ≤ b.mtime)

/-- The bookkeeping invariant of `PrefixFileSet`: the running total is the sum over the heap. -/
structure FileSet.WF (s : FileSet) : Prop where
  len_eq : s.len = total s.files
  sorted : Sorted s.files

@[simp] theorem total_nil : total [] = 0 := rfl
@[simp] theorem total_cons (f : PFile) (fs : List PFile) : total (f :: fs) = f.len + total fs := by
  simp [total]
@[simp] theorem total_append (a b : List PFile) : total (a ++ b) = total a + total b := by
  simp [total]

theorem oldestFrom_eq (a : PFile) (fs : List PFile) (h : ∀ g ∈ fs, a.mtime ≤ g.mtime) :
    oldestFrom a fs = a := by
  induction fs with
  | nil => rfl
  | cons f fs ih =>
    have hf : ¬ f.mtime < a.mtime := Nat.not_lt.mpr (h f (by simp))
    simp only [oldestFrom, hf, if_false]
    exact ih (fun g hg => h g (by simp [hg]))

theorem oldest_sorted (f : PFile) (fs : List PFile) (h : Sorted (f :: fs)) :
    oldest? (f :: fs) = some f := by
  have := (List.pairwise_cons.mp h).1
  simp [oldest?, oldestFrom_eq f fs this]

/-! ### Specifications of the two deletion loops -/

/-- Oldest-first trimming to a byte budget: drop from the front while the total is over `mx`. -/
def trimTo (mx : Nat) : List PFile → List PFile
  | [] => []
  | f :: fs => if total (f :: fs) > mx then trimTo mx fs else f :: fs

def trimDropped (mx : Nat) : List PFile → List Nat
  | [] => []
  | f :: fs => if total (f :: fs) > mx then f.id :: trimDropped mx fs else []

theorem trimTo_suffix (mx : Nat) (fs : List PFile) : trimTo mx fs <:+ fs := by
  induction fs with
  | nil => exact List.suffix_refl _
  | cons f fs ih =>
    unfold trimTo; split
    · exact List.IsSuffix.trans ih (List.suffix_cons f fs)
    · exact List.suffix_refl _

theorem trimTo_le (mx : Nat) (fs : List PFile) : total (trimTo mx fs) ≤ mx := by
  induction fs with
  | nil => simp [trimTo]
  | cons f fs ih =>
    unfold trimTo; split
    · exact ih
    · omega

/-- Nothing more than needed is deleted: every suffix that fits the budget survives entirely. -/
theorem trimTo_maximal (mx : Nat) (fs l : List PFile) (hl : l <:+ fs) (hfit : total l ≤ mx) :
    l <:+ trimTo mx fs := by
  induction fs with
  | nil => simpa [trimTo] using hl
  | cons f fs ih =>
    unfold trimTo; split
    · rename_i hover
      rcases List.suffix_cons_iff.mp hl with h | h
      · subst h; omega
      · exact ih h
    · exact hl

theorem trimTo_sorted (mx : Nat) (fs : List PFile) (h : Sorted fs) : Sorted (trimTo mx fs) :=
  List.Pairwise.sublist (trimTo_suffix mx fs).sublist h

theorem wf_tail {f : PFile} {fs : List PFile} {n : Nat} (hl : n = total (f :: fs)) (hs : Sorted (f :: fs)) :
    FileSet.WF { files := fs, len := n - f.len } :=
  ⟨by simp at hl; simp; omega, (List.pairwise_cons.mp hs).2⟩

theorem deleteOldest_cons (s : FileSet) (f : PFile) (fs : List PFile) (hw : s.WF) (hf : s.files = f :: fs) :
    deleteOldest false s = some ({ files := fs, len := s.len - f.len }, f.id) := by
  have hs := hw.sorted; rw [hf] at hs
  simp [deleteOldest, hf, oldest_sorted f fs hs]

/-- C19 (bookkeeping, size loop): from a consistent set, `delete_oldest_while_over_max_len` never panics
    and leaves exactly `trimTo` of the files with a consistent total. -/
theorem deleteWhileOver_eq (mx fuel : Nat) (s : FileSet) (del : List Nat) (hw : s.WF)
    (hfuel : s.files.length ≤ fuel) :
    deleteWhileOver false mx fuel s del =
      some ({ files := trimTo mx s.files, len := total (trimTo mx s.files) }, del ++ trimDropped mx s.files) := by
  induction fuel generalizing s del with
  | zero =>
    obtain ⟨files, len⟩ := s
    have : files = [] := List.eq_nil_of_length_eq_zero (Nat.le_zero.mp hfuel)
    subst this
    have := hw.len_eq; simp at this; subst this
    simp [deleteWhileOver, trimTo, trimDropped]
  | succ fuel ih =>
    obtain ⟨files, len⟩ := s
    have hlen := hw.len_eq; simp only at hlen
    cases files with
    | nil =>
      simp at hlen; subst hlen
      simp [deleteWhileOver, trimTo, trimDropped]
    | cons f fs =>
      subst hlen
      unfold deleteWhileOver
      by_cases hover : total (f :: fs) > mx
      · rw [if_pos hover, deleteOldest_cons _ f fs hw rfl]
        simp only
        rw [ih _ _ (wf_tail rfl hw.sorted) (by simp at hfuel ⊢; omega)]
        simp only [trimTo, trimDropped, if_pos hover, List.append_assoc, List.singleton_append]
      · rw [if_neg hover]
        simp only [trimTo, trimDropped, if_neg hover, List.append_nil]

/-- C19 (bookkeeping, age loop): `delete_older_than` never panics and leaves the files from the first
    one that is not older than `mn`. -/
theorem deleteOlderThan_eq (mn fuel : Nat) (s : FileSet) (del : List Nat) (hw : s.WF)
    (hfuel : s.files.length ≤ fuel) :
    deleteOlderThan false mn fuel s del =
      some ({ files := s.files.dropWhile (·.mtime < mn), len := total (s.files.dropWhile (·.mtime < mn)) },
            del ++ (s.files.takeWhile (·.mtime < mn)).map (·.id)) := by
  induction fuel generalizing s del with
  | zero =>
    obtain ⟨files, len⟩ := s
    have : files = [] := List.eq_nil_of_length_eq_zero (Nat.le_zero.mp hfuel)
    subst this
    have := hw.len_eq; simp at this; subst this
    simp [deleteOlderThan]
  | succ fuel ih =>
    obtain ⟨files, len⟩ := s
    have hlen := hw.len_eq; simp only at hlen
    cases files with
    | nil => simp at hlen; subst hlen; simp [deleteOlderThan, oldest?]
    | cons f fs =>
      subst hlen
      unfold deleteOlderThan
      simp only [oldest_sorted f fs hw.sorted]
      by_cases hold : f.mtime < mn
      · rw [if_pos hold, deleteOldest_cons _ f fs hw rfl]
        simp only
        rw [ih _ _ (wf_tail rfl hw.sorted) (by simp at hfuel ⊢; omega)]
        simp [List.dropWhile, List.takeWhile, hold]
      · rw [if_neg hold]
        simp [List.dropWhile, List.takeWhile, hold]

theorem dropWhile_sorted_ge (mn : Nat) (fs : List PFile) (h : Sorted fs) :
    ∀ g ∈ fs.dropWhile (·.mtime < mn), mn ≤ g.mtime := by
  induction fs with
  | nil => simp
  | cons f fs ih =>
    by_cases hold : f.mtime < mn
    · simpa [List.dropWhile, hold] using ih (List.pairwise_cons.mp h).2
    · intro g hg
      simp only [List.dropWhile, hold, decide_false] at hg
      rcases List.mem_cons.mp hg with rfl | hg
      · omega
      · have := (List.pairwise_cons.mp h).1 g hg; omega

theorem mem_takeWhile_true {α : Type} {p : α → Bool} {l : List α} {a : α} (h : a ∈ l.takeWhile p) : p a = true := by
  induction l with
  | nil => simp at h
  | cons x xs ih =>
    by_cases hx : p x = true
    · simp only [List.takeWhile, hx] at h
      rcases List.mem_cons.mp h with rfl | h
      · exact hx
      · exact ih h
    · simp [List.takeWhile, hx] at h

theorem push_wf (s : FileSet) (f : PFile) (hw : s.WF) (hnew : ∀ g ∈ s.files, g.mtime ≤ f.mtime) :
    (push false s f).WF := by
  refine ⟨by simp [push, hw.len_eq], ?_⟩
  simp only [push, Sorted, List.pairwise_append]
  exact ⟨hw.sorted, by simp, fun a ha b hb => by simp at hb; subst hb; exact hnew a ha⟩

/-! ### Set level: every op sequence keeps the books and never panics -/

inductive SetOp where
  | push (f : PFile)
  | age (now dur : Nat)
  | over (mx : Nat)

def SetOp.ok (s : FileSet) : SetOp → Prop
  | .push f => ∀ g ∈ s.files, g.mtime ≤ f.mtime     -- a file closed now is not older than the earlier ones
  | _ => True

def setStep (s : FileSet) : SetOp → Option FileSet
  | .push f => some (push false s f)
  | .age now dur => (deleteOlderThan false (now - dur) s.files.length s []).map (·.1)
  | .over mx => (deleteWhileOver false mx s.files.length s []).map (·.1)

/-- C19 (set level, one step): from consistent books every operation of the writer succeeds (no panic, no
    underflow) and leaves consistent books. -/
theorem C19_set_step (s : FileSet) (op : SetOp) (hw : s.WF) (hok : op.ok s) :
    ∃ s', setStep s op = some s' ∧ s'.WF := by
  cases op with
  | push f => exact ⟨_, rfl, push_wf s f hw hok⟩
  | age now dur =>
    refine ⟨⟨s.files.dropWhile (·.mtime < now - dur), total (s.files.dropWhile (·.mtime < now - dur))⟩, ?_, rfl, ?_⟩
    · simp [setStep, deleteOlderThan_eq _ _ s [] hw (Nat.le_refl _)]
    · exact List.Pairwise.sublist (List.dropWhile_sublist _) hw.sorted
  | over mx =>
    refine ⟨⟨trimTo mx s.files, total (trimTo mx s.files)⟩, ?_, rfl, trimTo_sorted _ _ hw.sorted⟩
    simp [setStep, deleteWhileOver_eq _ _ s [] hw (Nat.le_refl _)]

/-- C19 (set level, size): after `delete_oldest_while_over_max_len(mx)` the total is within `mx`, what is left
    is a suffix (oldest deleted first), and no file that could have stayed was deleted. -/
theorem C19_set_over (s : FileSet) (mx : Nat) (hw : s.WF) :
    ∃ s', setStep s (.over mx) = some s' ∧ s'.len ≤ mx ∧ s'.files <:+ s.files ∧
      ∀ l, l <:+ s.files → total l ≤ mx → l <:+ s'.files := by
  refine ⟨⟨trimTo mx s.files, total (trimTo mx s.files)⟩, ?_, trimTo_le _ _,
    trimTo_suffix _ _, fun l hl hfit => trimTo_maximal mx _ l hl hfit⟩
  simp [setStep, deleteWhileOver_eq _ _ s [] hw (Nat.le_refl _)]

/-- C19 (set level, age): after `delete_older_than(now, dur)` no file is older than `now - dur`, what is left is
    a suffix, and every deleted file was older. -/
theorem C19_set_age (s : FileSet) (now dur : Nat) (hw : s.WF) :
    ∃ s', setStep s (.age now dur) = some s' ∧ (∀ g ∈ s'.files, now - dur ≤ g.mtime) ∧ s'.files <:+ s.files ∧
      ∀ g ∈ s.files.takeWhile (·.mtime < now - dur), g.mtime < now - dur := by
  refine ⟨⟨s.files.dropWhile (·.mtime < now - dur), total (s.files.dropWhile (·.mtime < now - dur))⟩, ?_,
    dropWhile_sorted_ge _ _ hw.sorted, List.dropWhile_suffix _, ?_⟩
  · simp [setStep, deleteOlderThan_eq _ _ s [] hw (Nat.le_refl _)]
  · intro g hg; simpa using mem_takeWhile_true hg

/-! ### Writer level -/

/-- Invariant of the writer loop.  `old` = ids of the files found at start-up (oldest first), `t` = a time not
    earlier than any mtime in the set. -/
structure Inv (cfg : Cfg) (old : List Nat) (t : Nat) (w : Writer) : Prop where
  wf : w.set.WF
  clock : ∀ g ∈ w.set.files, g.mtime ≤ t
  /-- no loss, no duplicate, no reordering: the lines of this run's files, in creation order, are exactly the
      accepted events in acceptance order -/
  lines : (w.closed.map (·.2)).flatten ++ w.curLines = List.range w.nextEvent
  /-- what is on disk is a most-recent suffix of everything that ever existed -/
  suffix : w.set.files.map (·.id) ++ [w.curId] <:+ old ++ w.closed.map (·.1) ++ [w.curId]
  /-- the current file holds at most `max_write_bytes`, or a single event -/
  cur : w.curLen ≤ cfg.maxWrite ∨ w.curLines.length ≤ 1

theorem rotate_inv (cfg : Cfg) (old : List Nat) (t now : Nat) (w : Writer) (h : Inv cfg old t w) (ht : t ≤ now) :
    Inv cfg old now (rotate false w now) := by
  refine ⟨push_wf _ _ h.wf (fun g hg => Nat.le_trans (h.clock g hg) ht), ?_, ?_, ?_, Or.inl (by simp [rotate])⟩
  · intro g hg
    simp only [rotate, push, List.mem_append, List.mem_singleton] at hg
    rcases hg with hg | rfl
    · exact Nat.le_trans (h.clock g hg) ht
    · exact Nat.le_refl _
  · simpa [rotate] using h.lines
  · have := h.suffix
    simp only [rotate, push, List.map_append, List.map_cons, List.map_nil]
    obtain ⟨pre, hpre⟩ := this
    exact ⟨pre, by simpa [List.append_assoc] using congrArg (· ++ [w.nextId]) hpre⟩

/-- The part of `step` after the rotation decision. -/
theorem write_inv (cfg : Cfg) (old : List Nat) (t : Nat) (w1 : Writer) (size : Nat) (s3 : FileSet)
    (h : Inv cfg old t w1) (hs3 : s3.WF) (hsuf : s3.files <:+ w1.set.files)
    (hcur : w1.curLen + size ≤ cfg.maxWrite ∨ w1.curLines = []) (del : List Nat) :
    Inv cfg old t { w1 with set := s3, curLen := w1.curLen + size, curLines := w1.curLines ++ [w1.nextEvent],
                            deleted := del, nextEvent := w1.nextEvent + 1 } := by
  refine ⟨hs3, fun g hg => h.clock g (hsuf.subset hg), ?_, ?_, ?_⟩
  · simp only [← List.append_assoc, h.lines, List.range_succ]
  · obtain ⟨pre, hpre⟩ := hsuf
    obtain ⟨pre2, hpre2⟩ := h.suffix
    refine ⟨pre2 ++ pre.map (·.id), ?_⟩
    simp only
    rw [← hpre2, ← hpre]; simp
  · rcases hcur with hc | hc
    · exact Or.inl hc
    · exact Or.inr (by simp [hc])

theorem maybeRotate_inv (cfg : Cfg) (old : List Nat) (t now size : Nat) (w : Writer) (h : Inv cfg old t w) (ht : t ≤ now) :
    Inv cfg old now (maybeRotate false cfg w size now) ∧
    ((maybeRotate false cfg w size now).curLen + size ≤ cfg.maxWrite ∨ (maybeRotate false cfg w size now).curLines = []) ∧
    (maybeRotate false cfg w size now).nextEvent = w.nextEvent := by
  unfold maybeRotate
  split
  · exact ⟨rotate_inv cfg old t now w h ht, Or.inr (by simp [rotate]), by simp [rotate]⟩
  · rename_i hno
    simp only [Bool.or_eq_true, decide_eq_true_eq, not_or, Nat.not_lt] at hno
    exact ⟨⟨h.wf, fun g hg => Nat.le_trans (h.clock g hg) ht, h.lines, h.suffix, h.cur⟩, Or.inl hno.1, rfl⟩

/-- The state after age deletion in `writeEvent`. -/
def agedSet (cfg : Cfg) (w1 : Writer) (now : Nat) : FileSet :=
  match cfg.keepAge with
  | some d => ⟨w1.set.files.dropWhile (·.mtime < now - d), total (w1.set.files.dropWhile (·.mtime < now - d))⟩
  | none => w1.set

theorem agedSet_spec (cfg : Cfg) (w1 : Writer) (now : Nat) (hw : w1.set.WF) :
    (∃ del2, ageDelete false cfg w1.set now = some (agedSet cfg w1 now, del2)) ∧
    (agedSet cfg w1 now).WF ∧ (agedSet cfg w1 now).files <:+ w1.set.files ∧
    (∀ d, cfg.keepAge = some d → ∀ g ∈ (agedSet cfg w1 now).files, now - d ≤ g.mtime) := by
  unfold agedSet ageDelete
  cases hk : cfg.keepAge with
  | none => exact ⟨⟨_, rfl⟩, hw, List.suffix_refl _, by simp⟩
  | some d =>
    refine ⟨⟨_, deleteOlderThan_eq _ _ _ [] hw (Nat.le_refl _)⟩, ⟨rfl, ?_⟩, List.dropWhile_suffix _, ?_⟩
    · exact List.Pairwise.sublist (List.dropWhile_sublist _) hw.sorted
    · intro d' hd'; cases hd'
      exact dropWhile_sorted_ge _ _ hw.sorted

theorem writeEvent_spec (cfg : Cfg) (old : List Nat) (now size : Nat) (w1 : Writer)
    (h1 : Inv cfg old now w1) (hcur1 : w1.curLen + size ≤ cfg.maxWrite ∨ w1.curLines = []) :
    ∃ w', writeEvent false cfg w1 size now = some w' ∧ Inv cfg old now w' ∧
      w'.set.len + w'.curLen ≤ max cfg.maxKeep w'.curLen ∧
      (∀ d, cfg.keepAge = some d → ∀ g ∈ w'.set.files, now - d ≤ g.mtime) ∧
      w'.curLines = w1.curLines ++ [w1.nextEvent] ∧ w'.nextEvent = w1.nextEvent + 1 ∧ w'.curLen = w1.curLen + size := by
  obtain ⟨⟨del2, haged⟩, hs2wf, hs2suf, hs2age⟩ := agedSet_spec cfg w1 now h1.wf
  have hover := deleteWhileOver_eq (cfg.maxKeep - w1.curLen - size) (agedSet cfg w1 now).files.length _ [] hs2wf (Nat.le_refl _)
  have hsuf3 : trimTo (cfg.maxKeep - w1.curLen - size) (agedSet cfg w1 now).files <:+ w1.set.files :=
    (trimTo_suffix _ _).trans hs2suf
  refine ⟨{ w1 with set := ⟨trimTo (cfg.maxKeep - w1.curLen - size) (agedSet cfg w1 now).files, total (trimTo (cfg.maxKeep - w1.curLen - size) (agedSet cfg w1 now).files)⟩,
                    curLen := w1.curLen + size, curLines := w1.curLines ++ [w1.nextEvent],
                    deleted := w1.deleted ++ del2 ++ ([] ++ trimDropped (cfg.maxKeep - w1.curLen - size) (agedSet cfg w1 now).files),
                    nextEvent := w1.nextEvent + 1 }, ?_, ?_, ?_, ?_, rfl, rfl, rfl⟩
  · unfold writeEvent
    simp only [haged, Bool.false_and, Bool.false_eq_true, if_false, hover]
  · exact write_inv cfg old now w1 size _ h1 ⟨rfl, trimTo_sorted _ _ hs2wf.sorted⟩ hsuf3 hcur1 _
  · have := trimTo_le (cfg.maxKeep - w1.curLen - size) (agedSet cfg w1 now).files
    simp only
    omega
  · intro d hd g hg
    exact hs2age d hd g ((trimTo_suffix _ _).subset hg)

/-- C19 (writer, one event): from a state satisfying the invariant, with a clock that does not go backwards,
    the loop body does not panic and re-establishes the invariant. -/
theorem C19_step (cfg : Cfg) (old : List Nat) (t now size : Nat) (w : Writer)
    (h : Inv cfg old t w) (ht : t ≤ now) :
    ∃ w', step false cfg w size now = some w' ∧ Inv cfg old now w' ∧
      -- disk use: within the keep-size, unless the closed files are all gone/empty and the current file alone is over
      w'.set.len + w'.curLen ≤ max cfg.maxKeep w'.curLen ∧
      -- retention by age
      (∀ d, cfg.keepAge = some d → ∀ g ∈ w'.set.files, now - d ≤ g.mtime) ∧
      -- this event is the last line of the current file
      w'.curLines.getLast? = some w.nextEvent ∧ w'.nextEvent = w.nextEvent + 1 := by
  obtain ⟨h1, hcur1, hne1⟩ := maybeRotate_inv cfg old t now size w h ht
  obtain ⟨w', hw, hinv, hb, hage, hl, hn, -⟩ := writeEvent_spec cfg old now size _ h1 hcur1
  exact ⟨w', hw, hinv, hb, hage, by simp [hl, hne1], by simp [hn, hne1]⟩

/-- Times of a history never go backwards, starting from `t`. -/
def Monotone : Nat → List (Nat × Nat) → Prop
  | _, [] => True
  | t, (_, now) :: rest => t ≤ now ∧ Monotone now rest

/-- C19 (writer, every history): for every event history with a clock that does not go backwards the writer
    keeps running and the invariant — hence no loss / duplication / reordering of lines, and “what survives is a
    most-recent suffix” — holds after the last event. -/
theorem C19_run (cfg : Cfg) (old : List Nat) (evs : List (Nat × Nat)) (t : Nat) (w : Writer)
    (h : Inv cfg old t w) (hm : Monotone t evs) :
    ∃ w' t', runEvents false cfg w evs = some w' ∧ Inv cfg old t' w' ∧ w'.nextEvent = w.nextEvent + evs.length := by
  induction evs generalizing w t with
  | nil => exact ⟨w, t, rfl, h, rfl⟩
  | cons e rest ih =>
    obtain ⟨size, now⟩ := e
    obtain ⟨w1, hstep, hinv, -, -, -, hn⟩ := C19_step cfg old t now size w h hm.1
    obtain ⟨w', t', hrun, hinv', hn'⟩ := ih now w1 hinv hm.2
    exact ⟨w', t', by simp [runEvents, hstep, hrun], hinv', by simp [hn', hn]; omega⟩

/-- C19 (start-up): files of earlier runs are found and counted, trimmed oldest-first to the keep-size, and
    the invariant holds once the first file has its start-up line; disk use is within keep-size + that line. -/
theorem C19_start (cfg : Cfg) (existing : List PFile) (startLine now : Nat)
    (hs : Sorted existing) (hnow : ∀ g ∈ existing, g.mtime ≤ now) :
    ∃ w, start false cfg existing startLine now = some w ∧ Inv cfg (existing.map (·.id)) now w ∧
      w.set.len + w.curLen ≤ cfg.maxKeep + startLine ∧ w.set.files = trimTo cfg.maxKeep existing := by
  have hw : FileSet.WF { files := existing, len := (existing.map (·.len)).sum } := ⟨rfl, hs⟩
  have hover := deleteWhileOver_eq cfg.maxKeep existing.length _ [] hw (Nat.le_refl _)
  refine ⟨{ set := ⟨trimTo cfg.maxKeep existing, total (trimTo cfg.maxKeep existing)⟩,
            curId := (existing.map (·.id)).foldl max 0 + 1, curLen := startLine, curCreated := now, curLines := [0],
            nextId := (existing.map (·.id)).foldl max 0 + 1 + 1, closed := [],
            deleted := [] ++ trimDropped cfg.maxKeep existing, nextEvent := 1 }, ?_, ?_, ?_, rfl⟩
  · simp only [start, Bool.false_eq_true, if_false, hover]
  · refine ⟨⟨rfl, trimTo_sorted _ _ hs⟩, fun g hg => hnow g ((trimTo_suffix _ _).subset hg), by simp [List.range_succ], ?_,
      Or.inr (by simp)⟩
    obtain ⟨pre, hpre⟩ := trimTo_suffix cfg.maxKeep existing
    exact ⟨pre.map (·.id), by
      have := congrArg (List.map (·.id)) hpre
      simp only [List.map_append] at this
      simp only [List.map_nil, List.append_nil, ← this, List.append_assoc]⟩
  · have := trimTo_le cfg.maxKeep existing
    simp only; omega

/-- C19 (per-file size): a file is closed exactly when the next event would take it over `max_write_bytes` (or it is
    too old), so with `Inv.cur` every file holds at most `max_write_bytes` or one event; and with
    `max_write_bytes ≤ max_keep_bytes` disk use exceeds the keep-size by at most that one event. -/
theorem C19_disk_bound (cfg : Cfg) (old : List Nat) (t now size : Nat) (w w' : Writer)
    (h : Inv cfg old t w) (ht : t ≤ now) (hcfg : cfg.maxWrite ≤ cfg.maxKeep)
    (hstep : step false cfg w size now = some w') :
    w'.set.len + w'.curLen ≤ cfg.maxKeep + size ∧ (w'.curLen ≤ cfg.maxWrite ∨ w'.curLen = size) := by
  obtain ⟨h1, hcur1, -⟩ := maybeRotate_inv cfg old t now size w h ht
  obtain ⟨w'', hw, -, hb, -, -, -, hlen⟩ := writeEvent_spec cfg old now size _ h1 hcur1
  rw [step, hw] at hstep; cases hstep
  -- the current file stays within max_write, or it was empty and holds exactly this event
  have hc : w'.curLen ≤ cfg.maxWrite ∨ w'.curLen = size := by
    rcases hcur1 with hc | hc
    · exact Or.inl (by omega)
    · -- no line yet in the file: it was just created by a rotation (the start-up file always has its line)
      by_cases hrot : (decide (w.curLen + size > cfg.maxWrite) || decide (now - w.curCreated > cfg.maxWriteAge)) = true
      · right; simpa [maybeRotate, hrot, rotate] using hlen
      · simp only [maybeRotate, hrot] at hc hlen
        have hno := hrot
        simp only [Bool.or_eq_true, decide_eq_true_eq, not_or, Nat.not_lt] at hno
        exact Or.inl (by simp only [Bool.false_eq_true, if_false] at hlen; omega)
  refine ⟨?_, hc⟩
  by_cases hle : w'.curLen ≤ cfg.maxKeep
  · rw [Nat.max_eq_left hle] at hb; omega
  · rw [Nat.max_eq_right (by omega)] at hb
    omega

/-! ### Non-vacuity and the pinned tree's behaviour on the model -/

def cfgSmall : Cfg := { maxWrite := 100, maxKeep := 250, keepAge := some 60, maxWriteAge := 1000 }
def oldFiles : List PFile := [⟨0, 10, 120⟩, ⟨1, 20, 90⟩, ⟨2, 30, 80⟩]
def history : List (Nat × Nat) := [(40, 41), (40, 42), (40, 43), (90, 44), (30, 45), (60, 46), (60, 120)]

/-- The hypotheses of `C19_start` and `C19_run` are met by a concrete run that rotates, trims by size and by age. -/
example : Sorted oldFiles ∧ (∀ g ∈ oldFiles, g.mtime ≤ 40) ∧ Monotone 40 history := by
  refine ⟨by simp [Sorted, oldFiles], by simp [oldFiles], by simp [Monotone, history]⟩

/-- … and on that run the repaired model keeps the last closed file and the current one (150 bytes of a 250-byte
    budget); every line 0–7 was written exactly once, in order; files 0–5 were deleted oldest first. -/
example : ((start false cfgSmall oldFiles 20 40).bind (runEvents false cfgSmall · history)).map
    (fun w => (w.set.files.map (·.id), w.set.len, w.curLen, w.deleted)) =
    some (([6], 90, 60, [0, 1, 2, 3, 4, 5]) : List Nat × Nat × Nat × List Nat) := by
  decide +kernel
example : ((start false cfgSmall oldFiles 20 40).bind (runEvents false cfgSmall · history)).map (·.contents) =
    some [(3, [0, 1, 2]), (4, [3]), (5, [4]), (6, [5, 6]), (7, [7])] := by
  decide +kernel

def cfgNoAge : Cfg := { maxWrite := 100, maxKeep := 250, keepAge := none, maxWriteAge := 1000 }
def cfgTiny : Cfg := { maxWrite := 100, maxKeep := 50, keepAge := none, maxWriteAge := 1000 }

/-- Pinned tree, defect 1 (`push` does not count, start-up scan finds nothing): nothing is ever deleted by size
    — 610 bytes on disk with a keep-size of 250. -/
theorem C19_legacy_never_trims :
    ((start true cfgNoAge oldFiles 20 40).bind (runEvents true cfgNoAge · (history.take 6))).map
      (fun w => (w.set.len, w.deleted, total w.set.files + w.curLen + total oldFiles)) =
      some ((0, [], 610) : Nat × List Nat × Nat) := by
  decide +kernel

/-- Pinned tree, defect 2: deleting a rotated file by age subtracts its length from a total that never
    included it — the writer thread panics (`none`). -/
theorem C19_legacy_age_panics :
    ((start true cfgSmall [] 20 40).bind (runEvents true cfgSmall · history)).isNone = true := by
  decide +kernel

/-- Pinned tree, defect 3: `max_keep_bytes - file.len - event` underflows when the current file plus the
    event exceed the keep-size. -/
theorem C19_legacy_budget_underflow :
    ((start true cfgTiny [] 20 40).bind (runEvents true cfgTiny · [(40, 41)])).isNone = true := by
  decide +kernel

/-- … where the repaired code keeps running. -/
theorem C19_budget_saturates :
    ((start false cfgTiny [] 20 40).bind (runEvents false cfgTiny · [(40, 41)])).isSome = true := by
  decide +kernel

end LogFiles
end Servlin
