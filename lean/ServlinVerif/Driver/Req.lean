import ServlinVerif.Driver.Util
import ServlinVerif.Model.Request
import ServlinVerif.Spec.ReadSpec
import ServlinVerif.Spec.Framing
import ServlinVerif.Spec.Grammar7230
/- Driver for the request-reading suites (c01, c02, c03, c14r, c15r): shared parsing / printing. -/
namespace Servlin
namespace Drv.Req
open HeadModel RequestModel

def bytesLt : Bytes → Bytes → Bool
  | [], [] => false
  | [], _ :: _ => true
  | _ :: _, [] => false
  | a :: as, b :: bs => if a < b then true else if a > b then false else bytesLt as bs

def sortCookies (m : List (Bytes × Bytes)) : List (Bytes × Bytes) :=
  m.mergeSort (fun a b => !bytesLt b.1 a.1)

def showCType : CType → String
  | .none => "N"
  | .known n => "K:" ++ n
  | .other s => "O:" ++ hexEncode s

def showBody : BodyKind → String
  | .empty => "E"
  | .pendingKnown n => s!"K:{n}"
  | .pendingUnknown => "U"

def b01 (b : Bool) : String := if b then "1" else "0"

def showMeta (m : ReqMeta) : String :=
  let hs := ",".intercalate (m.headers.map fun h => hexEncode h.name ++ ":" ++ hexEncode h.value)
  let ck := ",".intercalate ((sortCookies m.cookies).map fun p => hexEncode p.1 ++ "=" ++ hexEncode p.2)
  let q := match m.url.query with | none => "-" | some q => "S" ++ hexEncode q
  let cl := match m.contentLength with | none => "-" | some n => toString n
  s!"ok m={hexEncode m.method} p={hexEncode m.url.path} q={q} h={hs} ck={ck} ct={showCType m.contentType} ex={b01 m.expectContinue} ch={b01 m.chunked} gz={b01 m.gzip} cl={cl} body={showBody m.body}"

def showOut : ReqOut → String
  | .ok m => showMeta m
  | .err e => "err:" ++ e.name
  | .panic => "PANIC"

/-- `U:<path>:<query|->` | `E` | `-` -/
def parseUrlInfo (s : String) : Option (Option Url) :=
  if s == "E" || s == "-" then some none else
  match s.splitOn ":" with
  | ["U", p, q] => do
    let p ← hexDecode p
    let q ← if q == "-" then some none else (hexDecode (q.drop 1).toString).map some
    pure (some ⟨p, q⟩)
  | _ => none

/-- The harness' candidate target: second SP-separated token of the first line (CR trimmed). -/
def candidateTarget (all : Bytes) (cap : Nat) : Bytes :=
  let vis := all.take cap
  let line := vis.takeWhile (· ≠ 10)
  match splitOn 32 line with
  | _ :: t :: _ => if t.getLast? = some 13 then t.dropLast else t
  | _ => []

def sentinel : Url := ⟨str "<urlParse called on an unexpected token>", none⟩

structure Case where
  cap : Nat
  all : Bytes
  endErr : Bool
  urlParse : Bytes → Option Url

def parseCase (args : List String) : Option Case :=
  match args with
  | [cap, buf0, stream, e, _sizes, _pend, info] => do
    let cap ← cap.toNat?
    let b0 ← decBytes buf0
    let st ← decBytes stream
    let u ← parseUrlInfo info
    let all := b0 ++ st
    let cand := candidateTarget all cap
    pure { cap, all, endErr := e == "err", urlParse := fun t => if t == cand then u else some sentinel }
  | _ => none

/-- Model outcome in the harness' format. -/
def modelOutcome (c : Case) : String :=
  let r := readRequestD false false c.urlParse c.cap c.all
  showOut r.1 ++ " left=" ++ encBytes r.2

/-- Splits an observation into (outcome word, error name or "ok"/"PANIC", left bytes). -/
def parseObs (obs : String) : Option (String × Bytes) :=
  if obs == "PANIC" then some ("PANIC", []) else
  match obs.splitOn " left=" with
  | [o, l] => do
    let left ← decBytes l
    let outcome := if o.startsWith "ok " then "ok" else (o.drop 4).toString
    pure (outcome, left)
  | _ => none

def verdictOf (fails : List String) : String :=
  if fails.isEmpty then "ok" else "FAIL:" ++ ",".intercalate fails ++ ":"

/-- c01: totality + consumption + end-of-stream classification (ReadSpec). -/
def handleC01 (args : List String) (obs : String) : String :=
  match parseCase args with
  | none => "bad-case\tFAIL:bad-case"
  | some c =>
    let model := modelOutcome c
    let verdict := match parseObs obs with
      | none => "FAIL:unparsable:"
      | some (outcome, left) => verdictOf (ReadSpec.check c.cap c.all outcome left)
    model ++ "\t" ++ verdict

/-- Iterates the denotational reader over what is left, as a connection does for bodiless requests. -/
def seqOutcomes (cap : Nat) (u : Bytes → Option Url) : Nat → Bytes → List String → List String × Bytes
  | 0, all, acc => (acc.reverse, all)
  | fuel + 1, all, acc =>
    let r := readRequestD false false u cap all
    match r.1 with
    | .ok m => seqOutcomes cap u fuel r.2 (showMeta m :: acc)
    | other => ((showOut other :: acc).reverse, r.2)

/-- c01s `<cap> <stream> <end> <sizes> <pending>`: a pipeline of bodiless requests through one buffer.
    Targets are `/<digits>`; the URL parser is the identity on them. -/
def handleSeq (args : List String) (obs : String) : String :=
  match args with
  | [cap, stream, _e, _sizes, _pend] =>
    match cap.toNat?, decBytes stream with
    | some cap, some st =>
      let u : Bytes → Option Url := fun t => some ⟨t, none⟩
      let (outs, left) := seqOutcomes cap u 66 st []
      let model := "|".intercalate outs ++ " left=" ++ encBytes left
      -- oracle: the implementation must agree with the schedule-free reading of the same bytes
      -- (outcome independent of fragmentation; nothing consumed past each blank line)
      model ++ "\t" ++ (if model == obs then "ok" else "FAIL:sequence-depends-on-fragmentation:")
    | _, _ => "bad-case\tFAIL:bad-case"
  | _ => "bad-case\tFAIL:bad-case"

/-- `key=value` lookup in an `ok ...` observation. -/
def obsField (obs : String) (key : String) : Option String :=
  (obs.splitOn " ").findSome? fun kv =>
    if kv.startsWith (key ++ "=") then some (kv.drop (key.length + 1)).toString else none

/-- c03: the framing verdict computed from the field list vs what the implementation did. -/
def handleC03 (args : List String) (obs : String) : String :=
  match parseCase args with
  | none => "bad-case\tFAIL:bad-case"
  | some c =>
    let model := modelOutcome c
    let headEnd := (ReadSpec.firstBlankLine c.all).getD c.all.length
    let (method, fields) := Framing.fieldsOfHead (c.all.take headEnd)
    let cookieBad := (Framing.valuesOf fields "cookie").any fun v =>
      (((splitOn 59 v).map trimWs).filter (· ≠ [])).any (fun seg => !seg.contains 61)
    -- a field value with a byte ≥ 0x80 makes the head itself malformed (field values are ASCII, C02): it must be refused as
    -- such — never accepted with that field dropped
    let obsText := fields.any fun f => f.2.any (· ≥ 128)
    let fails : List String :=
      if obsText then
        (if obs.startsWith "err:MalformedHeaderLine " then [] else if obs.startsWith "ok " then ["malformed-head-accepted"] else ["wrong-rejection"])
      else
      match Framing.verdict method fields with
      | .reject =>
        if obs.startsWith "err:InvalidContentLength " || obs.startsWith "err:UnsupportedTransferEncoding " then []
        else if obs.startsWith "ok " then ["ambiguous-framing-accepted"] else ["wrong-rejection"]
      | .accept gz ch l body =>
        if cookieBad then [] else
        if !obs.startsWith "ok " then ["valid-framing-rejected"] else
        let bodyS := match body with | .none => "E" | .sized n => s!"K:{n}" | .untilClose => "U"
        let lenS := match l with | none => "-" | some n => toString n
        (if obsField obs "gz" == some (b01 gz) && obsField obs "ch" == some (b01 ch) then [] else ["wrong-coding-flags"]) ++
        (if obsField obs "cl" == some lenS then [] else ["wrong-length"]) ++
        (if obsField obs "body" == some bodyS then [] else ["wrong-body-kind"])
    model ++ "\t" ++ verdictOf fails

def parseObsHeaders (s : String) : Option (List (Bytes × Bytes)) :=
  (splitNonEmpty s ",").mapM fun h =>
    match h.splitOn ":" with
    | [n, v] => do pure (← hexDecode n, ← hexDecode v)
    | _ => none

/-- c02: the independent reference classifier (Spec/Grammar7230) vs the implementation. -/
def handleC02 (args : List String) (obs : String) : String :=
  match parseCase args, args with
  | some c, [_, _, _, _, _, _, info] =>
    let model := modelOutcome c
    let fails : List String :=
      match ReadSpec.firstBlankLine (c.all.take c.cap) with
      | none => ["free"]
      | some i =>
        let head := c.all.take i
        let cand := candidateTarget c.all c.cap
        let targetOk := fun (t : Bytes) => t == cand && info.startsWith "U:" && t.head? == some 47
        match Grammar.classify head targetOk with
        | .free => ["free"]
        | .reject e =>
          if obs.startsWith ("err:" ++ e ++ " ") then []
          else if obs.startsWith "ok " then ["malformed-head-accepted"] else ["wrong-error-class"]
        | .accept m t fs =>
          let lower := fun (n : Bytes) => n.map toLower
          let consumed := [b!"content-type", b!"expect", b!"transfer-encoding"]
          let special := consumed ++ [b!"content-length", b!"cookie"]
          let hasSpecial := fs.any fun f => special.contains (lower f.1)
          if obs.startsWith "err:" then (if hasSpecial then [] else ["wellformed-head-rejected"]) else
          let expFields := fs.filter fun f => !consumed.contains (lower f.1)
          (if obsField obs "m" == some (hexEncode m) then [] else ["wrong-method"]) ++
          (match (obsField obs "h").bind parseObsHeaders with
           | some hs => if hs == expFields then [] else ["wrong-fields"]
           | none => ["unparsable-fields"]) ++
          (match Grammar.classA t with
           | none => []
           | some (path, q) =>
             (if obsField obs "p" == some (hexEncode path) then [] else ["wrong-path"]) ++
             (if obsField obs "q" == some (match q with | none => "-" | some q => "S" ++ hexEncode q) then [] else ["wrong-query"]))
    model ++ "\t" ++ (if fails == ["free"] then "free" else verdictOf fails)
  | _, _ => "bad-case\tFAIL:bad-case"

end Drv.Req
end Servlin
